import KoordVerif.Common.Proto
