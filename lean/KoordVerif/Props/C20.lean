import KoordVerif.Model.C20
import KoordVerif.Proofs.C20ExtHist
import KoordVerif.Proofs.C20ExtHistQ
import KoordVerif.Proofs.C20ExtRace
import KoordVerif.Proofs.C20ExtWire
/-
C20 — property theorems (DESIGN.md §4 C20) over the executable model `Model/C20.lean`.

Reading of the statement.  A strategy is its flattened JSON form; "field" = a path.  A layer *sets*
a field iff its JSON form carries the path (`get u p ≠ none`), except for the single non-pointer scalar
`totalNetworkBandwidth` of the system strategy, which json.Marshal always prints: there a value of
exactly 0 counts as "not set" (`setBy`).  JSON arrays are merged by encoding/json element by element
and truncated to the more specific layer's length: the array length is itself a field, and `cut u p`
says that `p` lies in an element the more specific layer's array no longer has.
-/
namespace KoordVerif.C20

/-! ### helper lemmas about `get`, `overlay`, `setLeaf`, `emitTnb` -/

theorem get_append (a b : Flat) (p : Path) : get (a ++ b) p = (get a p).or (get b p) := by
  simp [get, List.find?_append, Option.map_or]

theorem has_eq (t : Flat) (p : Path) : has t p = (get t p).isSome := by
  induction t with
  | nil => simp [has, get]
  | cons e t ih =>
    simp only [has, get, List.any_cons, List.find?_cons] at *
    by_cases h : (e.1 == p) = true
    · simp [h]
    · simp only [Bool.not_eq_true] at h
      simp [h, ih]

theorem get_filter (o : Flat) (q : Path → Bool) (p : Path) :
    get (o.filter (fun e => q e.1)) p = if q p then get o p else none := by
  induction o with
  | nil => simp [get]
  | cons e o ih =>
    by_cases hq : q e.1 = true
    · rw [List.filter_cons_of_pos (by simpa using hq)]
      by_cases he : (e.1 == p) = true
      · have : e.1 = p := by simpa using he
        subst this
        simp [get, hq]
      · have hne : (e.1 == p) = false := by simpa using he
        have h1 : get (e :: List.filter (fun e => q e.1) o) p = get (List.filter (fun e => q e.1) o) p := by
          simp [get, hne]
        have h2 : get (e :: o) p = get o p := by simp [get, hne]
        rw [h1, h2, ih]
    · rw [List.filter_cons_of_neg (by simpa using hq)]
      rw [ih]
      by_cases he : (e.1 == p) = true
      · have : e.1 = p := by simpa using he
        subst this
        simp [hq]
      · have hne : (e.1 == p) = false := by simpa using he
        have h2 : get (e :: o) p = get o p := by simp [get, hne]
        rw [h2]

/-- MergeCfg, field by field: the value `new` emits, else `old`'s unless hidden by a shorter array of `new`. -/
theorem get_overlay (o n : Flat) (p : Path) :
    get (overlay o n) p = (get n p).or (if cut n p then none else get o p) := by
  unfold overlay
  rw [get_append, get_filter o (fun q => !(has n q) && !(cut n q)) p, has_eq]
  cases h : get n p with
  | some v => simp
  | none => cases hc : cut n p <;> simp

theorem get_setLeaf (t : Flat) (q : Path) (v : Option Int) (p : Path) :
    get (setLeaf t q v) p = if p = q then v else get t p := by
  unfold setLeaf
  rw [get_append, get_filter t (fun x => !(x == q)) p]
  by_cases h : p = q
  · subst h
    cases v <;> simp [get]
  · have hb : (p == q) = false := by simpa using h
    have hq : (q == p) = false := by simpa using (fun e : q = p => h e.symm)
    cases v <;> simp [get, h, hb, hq]

theorem get_emitTnb (s : Flat) (p : Path) :
    get (emitTnb s) p = if p = tnbPath then some ((get s tnbPath).getD 0) else get s p := by
  unfold emitTnb
  by_cases hh : has s tnbPath = true
  · rw [if_pos hh]
    rw [has_eq] at hh
    by_cases h : p = tnbPath
    · subst h
      cases hg : get s tnbPath with
      | none => simp [hg] at hh
      | some v => simp
    · simp [h]
  · rw [if_neg hh]
    rw [has_eq] at hh
    have hn : get s tnbPath = none := by
      cases hg : get s tnbPath with
      | none => rfl
      | some v => simp [hg] at hh
    rw [get_append]
    by_cases h : p = tnbPath
    · subst h
      simp [get]
    · have hb : (tnbPath == p) = false := by simpa using (fun e : tnbPath = p => h e.symm)
      cases hg : get s p <;> simp [get, h, hb]

theorem cutBy_tnb (len : Int) (p : Path) : cutBy tnbPath len p = false := by
  unfold tnbPath
  cases p with
  | nil => simp [cutBy]
  | cons b p => cases p <;> simp [cutBy]

theorem cut_emitTnb (s : Flat) (p : Path) : cut (emitTnb s) p = cut s p := by
  unfold emitTnb
  by_cases hh : has s tnbPath = true
  · simp [hh]
  · simp [hh, cut, List.any_append, cutBy_tnb]

/-! ### the statement's vocabulary -/

/-- the value a layer SETS at a field: what its JSON form carries; for totalNetworkBandwidth of the
    system strategy (non-pointer, always printed) the value 0 is "not set". -/
def setBy (sys : Bool) (u : Flat) (p : Path) : Option Int :=
  if sys && p == tnbPath && get u p == some 0 then none else get u p

/-- one layer `u` (if present) on top of the less specific value `lower`. -/
def lay (sys : Bool) (u : Option Flat) (lower : Path → Option Int) (p : Path) : Option Int :=
  match u with
  | none => lower p
  | some u => (setBy sys u p).or (if cut u p then none else lower p)

/-- side conditions of the system section: the built-in default bandwidth is 0 and a strategy's root is
    a JSON object (so the root key `totalNetworkBandwidth` is never inside a truncated array). -/
def RootObj (sys : Bool) (u : Option Flat) : Prop := sys = true → ∀ x, u = some x → cut x tnbPath = false

theorem get_mergeCluster (sys : Bool) (dflt : Flat) (c : Option Flat) (p : Path)
    (hd : sys = true → get dflt tnbPath = some 0) (hc : RootObj sys c) :
    get (mergeCluster sys dflt c) p = lay sys c (get dflt) p := by
  cases c with
  | none => simp [mergeCluster, lay]
  | some c =>
    simp only [mergeCluster, lay, get_overlay]
    cases sys with
    | false => simp [emit, setBy]
    | true =>
      have hd := hd rfl
      have hc := hc rfl c rfl
      simp only [emit, if_true, get_emitTnb, cut_emitTnb, setBy, Bool.true_and]
      by_cases h : p = tnbPath
      · subst h
        cases hg : get c tnbPath with
        | none => simp [hc, hd]
        | some v =>
          by_cases hv : v = 0
          · subst hv; simp [hc, hd]
          · simp [hv]
      · have hb : (p == tnbPath) = false := by simpa using h
        simp [h, hb]

theorem get_mergeNode (sys : Bool) (cl : Flat) (s : Option Flat) (p : Path) (hs : RootObj sys s) :
    get (mergeNode sys cl s) p = lay sys s (get cl) p := by
  cases s with
  | none => simp [mergeNode, lay]
  | some s =>
    cases sys with
    | false => simp [mergeNode, lay, emit, setBy, get_overlay]
    | true =>
      have hs := hs rfl s rfl
      simp only [mergeNode, lay, emit, if_true, Bool.true_and, setBy, get_emitTnb]
      by_cases h0 : (get s tnbPath).getD 0 = 0
      · have hcond : (some ((get s tnbPath).getD 0) == some (0 : Int)) = true := by simp [h0]
        simp only [if_true, hcond]
        rw [get_setLeaf, get_overlay, cut_emitTnb, get_emitTnb]
        by_cases h : p = tnbPath
        · subst h
          cases hg : get s tnbPath with
          | none => simp [hs]
          | some v =>
            have : v = 0 := by simpa [hg] using h0
            subst this
            simp [hs]
        · have hb : (p == tnbPath) = false := by simpa using h
          simp [h, hb]
      · have hcond : (some ((get s tnbPath).getD 0) == some (0 : Int)) = false := by simp [h0]
        simp only [hcond, Bool.false_eq_true, if_false]
        rw [get_overlay, cut_emitTnb, get_emitTnb]
        by_cases h : p = tnbPath
        · subst h
          cases hg : get s tnbPath with
          | none => simp [hg] at h0
          | some v =>
            have hv : v ≠ 0 := by simpa [hg] using h0
            simp [hv]
        · have hb : (p == tnbPath) = false := by simpa using h
          simp [h, hb]

/-- selection after a parsed section: the first entry whose selector matches, else the cluster strategy. -/
theorem select_ok (sys : Bool) (dflt : Flat) (old : SecCfg) (c : Option Flat) (ns : List NodeEntry) (ls : Labels) :
    selectNode ls (mergeSection sys dflt old (.ok c ns)) =
      match ns.find? (fun e => e.sel.matches ls) with
      | some e => mergeNode sys (mergeCluster sys dflt c) e.strat
      | none => mergeCluster sys dflt c := by
  simp only [selectNode, mergeSection, List.find?_map]
  have : ((fun e : Sel × Flat => e.1.matches ls) ∘ fun e : NodeEntry => (e.sel, mergeNode sys (mergeCluster sys dflt c) e.strat))
      = fun e : NodeEntry => e.sel.matches ls := by funext e; rfl
  rw [this]
  cases ns.find? (fun e => e.sel.matches ls) <;> rfl

theorem find_first (pre post : List NodeEntry) (e : NodeEntry) (ls : Labels)
    (hpre : ∀ x ∈ pre, x.sel.matches ls = false) (he : e.sel.matches ls = true) :
    (pre ++ e :: post).find? (fun x => x.sel.matches ls) = some e := by
  induction pre with
  | nil => simp [he]
  | cons x pre ih =>
    have hx := hpre x (by simp)
    simp only [List.cons_append, List.find?_cons, hx]
    exact ih (fun y hy => hpre y (by simp [hy]))

theorem find_none (ns : List NodeEntry) (ls : Labels) (h : ∀ x ∈ ns, x.sel.matches ls = false) :
    ns.find? (fun x => x.sel.matches ls) = none := by
  simp only [List.find?_eq_none]
  intro x hx
  simp [h x hx]

/-! ### 1. field layering: first matching entry, else cluster, else default — for EVERY path -/

/-- T1 `field_layering`.  After a ConfigMap whose section parses, for every node label set, every path:
    the delivered value is the first matching entry's if it sets the field, else the cluster-wide value
    if set, else the built-in default (a layer's shorter array hides the lower layers' extra elements). -/
theorem field_layering (sys : Bool) (dflt : Flat) (old : SecCfg) (c : Option Flat)
    (pre post : List NodeEntry) (e : NodeEntry) (ls : Labels) (p : Path)
    (hpre : ∀ x ∈ pre, x.sel.matches ls = false) (he : e.sel.matches ls = true)
    (hd : sys = true → get dflt tnbPath = some 0) (hc : RootObj sys c) (hs : RootObj sys e.strat) :
    get (selectNode ls (mergeSection sys dflt old (.ok c (pre ++ e :: post)))) p
      = lay sys e.strat (lay sys c (get dflt)) p := by
  rw [select_ok, find_first pre post e ls hpre he]
  simp only
  rw [get_mergeNode sys _ e.strat p hs]
  cases hst : e.strat with
  | none => simp [lay, get_mergeCluster sys dflt c p hd hc]
  | some s =>
    simp only [lay]
    rw [get_mergeCluster sys dflt c p hd hc]
    rfl

/-- T1 (no entry selects the node): cluster-wide value if set, else default. -/
theorem field_layering_cluster (sys : Bool) (dflt : Flat) (old : SecCfg) (c : Option Flat)
    (ns : List NodeEntry) (ls : Labels) (p : Path)
    (hns : ∀ x ∈ ns, x.sel.matches ls = false)
    (hd : sys = true → get dflt tnbPath = some 0) (hc : RootObj sys c) :
    get (selectNode ls (mergeSection sys dflt old (.ok c ns))) p = lay sys c (get dflt) p := by
  rw [select_ok, find_none ns ls hns]
  exact get_mergeCluster sys dflt c p hd hc

/-- T1, the literal form of DESIGN §4 for the three pointer-only sections when no JSON array is cut:
    `eff.path = firstMatch.path <|> cluster.path <|> default.path`. -/
theorem field_layering_plain (dflt : Flat) (old : SecCfg) (c s : Flat)
    (pre post : List NodeEntry) (sel : Sel) (ls : Labels) (p : Path)
    (hpre : ∀ x ∈ pre, x.sel.matches ls = false) (he : sel.matches ls = true)
    (hcs : cut s p = false) (hcc : cut c p = false) :
    get (selectNode ls (mergeSection false dflt old (.ok (some c) (pre ++ ⟨sel, some s⟩ :: post)))) p
      = (get s p).or ((get c p).or (get dflt p)) := by
  rw [field_layering false dflt old (some c) pre post ⟨sel, some s⟩ ls p hpre he (by simp) (by simp [RootObj]) (by simp [RootObj])]
  simp [lay, setBy, hcs, hcc]

/-- why calculateSystemConfigMerged needs its restore step: the bare MergeCfg of a node system strategy
    that does not set totalNetworkBandwidth overwrites the cluster value with 0 (the defect repaired in
    /repo by "fix: keep the cluster totalNetworkBandwidth ..."; known finding C20:layering:system:totalNetworkBandwidth). -/
theorem bare_mergecfg_loses_bandwidth_counterexample :
    ¬ (∀ (cl s : Flat) (p : Path), get (overlay cl (emitTnb s)) p = lay true (some s) (get cl) p) := by
  intro h
  have := h [([0], -1), ([1], 1000)] [([0], -1), ([26], 5)] [1]
  revert this
  decide

/-! ### 2. no leak: an entry that does not select the node has no influence on what the node gets -/

/-- T2 `no_leak`: dropping (or arbitrarily changing, see `no_leak_replace`) an entry whose selector does not
    match the node leaves the node's delivered strategy unchanged. -/
theorem no_leak (sys : Bool) (dflt : Flat) (old : SecCfg) (c : Option Flat)
    (pre post : List NodeEntry) (e : NodeEntry) (ls : Labels) (he : e.sel.matches ls = false) :
    selectNode ls (mergeSection sys dflt old (.ok c (pre ++ e :: post)))
      = selectNode ls (mergeSection sys dflt old (.ok c (pre ++ post))) := by
  rw [select_ok, select_ok]
  simp [List.find?_append, he]

theorem no_leak_replace (sys : Bool) (dflt : Flat) (old : SecCfg) (c : Option Flat)
    (pre post : List NodeEntry) (sel : Sel) (s s' : Option Flat) (ls : Labels) (he : sel.matches ls = false) :
    selectNode ls (mergeSection sys dflt old (.ok c (pre ++ ⟨sel, s⟩ :: post)))
      = selectNode ls (mergeSection sys dflt old (.ok c (pre ++ ⟨sel, s'⟩ :: post))) := by
  rw [no_leak sys dflt old c pre post ⟨sel, s⟩ ls he, no_leak sys dflt old c pre post ⟨sel, s'⟩ ls he]

/-- entries AFTER the first match have no influence either (overlapping selectors). -/
theorem no_leak_later (sys : Bool) (dflt : Flat) (old : SecCfg) (c : Option Flat)
    (pre post post' : List NodeEntry) (e : NodeEntry) (ls : Labels)
    (hpre : ∀ x ∈ pre, x.sel.matches ls = false) (he : e.sel.matches ls = true) :
    selectNode ls (mergeSection sys dflt old (.ok c (pre ++ e :: post)))
      = selectNode ls (mergeSection sys dflt old (.ok c (pre ++ e :: post'))) := by
  rw [select_ok, select_ok, find_first pre post e ls hpre he, find_first pre post' e ls hpre he]

/-- nil and unparsable selectors never select a node. -/
theorem nil_or_invalid_selector_never_matches (ls : Labels) :
    Sel.nothing.matches ls = false ∧ Sel.invalid.matches ls = false := by simp [Sel.matches]

/-! ### 3. absent ⇒ default -/

/-- T3 `absent_is_default`: an absent section delivers exactly the built-in default to every node,
    whatever was in force before. -/
theorem absent_is_default (sys : Bool) (dflt : Flat) (old : SecCfg) (ls : Labels) :
    selectNode ls (mergeSection sys dflt old .absent) = dflt := by
  simp [selectNode, mergeSection]

theorem deleted_configmap_is_default (d : Defaults) (st : Cfg) (ls : Labels) :
    nodeSpec (sync d st none) ls = [d.thr, d.qos, d.burst, d.sys, noApps] := by
  simp [nodeSpec, sync, Cfg.default, secDefault, selectNode]

/-- a parsed section without clusterStrategy and without matching entry is the default as well. -/
theorem empty_section_is_default (sys : Bool) (dflt : Flat) (old : SecCfg) (ns : List NodeEntry) (ls : Labels)
    (hns : ∀ x ∈ ns, x.sel.matches ls = false) :
    selectNode ls (mergeSection sys dflt old (.ok none ns)) = dflt := by
  rw [select_ok, find_none ns ls hns]
  rfl

/-! ### 4. malformed ⇒ the previously effective settings stay, over whole update sequences -/

theorem malformed_keeps_previous_step (sys : Bool) (dflt : Flat) (old : SecCfg) :
    mergeSection sys dflt old .bad = old ∧ mergeHost old .bad = old := by
  simp [mergeSection, mergeHost]

/-- per event: every unparsable section of a ConfigMap keeps its merged configuration (hence what every
    node gets), independently of what happens to the other sections. -/
theorem malformed_keeps_previous_event (d : Defaults) (st : Cfg) (cm : CM) :
    (cm.thr = .bad → (sync d st (some cm)).thr = st.thr) ∧
    (cm.qos = .bad → (sync d st (some cm)).qos = st.qos) ∧
    (cm.burst = .bad → (sync d st (some cm)).burst = st.burst) ∧
    (cm.sys = .bad → (sync d st (some cm)).sys = st.sys) ∧
    (cm.host = .bad → (sync d st (some cm)).host = st.host) := by
  refine ⟨?_, ?_, ?_, ?_, ?_⟩ <;> intro h <;> simp [sync, h, mergeSection, mergeHost]

/-- the result of a parsable or absent section does not depend on the previous state. -/
theorem good_forgets_previous (sys : Bool) (dflt : Flat) (a b : SecCfg) (i : SecIn) (h : i ≠ .bad) :
    mergeSection sys dflt a i = mergeSection sys dflt b i := by
  cases i with
  | absent => rfl
  | bad => exact absurd rfl h
  | ok c ns => rfl

/-- the last input of a section's history that is not unparsable. -/
def lastGood (ins : List SecIn) : Option SecIn :=
  ins.foldl (fun acc i => if i = .bad then acc else some i) none

theorem foldl_lastGood (sys : Bool) (dflt : Flat) (init : SecCfg) (ins : List SecIn) :
    ∀ (acc : Option SecIn) (st : SecCfg),
      (st = match acc with | none => init | some i => mergeSection sys dflt init i) →
      (∀ i, acc = some i → i ≠ .bad) →
      ins.foldl (mergeSection sys dflt) st =
        match ins.foldl (fun acc i => if i = .bad then acc else some i) acc with
        | none => init
        | some i => mergeSection sys dflt init i := by
  induction ins with
  | nil => intro acc st h _; simpa using h
  | cons i ins ih =>
    intro acc st h hacc
    simp only [List.foldl_cons]
    by_cases hb : i = .bad
    · subst hb
      simp only [if_true]
      exact ih acc (mergeSection sys dflt st .bad) (by simpa [mergeSection] using h) hacc
    · simp only [hb, if_false]
      apply ih (some i) (mergeSection sys dflt st i)
      · simpa using good_forgets_previous sys dflt st init i hb
      · intro j hj; cases hj; exact hb

/-- T4 `malformed_keeps_previous`, over ALL update sequences: after any history of inputs for a section
    the merged configuration is the one computed from the LAST input that was not unparsable
    (the initial one if there is none) — unparsable updates never clear or alter anything. -/
theorem malformed_keeps_previous (sys : Bool) (dflt : Flat) (init : SecCfg) (ins : List SecIn) :
    ins.foldl (mergeSection sys dflt) init =
      match lastGood ins with
      | none => init
      | some i => mergeSection sys dflt init i :=
  foldl_lastGood sys dflt init ins none init rfl (by intro i h; cases h)

/-- what a history of ConfigMap events says about one section (a deleted ConfigMap = absent). -/
def secInputs (f : CM → SecIn) (evs : List (Option CM)) : List SecIn :=
  evs.map (fun | none => .absent | some cm => f cm)

/-- the sections of the cache evolve independently, each by `mergeSection` on its own inputs; so T4
    applies to every section of the real event history. -/
theorem run_sections (d : Defaults) (evs : List (Option CM)) : ∀ (st : Cfg),
    (run d st evs).thr = (secInputs (·.thr) evs).foldl (mergeSection false d.thr) st.thr ∧
    (run d st evs).qos = (secInputs (·.qos) evs).foldl (mergeSection false d.qos) st.qos ∧
    (run d st evs).burst = (secInputs (·.burst) evs).foldl (mergeSection false d.burst) st.burst ∧
    (run d st evs).sys = (secInputs (·.sys) evs).foldl (mergeSection true d.sys) st.sys := by
  induction evs with
  | nil => intro st; simp [run, secInputs]
  | cons ev evs ih =>
    intro st
    have h := ih (sync d st ev)
    simp only [run, List.foldl_cons, secInputs, List.map_cons] at *
    cases ev with
    | none => simpa [sync, Cfg.default, secDefault, mergeSection] using h
    | some cm => simpa [sync] using h

/-- The property over HISTORIES, one section: after ANY sequence of inputs whose last parsable one is
    `.ok c (pre ++ e :: post)` (anything, also unparsable updates, may follow or precede it), a node first
    selected by `e` gets, at EVERY path, entry <|> cluster <|> default. -/
theorem history_field_layering (sys : Bool) (dflt : Flat) (init : SecCfg) (ins : List SecIn) (c : Option Flat)
    (pre post : List NodeEntry) (e : NodeEntry) (ls : Labels) (p : Path)
    (hlast : lastGood ins = some (.ok c (pre ++ e :: post)))
    (hpre : ∀ x ∈ pre, x.sel.matches ls = false) (he : e.sel.matches ls = true)
    (hd : sys = true → get dflt tnbPath = some 0) (hc : RootObj sys c) (hs : RootObj sys e.strat) :
    get (selectNode ls (ins.foldl (mergeSection sys dflt) init)) p = lay sys e.strat (lay sys c (get dflt)) p := by
  rw [malformed_keeps_previous, hlast]
  exact field_layering sys dflt init c pre post e ls p hpre he hd hc hs

/-- same, no entry selects the node: cluster <|> default. -/
theorem history_field_layering_cluster (sys : Bool) (dflt : Flat) (init : SecCfg) (ins : List SecIn) (c : Option Flat)
    (ns : List NodeEntry) (ls : Labels) (p : Path)
    (hlast : lastGood ins = some (.ok c ns)) (hns : ∀ x ∈ ns, x.sel.matches ls = false)
    (hd : sys = true → get dflt tnbPath = some 0) (hc : RootObj sys c) :
    get (selectNode ls (ins.foldl (mergeSection sys dflt) init)) p = lay sys c (get dflt) p := by
  rw [malformed_keeps_previous, hlast]
  exact field_layering_cluster sys dflt init c ns ls p hns hd hc

/-- same, the last parsable state of the section is "absent" (or the ConfigMap was deleted): the default. -/
theorem history_absent_is_default (sys : Bool) (dflt : Flat) (init : SecCfg) (ins : List SecIn) (ls : Labels)
    (hlast : lastGood ins = some .absent) :
    selectNode ls (ins.foldl (mergeSection sys dflt) init) = dflt := by
  rw [malformed_keeps_previous, hlast]
  exact absent_is_default sys dflt init ls

/-- the statement on the real cache: the system section after any ConfigMap event history
    (the other three strategy sections are the same with `run_sections`). -/
theorem run_system_layering (d : Defaults) (st : Cfg) (evs : List (Option CM)) (c : Option Flat)
    (pre post : List NodeEntry) (e : NodeEntry) (ls : Labels) (p : Path)
    (hlast : lastGood (secInputs (·.sys) evs) = some (.ok c (pre ++ e :: post)))
    (hpre : ∀ x ∈ pre, x.sel.matches ls = false) (he : e.sel.matches ls = true)
    (hd : get d.sys tnbPath = some 0) (hc : RootObj true c) (hs : RootObj true e.strat) :
    get (selectNode ls (run d st evs).sys) p = lay true e.strat (lay true c (get d.sys)) p := by
  rw [(run_sections d evs st).2.2.2]
  exact history_field_layering true d.sys st.sys _ c pre post e ls p hlast hpre he (fun _ => hd) hc hs

/-! ### 5. first-match precedence with overlapping selectors -/

/-- T5 `first_match_precedence`: among several entries that select the node, the FIRST in the list decides;
    invalid / nil selectors before it are skipped. -/
theorem first_match_precedence (sys : Bool) (dflt : Flat) (old : SecCfg) (c : Option Flat)
    (pre post : List NodeEntry) (e : NodeEntry) (ls : Labels)
    (hpre : ∀ x ∈ pre, x.sel.matches ls = false) (he : e.sel.matches ls = true) :
    selectNode ls (mergeSection sys dflt old (.ok c (pre ++ e :: post)))
      = mergeNode sys (mergeCluster sys dflt c) e.strat := by
  rw [select_ok, find_first pre post e ls hpre he]

/-- host applications are not merged at all: the first matching entry's list, else the cluster list. -/
theorem host_first_match (old : SecCfg) (c : Option Flat) (pre post : List NodeEntry) (e : NodeEntry) (ls : Labels)
    (hpre : ∀ x ∈ pre, x.sel.matches ls = false) (he : e.sel.matches ls = true) :
    selectNode ls (mergeHost old (.ok c (pre ++ e :: post))) = e.strat.getD noApps := by
  simp only [selectNode, mergeHost, List.find?_map]
  have : ((fun x : Sel × Flat => x.1.matches ls) ∘ fun x : NodeEntry => (x.sel, x.strat.getD noApps))
      = fun x : NodeEntry => x.sel.matches ls := by funext x; rfl
  rw [this, find_first pre post e ls hpre he]
  rfl

/-! ### glue: the node's own bandwidth annotation (outside the layering statement) -/

/-- without the annotation getNodeSLOSpec delivers exactly the five selected sections. -/
theorem no_annotation_is_selection (st : Cfg) (ls : Labels) :
    nodeSpecBw st ls none = (nodeSpec st ls).map some := by
  simp [nodeSpecBw, nodeSpec, sysWithAnnotation]

/-- a parsable annotation replaces totalNetworkBandwidth and touches no other field. -/
theorem annotation_only_touches_bandwidth (t : Flat) (v : Int) (p : Path) :
    ∃ t', sysWithAnnotation t (some (some v)) = some t' ∧ get t' tnbPath = some v ∧ (p ≠ tnbPath → get t' p = get t p) := by
  refine ⟨setLeaf t tnbPath (some v), rfl, ?_, ?_⟩
  · simp [get_setLeaf]
  · intro h; simp [get_setLeaf, h]

/-! ### 6. delivery: what reaches the NodeSLO objects, over ALL histories of ConfigMap / node events -/

/-- `stored_eq_recomputed_after_reconcile`: whatever the stored NodeSLO was (equal, different, carrying fields the
    recomputed spec no longer has, or missing), after Reconcile it is exactly the spec recomputed from the cache. -/
theorem stored_eq_recomputed_after_reconcile (d : Defaults) (parse : Ident → CM) (w : World) (n : Nat) (ls : Labels)
    (hn : lookupA w.nodes n = some ls) :
    lookupA (reconcile d parse w n).slos n = some (nodeSpec (reconcile d parse w n).cfg ls) := by
  have h := reconcile_correct d parse w n
  unfold Correct at h
  rw [h, hn]; rfl

/-- Reconcile of a name without node removes the NodeSLO. -/
theorem reconcile_removes_orphan (d : Defaults) (parse : Ident → CM) (w : World) (n : Nat)
    (hn : lookupA w.nodes n = none) : lookupA (reconcile d parse w n).slos n = none := by
  have h := reconcile_correct d parse w n
  unfold Correct at h
  rw [h, hn]; rfl

/-- over ALL histories (ConfigMap create/update/delete, foreign ConfigMaps, node add/relabel/delete, restarts, every
    enqueued request reconciled): every node's NodeSLO is exactly what the current cache delivers for its current labels. -/
theorem stored_eq_recomputed_over_histories (d : Defaults) (parse : Ident → CM) (hs : List HStep) (n : Nat) (ls : Labels)
    (hn : lookupA (hrun d parse (World.init d) hs).nodes n = some ls) :
    lookupA (hrun d parse (World.init d) hs).slos n = some (nodeSpec (hrun d parse (World.init d) hs).cfg ls) ∧
    (hrun d parse (World.init d) hs).avail = true := by
  have h := hrun_inv d parse hs (World.init d) (init_inv d) n
  constructor
  · have h1 := h.1
    unfold Correct at h1
    rw [h1, hn]; rfl
  · cases ha : (hrun d parse (World.init d) hs).avail with
    | true => rfl
    | false => rw [h.2 ha] at hn; cases hn

/-- … and there is never a NodeSLO without node. -/
theorem no_orphan_nodeslo_over_histories (d : Defaults) (parse : Ident → CM) (hs : List HStep) (n : Nat)
    (hn : lookupA (hrun d parse (World.init d) hs).nodes n = none) :
    lookupA (hrun d parse (World.init d) hs).slos n = none := by
  have h := (hrun_inv d parse hs (World.init d) (init_inv d) n).1
  unfold Correct at h
  rw [h, hn]; rfl

/-- `cache_tracks_latest_data`: after ANY event history, every section of the (available) cache whose CURRENT text is
    parsable or absent is the from-scratch merge of that text — although Update events with unchanged Data are skipped. -/
theorem cache_tracks_latest_data (d : Defaults) (parse : Ident → CM) (hs : List HStep) (i : Ident)
    (ha : (hrun d parse (World.init d) hs).avail = true) (hcm : (hrun d parse (World.init d) hs).cm = some i) :
    Tracks d (hrun d parse (World.init d) hs).cfg (parse i) :=
  hrun_cinv d parse hs (World.init d) (init_cinv d parse) ha i hcm

/-- the skipped Update (new.Data DeepEqual old.Data) loses nothing: running syncConfig on it would not change the cache. -/
theorem skipped_update_loses_nothing (d : Defaults) (parse : Ident → CM) (hs : List HStep) (i : Ident)
    (ha : (hrun d parse (World.init d) hs).avail = true) (hcm : (hrun d parse (World.init d) hs).cm = some i) :
    hstep d parse (hrun d parse (World.init d) hs) (.cmUpdate i) = hrun d parse (World.init d) hs ∧
    sync d (hrun d parse (World.init d) hs).cfg (some (parse i)) = (hrun d parse (World.init d) hs).cfg := by
  constructor
  · simp [hstep, hcm]
  · exact sync_idem_of_tracks d _ _ (cache_tracks_latest_data d parse hs i ha hcm)

/-- an Update/Create event whose section text is unparsable leaves that section of the cache as it was. -/
theorem cm_event_malformed_keeps_section (d : Defaults) (parse : Ident → CM) (w : World) (i : Ident) :
    ((parse i).thr = .bad → (cmSync d parse w i).cfg.thr = w.cfg.thr) ∧
    ((parse i).qos = .bad → (cmSync d parse w i).cfg.qos = w.cfg.qos) ∧
    ((parse i).burst = .bad → (cmSync d parse w i).cfg.burst = w.cfg.burst) ∧
    ((parse i).sys = .bad → (cmSync d parse w i).cfg.sys = w.cfg.sys) ∧
    ((parse i).host = .bad → (cmSync d parse w i).cfg.host = w.cfg.host) := by
  rw [(cmSync_spec d parse w i).1]
  exact malformed_keeps_previous_event d w.cfg (parse i)

/-- a cache section that tracks a parsed text delivers, at every path, first matching entry <|> cluster <|> default. -/
theorem fresh_section_layering (sys : Bool) (dflt : Flat) (cur : SecCfg) (i : SecIn) (c : Option Flat)
    (pre post : List NodeEntry) (e : NodeEntry) (ls : Labels) (p : Path)
    (hf : SecFresh sys dflt cur i) (hi : i = .ok c (pre ++ e :: post))
    (hpre : ∀ x ∈ pre, x.sel.matches ls = false) (he : e.sel.matches ls = true)
    (hd : sys = true → get dflt tnbPath = some 0) (hc : RootObj sys c) (hs : RootObj sys e.strat) :
    get (selectNode ls cur) p = lay sys e.strat (lay sys c (get dflt)) p := by
  subst hi
  rw [hf (by simp)]
  exact field_layering sys dflt _ c pre post e ls p hpre he hd hc hs

theorem fresh_section_layering_cluster (sys : Bool) (dflt : Flat) (cur : SecCfg) (i : SecIn) (c : Option Flat)
    (ns : List NodeEntry) (ls : Labels) (p : Path)
    (hf : SecFresh sys dflt cur i) (hi : i = .ok c ns) (hns : ∀ x ∈ ns, x.sel.matches ls = false)
    (hd : sys = true → get dflt tnbPath = some 0) (hc : RootObj sys c) :
    get (selectNode ls cur) p = lay sys c (get dflt) p := by
  subst hi
  rw [hf (by simp)]
  exact field_layering_cluster sys dflt _ c ns ls p hns hd hc

theorem fresh_section_absent (sys : Bool) (dflt : Flat) (cur : SecCfg) (ls : Labels)
    (hf : SecFresh sys dflt cur .absent) : selectNode ls cur = dflt := by
  rw [hf (by simp)]
  exact absent_is_default sys dflt _ ls

/-- END TO END (system section; the other strategy sections are the same with their component of `Tracks`): after ANY
    history, the NodeSLO object of node `n` carries, at EVERY path of the system strategy, the value of the first entry
    of the CURRENT ConfigMap text that selects the node's CURRENT labels, else the cluster value, else the default. -/
theorem delivered_system_layering (d : Defaults) (parse : Ident → CM) (hs : List HStep) (n : Nat) (ls : Labels)
    (i : Ident) (c : Option Flat) (pre post : List NodeEntry) (e : NodeEntry) (p : Path)
    (hn : lookupA (hrun d parse (World.init d) hs).nodes n = some ls)
    (hcm : (hrun d parse (World.init d) hs).cm = some i)
    (hsec : (parse i).sys = .ok c (pre ++ e :: post))
    (hpre : ∀ x ∈ pre, x.sel.matches ls = false) (he : e.sel.matches ls = true)
    (hd : get d.sys tnbPath = some 0) (hc : RootObj true c) (hsr : RootObj true e.strat) :
    ∃ spec, lookupA (hrun d parse (World.init d) hs).slos n = some spec ∧
      (spec[3]?).map (fun t => get t p) = some (lay true e.strat (lay true c (get d.sys)) p) := by
  have h := stored_eq_recomputed_over_histories d parse hs n ls hn
  have ht := cache_tracks_latest_data d parse hs i h.2 hcm
  refine ⟨_, h.1, ?_⟩
  simp only [nodeSpec, List.getElem?_cons_succ, List.getElem?_cons_zero, Option.map_some]
  rw [fresh_section_layering true d.sys _ _ c pre post e ls p ht.2.2.2.1 hsec hpre he (fun _ => hd) hc hsr]

/-- same, a section removed from the ConfigMap (the key deleted by an Update): the node gets the built-in default. -/
theorem delivered_system_absent_is_default (d : Defaults) (parse : Ident → CM) (hs : List HStep) (n : Nat) (ls : Labels)
    (i : Ident)
    (hn : lookupA (hrun d parse (World.init d) hs).nodes n = some ls)
    (hcm : (hrun d parse (World.init d) hs).cm = some i) (hsec : (parse i).sys = .absent) :
    ∃ spec, lookupA (hrun d parse (World.init d) hs).slos n = some spec ∧ spec[3]? = some d.sys := by
  have h := stored_eq_recomputed_over_histories d parse hs n ls hn
  have ht := cache_tracks_latest_data d parse hs i h.2 hcm
  refine ⟨_, h.1, ?_⟩
  simp only [nodeSpec, List.getElem?_cons_succ, List.getElem?_cons_zero]
  have hf := ht.2.2.2.1
  rw [hsec] at hf
  rw [fresh_section_absent true d.sys _ ls hf]

/-- END TO END for the three pointer-only strategy sections (resource-threshold = index 0, resource-qos = 1, cpu-burst = 2):
    the stored NodeSLO carries at every path entry <|> cluster <|> default of the CURRENT text for the CURRENT labels. -/
theorem delivered_plain_layering (d : Defaults) (parse : Ident → CM) (hs : List HStep) (n : Nat) (ls : Labels)
    (i : Ident) (c : Option Flat) (pre post : List NodeEntry) (e : NodeEntry) (p : Path)
    (hn : lookupA (hrun d parse (World.init d) hs).nodes n = some ls)
    (hcm : (hrun d parse (World.init d) hs).cm = some i)
    (hpre : ∀ x ∈ pre, x.sel.matches ls = false) (he : e.sel.matches ls = true) :
    ∃ spec, lookupA (hrun d parse (World.init d) hs).slos n = some spec ∧
      ((parse i).thr = .ok c (pre ++ e :: post) →
        (spec[0]?).map (fun t => get t p) = some (lay false e.strat (lay false c (get d.thr)) p)) ∧
      ((parse i).qos = .ok c (pre ++ e :: post) →
        (spec[1]?).map (fun t => get t p) = some (lay false e.strat (lay false c (get d.qos)) p)) ∧
      ((parse i).burst = .ok c (pre ++ e :: post) →
        (spec[2]?).map (fun t => get t p) = some (lay false e.strat (lay false c (get d.burst)) p)) := by
  have h := stored_eq_recomputed_over_histories d parse hs n ls hn
  have ht := cache_tracks_latest_data d parse hs i h.2 hcm
  refine ⟨_, h.1, ?_, ?_, ?_⟩ <;> intro hsec <;>
    simp only [nodeSpec, List.getElem?_cons_succ, List.getElem?_cons_zero, Option.map_some]
  · rw [fresh_section_layering false d.thr _ _ c pre post e ls p ht.1 hsec hpre he (by simp) (by simp [RootObj]) (by simp [RootObj])]
  · rw [fresh_section_layering false d.qos _ _ c pre post e ls p ht.2.1 hsec hpre he (by simp) (by simp [RootObj]) (by simp [RootObj])]
  · rw [fresh_section_layering false d.burst _ _ c pre post e ls p ht.2.2.1 hsec hpre he (by simp) (by simp [RootObj]) (by simp [RootObj])]

/-- … and a key removed from the ConfigMap (by an Update that only deletes it) puts every node back on the built-in default
    of that section; host applications: the empty list. -/
theorem delivered_removed_key_is_default (d : Defaults) (parse : Ident → CM) (hs : List HStep) (n : Nat) (ls : Labels) (i : Ident)
    (hn : lookupA (hrun d parse (World.init d) hs).nodes n = some ls)
    (hcm : (hrun d parse (World.init d) hs).cm = some i) :
    ∃ spec, lookupA (hrun d parse (World.init d) hs).slos n = some spec ∧
      ((parse i).thr = .absent → spec[0]? = some d.thr) ∧ ((parse i).qos = .absent → spec[1]? = some d.qos) ∧
      ((parse i).burst = .absent → spec[2]? = some d.burst) ∧ ((parse i).sys = .absent → spec[3]? = some d.sys) ∧
      ((parse i).host = .absent → spec[4]? = some noApps) := by
  have h := stored_eq_recomputed_over_histories d parse hs n ls hn
  have ht := cache_tracks_latest_data d parse hs i h.2 hcm
  refine ⟨_, h.1, ?_, ?_, ?_, ?_, ?_⟩ <;> intro hsec <;>
    simp only [nodeSpec, List.getElem?_cons_succ, List.getElem?_cons_zero]
  · have hf := ht.1; rw [hsec] at hf; rw [fresh_section_absent false d.thr _ ls hf]
  · have hf := ht.2.1; rw [hsec] at hf; rw [fresh_section_absent false d.qos _ ls hf]
  · have hf := ht.2.2.1; rw [hsec] at hf; rw [fresh_section_absent false d.burst _ ls hf]
  · have hf := ht.2.2.2.1; rw [hsec] at hf; rw [fresh_section_absent true d.sys _ ls hf]
  · have hf := ht.2.2.2.2; rw [hsec] at hf
    rw [hf (by simp)]; simp [selectNode, mergeHost]

/-- host applications (not merged): the stored list is the first matching entry's of the CURRENT text. -/
theorem delivered_host_first_match (d : Defaults) (parse : Ident → CM) (hs : List HStep) (n : Nat) (ls : Labels)
    (i : Ident) (c : Option Flat) (pre post : List NodeEntry) (e : NodeEntry)
    (hn : lookupA (hrun d parse (World.init d) hs).nodes n = some ls)
    (hcm : (hrun d parse (World.init d) hs).cm = some i)
    (hsec : (parse i).host = .ok c (pre ++ e :: post))
    (hpre : ∀ x ∈ pre, x.sel.matches ls = false) (he : e.sel.matches ls = true) :
    ∃ spec, lookupA (hrun d parse (World.init d) hs).slos n = some spec ∧ spec[4]? = some (e.strat.getD noApps) := by
  have h := stored_eq_recomputed_over_histories d parse hs n ls hn
  have ht := cache_tracks_latest_data d parse hs i h.2 hcm
  refine ⟨_, h.1, ?_⟩
  simp only [nodeSpec, List.getElem?_cons_succ, List.getElem?_cons_zero]
  have hf := ht.2.2.2.2
  rw [hsec] at hf
  rw [hf (by simp), host_first_match _ c pre post e ls hpre he]

/-! non-vacuity of the delivery theorems: a history with set → unset, twice -/
section HistExamples
def hxD : Defaults := { thr := [([0], -1)], qos := [([0], -1)], burst := [([0], -1)], sys := [([0], -1), ([1], 0), ([26], 100)] }
-- text 1: the pool entry (la=x) sets key 27 := 160 on top of cluster key 28 := 5; text 2: the system section is removed
def hxParse : Ident → CM := fun i =>
  if i = [0, 1] then
    { thr := .absent, qos := .absent, burst := .absent, host := .absent,
      sys := .ok (some [([0], -1), ([28], 5)]) [⟨.reqs [⟨1, 0, [1]⟩], some [([0], -1), ([27], 160)]⟩] }
  else { thr := .absent, qos := .absent, burst := .absent, sys := .absent, host := .absent }
def hxSys (hs : List HStep) (p : Path) : Option (Option Int) :=
  (lookupA (hrun hxD hxParse (World.init hxD) hs).slos 1).map fun spec => get (spec.getD 3 []) p
-- node 1 (la=x) gets the entry's 160; relabelled to la=y it loses it (set → unset) and keeps the cluster's 5;
-- after the Update that only REMOVES the section key it is back to the default (28 unset again, 26 = 100)
example : hxSys [.cmCreate [0, 1], .nodeAdd 1 [(1, 1)]] [27] = some (some 160) := by decide
example : hxSys [.cmCreate [0, 1], .nodeAdd 1 [(1, 1)], .nodeUpdate 1 [(1, 2)]] [27] = some none ∧
    hxSys [.cmCreate [0, 1], .nodeAdd 1 [(1, 1)], .nodeUpdate 1 [(1, 2)]] [28] = some (some 5) := by decide
example : hxSys [.cmCreate [0, 1], .nodeAdd 1 [(1, 1)], .nodeUpdate 1 [(1, 2)], .cmUpdate [0, 0]] [28] = some none ∧
    hxSys [.cmCreate [0, 1], .nodeAdd 1 [(1, 1)], .nodeUpdate 1 [(1, 2)], .cmUpdate [0, 0]] [26] = some (some 100) := by decide
-- the hypotheses of `delivered_system_layering` hold on the first history (pre = [], the entry selects la=x)
example : (hrun hxD hxParse (World.init hxD) [.cmCreate [0, 1], .nodeAdd 1 [(1, 1)]]).cm = some [0, 1] ∧
    lookupA (hrun hxD hxParse (World.init hxD) [.cmCreate [0, 1], .nodeAdd 1 [(1, 1)]]).nodes 1 = some [(1, 1)] ∧
    get hxD.sys tnbPath = some 0 := by decide
-- a restart with an unchanged ConfigMap and a deleted node: the orphan NodeSLO is removed
example : lookupA (hrun hxD hxParse (World.init hxD) [.cmCreate [0, 1], .nodeAdd 1 [(1, 1)], .nodeDelete 1, .restart true]).slos 1 = none := by decide
end HistExamples

/-! ### 7. arbitrary interleavings: events only enqueue; requests are reconciled later, in any order, between further changes -/

/-- after ANY interleaving of API changes/events and reconciles (Model/C20HistQ.lean), every node whose name is not pending
    in the work queue has a NodeSLO that is exactly the spec recomputed from the cache for its current labels. -/
theorem nonpending_nodeslo_correct (d : Defaults) (parse : Ident → CM) (ss : List QStep) (n : Nat) (ls : Labels)
    (hq : n ∉ (qrun d parse (QWorld.init d) ss).q)
    (hn : lookupA (qrun d parse (QWorld.init d) ss).w.nodes n = some ls) :
    lookupA (qrun d parse (QWorld.init d) ss).w.slos n = some (nodeSpec (qrun d parse (QWorld.init d) ss).w.cfg ls) ∧
    (qrun d parse (QWorld.init d) ss).w.avail = true := by
  have h := qrun_inv d parse ss (QWorld.init d) (qinit_inv d) n hq
  constructor
  · have h1 := h.1
    unfold Correct at h1
    rw [h1, hn]; rfl
  · cases ha : (qrun d parse (QWorld.init d) ss).w.avail with
    | true => rfl
    | false => rw [h.2 ha] at hn; cases hn

/-- at quiescence (empty queue) the delivery invariant of the drained model holds: all NodeSLOs correct, no orphan. -/
theorem quiescent_delivery_over_interleavings (d : Defaults) (parse : Ident → CM) (ss : List QStep)
    (hq : (qrun d parse (QWorld.init d) ss).q = []) : Inv (qrun d parse (QWorld.init d) ss).w :=
  invQ_quiescent _ (qrun_inv d parse ss (QWorld.init d) (qinit_inv d)) hq

/-- the cache tracks the CURRENT ConfigMap text at every moment of every interleaving (once available). -/
theorem cache_tracks_latest_data_interleaved (d : Defaults) (parse : Ident → CM) (ss : List QStep) (i : Ident)
    (ha : (qrun d parse (QWorld.init d) ss).w.avail = true) (hcm : (qrun d parse (QWorld.init d) ss).w.cm = some i) :
    Tracks d (qrun d parse (QWorld.init d) ss).w.cfg (parse i) :=
  qrun_cinv d parse ss (QWorld.init d) (init_cinv d parse) ha i hcm

/-- END TO END for interleavings (system section): a node that is not pending carries, at every path, the value of the
    first entry of the CURRENT text selecting its CURRENT labels, else the cluster value, else the default. -/
theorem delivered_system_layering_interleaved (d : Defaults) (parse : Ident → CM) (ss : List QStep) (n : Nat) (ls : Labels)
    (i : Ident) (c : Option Flat) (pre post : List NodeEntry) (e : NodeEntry) (p : Path)
    (hq : n ∉ (qrun d parse (QWorld.init d) ss).q)
    (hn : lookupA (qrun d parse (QWorld.init d) ss).w.nodes n = some ls)
    (hcm : (qrun d parse (QWorld.init d) ss).w.cm = some i)
    (hsec : (parse i).sys = .ok c (pre ++ e :: post))
    (hpre : ∀ x ∈ pre, x.sel.matches ls = false) (he : e.sel.matches ls = true)
    (hd : get d.sys tnbPath = some 0) (hc : RootObj true c) (hsr : RootObj true e.strat) :
    ∃ spec, lookupA (qrun d parse (QWorld.init d) ss).w.slos n = some spec ∧
      (spec[3]?).map (fun t => get t p) = some (lay true e.strat (lay true c (get d.sys)) p) := by
  have h := nonpending_nodeslo_correct d parse ss n ls hq hn
  have ht := cache_tracks_latest_data_interleaved d parse ss i h.2 hcm
  refine ⟨_, h.1, ?_⟩
  simp only [nodeSpec, List.getElem?_cons_succ, List.getElem?_cons_zero, Option.map_some]
  rw [fresh_section_layering true d.sys _ _ c pre post e ls p ht.2.2.2.1 hsec hpre he (fun _ => hd) hc hsr]

-- non-vacuity: two ConfigMap writes and a relabel happen while node 1's request is still queued; it is reconciled once
example : (qrun hxD hxParse (QWorld.init hxD)
      [.ev (.cmCreate [0, 1]), .ev (.nodeAdd 1 [(1, 1)]), .ev (.nodeUpdate 1 [(1, 2)]), .ev (.cmUpdate [0, 0]), .reco 1]).q = [] ∧
    (lookupA (qrun hxD hxParse (QWorld.init hxD)
      [.ev (.cmCreate [0, 1]), .ev (.nodeAdd 1 [(1, 1)]), .ev (.nodeUpdate 1 [(1, 2)]), .ev (.cmUpdate [0, 0]), .reco 1]).w.slos 1).map
        (fun spec => (get (spec.getD 3 []) [28], get (spec.getD 3 []) [26])) = some (none, some 100) := by decide
-- while the request is pending the stored NodeSLO may be stale: here it still carries the removed entry's 160
example : (lookupA (qrun hxD hxParse (QWorld.init hxD)
      [.ev (.cmCreate [0, 1]), .ev (.nodeAdd 1 [(1, 1)]), .reco 1, .ev (.nodeUpdate 1 [(1, 2)])]).w.slos 1).map
        (fun spec => get (spec.getD 3 []) [27]) = some (some 160) ∧
    1 ∈ (qrun hxD hxParse (QWorld.init hxD)
      [.ev (.cmCreate [0, 1]), .ev (.nodeAdd 1 [(1, 1)]), .reco 1, .ev (.nodeUpdate 1 [(1, 2)])]).q := by decide


/-! ### non-vacuity: concrete configuration with overlapping selectors, all three layers, an array -/

section Examples
-- keys: 2 enable, 3 cpuSuppressThresholdPercent, 6 memoryEvictThresholdPercent; labels: key 1 (la) values 1 (x) / 2 (y)
def exDflt : Flat := [([0], -1), ([2], 0), ([3], 65), ([6], 70)]
def exCluster : Flat := [([0], -1), ([3], 50)]
def exE1 : NodeEntry := ⟨.reqs [⟨1, 0, [1]⟩], some [([0], -1), ([2], 1)]⟩            -- la=x : enable=true
def exE2 : NodeEntry := ⟨.reqs [], some [([0], -1), ([2], 1), ([6], 99)]⟩             -- everything
def exBadSel : NodeEntry := ⟨.invalid, some [([0], -1), ([3], 1)]⟩
def exCfg : SecCfg := mergeSection false exDflt (secDefault exDflt) (.ok (some exCluster) [exBadSel, exE1, exE2])

-- node la=x: first match is exE1 (exE2 also matches): enable from the entry, 50 from the cluster, 70 from the default
example : (get (selectNode [(1, 1)] exCfg) [2], get (selectNode [(1, 1)] exCfg) [3], get (selectNode [(1, 1)] exCfg) [6])
    = (some 1, some 50, some 70) := by decide
-- node la=y: only exE2 matches; exE1's and the invalid entry's values do not leak
example : (get (selectNode [(1, 2)] exCfg) [2], get (selectNode [(1, 2)] exCfg) [3], get (selectNode [(1, 2)] exCfg) [6])
    = (some 1, some 50, some 99) := by decide
-- hypotheses of `field_layering` are satisfiable with a non-empty `pre` and `post`
example : (∀ x ∈ [exBadSel], x.sel.matches [(1, 1)] = false) ∧ exE1.sel.matches [(1, 1)] = true
    ∧ exE2.sel.matches [(1, 1)] = true := by decide
-- an unparsable update keeps it, an absent one resets to the default
example : mergeSection false exDflt exCfg .bad = exCfg ∧
    selectNode [(1, 1)] (mergeSection false exDflt exCfg .absent) = exDflt := by decide
-- system section: a node entry without bandwidth (or with 0) inherits the cluster's 1000, one with 5 overrides it
example : get (mergeNode true [([0], -1), ([1], 1000)] (some [([0], -1), ([26], 5)])) [1] = some 1000 ∧
    get (mergeNode true [([0], -1), ([1], 1000)] (some [([0], -1), ([1], 0)])) [1] = some 1000 ∧
    get (mergeNode true [([0], -1), ([1], 1000)] (some [([0], -1), ([1], 5)])) [1] = some 5 := by decide
-- arrays: the node's 1-element list keeps element 1 merged with the cluster's and cuts element 2
example : get (overlay [([7, 0], 2), ([7, 1, 8], 10), ([7, 2, 8], 20)] [([7, 0], 1), ([7, 1, 9], 5)]) [7, 1, 8] = some 10 ∧
    get (overlay [([7, 0], 2), ([7, 1, 8], 10), ([7, 2, 8], 20)] [([7, 0], 1), ([7, 1, 9], 5)]) [7, 2, 8] = none ∧
    cut [([7, 0], 1), ([7, 1, 9], 5)] [7, 2, 8] = true := by decide
-- lastGood on a history ending with two unparsable updates
example : lastGood [.absent, .ok none [], .bad, .bad] = some (.ok none []) := by decide
end Examples

/-! ### 8. lazy initialisation of the cache (first reconcile after a start / leader change) vs. ConfigMap events -/

/-- the delivery statement of §7 with restarts whose initial ConfigMap Create event is handled LATE (after any number of
    reconciles, the first of which initialises the cache lazily from the ConfigMap it reads, and after further updates):
    every node that is not pending carries exactly the spec recomputed from the cache. -/
theorem nonpending_nodeslo_correct_late_cm_event (d : Defaults) (parse : Ident → CM) (ss : List RStep) (n : Nat) (ls : Labels)
    (hq : n ∉ (rrun d parse (QWorld.init d) ss).q)
    (hn : lookupA (rrun d parse (QWorld.init d) ss).w.nodes n = some ls) :
    lookupA (rrun d parse (QWorld.init d) ss).w.slos n = some (nodeSpec (rrun d parse (QWorld.init d) ss).w.cfg ls) ∧
    (rrun d parse (QWorld.init d) ss).w.avail = true := by
  have h := rrun_inv d parse ss (QWorld.init d) (qinit_inv d) n hq
  constructor
  · have h1 := h.1
    unfold Correct at h1
    rw [h1, hn]; rfl
  · cases ha : (rrun d parse (QWorld.init d) ss).w.avail with
    | true => rfl
    | false => rw [h.2 ha] at hn; cases hn

theorem quiescent_delivery_late_cm_event (d : Defaults) (parse : Ident → CM) (ss : List RStep)
    (hq : (rrun d parse (QWorld.init d) ss).q = []) : Inv (rrun d parse (QWorld.init d) ss).w :=
  invQ_quiescent _ (rrun_inv d parse ss (QWorld.init d) (qinit_inv d)) hq

/-- … and the (available) cache tracks the CURRENT ConfigMap text, whether it was filled by the lazy init or by an event. -/
theorem cache_tracks_latest_data_late_cm_event (d : Defaults) (parse : Ident → CM) (ss : List RStep) (i : Ident)
    (ha : (rrun d parse (QWorld.init d) ss).w.avail = true) (hcm : (rrun d parse (QWorld.init d) ss).w.cm = some i) :
    Tracks d (rrun d parse (QWorld.init d) ss).w.cfg (parse i) :=
  rrun_cinv d parse ss (QWorld.init d) (init_cinv d parse) ha i hcm

/-- END TO END with late ConfigMap events (system section): "otherwise the cluster-wide value if set", over sequences of
    updates that race the first reconcile after a start. -/
theorem delivered_system_layering_late_cm_event (d : Defaults) (parse : Ident → CM) (ss : List RStep) (n : Nat) (ls : Labels)
    (i : Ident) (c : Option Flat) (pre post : List NodeEntry) (e : NodeEntry) (p : Path)
    (hq : n ∉ (rrun d parse (QWorld.init d) ss).q)
    (hn : lookupA (rrun d parse (QWorld.init d) ss).w.nodes n = some ls)
    (hcm : (rrun d parse (QWorld.init d) ss).w.cm = some i)
    (hsec : (parse i).sys = .ok c (pre ++ e :: post))
    (hpre : ∀ x ∈ pre, x.sel.matches ls = false) (he : e.sel.matches ls = true)
    (hd : get d.sys tnbPath = some 0) (hc : RootObj true c) (hsr : RootObj true e.strat) :
    ∃ spec, lookupA (rrun d parse (QWorld.init d) ss).w.slos n = some spec ∧
      (spec[3]?).map (fun t => get t p) = some (lay true e.strat (lay true c (get d.sys)) p) := by
  have h := nonpending_nodeslo_correct_late_cm_event d parse ss n ls hq hn
  have ht := cache_tracks_latest_data_late_cm_event d parse ss i h.2 hcm
  refine ⟨_, h.1, ?_⟩
  simp only [nodeSpec, List.getElem?_cons_succ, List.getElem?_cons_zero, Option.map_some]
  rw [fresh_section_layering true d.sys _ _ c pre post e ls p ht.2.2.2.1 hsec hpre he (fun _ => hd) hc hsr]

/-- the queue model's `reco` treats IsCfgAvailable as ONE step; that is the `atomic` shape of the small-step model. -/
theorem atomic_lazy_is_ensureAvail (d : Defaults) (parse : Ident → CM) (w : World) (pending : List Ident) (pc : LPc) :
    let s := raceStep .atomic d parse { cfg := w.cfg, avail := w.avail, cm := w.cm, pending := pending, pc := pc } .lazy
    s.cfg = (ensureAvail d parse w).cfg ∧ s.avail = (ensureAvail d parse w).avail ∧ s.cm = w.cm ∧ s.pending = pending := by
  by_cases ha : w.avail = true <;> simp [raceStep, lazySync, ensureAvail, ha]

/-- SMALL-STEP (one step = one critical section of IsCfgAvailable or of the event handler, any schedule, any number of
    ConfigMap writes / deletions, after a start with or without ConfigMap): if IsCfgAvailable keeps check–read–sync in one
    critical section, or checks `available` AGAIN under the lock that covers its sync, then whenever the cache is available
    and no ConfigMap event is pending, the cache is the merge of the LATEST ConfigMap — a lazy init can never put back an
    older object over a newer event. -/
theorem lazy_init_tracks_latest (sh : LazyShape) (hsafe : sh.safe = true) (d : Defaults) (parse : Ident → CM)
    (cm0 : Option Ident) (as : List RAct) (i : Ident)
    (ha : (raceRun sh d parse (RaceSt.start d cm0) as).avail = true)
    (hp : (raceRun sh d parse (RaceSt.start d cm0) as).pending = [])
    (hcm : (raceRun sh d parse (RaceSt.start d cm0) as).cm = some i) :
    Tracks d (raceRun sh d parse (RaceSt.start d cm0) as).cfg (parse i) :=
  (raceRun_rinv sh hsafe d parse as _ (start_rinv d parse cm0)).1 ha hp i hcm

/-- … and a later event still repairs nothing that is not broken: syncing the latest ConfigMap again changes nothing. -/
theorem lazy_init_then_resync_is_noop (sh : LazyShape) (hsafe : sh.safe = true) (d : Defaults) (parse : Ident → CM)
    (cm0 : Option Ident) (as : List RAct) (i : Ident)
    (ha : (raceRun sh d parse (RaceSt.start d cm0) as).avail = true)
    (hp : (raceRun sh d parse (RaceSt.start d cm0) as).pending = [])
    (hcm : (raceRun sh d parse (RaceSt.start d cm0) as).cm = some i) :
    sync d (raceRun sh d parse (RaceSt.start d cm0) as).cfg (some (parse i)) = (raceRun sh d parse (RaceSt.start d cm0) as).cfg :=
  sync_idem_of_tracks d _ _ (lazy_init_tracks_latest sh hsafe d parse cm0 as i ha hp hcm)

/-- the SPLIT shape (check under the lock; unlock; read; lock; sync without looking at `available` again) violates it:
    start with ConfigMap text 1; the lazy init checks and reads text 1; the late Create event is handled; the ConfigMap is
    updated to text 0 (system section removed) and that event is handled; then the lazy init syncs the OLDER text 1 over it.
    Nothing is pending, the cache is available — and holds the superseded entry until the ConfigMap changes again. -/
theorem lazy_init_split_counterexample :
    ¬ (∀ (d : Defaults) (parse : Ident → CM) (cm0 : Option Ident) (as : List RAct) (i : Ident),
        (raceRun .split d parse (RaceSt.start d cm0) as).avail = true →
        (raceRun .split d parse (RaceSt.start d cm0) as).pending = [] →
        (raceRun .split d parse (RaceSt.start d cm0) as).cm = some i →
        Tracks d (raceRun .split d parse (RaceSt.start d cm0) as).cfg (parse i)) := by
  intro h
  have ht := h hxD hxParse (some [0, 1]) [.lazy, .lazy, .handle, .write [0, 0], .handle, .lazy] [0, 0]
    (by decide) (by decide) (by decide)
  exact absurd (ht.2.2.2.1 (by decide)) (by decide)

-- the same schedule is harmless for the two safe shapes (the cache ends on the default: text 0 has no system section) …
example : (raceRun .recheck hxD hxParse (RaceSt.start hxD (some [0, 1])) [.lazy, .lazy, .handle, .write [0, 0], .handle, .lazy]).cfg
    = Cfg.default hxD ∧
    (raceRun .atomic hxD hxParse (RaceSt.start hxD (some [0, 1])) [.lazy, .lazy, .handle, .write [0, 0], .handle, .lazy]).cfg
    = Cfg.default hxD := by decide
-- … while the split shape ends with text 1's cluster value 28 := 5 in the cache although the ConfigMap says text 0
example : get (raceRun .split hxD hxParse (RaceSt.start hxD (some [0, 1]))
      [.lazy, .lazy, .handle, .write [0, 0], .handle, .lazy]).cfg.sys.cluster [28] = some 5 ∧
    (raceRun .split hxD hxParse (RaceSt.start hxD (some [0, 1])) [.lazy, .lazy, .handle, .write [0, 0], .handle, .lazy]).cm
      = some [0, 0] := by decide
-- the harness's race step in the queue model: restart (Create event late), node 1's reconcile initialises the cache from
-- text 1, the late Create event, the Update to text 0, node 1 reconciled again: it is back on the default (28 unset)
example : (rrun hxD hxParse (QWorld.init hxD)
      [.q (.ev (.cmCreate [0, 1])), .q (.ev (.nodeAdd 1 [(1, 2)])), .q (.reco 1), .restartLate, .q (.reco 1), .cmLate,
       .q (.ev (.cmUpdate [0, 0])), .q (.reco 1)]).q = [] ∧
    (lookupA (rrun hxD hxParse (QWorld.init hxD)
      [.q (.ev (.cmCreate [0, 1])), .q (.ev (.nodeAdd 1 [(1, 2)])), .q (.reco 1), .restartLate, .q (.reco 1), .cmLate,
       .q (.ev (.cmUpdate [0, 0])), .q (.reco 1)]).w.slos 1).map (fun spec => get (spec.getD 3 []) [28]) = some none ∧
    (lookupA (rrun hxD hxParse (QWorld.init hxD)
      [.q (.ev (.cmCreate [0, 1])), .q (.ev (.nodeAdd 1 [(1, 2)])), .q (.reco 1), .restartLate, .q (.reco 1), .cmLate]).w.slos 1).map
        (fun spec => get (spec.getD 3 []) [28]) = some (some 5) := by decide


/-! ## WIRING (round-5 extension, Model/C20Wire.lean): the predicates SetupWithManager puts on the ConfigMap watch -/

/-- the pinned wiring (no predicate on the ConfigMap watch; tie_watch_registrations) and, more generally, every watch predicate
    that lets all Creates and all Data-changing Updates through, is INVISIBLE: the wired controller is exactly the queue model,
    over all interleavings — so every delivery theorem above holds for the controller as SetupWithManager wires it. -/
theorem wired_run_eq_queue_model (pr : WatchPred) (hs : pr.Sound) (d : Defaults) (parse : Ident → CM) (ss : List QStep) :
    wrun pr d parse (QWorld.init d) ss = qrun d parse (QWorld.init d) ss :=
  wrun_sound pr hs d parse ss _

/-- … in particular: at quiescence every NodeSLO is the spec recomputed from a cache that tracks the LATEST ConfigMap. -/
theorem wired_quiescent_delivery_tracks_latest (pr : WatchPred) (hs : pr.Sound) (d : Defaults) (parse : Ident → CM)
    (ss : List QStep) (i : Ident)
    (hq : (wrun pr d parse (QWorld.init d) ss).q = [])
    (ha : (wrun pr d parse (QWorld.init d) ss).w.avail = true)
    (hcm : (wrun pr d parse (QWorld.init d) ss).w.cm = some i) :
    Inv (wrun pr d parse (QWorld.init d) ss).w ∧ Tracks d (wrun pr d parse (QWorld.init d) ss).w.cfg (parse i) := by
  rw [wired_run_eq_queue_model pr hs] at *
  exact ⟨quiescent_delivery_over_interleavings d parse ss hq, cache_tracks_latest_data_interleaved d parse ss i ha hcm⟩

theorem wired_pinned_predicate_sound : WatchPred.none.Sound := none_sound

/-- predicate.GenerationChangedPredicate{} on the ConfigMap watch breaks it (a ConfigMap's generation never changes, so
    every Update is dropped before the handler): ConfigMap text 1 is created, then updated to text 0 (system section
    removed); the cache is available, nothing is queued — and it still holds text 1. -/
theorem wired_generation_predicate_counterexample :
    ¬ (∀ (d : Defaults) (parse : Ident → CM) (ss : List QStep) (i : Ident),
        (wrun .generationChanged d parse (QWorld.init d) ss).w.avail = true →
        (wrun .generationChanged d parse (QWorld.init d) ss).w.cm = some i →
        Tracks d (wrun .generationChanged d parse (QWorld.init d) ss).w.cfg (parse i)) := by
  intro h
  have ht := h hxD hxParse [.ev (.cmCreate [0, 1]), .ev (.cmUpdate [0, 0])] [0, 0] (by decide) (by decide)
  exact absurd (ht.2.2.2.1 (by decide)) (by decide)

/-- … and the stale value reaches the node: node 1 (la=x) keeps the removed entry's 160 at quiescence, where the same
    history without the predicate delivers the default (unset). -/
theorem wired_generation_predicate_stale_nodeslo :
    let ss : List QStep := [.ev (.cmCreate [0, 1]), .ev (.nodeAdd 1 [(1, 1)]), .reco 1, .ev (.cmUpdate [0, 0]), .reco 1]
    (wrun .generationChanged hxD hxParse (QWorld.init hxD) ss).q = [] ∧
    (lookupA (wrun .generationChanged hxD hxParse (QWorld.init hxD) ss).w.slos 1).map (fun spec => get (spec.getD 3 []) [27])
      = some (some 160) ∧
    (lookupA (wrun .none hxD hxParse (QWorld.init hxD) ss).w.slos 1).map (fun spec => get (spec.getD 3 []) [27])
      = some none := by decide

/-- the same on the NODE watch: a predicate that compares generations drops the relabelling of a node (labels are
    metadata: the generation stays): node 1 moves from la=x to la=y and keeps the la=x entry's 160 with nothing
    queued (without the predicate the relabelling is queued, and its reconcile removes the 160). -/
theorem wired_node_generation_predicate_stale_nodeslo :
    let ss : List QStep := [.ev (.cmCreate [0, 1]), .ev (.nodeAdd 1 [(1, 1)]), .reco 1, .ev (.nodeUpdate 1 [(1, 2)])]
    (wrun .nodeGenerationChanged hxD hxParse (QWorld.init hxD) ss).q = [] ∧
    lookupA (wrun .nodeGenerationChanged hxD hxParse (QWorld.init hxD) ss).w.nodes 1 = some [(1, 2)] ∧
    (lookupA (wrun .nodeGenerationChanged hxD hxParse (QWorld.init hxD) ss).w.slos 1).map (fun spec => get (spec.getD 3 []) [27])
      = some (some 160) ∧
    (lookupA (wrun .none hxD hxParse (QWorld.init hxD) (ss ++ [.reco 1])).w.slos 1).map (fun spec => get (spec.getD 3 []) [27])
      = some none := by decide

/-! ## ORDER of the node entries (profile names are not part of the model: selection cannot depend on them) -/

/-- re-ordering a section's entries (e.g. sorting them by profile name) cannot change what a node gets as long as at most
    one entry matches the node's labels … -/
theorem selectNode_perm_of_unique_match (ls : Labels) (c : SecCfg) (ns' : List (Sel × Flat)) (hp : ns'.Perm c.nodes)
    (hu : ∀ a ∈ c.nodes, ∀ b ∈ c.nodes, a.1.matches ls = true → b.1.matches ls = true → a = b) :
    selectNode ls { c with nodes := ns' } = selectNode ls c := by
  simp only [selectNode]
  rw [find?_perm_of_unique (fun e : Sel × Flat => e.1.matches ls) c.nodes ns' hp hu]

/-- … and DOES change it when two entries overlap: the statement's "first matching entry" is about document order. -/
theorem selectNode_order_matters_counterexample :
    ¬ (∀ (ls : Labels) (c : SecCfg) (ns' : List (Sel × Flat)), ns'.Perm c.nodes →
        selectNode ls { c with nodes := ns' } = selectNode ls c) := by
  intro h
  have := h [(1, 1)] { cluster := [], nodes := [(.reqs [], [([5], 1)]), (.reqs [⟨1, 0, [1]⟩], [([5], 2)])] }
    [(.reqs [⟨1, 0, [1]⟩], [([5], 2)]), (.reqs [], [([5], 1)])] (List.Perm.swap _ _ _)
  exact absurd this (by decide)

end KoordVerif.C20
