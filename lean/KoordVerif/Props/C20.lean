import KoordVerif.Model.C20
namespace KoordVerif.C20
end KoordVerif.C20
