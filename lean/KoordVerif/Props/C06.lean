import KoordVerif.Model.C06
namespace KoordVerif.C06

theorem allocateRes_le (a r : Int) : allocateRes a r ≤ a := by
  unfold allocateRes; split <;> [omega; (split <;> omega)]

end KoordVerif.C06
