import KoordVerif.Model.C06
import KoordVerif.Proofs.C06Numa
import KoordVerif.Proofs.C06Ledger
import KoordVerif.Proofs.C06Pick
import KoordVerif.Proofs.C06ExtAmp
import KoordVerif.Proofs.C06ExtConc
import KoordVerif.Proofs.C06ExtAlloc
import KoordVerif.Proofs.C06ExtPolicy
import KoordVerif.Proofs.C06ExtPolicyFull
import KoordVerif.Proofs.C06ExtTakeGen
import KoordVerif.Proofs.C06ExtTake
import KoordVerif.Proofs.C06ExtAmpBind
import KoordVerif.Proofs.C06ExtNumaDrawn
import KoordVerif.Proofs.C06ExtEvents
import KoordVerif.Proofs.C06ExtGoc
import KoordVerif.Proofs.C06ExtNrt
import KoordVerif.Proofs.C06ExtRestore
import KoordVerif.Proofs.C06ExtPreempt
import KoordVerif.Proofs.C06ExtPreemptAvail
/-
C06 — CPU and NUMA allocations are exact, disjoint and within capacity.

Layer A (NUMA split, `tryBestToDistributeEvenly` per resource name), Layer B (ledger,
`NodeAllocation`) and Layer C (picker, `takeCPUs` / `takePreferredCPUs` with every candidate generator:
`take_exact`, `preferred_exact`) are proved for ALL inputs / histories of the model.  Open: the charge of
cpu-bind pods against an AMPLIFIED NUMA capacity (`numa_amplified_bind_counterexample`).
Amounts are milli-units; `isum` is the list sum.
-/
namespace KoordVerif.C06

/-! ## Layer A — NUMA split -/

/-- whatever the outcome: what was handed out plus what is left is the request. -/
theorem numa_conserves (mode : SplitMode) (free : Nat → Int) (hint : List Nat) (req : Int) :
    isum ((numaSplit mode true free hint req).allocs.map (·.2)) +
      (numaSplit mode true free hint req).remaining = req := by
  simp only [numaSplit, ↓reduceIte]
  exact distribute_sum mode free _ req

/-- **numa_exact_and_within**: a split that reports no "Insufficient NUMA …" reason hands out
    exactly the request, takes from hinted nodes only, never more from a node than it has free,
    and records no zero entry.  All modes, all hints, all amounts (no sign/size assumption). -/
theorem numa_exact_and_within (mode : SplitMode) (free : Nat → Int) (hint : List Nat) (req : Int)
    (hok : (numaSplit mode true free hint req).failed = false) :
    isum ((numaSplit mode true free hint req).allocs.map (·.2)) = req ∧
    ∀ e ∈ (numaSplit mode true free hint req).allocs, e.2 ≤ free e.1 ∧ e.1 ∈ hint ∧ e.2 ≠ 0 := by
  have hsum := numa_conserves mode free hint req
  simp only [numaSplit, ↓reduceIte] at hok hsum ⊢
  have hz : (distribute mode free (sortByKey free hint) req).2 = 0 := by simpa using hok
  refine ⟨by omega, fun e he => ?_⟩
  have := distribute_mem mode free _ req e he
  exact ⟨this.1, (sortByKey_perm free hint).mem_iff.mp this.2.1, this.2.2⟩

/-- a node receives at most one entry (hint ids come from a bit mask: no duplicates). -/
theorem numa_nodes_distinct (mode : SplitMode) (free : Nat → Int) (hint : List Nat) (req : Int)
    (hnd : hint.Nodup) : ((numaSplit mode true free hint req).allocs.map (·.1)).Nodup := by
  simp only [numaSplit, ↓reduceIte]
  exact (distribute_ids_sublist mode free _ req).nodup
    ((sortByKey_perm free hint).nodup_iff.mpr hnd)

/-- the resource is "freely divisible" for this call: cpu in milli (no cpu-bind), or a
    whole-unit resource whose request and hinted free amounts are whole. -/
def Divisible (mode : SplitMode) (free : Nat → Int) (hint : List Nat) (req : Int) : Prop :=
  match mode with
  | .milli => True
  | .value => 1000 ∣ req ∧ ∀ id ∈ hint, 1000 ∣ free id
  | .fullPCPUs _ => False

/-- **numa_complete** (DESIGN Appendix A.4), for the code as it is: for a freely divisible
    resource the split succeeds whenever the hinted nodes together have enough free —
    whichever node ids the hint names, in whatever order, any number of nodes. -/
theorem numa_complete (mode : SplitMode) (free : Nat → Int) (hint : List Nat) (req : Int)
    (hdiv : Divisible mode free hint req) (hreq : 0 ≤ req) (hfree : ∀ id ∈ hint, 0 ≤ free id)
    (henough : req ≤ isum (hint.map free)) :
    (numaSplit mode true free hint req).failed = false := by
  have hperm := sortByKey_perm free hint
  have hsorted := sortByKey_sorted free hint
  have hsum : isum ((sortByKey free hint).map free) = isum (hint.map free) :=
    isum_perm (hperm.map free)
  simp only [numaSplit, ↓reduceIte]
  suffices h : (distribute mode free (sortByKey free hint) req).2 = 0 by simp [h]
  cases mode with
  | milli =>
    exact distribute_complete splitOK_milli free _ req hsorted
      (fun id hid => ⟨hfree id (hperm.mem_iff.mp hid), Int.one_dvd _⟩) hreq (Int.one_dvd _) (by omega)
  | value =>
    exact distribute_complete splitOK_value free _ req hsorted
      (fun id hid => ⟨hfree id (hperm.mem_iff.mp hid), hdiv.2 id (hperm.mem_iff.mp hid)⟩)
      hreq hdiv.1 (by omega)
  | fullPCPUs cpc => exact absurd hdiv (by simp [Divisible])

/-- a name that no NUMA node declares is neither allocated nor reported (code as written). -/
theorem numa_undeclared (mode : SplitMode) (free : Nat → Int) (hint : List Nat) (req : Int) :
    numaSplit mode false free hint req = { allocs := [], remaining := req, failed := false } := by
  simp [numaSplit]

/-- the divisibility premise of `numa_complete` is needed: whole physical cores are not freely
    divisible (2 threads/core, free 1 and 3 CPUs, request 4 is rejected). -/
theorem numa_fullpcpus_not_complete :
    ¬ (∀ (free : Nat → Int) (hint : List Nat) (req : Int), 0 ≤ req → (∀ id ∈ hint, 0 ≤ free id) →
        req ≤ isum (hint.map free) → (numaSplit (.fullPCPUs 2) true free hint req).failed = false) := by
  intro h
  have := h (getI [(0, 1000), (1, 3000)]) [0, 1] 4000 (by decide) (by decide) (by decide)
  revert this; decide

-- non-vacuity: the repaired regression (hint {1,2}, free (10,2), request 8) and a 3-node split
example : (numaSplit .milli true (getI [(1, 10000), (2, 2000)]) [1, 2] 8000)
    = { allocs := [(2, 2000), (1, 6000)], remaining := 0, failed := false } := by decide
example : (numaSplit .value true (getI [(0, 5000), (3, 1000), (5, 9000)]) [0, 3, 5] 11000).failed = false := by
  decide
example : Divisible .value (getI [(0, 5000), (3, 1000), (5, 9000)]) [0, 3, 5] 11000 := by
  refine ⟨by decide, ?_⟩
  intro id hid
  simp at hid
  rcases hid with rfl | rfl | rfl <;> decide

/-! ## Layer B — ledger -/

/-- **ledger_inv** (ref-counts): after ANY history of add / update / release — any interleaving,
    duplicates, unknown pods, overlapping CPU sets — the RefCount of every CPU is the number of
    live pods holding it. -/
theorem ledger_refcount (ops : List Op) (hok : ∀ op ∈ ops, OpOK op) (c : Nat) :
    refOf (run ops).cpus c = holdCount (run ops).pods c :=
  (inv_foldl ops _ inv_empty hok).refs c

/-- **ledger_inv** (NUMA amounts): the allocation ledger of every (node, resource) cell equals the
    sum of the live pods' allocations (amounts non-negative). -/
theorem ledger_numa (ops : List Op) (hok : ∀ op ∈ ops, OpOK op) (k : Nat) :
    getI (run ops).res k = cellSum (run ops).pods k :=
  (inv_foldl ops _ inv_empty hok).cells k

/-- a pod is recorded at most once; recorded CPUs have a positive count. -/
theorem ledger_wellformed (ops : List Op) (hok : ∀ op ∈ ops, OpOK op) :
    ((run ops).pods.map (·.uid)).Nodup ∧ PosRefs (run ops).cpus :=
  ⟨(inv_foldl ops _ inv_empty hok).uids, (inv_foldl ops _ inv_empty hok).pos⟩

/-- duplicate add is a no-op. -/
theorem add_duplicate_noop (L : Ledger) (p : PodAlloc) (h : hasPod L.pods p.uid = true) :
    addPod L p = L := by
  simp [addPod, h]

/-- `getAvailableCPUs` (no restored CPUs) = topology CPUs that are not reserved and are held by
    fewer pods than the sharing limit. -/
theorem available_spec (topo : List Nat) (m : CpuMap) (maxRef : Int) (reserved : List Nat)
    (hmax : 1 ≤ maxRef) (c : Nat) :
    c ∈ availableCPUs topo m maxRef reserved [] ↔ c ∈ topo ∧ c ∉ reserved ∧ refOf m c < maxRef := by
  unfold availableCPUs refOf
  simp only [List.foldl_nil, List.mem_filter, Bool.and_eq_true, Bool.not_eq_eq_eq_not, Bool.not_true]
  cases hg : cpuGet m c with
  | none => simp; omega
  | some r => simp; intro _; exact And.comm

/-- every allocation is drawn from the CPUs that are available to that pod at that moment
    (for an update: after the pod's own previous holding is returned). -/
def Drawn (topo : List Nat) (maxRef : Int) (reserved : List Nat) (L : Ledger) : Op → Prop
  | .add p => hasPod L.pods p.uid = false →
      p.cpus.Nodup ∧ ∀ c ∈ p.cpus, c ∈ availableCPUs topo L.cpus maxRef reserved []
  | .upd p =>
      p.cpus.Nodup ∧ ∀ c ∈ p.cpus, c ∈ availableCPUs topo (releasePod L p.uid).cpus maxRef reserved []
  | .rel _ => True

def AllDrawn (topo : List Nat) (maxRef : Int) (reserved : List Nat) : Ledger → List Op → Prop
  | _, [] => True
  | L, op :: ops => Drawn topo maxRef reserved L op ∧ AllDrawn topo maxRef reserved (step L op) ops

instance decDrawn (topo : List Nat) (maxRef : Int) (reserved : List Nat) (L : Ledger) (op : Op) :
    Decidable (Drawn topo maxRef reserved L op) := by
  cases op <;> simp only [Drawn] <;> exact inferInstance

instance decAllDrawn (topo : List Nat) (maxRef : Int) (reserved : List Nat) :
    ∀ (L : Ledger) (ops : List Op), Decidable (AllDrawn topo maxRef reserved L ops)
  | _, [] => isTrue trivial
  | L, op :: ops => by
    unfold AllDrawn
    exact @instDecidableAnd _ _ _ (decAllDrawn topo maxRef reserved _ ops)

theorem count_le_one_of_nodup : ∀ (l : List Nat), l.Nodup → ∀ c, l.count c ≤ 1
  | [], _, c => by simp
  | x :: xs, h, c => by
    rw [List.nodup_cons] at h
    rw [List.count_cons]
    have ih := count_le_one_of_nodup xs h.2 c
    by_cases hx : x = c
    · subst hx
      have : xs.count x = 0 := List.count_eq_zero.mpr h.1
      simp; omega
    · simp [hx]; exact ih

theorem cnt_le_one_of_nodup {l : List Nat} (h : l.Nodup) (c : Nat) :
    cnt l c ≤ 1 ∧ (cnt l c = 1 → c ∈ l) := by
  unfold cnt
  have h1 := count_le_one_of_nodup l h c
  refine ⟨by omega, fun h2 => ?_⟩
  have : 0 < l.count c := by omega
  exact List.count_pos_iff.mp this

theorem addPod_within_limit {topo : List Nat} {maxRef : Int} {reserved : List Nat} {L : Ledger}
    (hinv : Inv L) (hmax : 1 ≤ maxRef) (hb : ∀ c, refOf L.cpus c ≤ maxRef) (p : PodAlloc)
    (hd : hasPod L.pods p.uid = false →
      p.cpus.Nodup ∧ ∀ c ∈ p.cpus, c ∈ availableCPUs topo L.cpus maxRef reserved []) :
    ∀ c, refOf (addPod L p).cpus c ≤ maxRef := by
  intro c
  unfold addPod
  split
  · exact hb c
  · rename_i hnew
    have hnew' : hasPod L.pods p.uid = false := by simpa using hnew
    obtain ⟨hnd, hav⟩ := hd hnew'
    dsimp only
    rw [(foldl_addCPU p.excl p.cpus L.cpus hinv.pos).2 c]
    have hc := cnt_le_one_of_nodup hnd c
    have hnn := cnt_nonneg p.cpus c
    by_cases h1 : cnt p.cpus c = 1
    · have := (available_spec topo L.cpus maxRef reserved hmax c).mp (hav c (hc.2 h1))
      omega
    · have := hb c; omega

theorem share_limit_from {topo : List Nat} {maxRef : Int} {reserved : List Nat} (hmax : 1 ≤ maxRef)
    (ops : List Op) : ∀ L, Inv L → (∀ c, refOf L.cpus c ≤ maxRef) → (∀ op ∈ ops, OpOK op) →
      AllDrawn topo maxRef reserved L ops → ∀ c, refOf (ops.foldl step L).cpus c ≤ maxRef := by
  induction ops with
  | nil => intro L _ hb _ _ c; exact hb c
  | cons op ops ih =>
    intro L hinv hb hok hdr
    have hop := hok op (by simp)
    obtain ⟨hd, hrest⟩ := hdr
    refine ih (step L op) (inv_step hinv op hop) ?_ (fun o ho => hok o (by simp [ho])) hrest
    cases op with
    | add p => exact addPod_within_limit hinv hmax hb p hd
    | upd p =>
      have hs := releasePod_spec hinv p.uid
      exact addPod_within_limit hs.1 hmax (fun c => by have := hs.2.2 c; have := hb c; omega) p
        (fun _ => hd)
    | rel u =>
      intro c
      have := (releasePod_spec hinv u).2.2 c
      have := hb c
      simp only [step]; omega

/-- **share limit**: if every allocation is drawn from the CPUs available at that moment, no CPU is
    ever held by more pods than the sharing limit — however allocations, updates and releases
    (also of unknown pods, also duplicate adds) interleave. -/
theorem share_limit (topo : List Nat) (maxRef : Int) (reserved : List Nat) (hmax : 1 ≤ maxRef)
    (ops : List Op) (hok : ∀ op ∈ ops, OpOK op) (hdr : AllDrawn topo maxRef reserved Ledger.empty ops)
    (c : Nat) : holdCount (run ops).pods c ≤ maxRef := by
  rw [← ledger_refcount ops hok c]
  exact share_limit_from hmax ops _ inv_empty (fun c => by simp [Ledger.empty, refOf, cpuGet]; omega)
    hok hdr c

theorem disjoint_of_holdCount_le_one : ∀ (pods : List PodAlloc), (∀ c, holdCount pods c ≤ 1) →
    pods.Pairwise (fun p q => ∀ c, c ∈ p.cpus → c ∉ q.cpus) := by
  intro pods
  induction pods with
  | nil => intro _; exact List.Pairwise.nil
  | cons p ps ih =>
    intro h
    have hnn : ∀ c, 0 ≤ holdCount ps c := fun c =>
      isum_map_nonneg _ _ (fun q _ => cnt_nonneg q.cpus c)
    have hcons : ∀ c, holdCount (p :: ps) c = cnt p.cpus c + holdCount ps c := fun c => by
      simp [holdCount]
    rw [List.pairwise_cons]
    refine ⟨fun q hq c hc hcq => ?_, ih (fun c => ?_)⟩
    · have h1 : 1 ≤ cnt p.cpus c := by
        unfold cnt; have := List.count_pos_iff.mpr hc; omega
      have h2 : 1 ≤ holdCount ps c := by
        have hq1 : 1 ≤ cnt q.cpus c := by
          unfold cnt; have := List.count_pos_iff.mpr hcq; omega
        clear ih h hcons hnn
        induction ps with
        | nil => simp at hq
        | cons r rs ihr =>
          have hr : 0 ≤ cnt r.cpus c := cnt_nonneg _ _
          have hrs : 0 ≤ holdCount rs c := isum_map_nonneg _ _ (fun q _ => cnt_nonneg q.cpus c)
          have e : holdCount (r :: rs) c = cnt r.cpus c + holdCount rs c := by simp [holdCount]
          rcases List.mem_cons.mp hq with rfl | hq'
          · omega
          · have := ihr hq'; omega
      have := h c; have := hcons c; omega
    · have := h c; have := hcons c; have := cnt_nonneg p.cpus c; omega

/-- default sharing limit 1 ⇒ the CPU sets of the live pods are pairwise disjoint. -/
theorem cpus_disjoint_default (topo reserved : List Nat) (ops : List Op)
    (hok : ∀ op ∈ ops, OpOK op) (hdr : AllDrawn topo 1 reserved Ledger.empty ops) :
    (run ops).pods.Pairwise (fun p q => ∀ c, c ∈ p.cpus → c ∉ q.cpus) :=
  disjoint_of_holdCount_le_one _ (fun c => share_limit topo 1 reserved (by omega) ops hok hdr c)

-- non-vacuity: a history with an update of a live pod, a duplicate add and a release
example :
    let p1 : PodAlloc := { uid := 1, excl := 0, cpus := [0, 1], numa := [(0, 2000)] }
    let p2 : PodAlloc := { uid := 2, excl := 2, cpus := [2], numa := [(0, 1000), (16, 1000)] }
    let p1' : PodAlloc := { uid := 1, excl := 0, cpus := [3], numa := [(16, 500)] }
    let ops := [Op.upd p1, Op.upd p2, Op.add p1', Op.upd p1', Op.rel 7]
    (∀ op ∈ ops, OpOK op) ∧ AllDrawn [0, 1, 2, 3] 1 [] Ledger.empty ops ∧
    (run ops).pods.map (·.uid) = [1, 2] ∧ getI (run ops).res 16 = 1500 ∧ refOf (run ops).cpus 3 = 1 := by
  refine ⟨?_, by decide, by decide, by decide, by decide⟩
  intro op hop
  simp at hop
  rcases hop with rfl | rfl | rfl | rfl | rfl <;> simp [OpOK, PodOK]

/-! ## Amplified NUMA capacities (util.go `amplifyNUMANodeResources`, plugin.go `getResourceOptions`,
       node_allocation.go `getAvailableNUMANodeResources`) -/

/-- **capacity(node) = raw × ratio is a pure function of the stored topology**: however many
    scheduling steps fetch their options, each sees exactly `amplifyCaps ratio raw` (the code
    amplifies a deep copy; the store is returned unchanged). -/
theorem options_idempotent (num den : Int) (k : Nat) (st : Stored) :
    optionsSeen (getOptions num den) k st = List.replicate k (amplifyCaps num den st.caps) :=
  optionsSeen_getOptions num den k st

/-- the shape that amplifies the shared resource maps in place is NOT idempotent: raw cpu 4 with
    ratio 2 is seen as 8, 16, 32 by three consecutive scheduling steps. -/
theorem options_inplace_counterexample :
    ¬ (∀ (num den : Int) (k : Nat) (st : Stored),
        optionsSeen (getOptionsInPlace num den) k st = List.replicate k (amplifyCaps num den st.caps)) := by
  intro h
  have := h 2 1 3 { caps := [(0, 4000)] }
  revert this; decide

/-- a ratio ≤ 1 (or no annotation, `0/1`) leaves every capacity as stored. -/
theorem options_unamplified (num den : Int) (h : num ≤ den) (caps : List (Nat × Int)) :
    amplifyCaps num den caps = caps := by
  unfold amplifyCaps
  have : ∀ e : Nat × Int, (if isCpuCell e.1 then (e.1, amplify num den e.2) else e) = e := by
    intro e; simp [amplify, h]
  simp [this]

/-- `getAvailableNUMANodeResources` (with the cpu amplification correction) never reports more than
    capacity minus what the live pods have recorded on that cell. -/
theorem numa_available_within (num den : Int) (nodeOf : Nat → Nat) (cap : Int) (L : Ledger) (k : Nat)
    (hden : 0 < den) : availableCellAmp num den nodeOf cap L k ≤ max (cap - getI L.res k) 0 :=
  available_le num den nodeOf cap L k hden

/-- **within capacity**: if every recorded NUMA amount is drawn from "capacity − recorded" of its
    moment (which `numa_available_within` + `numa_exact_and_within` give for what Allocate hands
    out), then after ANY history of add / update / release no (node, resource) cell holds more
    than its capacity — for the amplified capacity `raw × ratio` just as for the raw one. -/
theorem numa_within_capacity (cap : Nat → Int) (hcap : ∀ k, 0 ≤ cap k) (ops : List Op)
    (hok : ∀ op ∈ ops, OpOK op) (hdr : AllNumaDrawn cap Ledger.empty ops) (k : Nat) :
    cellSum (run ops).pods k ≤ cap k := by
  rw [← ledger_numa ops hok k]
  exact numa_capacity_from ops _ inv_empty (fun k => by simpa [Ledger.empty, getI] using hcap k) hok hdr k

-- non-vacuity: raw cpu 4 on node 1 with ratio 3/2 gives capacity 6; two pods take 4 + 2, one is updated
example :
    let cap : Nat → Int := getI (amplifyCaps 3 2 [(16, 4000), (17, 8000)])
    let p1 : PodAlloc := { uid := 1, excl := 0, cpus := [], numa := [(16, 4000)] }
    let p2 : PodAlloc := { uid := 2, excl := 0, cpus := [], numa := [(16, 2000), (17, 8000)] }
    let p1' : PodAlloc := { uid := 1, excl := 0, cpus := [], numa := [(16, 3500)] }
    let ops := [Op.upd p1, Op.upd p2, Op.upd p1']
    cap 16 = 6000 ∧ AllNumaDrawn cap Ledger.empty ops ∧ getI (run ops).res 16 = 5500 := by
  refine ⟨by decide, ?_, by decide⟩
  simp only [AllNumaDrawn, NumaDrawn, and_true]
  refine ⟨?_, ?_, ?_⟩ <;> intro k <;> simp [cellOf, step, updatePod, releasePod, addPod, findPod, hasPod,
    Ledger.empty, getI, addCell, resSet, relCell, resHas, amplifyCaps, isCpuCell, amplify] <;> (repeat' split) <;> omega

/-- **allocate_numa_drawn**: the premise of `numa_within_capacity` need not be assumed for pods that enter through
    `Allocate`: on every (node, resource) cell the modelled `Allocate` (allocateResourcesByHint → trim →
    tryBestToDistributeEvenly over all requested resources, amplified capacities) records at most
    "capacity − recorded" of the ledger it was computed on.  Hint ids come from a bit mask (distinct); a
    resource is requested once (Go map) and has a dim below 16 (cell encoding). -/
theorem allocate_numa_drawn (cfg : NodeCfg) (L : Ledger) (req : AllocReq) (hden : 0 < cfg.den)
    (hhint : ∀ h, req.hint = some h → h.Nodup) (hreqs : (req.reqs.map (·.1)).Nodup)
    (hdim : ∀ r ∈ req.reqs, r.1 < 16) (p : PodAlloc) (h : allocate cfg L req = some p) :
    NumaDrawn (getI cfg.capacity) L (.add p) :=
  fun _ k => allocate_numa_le cfg L req hden hhint hreqs hdim p h k

-- non-vacuity: ratio 3/2, a pod without cpu bind asking 5000 cpu + 3000 memory over the hint {0, 1}
example :
    let cfg : NodeCfg := { topo := (List.range 8).map fun c => { cpu := c, core := c / 2, node := c / 4, socket := 0 },
                           cpc := 2, cpn := 4, cps := 8, maxRef := 1, most := true, reserved := [],
                           caps := [(0, 4000), (1, 8000), (16, 4000), (17, 8000)], num := 3, den := 2 }
    let req : AllocReq := { uid := 1, excl := 0, bind := 0, required := false, cpuBind := false, ncpu := 0,
                            hint := some [0, 1], reqs := [(0, 5000), (1, 3000)] }
    (allocate cfg Ledger.empty req).map (·.numa) = some [(0, 2500), (16, 2500), (1, 1000), (17, 2000)] ∧
    (req.reqs.map (·.1)).Nodup ∧ (∀ r ∈ req.reqs, r.1 < 16) := by decide

/-! ### cpu-bind pods on an amplified node (Proofs/C06ExtAmpBind.lean)

Full statement aimed at (per-NUMA clause of the property, in the unit the capacity is expressed in):

  numa_charged_within : 0 < cfg.den → Inv L → ChargedWithin cfg L → allocate cfg L req = some p →
                          ChargedWithin cfg (step L (.upd p))

where `ChargedWithin` = "what `getAvailableNUMANodeResources` itself charges every NUMA cell (recorded −
cpusets + Amplify(cpusets)) is at most the capacity".  It is FALSE for the code as it is: a cpu-bind pod's RAW
request is compared with (and recorded against) the AMPLIFIED free amount, but its CPUs are charged
Amplify(cpus × 1000).  Proved: the counterexample, and the part that holds (charge = recorded amount when the
ratio is ≤ 1 or no CPU of the node is bound; `numa_within_capacity` then bounds it). -/

/-- raw 4 CPUs, ratio 2 ⇒ capacity 8000; 7000 held by a pod without cpu bind; a cpu-bind pod asking 1 CPU is
    admitted (1000 ≤ 1000 free) and the node is then charged 9000. -/
theorem numa_amplified_bind_counterexample :
    ¬ (∀ (cfg : NodeCfg) (L : Ledger) (req : AllocReq) (p : PodAlloc), 0 < cfg.den → Inv L →
        ChargedWithin cfg L → allocate cfg L req = some p → ChargedWithin cfg (step L (.upd p))) :=
  ampBind_refutes

/-- what holds: without amplification (ratio ≤ 1) or on a NUMA node none of whose CPUs is bound, the charge is
    the recorded amount (which `numa_within_capacity` keeps within the capacity). -/
theorem numa_charged_within_partial (num den : Int) (nodeOf : Nat → Nat) (L : Ledger) (k : Nat)
    (hden : 0 < den) (h : num ≤ den ∨ allocCPUMilli nodeOf L.cpus (k / 16) = 0) :
    chargedCell num den nodeOf L k = getI L.res k :=
  charged_eq_recorded num den nodeOf L k hden h

-- the witness, step by step
example :
    ampBindCfg.capacity = [(0, 8000)] ∧
    availableCellAmp 2 1 ampBindCfg.nodeOf 8000 (run ampBindOps) 0 = 1000 ∧
    (allocate ampBindCfg (run ampBindOps) ampBindReq).map (fun p => (p.cpus, p.numa)) = some ([0], [(0, 1000)]) ∧
    chargedCell 2 1 ampBindCfg.nodeOf
      (step (run ampBindOps) (.upd { uid := 2, excl := 0, cpus := [0], numa := [(0, 1000)] })) 0 = 9000 :=
  ampBind_witness

/-! ## Goroutines: informer `Update` / `Release` ∥ the scheduling goroutine's `Allocate` … `Update`
       (Proofs/C06ExtConc.lean; one `Act` = one critical section of `NodeAllocation.lock`) -/

/-- re-asserting the recorded allocation of a running pod with release + add in ONE critical section
    leaves every ref-count unchanged: no reader can ever see the pod's CPUs free. -/
theorem update_running_pod_noop (ops : List Op) (hok : ∀ op ∈ ops, OpOK op) (uid : Nat) (p : PodAlloc)
    (hf : findPod (run ops).pods uid = some p) (c : Nat) :
    refOf (updatePod (run ops) p).cpus c = refOf (run ops).cpus c :=
  updAtomic_refs (inv_foldl ops _ inv_empty hok) hf c

/-- **no interleaving exposes a held CPU** (one-section shape): from any ledger reached by a history,
    with any number of informer goroutines doing atomic Updates of running pods and Releases, and
    ONE scheduling goroutine doing `read … commit` rounds (Allocate, later Update of the new pod with
    CPUs out of its snapshot), under EVERY schedule no CPU is held by more pods than the sharing
    limit. -/
theorem update_atomic_safe (env : Env) (hmax : 1 ≤ env.maxRef) (htopo : env.topo.Nodup)
    (ops : List Op) (hok : ∀ op ∈ ops, OpOK op) (hb : ∀ c, refOf (run ops).cpus c ≤ env.maxRef)
    (threads : List Thread) (hshape : ShapeOK threads) (hsnap : ∀ t ∈ threads, t.snap = [])
    (sched : List Nat) (c : Nat) :
    holdCount (sysRun env { L := run ops, threads := threads } sched).L.pods c ≤ env.maxRef := by
  have h0 : CInv env { L := run ops, threads := threads } :=
    ⟨inv_foldl ops _ inv_empty hok, hb, fun t ht => by simp [SnapOK, hsnap t ht]⟩
  have h := sysRun_inv env hmax htopo sched _ hshape h0
  rw [← h.inv.refs c]
  exact h.bound c

/-- the split shape (Release in its own section, lock re-taken for the add) is NOT safe: pod 1 runs on
    cpu 0; between the informer's two sections the scheduling goroutine reads {0, 1} as available and
    then gives cpu 0 to pod 2. -/
theorem update_split_counterexample :
    ¬ (∀ (env : Env) (L : Ledger) (threads : List Thread) (sched : List Nat), 1 ≤ env.maxRef → Inv L →
        (∀ c, refOf L.cpus c ≤ env.maxRef) →
        ∀ c, refOf (sysRun env { L := L, threads := threads } sched).L.cpus c ≤ env.maxRef) := by
  intro h
  have := h { topo := [0, 1], maxRef := 1, reserved := [] }
    (run [.upd { uid := 1, excl := 0, cpus := [0], numa := [] }])
    [{ prog := [.read, .commit 2 1] }, { prog := [.updRelease 1, .updAdd] }] [1, 0, 1, 0] (by decide)
    (inv_foldl _ _ inv_empty (by intro op hop; simp at hop; subst hop; simp [OpOK, PodOK]))
    (by
      intro c
      have e : (run [.upd { uid := 1, excl := 0, cpus := [0], numa := [] }]).cpus = [(0, { ref := 1, excl := 0 })] := by
        decide
      rw [e]
      by_cases hc : 0 = c <;> simp [refOf, cpuGet, hc]) 0
  revert this; decide

/-- what is NOT atomic in the code as it is: `Allocate`'s read and the later `Update` are two sections,
    so TWO scheduling goroutines working on the SAME node ledger could hand out the same CPU — the premise
    "one scheduling goroutine per node ledger" (`ShapeOK`) of `update_atomic_safe` is needed.  How the source
    meets it (the only commit of an Allocate result is `Plugin.Reserve`; Reserve runs in the serialized
    scheduling cycle or in the batch engine's one-worker-per-node loop) is tied to extracted call-site facts in
    Ties/C06.lean (`tie_commit_sites`, `tie_reserve_runners`). -/
theorem two_schedulers_counterexample :
    ¬ (∀ (env : Env) (threads : List Thread) (sched : List Nat), 1 ≤ env.maxRef →
        (∀ t ∈ threads, ∀ a ∈ t.prog, isSplit a = false) →
        ∀ c, refOf (sysRun env { L := Ledger.empty, threads := threads } sched).L.cpus c ≤ env.maxRef) := by
  intro h
  have := h { topo := [0, 1], maxRef := 1, reserved := [] }
    [{ prog := [.read, .commit 1 1] }, { prog := [.read, .commit 2 1] }] [0, 1, 0, 1] (by decide)
    (by intro t ht a ha; simp at ht; rcases ht with rfl | rfl <;> simp at ha <;> rcases ha with rfl | rfl <;> rfl) 0
  revert this; decide

-- non-vacuity of `update_atomic_safe`: the same threads in the one-section shape, same schedule
example :
    let env : Env := { topo := [0, 1], maxRef := 1, reserved := [] }
    let ths : List Thread := [{ prog := [.read, .commit 2 1] }, { prog := [.updAtomic 1, .release 7] }]
    ShapeOK ths ∧
    (sysRun env { L := run [.upd { uid := 1, excl := 0, cpus := [0], numa := [] }], threads := ths } [1, 0, 1, 0]).L.pods.map
      (fun p => (p.uid, p.cpus)) = [(2, [1]), (1, [0])] := by
  refine ⟨⟨?_, ?_⟩, by decide⟩
  · intro t ht a ha; simp at ht; rcases ht with rfl | rfl <;> simp at ha <;> rcases ha with rfl | rfl <;> rfl
  · intro i t hi h0
    match i, hi with
    | 1, hi => simp at hi; subst hi; exact ⟨by intro a ha; simp at ha; rcases ha with rfl | rfl <;> rfl, rfl⟩
    | 0, _ => exact absurd rfl h0
    | (n + 2), hi => simp at hi

/-! ## Layer C — picker (`takeCPUs` / `takePreferredCPUs`, Model/C06Pick.lean)

`take_exact` and `preferred_exact` (DESIGN §4 C06) in full: the accumulator invariant `Good avail n` (result
duplicate-free, inside `avail`, `|result| + numCPUsNeeded = n`, `numCPUsNeeded ≥ 0`) is kept by `take` and by
every loop of `takeCPUs` (Proofs/C06Pick.lean); every candidate generator (`freeCoresIn`, `freeCPUsIn`,
`freeCPUsAll`, `spreadCPUs`, `extractCPU`, the insertion sorts) returns duplicate-free lists of still
allocatable CPUs, the per-socket lists being pairwise disjoint (Proofs/C06ExtTakeGen.lean); assembled over the
phase skeleton in Proofs/C06ExtTake.lean.  Only premise: the topology lists every CPU id once (`TopoNodup`;
`CPUDetails` is a Go map keyed by the CPU id). -/

/-- **take_exact**: a successful `takeCPUs` returns exactly the requested number of distinct CPUs, all from
    the set it was given — every topology, free set, allocated table (ref-counts, exclusive marks), bind and
    exclusive policy, sharing limit, NUMA strategy, request. -/
theorem take_exact (ctx : PickCtx) (htopo : TopoNodup ctx) (full : Bool) (avail : List Nat)
    (allocated : List CpuI) (n : Int) (hn : 0 ≤ n) (S : List Nat)
    (h : takeCPUs ctx full avail allocated n = some S) :
    (S.length : Int) = n ∧ S.Nodup ∧ ∀ c ∈ S, c ∈ avail :=
  have := takeCPUs_exact ctx htopo full avail allocated n S h
  ⟨this.2.2 hn, this.1, this.2.1⟩

/-- **preferred_exact**: the same for `takePreferredCPUs`, with any set of preferred (restored) CPUs. -/
theorem preferred_exact (ctx : PickCtx) (htopo : TopoNodup ctx) (full : Bool) (avail preferred : List Nat)
    (allocated : List CpuI) (n : Int) (hn : 0 ≤ n) (S : List Nat)
    (h : takePreferredCPUs ctx full avail preferred allocated n = some S) :
    (S.length : Int) = n ∧ S.Nodup ∧ ∀ c ∈ S, c ∈ avail :=
  have := takePreferredCPUs_exact ctx htopo full avail preferred allocated n S h
  ⟨this.2.2 hn, this.1, this.2.1⟩

/-- a request below zero is answered with the empty set (`isSatisfied` at once), never with an error-free
    non-empty set: the contract without the sign premise. -/
theorem take_exact_any_sign (ctx : PickCtx) (htopo : TopoNodup ctx) (full : Bool) (avail : List Nat)
    (allocated : List CpuI) (n : Int) (S : List Nat) (h : takeCPUs ctx full avail allocated n = some S) :
    S.Nodup ∧ (∀ c ∈ S, c ∈ avail) ∧ (0 ≤ n → (S.length : Int) = n) :=
  takeCPUs_exact ctx htopo full avail allocated n S h

/-- the picker contract the glue relies on. -/
theorem take_contract (ctx : PickCtx) (htopo : TopoNodup ctx) (full : Bool) (allocated : List CpuI) :
    TakeOK ctx full allocated :=
  fun avail need S h => takePreferredCPUs_exact ctx htopo full avail [] allocated need S h

/-- the building blocks (each for ALL admissible candidate lists): `take` keeps the accumulator invariant. -/
theorem take_keeps_good (ctx : PickCtx) {avail : List Nat} {n : Int} {a : Acc}
    (h : Good avail n a) (l : List Nat) (hl : ListOK avail a l) (hfit : (l.length : Int) ≤ a.need) :
    Good avail n (a.take ctx l) := take_good ctx h l hl hfit

/-- a satisfied `Good` accumulator holds exactly `n` distinct CPUs of the free set. -/
theorem good_satisfied_exact {avail : List Nat} {n : Int} {a : Acc} (h : Good avail n a)
    (hs : a.isSatisfied = true) :
    (a.result.length : Int) = n ∧ a.result.Nodup ∧ ∀ c ∈ a.result, c ∈ avail := good_done h hs

/-- `acc.take(cpus[:acc.numCPUsNeeded]...)` on a list with at least that many CPUs. -/
theorem take_prefix_phase (ctx : PickCtx) {avail : List Nat} {n : Int} {a : Acc}
    (h : Good avail n a) (l : List Nat) (hl : ListOK avail a l) (hfit : (l.length : Int) ≥ a.need) :
    ((a.take ctx (l.take a.need.toNat)).result.length : Int) = n ∧
    (a.take ctx (l.take a.need.toNat)).result.Nodup ∧
    ∀ c ∈ (a.take ctx (l.take a.need.toNat)).result, c ∈ avail := take_prefix_exact ctx h l hl hfit

/-- whole-socket phase: any number of sockets, any list sizes. -/
theorem take_whole_phase (ctx : PickCtx) {avail : List Nat} {n : Int} (ls : List (List Nat))
    (a : Acc) (h : Good avail n a) (hl : ListsOK avail a ls) :
    Good avail n (takeWhole ctx a ls []).2.1 ∧
    ((takeWhole ctx a ls []).1 = true → (takeWhole ctx a ls []).2.1.isSatisfied = true) ∧
    ListsOK avail (takeWhole ctx a ls []).2.1 (takeWhole ctx a ls []).2.2 :=
  takeWhole_good ctx ls a [] h (by simpa using hl)

/-- core-by-core phase over the unsatisfied sockets, with the guard of the repaired code. -/
theorem take_cores_phase (ctx : PickCtx) {avail : List Nat} {n : Int} (ls : List (List Nat))
    (a : Acc) (h : Good avail n a) (hl : ListsOK avail a ls) :
    Good avail n (takeCores ctx a ls).2 ∧
    ((takeCores ctx a ls).1 = true → (takeCores ctx a ls).2.isSatisfied = true) :=
  takeCores_good ctx ls a h hl

/-- one-by-one phase. -/
theorem take_singles_phase (ctx : PickCtx) {avail : List Nat} {n : Int} (cs : List Nat)
    (a : Acc) (h : Good avail n a) (hl : ListOK avail a cs) :
    Good avail n (takeSingles ctx a cs).2 ∧
    ((takeSingles ctx a cs).1 = true → (takeSingles ctx a cs).2.isSatisfied = true) :=
  takeSingles_good ctx cs a h hl

/-- generator admissibility: the per-node / per-socket full-core lists are duplicate-free lists of allocatable
    CPUs and pairwise disjoint; the free-CPU lists and the global list are duplicate-free lists of allocatable
    CPUs; `spreadCPUs` only reorders. -/
theorem generators_admissible (ctx : PickCtx) (a : Acc) (hnd : (a.alloc.map (·.cpu)).Nodup) :
    (∀ byNode ff fe, ListsFrom a.alloc (freeCoresIn ctx a byNode ff fe)) ∧
    (∀ byNode fe, ∀ l ∈ freeCPUsIn ctx a byNode fe, FromInfos a.alloc l) ∧
    (∀ fe, FromInfos a.alloc (freeCPUsAll ctx a fe)) ∧
    (∀ l, (spreadCPUs ctx l).Perm l) :=
  ⟨fun byNode ff fe => freeCoresIn_ok ctx a hnd byNode ff fe, fun byNode fe => freeCPUsIn_ok ctx a hnd byNode fe,
   fun fe => freeCPUsAll_ok ctx a hnd fe, fun l => spreadCPUs_perm ctx l⟩

/-- the exclusive-policy filter (a PREFERENCE in the code: every search runs first with `filterExclusive = true`, then
    without): the candidates of the first pass contain no CPU on a core marked by a PCPULevel-exclusive pod when the pod
    asks PCPULevel, and none on a NUMA node marked by a NUMANodeLevel-exclusive pod when it asks NUMANodeLevel. -/
theorem excl_filter_sound (ctx : PickCtx) (a : Acc) (hnd : (a.alloc.map (·.cpu)).Nodup) :
    (∀ x ∈ freeCPUsAll ctx a true,
      ∃ i ∈ a.alloc, i.cpu = x ∧ exclPCPU ctx a i = false ∧ exclNUMA ctx a i = false) ∧
    (∀ byNode, ∀ l ∈ freeCPUsIn ctx a byNode true, ∀ x ∈ l,
      ∃ i ∈ a.alloc, i.cpu = x ∧ exclPCPU ctx a i = false ∧ (byNode = true → exclNUMA ctx a i = false)) :=
  ⟨freeCPUsAll_excl_sound ctx a hnd, fun byNode => freeCPUsIn_excl_sound ctx a byNode⟩

/-! ### the glue `Allocate → allocateCPUSet` and the policy check (Model/C06Alloc.lean) -/

/-- **alloc_exact**: a successful `allocateCPUSet` — through the per-NUMA-node loop or in one go —
    returns exactly `numCPUsNeeded` distinct CPUs, all available to the pod in the ledger of that
    moment, and when a bind policy is required the set passes `satisfiedRequiredCPUBindPolicy`. -/
theorem alloc_exact (cfg : NodeCfg) (L : Ledger) (req : AllocReq) (numaNodes : List (Nat × Int))
    (htopo : cfg.cpuIds.Nodup) (hn : 0 ≤ req.ncpu)
    (S : List Nat) (h : allocateCPUSet cfg L req numaNodes = some S) :
    (S.length : Int) = req.ncpu ∧ S.Nodup ∧
    (∀ c ∈ S, c ∈ availableCPUs cfg.cpuIds L.cpus cfg.maxRef cfg.reserved []) ∧
    (req.required = true → satisfiedPolicy req.bind cfg.coreOf cfg.cpc S = true) :=
  allocateCPUSet_exact cfg L req numaNodes (take_contract (cfg.pickCtx req.excl) htopo _ _) hn S h

/-- hence every CPU handed out is in the topology, not reserved, and held by fewer pods than the sharing limit
    (the max-ref-count filter of `getAvailableCPUs`). -/
theorem alloc_within_limit (cfg : NodeCfg) (L : Ledger) (req : AllocReq) (numaNodes : List (Nat × Int))
    (htopo : cfg.cpuIds.Nodup) (hn : 0 ≤ req.ncpu) (hmax : 1 ≤ cfg.maxRef)
    (S : List Nat) (h : allocateCPUSet cfg L req numaNodes = some S) :
    ∀ c ∈ S, c ∈ cfg.cpuIds ∧ c ∉ cfg.reserved ∧ refOf L.cpus c < cfg.maxRef := fun c hc =>
  (available_spec cfg.cpuIds L.cpus cfg.maxRef cfg.reserved hmax c).mp
    ((alloc_exact cfg L req numaNodes htopo hn S h).2.2.1 c hc)

/-- what `Allocate` returns is `Drawn` (premise of `share_limit`) for the ledger it was computed on:
    so a history in which every pod enters through Allocate + Update never exceeds the sharing limit. -/
theorem allocate_drawn (cfg : NodeCfg) (L : Ledger) (req : AllocReq)
    (htopo : cfg.cpuIds.Nodup) (hn : 0 ≤ req.ncpu)
    (p : PodAlloc) (h : allocate cfg L req = some p) :
    Drawn cfg.cpuIds cfg.maxRef cfg.reserved L (.add p) := by
  intro _
  have := allocate_cpus_drawn cfg L req (take_contract (cfg.pickCtx req.excl) htopo _ _) hn p h
  exact ⟨this.2.1, this.2.2.1⟩

/-- the same two statements relative to an assumed picker contract (the form of the previous round; kept). -/
theorem alloc_exact_of_contract (cfg : NodeCfg) (L : Ledger) (req : AllocReq) (numaNodes : List (Nat × Int))
    (htake : TakeOK (cfg.pickCtx req.excl) (req.bind == 1) (allocatedInfos cfg L)) (hn : 0 ≤ req.ncpu)
    (S : List Nat) (h : allocateCPUSet cfg L req numaNodes = some S) :
    (S.length : Int) = req.ncpu ∧ S.Nodup ∧
    (∀ c ∈ S, c ∈ availableCPUs cfg.cpuIds L.cpus cfg.maxRef cfg.reserved []) ∧
    (req.required = true → satisfiedPolicy req.bind cfg.coreOf cfg.cpc S = true) :=
  allocateCPUSet_exact cfg L req numaNodes htake hn S h

theorem allocate_drawn_of_contract (cfg : NodeCfg) (L : Ledger) (req : AllocReq)
    (htake : TakeOK (cfg.pickCtx req.excl) (req.bind == 1) (allocatedInfos cfg L)) (hn : 0 ≤ req.ncpu)
    (p : PodAlloc) (h : allocate cfg L req = some p) :
    Drawn cfg.cpuIds cfg.maxRef cfg.reserved L (.add p) := by
  intro _
  have := allocate_cpus_drawn cfg L req htake hn p h
  exact ⟨this.2.1, this.2.2.1⟩

/-- **policy_sound**: a required policy that `satisfiedRequiredCPUBindPolicy` reports satisfied really
    is.  SpreadByPCPUs: no two of the CPUs are on one core.  FullPCPUs: on a topology `T`
    (duplicate-free CPU ids) whose cores have at most `cpc` = CPUsPerCore CPUs, a duplicate-free CPU
    set inside `T` contains, with every CPU, ALL CPUs of that CPU's core. -/
theorem policy_sound (core : Nat → Nat) (cpc : Nat) (T cpus : List Nat) (hT : T.Nodup)
    (hreg : ∀ k, (T.filter (fun c => core c == k)).length ≤ cpc)
    (hnd : cpus.Nodup) (hsub : ∀ c ∈ cpus, c ∈ T) :
    (satisfiedPolicy 2 core cpc cpus = true → (cpus.map core).Nodup) ∧
    (satisfiedPolicy 1 core cpc cpus = true → ∀ c ∈ cpus, ∀ c' ∈ T, core c' = core c → c' ∈ cpus) :=
  ⟨spread_sound core cpc cpus, full_sound core cpc T cpus hT hreg hnd hsub⟩

-- non-vacuity: 4 cores x 2 threads; {2,3,6,7} is accepted as FullPCPUs, {2,3,6} and {0,2} are not / are Spread
example :
    satisfiedPolicy 1 (· / 2) 2 [2, 3, 6, 7] = true ∧ satisfiedPolicy 1 (· / 2) 2 [2, 3, 6] = false ∧
    satisfiedPolicy 2 (· / 2) 2 [0, 2] = true ∧ satisfiedPolicy 2 (· / 2) 2 [2, 3] = false ∧
    (∀ k, ((List.range 8).filter (fun c => c / 2 == k)).length ≤ 2) := by
  refine ⟨by decide, by decide, by decide, by decide, fun k => ?_⟩
  by_cases h : k < 4
  · have : k = 0 ∨ k = 1 ∨ k = 2 ∨ k = 3 := by omega
    rcases this with rfl | rfl | rfl | rfl <;> decide
  · have : (List.range 8).filter (fun c => c / 2 == k) = [] := by
      apply List.filter_eq_nil_iff.mpr
      intro c hc
      have : c < 8 := List.mem_range.mp hc
      simp; omega
    simp [this]

-- non-vacuity: 1 socket x 2 nodes x 2 cores x 2 threads, ratio 3/2, a required-FullPCPUs pod with NUMA hint {1}
example :
    let topo : List CpuI := (List.range 8).map fun c => { cpu := c, core := c / 2, node := c / 4, socket := 0 }
    let cfg : NodeCfg := { topo := topo, cpc := 2, cpn := 4, cps := 8, maxRef := 1, most := true, reserved := [5],
                           caps := [(0, 4000), (16, 4000)], num := 3, den := 2 }
    let req : AllocReq := { uid := 1, excl := 0, bind := 1, required := true, cpuBind := true, ncpu := 2,
                            hint := some [1], reqs := [(0, 2000)] }
    cfg.capacity = [(0, 6000), (16, 6000)] ∧
    (allocate cfg Ledger.empty req).map (fun p => (p.cpus, p.numa)) = some ([6, 7], [(16, 2000)]) := by decide

-- non-vacuity + regression: 3 sockets x 4 cores x 2 threads, free {2-7, 8-11, 16-19}, request 9 CPUs with
-- FullPCPUs (the input on which the unrepaired loop returned 10 CPUs) gives exactly 9 CPUs of the free set.
example :
    let topo : List CpuI := (List.range 24).map fun c =>
      { cpu := c, core := c / 2, node := c / 8, socket := c / 8 }
    let ctx : PickCtx := { topo := topo, cpc := 2, cpn := 8, cps := 8, maxRef := 1, excl := 1, most := true }
    let avail := [2, 3, 4, 5, 6, 7, 8, 9, 10, 11, 16, 17, 18, 19]
    (takeCPUs ctx true avail [] 9).map (fun S => pickCheck avail 9 S) = some true := by decide

-- non-vacuity of `TopoNodup` on that topology
example : TopoNodup { topo := (List.range 24).map fun c => { cpu := c, core := c / 2, node := c / 8, socket := c / 8 },
                      cpc := 2, cpn := 8, cps := 8, maxRef := 1, excl := 1, most := true } := by
  unfold TopoNodup; decide

/-! ## Informer glue (round 3): events → ledger -/

/-- **terminal_update_releases**: an OnUpdate whose new object is assigned to a node and has phase Succeeded / Failed is
    decoded to exactly `Release(node, uid)` - whatever the old object was (in particular when nothing but the status
    changed) - after which the pod is recorded nowhere on that node, and no other pod's record moved.  (updatePod is the
    only place that releases a completed pod; skipping status-only updates keeps a finished Job pod's CPUs forever.) -/
theorem terminal_update_releases (M : Mgr) (old new : PodObj) (huid : old.uid = new.uid) (hn : new.node ≠ 0)
    (ht : new.term = true) :
    decode (.podUpdate old new) = [.release new.node new.uid] ∧
    findPod ((handle M (.podUpdate old new)).L new.node).pods new.uid = none ∧
    (∀ m u, u ≠ new.uid → findPod ((handle M (.podUpdate old new)).L m).pods u = findPod (M.L m).pods u) := by
  have hd : decode (.podUpdate old new) = [.release new.node new.uid] := by
    simp [decode, decodeUpdate, decodeDelete, hn, ht, huid]
  have hh : handle M (.podUpdate old new) = M.apply (.release new.node new.uid) := by
    show (decode (.podUpdate old new)).foldl Mgr.apply M = _
    rw [hd]; rfl
  refine ⟨hd, ?_, ?_⟩
  · rw [hh]; simp [Mgr.apply, setL_L, findPod_releasePod]
  · intro m u hu
    rw [hh]
    simp only [Mgr.apply, setL_L]
    split
    · rename_i hm; subst hm; rw [findPod_releasePod, if_neg hu]
    · rfl

/-- **topology arrives ⇒ re-recorded on the next update**: any update (also a pure status heartbeat, `old = new`) of a live
    pod with a well-formed allocation that reaches the manager while the node's topology is valid records exactly the
    annotation's allocation - so a pod dropped earlier by `Update` (no valid CPU topology yet) enters the ledger. -/
theorem topology_late_rerecorded (M : Mgr) (old new : PodObj) (huid : old.uid = new.uid) (hn : new.node ≠ 0)
    (ht : new.term = false) (ha : new.annOK = true) (hv : M.valid new.node = true) :
    findPod ((handle M (.podUpdate old new)).L new.node).pods new.uid = some new.alloc := by
  have hd : decode (.podUpdate old new) = [.update new.node new.alloc] := by
    simp only [PodObj.annOK, Bool.and_eq_true, bne_iff_ne, ne_eq, Bool.or_eq_true, beq_iff_eq,
      Bool.not_eq_eq_eq_not, Bool.not_true] at ha
    obtain ⟨⟨⟨h1, h2⟩, h3⟩, h4⟩ := ha
    have h3' : (decide (new.st = 2) && decide (new.cs ≠ 0)) = false := by
      rcases h3 with h3 | h3
      · simp [h3]
      · simp [h3]
    simp only [decode, ne_eq, huid, not_true_eq_false, decodeUpdate, if_neg hn, ht, Bool.false_eq_true, ↓reduceIte,
      if_neg h1, if_neg h2, h3', h4]
  show findPod (((decode (.podUpdate old new)).foldl Mgr.apply M).L new.node).pods new.uid = _
  rw [hd]
  simp only [List.foldl_cons, List.foldl_nil, Mgr.apply, hv, ↓reduceIte, setL_L, findPod_updatePod]
  simp [PodObj.alloc]

/-- **ledger_eq_live_after_events**: for ALL well-formed informer histories (pod add / update / delete incl. tombstones and
    re-lists, nodeName set late or cleared, malformed annotations, topology add / update / delete at any time, objects of
    another type) over any number of cluster nodes:
    (1) every pod recorded in the ledger of node `n` is live on `n` (delivered, no delete delivered, phase not
        Succeeded / Failed, spec.nodeName = n);
    (2) if the world is settled - every live pod that ever carried a well-formed allocation got its latest event while
        its node's topology was valid and with a well-formed allocation - the ledger of `n` holds EXACTLY the
        allocations written in the annotations of the pods live on `n`;
    (3,4) RefCount(c) = number of recorded pods holding c and every NUMA cell = sum of the recorded pods' amounts.
    Together: ledger == Σ allocations of the live pods.  `HistoryWF`: what an informer guarantees (see `EventWF`). -/
theorem ledger_eq_live_after_events (evs : List Event) (hwf : HistoryWF (Mgr.empty, fun _ => none) evs) :
    let M := runEvents evs
    let W := (erun evs).2
    (∀ n p, p ∈ (M.L n).pods → ∃ w, W p.uid = some w ∧ w.liveOn n) ∧
    (Settled W → ∀ n p, p ∈ (M.L n).pods ↔
        ∃ w, W p.uid = some w ∧ w.liveOn n ∧ w.everOK = true ∧ p = w.obj.alloc) ∧
    (∀ n c, refOf (M.L n).cpus c = holdCount (M.L n).pods c) ∧
    (∀ n k, getI (M.L n).res k = cellSum (M.L n).pods k) := by
  intro M W
  have h := einv_erun evs hwf
  rw [erun_fst] at h
  change EInv M W at h
  refine ⟨?_, ?_, fun n c => (h.inv n).refs c, fun n k => (h.inv n).cells k⟩
  · intro n p hp
    obtain ⟨w, hw, hl, _⟩ := h.recL n p.uid p (findPod_of_mem (h.inv n).uids hp)
    exact ⟨w, hw, hl⟩
  · intro hs n p
    constructor
    · intro hp
      have hf := findPod_of_mem (h.inv n).uids hp
      obtain ⟨w, hw, hl, he⟩ := h.recL n p.uid p hf
      have hfresh := hs p.uid w hw hl.1 hl.2.1 (by rw [hl.2.2.1]; exact hl.2.2.2) he
      have := (h.frsh p.uid w hw hfresh).2
      rw [hl.2.2.1, hf] at this
      exact ⟨w, hw, hl, he, by cases this; rfl⟩
    · rintro ⟨w, hw, hl, he, rfl⟩
      have hu := h.uidk _ w hw
      have hfresh := hs _ w hw hl.1 hl.2.1 (by rw [hl.2.2.1]; exact hl.2.2.2) he
      have := (h.frsh _ w hw hfresh).2
      rw [hl.2.2.1] at this
      exact (findPod_some this).1


-- non-vacuity: pod 1 (cpus {0,1}, 2000m on NUMA 0) is added on node 1 BEFORE the node's topology, the topology
-- arrives, a status heartbeat re-records it; pod 2 is added and completes (phase -> Succeeded, nothing else changes).
def exP1 : PodObj := { uid := 1, node := 1, term := false, st := 2, sp := 2, cs := 0, excl := 2, cpus := [0, 1], numa := [(0, 2000)] }
def exP2 : PodObj := { uid := 2, node := 1, term := false, st := 2, sp := 0, cs := 0, excl := 0, cpus := [2], numa := [] }
def exHist : List Event :=
  [.podAdd exP1, .topo 1 true, .podUpdate exP1 exP1, .podAdd exP2, .podUpdate exP2 { exP2 with term := true }]

example : ((runEvents (exHist.take 2)).L 1).pods = [] := by decide
example : ((runEvents exHist).L 1).pods = [exP1.alloc] ∧ refOf ((runEvents exHist).L 1).cpus 2 = 0 ∧
    refOf ((runEvents exHist).L 1).cpus 0 = 1 ∧ getI ((runEvents exHist).L 1).res 0 = 2000 := by decide

example : HistoryWF (Mgr.empty, fun _ => none) exHist := by
  simp [HistoryWF, EventWF, exHist, estep, track, deliver, delivered, handle, decode, decodeUpdate,
    exP1, exP2, PodOK, PodObj.alloc, PodObj.statusNuma, PodObj.statusCpus]

example : Settled (erun exHist).2 := by
  intro u w hw hd ht hn he
  have hW : (erun exHist).2 = deliver (runEvents (exHist.take 4)).valid
      (deliver (runEvents (exHist.take 3)).valid (deliver (runEvents (exHist.take 2)).valid
        (deliver Mgr.empty.valid (fun _ => none) exP1) exP1) exP2) { exP2 with term := true } := by
    simp [erun, exHist, estep, track, runEvents, exP1, exP2]
  rw [hW] at hw
  by_cases h2 : u = 2
  · subst h2
    simp [deliver, exP2] at hw
    subst hw
    simp [delivered] at ht
  · by_cases h1 : u = 1
    · subst h1
      simp [deliver, exP2, exP1] at hw
      subst hw
      simp [delivered, runEvents, exHist, handle, decode, decodeUpdate, exP1, PodObj.annOK, PodObj.statusNuma,
        PodObj.statusCpus, Mgr.apply, Mgr.empty]
    · simp [deliver, exP2, exP1, h1, h2] at hw

/-- **fresh ⇒ recorded** (oracle clause C, at every point of every well-formed history): a pod whose latest event carried
    a well-formed allocation and reached the manager while its node's topology was valid is live on that node and
    recorded there with exactly the allocation of its annotation. -/
theorem fresh_pod_recorded (evs : List Event) (hwf : HistoryWF (Mgr.empty, fun _ => none) evs)
    (u : Nat) (w : PodW) (hw : (erun evs).2 u = some w) (hf : w.fresh = true) :
    w.liveOn w.obj.node ∧ findPod ((runEvents evs).L w.obj.node).pods u = some w.obj.alloc := by
  have h := einv_erun evs hwf
  rw [erun_fst] at h
  exact h.frsh u w hw hf

/-- **allocations after the history**: after a settled well-formed history, with sharing limit 1, a successful Allocate on
    the ledger of node `n` hands out no CPU that the annotation of a pod live on `n` names - the ledger the informer glue
    built is good enough for `allocate_drawn` to mean "free in the world". -/
theorem alloc_after_events_disjoint (evs : List Event) (hwf : HistoryWF (Mgr.empty, fun _ => none) evs)
    (hs : Settled (erun evs).2) (cfg : NodeCfg) (n : Nat) (req : AllocReq)
    (htopo : cfg.cpuIds.Nodup) (hn : 0 ≤ req.ncpu) (hmax : cfg.maxRef = 1)
    (p : PodAlloc) (h : allocate cfg ((runEvents evs).L n) req = some p) :
    ∀ c ∈ p.cpus, ∀ u w, (erun evs).2 u = some w → w.liveOn n → w.everOK = true → c ∉ w.obj.alloc.cpus := by
  intro c hc u w hw hl he hmem
  have hdrawn := (allocate_cpus_drawn cfg _ req (take_contract (cfg.pickCtx req.excl) htopo _ _) hn p h).2.2.1 c hc
  have hlt := ((available_spec cfg.cpuIds _ cfg.maxRef cfg.reserved (by omega) c).mp hdrawn).2.2
  have hall := ledger_eq_live_after_events evs hwf
  simp only at hall
  have hu : w.obj.alloc.uid = u := (einv_erun evs hwf).uidk u w hw
  have hin : w.obj.alloc ∈ ((runEvents evs).L n).pods :=
    (hall.2.1 hs n w.obj.alloc).mpr ⟨w, by rw [hu]; exact hw, hl, he, rfl⟩
  have href := hall.2.2.1 n c
  have hle := cnt_le_holdCount hin c
  have hpos : 1 ≤ cnt w.obj.alloc.cpus c := by
    unfold cnt
    have := List.count_pos_iff.mpr hmem
    omega
  omega

/-- a live, assigned pod: updatePod does nothing or calls Update with the annotation's allocation. -/
theorem decodeUpdate_live (old : Option PodObj) (new : PodObj) (hn : new.node ≠ 0) (ht : new.term = false) :
    decodeUpdate old new = [] ∨ decodeUpdate old new = [.update new.node new.alloc] := by
  unfold decodeUpdate
  rw [if_neg hn]
  simp only [ht, Bool.false_eq_true, ↓reduceIte]
  split
  · exact Or.inl rfl
  · split
    · exact Or.inl rfl
    · split
      · exact Or.inl rfl
      · split
        · exact Or.inl rfl
        · exact Or.inr rfl

/-- **the informer's re-assertion is a no-op** (premise of `update_atomic_safe`, now for the event path): an add / update
    event of a live pod whose annotation carries the allocation the ledger already records for it (what PreBind wrote
    after Reserve) leaves every pod record of every node as it was. -/
theorem informer_reassert_keeps_records (M : Mgr) (old : Option PodObj) (new : PodObj)
    (hn : new.node ≠ 0) (ht : new.term = false)
    (hrec : findPod (M.L new.node).pods new.uid = some new.alloc) (m u : Nat) :
    findPod (((decodeUpdate old new).foldl Mgr.apply M).L m).pods u = findPod (M.L m).pods u := by
  rcases decodeUpdate_live old new hn ht with h | h
  · rw [h]; rfl
  · rw [h]
    simp only [List.foldl_cons, List.foldl_nil, Mgr.apply]
    split
    · simp only [setL_L]
      split
      · rename_i hm; subst hm
        rw [findPod_updatePod]
        split
        · rename_i hu; rw [hu]; exact hrec.symm
        · rfl
      · rfl
    · rfl

/-- **changed UID ⇒ the old pod is released** (repaired in /repo by 224a2b7; before, `OnUpdate` handed the pair to
    updatePod, which recorded the new pod and never released the old UID: C06:events-replaced-pod-in-ledger).  A shared
    informer delivers OnUpdate(old, new) with DIFFERENT UIDs when a pod was deleted and re-created under the same name
    while the watch was down (the re-list replaces the stored object; no delete event for the old UID follows): the
    event decodes to deletePod(old) followed by updatePod(nil, new), and afterwards the old UID is recorded nowhere on its
    node.  Such events are part of `EventWF`, so `ledger_eq_live_after_events` covers histories that contain them. -/
theorem uid_swap_releases_old (M : Mgr) (old new : PodObj) (huid : old.uid ≠ new.uid) (hn : old.node ≠ 0) :
    decode (.podUpdate old new) = .release old.node old.uid :: decodeUpdate none new ∧
    findPod ((M.apply (.release old.node old.uid)).L old.node).pods old.uid = none := by
  refine ⟨by simp [decode, decodeDelete, huid, hn], ?_⟩
  simp [Mgr.apply, setL_L, findPod_releasePod]

-- the replaced pod really leaves the ledger: pod 1 (cpus {0,1}) is replaced by pod 2 (cpus {2}) on node 1
example : ((runEvents [.topo 1 true, .podAdd exP1, .podUpdate exP1 exP2]).L 1).pods.map (·.uid) = [2] := by decide

/-! ## First touch of a node name (round 3): get-or-create of the ledger object -/

/-- **goc_no_lost_update**: getOrCreateNodeAllocation with a miss path that looks the name up inside the section that
    stores (with or without a read-locked fast path), any number of goroutines, EVERY schedule: every object a
    goroutine obtained and every pod record written is in the one object the map holds; a goroutine that finished has
    its record there. -/
theorem goc_no_lost_update (fast : Bool) (sched : List Nat) :
    let s := grun fast true sched
    (∀ i o, (s.th i).got = some o → s.map = some o) ∧
    (∀ r ∈ s.recs, s.map = some r.1) ∧
    (∀ i, (s.th i).pc = 3 → ∃ o, s.map = some o ∧ (o, i) ∈ s.recs) := by
  intro s
  have h := ginv_run fast sched
  exact ⟨h.held, h.recs, h.done⟩

/-- fast path + blind store: goroutines 0 and 1 both miss, 0 stores object 0 and records its pod there, 1 stores object
    1 over it: the record of goroutine 0 is lost (its CPUs read as free). -/
theorem goc_blind_store_counterexample :
    ¬ (∀ r ∈ (grun true false [0, 1, 0, 0, 1, 1]).recs, (grun true false [0, 1, 0, 0, 1, 1]).map = some r.1) := by
  decide


/-! ## Extension round 4 — NodeResourceTopology → zone capacities; reservation restore arithmetic -/

/-- **zone_capacity_excludes_reserved_any_ids**: for EVERY topology, reserved set and NUMA id `nd` (ids need not be
    0..n-1, nor below `NumNodes`): the cpu amount `NewTopologyOptions` stores for zone `nd` is the reported amount minus
    1000 per reserved CPU whose NUMA id is `nd`; in particular a zone that reports all CPUs of its id is left with
    exactly the CPUs of that id that are not reserved - the amount that can ever be allocated there. -/
theorem zone_capacity_excludes_reserved_any_ids (topo : List CpuI) (reserved : List Nat) (nd : Nat) :
    (∀ raw : Int, raw ≠ 0 → zoneCPUCapacity topo reserved nd raw =
        raw - 1000 * ((topo.filter (fun i => i.node == nd && reserved.contains i.cpu)).length : Int)) ∧
    zoneCPUCapacity topo reserved nd (1000 * ((topo.filter (fun i => i.node == nd)).length : Int)) =
      1000 * ((topo.filter (fun i => i.node == nd && !reserved.contains i.cpu)).length : Int) :=
  ⟨fun raw h => by simp [zoneCPUCapacity, reservedOnNode, h], zoneCap_all_reported topo reserved nd⟩

/-- the reserved set is the union of the four sources of the report; the system-QoS cpuset counts only when it is
    exclusive; a static pod counts only when kubelet manages it, it has a uid and a well-formed non-empty cpuset. -/
theorem nrt_reserved_sources (static : List StaticPod) (kubelet nodeRsv sysq : List Nat) (sysqExcl : Bool) (c : Nat) :
    c ∈ nrtReserved static kubelet nodeRsv sysq sysqExcl ↔
      c ∈ podAllocsCPUs static ∨ c ∈ kubelet ∨ c ∈ nodeRsv ∨ (sysqExcl = true ∧ c ∈ sysq) :=
  mem_nrtReserved static kubelet nodeRsv sysq sysqExcl c

/-- the counter slice indexed by NUMA id and sized `NumNodes` is NOT that function: two NUMA nodes with ids 0 and 2,
    four CPUs each, CPUs 4 and 5 (on id 2) reserved - zone 2 keeps 4000 where only 2000 can ever be allocated; it
    agrees with the rescan only while every id is below `NumNodes`. -/
theorem zone_capacity_indexed_counter_counterexample :
    ¬ (∀ (topo : List CpuI) (reserved : List Nat) (nd : Nat) (raw : Int),
        zoneCPUCapacityIndexed topo reserved (nrtNumNodes topo) nd raw = zoneCPUCapacity topo reserved nd raw) := by
  intro h
  have := h ((List.range 8).map fun c => { cpu := c, core := c / 2, node := c / 4 * 2, socket := 0 }) [4, 5] 2 4000
  revert this; decide

theorem zone_capacity_indexed_agrees_below (topo : List CpuI) (reserved : List Nat) (numNodes nd : Nat) (raw : Int)
    (h : nd < numNodes) :
    zoneCPUCapacityIndexed topo reserved numNodes nd raw = zoneCPUCapacity topo reserved nd raw :=
  indexed_eq_of_lt topo reserved numNodes nd raw h

-- non-vacuity: ids {0, 2}, kubelet reserves CPU 4, a static pod CPU 5, a non-exclusive system-QoS set CPU 6
example :
    let topo : List CpuI := (List.range 8).map fun c => { cpu := c, core := c / 2, node := c / 4 * 2, socket := 0 }
    let reserved := nrtReserved [{ managed := true, hasUID := true, cpusOK := true, cpus := [5] }] [4] [] [6] false
    reserved = [5, 4] ∧
    nrtCaps topo reserved [{ kind := 0, id := 2, cpu := some 4000, mem := some 8000 },
                           { kind := 1, id := 1, cpu := some 4000, mem := none },
                           { kind := 0, id := 0, cpu := some 4000, mem := none }] = [(0, 4000), (32, 2000), (33, 8000)] ∧
    nrtNumNodes topo = 2 := by decide

/-- **restore_never_reports_held_amount_free** (the code as it is: SIGNED remainder).  On a NUMA cell let `X` be what
    pods owning no reservation hold, `n` the nominated reservation (r = its reserve pod's record, o = its owners'
    records - `o` may exceed `r` by any amount), `um` / `mo` the other reservations handed to RestoreReservation as
    unmatched / matched.  If no OTHER reservation is over-used on the cell, then what getAvailableNUMANodeResources
    reports free for a pod nominated to `n` plus what live (non-reserve) pods hold is at most the capacity: cpu that
    live pods hold is never reported free.  Second part: the same for the node path (no nominated reservation). -/
theorem restore_never_reports_held_amount_free (cap X : Int) (um mo : List RC) :
    (∀ n : RC, (∀ x ∈ um, 0 ≤ x.o ∧ x.o ≤ x.r) → (∀ x ∈ um, RCWF x) → (∀ x ∈ mo, x.o ≤ x.r) →
        heldLive X um mo (some n) ≤ cap →
        reportedFree cap (ledgerTotal X um mo (some n)) (reuseRsvCell false um (n :: mo) n) +
          heldLive X um mo (some n) ≤ cap) ∧
    ((∀ x ∈ um, 0 ≤ x.o ∧ x.o ≤ x.r) → (∀ x ∈ um, RCWF x) → (∀ x ∈ mo, x.o ≤ x.r) →
        heldLive X um mo none ≤ cap →
        reportedFree cap (ledgerTotal X um mo none) (reuseNodeCell false um mo) + heldLive X um mo none ≤ cap) :=
  ⟨fun n h1 h2 h3 h4 => restore_rsv_path cap X um mo n h1 h2 h3 h4,
   fun h1 h2 h3 h4 => restore_node_path cap X um mo h1 h2 h3 h4⟩

/-- the position of the nominated reservation in the matched list is irrelevant (Go map iteration). -/
theorem restore_reusable_any_order (clamp : Bool) (um pre post : List RC) (n : RC) :
    reuseRsvCell clamp um (pre ++ n :: post) n = reuseRsvCell clamp um (n :: (pre ++ post)) n :=
  reuseRsvCell_perm clamp um pre post n

/-- the CLAMPED remainder (subtractAllocated(…, true) in RestoreReservation) refutes the statement with nothing but
    the nominated reservation on the node: capacity 8000, R = 4000, its owner A holds 6000 - 4000 are reported free
    for a second owner B, live pods then hold 10000 of 8000. -/
theorem restore_clamped_counterexample :
    ¬ (∀ (cap X : Int) (n : RC), 0 ≤ X → 0 ≤ n.o → 0 ≤ n.r → heldLive X [] [] (some n) ≤ cap →
        reportedFree cap (ledgerTotal X [] [] (some n)) (reuseRsvCell true [] [n] n) + heldLive X [] [] (some n) ≤ cap) := by
  intro h
  have := h 8000 0 { r := 4000, o := 6000 } (by decide) (by decide) (by decide) (by decide)
  revert this; decide

/-- … and on the executable model of the whole path (ledger → RestoreReservation → tryAllocateFromReusable →
    Allocate): one NUMA node with 8 CPUs, R (uid 1) 4000, owner A (uid 2) 6000; B (4000) nominated to R is refused by
    the code as it is and admitted by the clamped shape. -/
theorem restore_clamped_counterexample_exec :
    let cfg : NodeCfg := nrtCfg ((List.range 8).map fun c => { cpu := c, core := c / 2, node := 0, socket := 0 }) true []
                           [{ kind := 0, id := 0, cpu := some 8000, mem := none }]
    let L : Ledger := run [.upd { uid := 1, excl := 0, cpus := [], numa := [(0, 4000)] },
                           .upd { uid := 2, excl := 0, cpus := [], numa := [(0, 6000)] }]
    let q : RsvReq := { uid := 3, hint := [0], reqs := [(0, 4000)], matched := [{ uid := 1, owners := [2] }],
                        unmatched := [], nominated := some 1 }
    reserveRsv false cfg L q = none ∧
    (reserveRsv true cfg L q).map (·.numa) = some [(0, 4000)] := by decide

/-- the hypothesis "no OTHER reservation is over-used" cannot be dropped for the code as it is: an UNMATCHED
    reservation R = 4000 whose owner holds 6000 on an 8000 cell gives back 6000, the cell is charged 4000 and 4000
    are reported free to a stranger while live pods hold 6000 (reproduced on the implementation with
    VERIF_C06_RSVOTHER=1: fingerprint C06:rsv-live-over-capacity). -/
theorem restore_overused_other_counterexample :
    ¬ (∀ (cap X : Int) (um : List RC), 0 ≤ X → (∀ x ∈ um, 0 ≤ x.o ∧ 0 ≤ x.r ∧ RCWF x) → heldLive X um [] none ≤ cap →
        reportedFree cap (ledgerTotal X um [] none) (reuseNodeCell false um []) + heldLive X um [] none ≤ cap) := by
  intro h
  have := h 8000 0 [{ r := 4000, o := 6000 }] (by decide)
    (by intro x hx; simp at hx; subst hx; exact ⟨by decide, by decide, Or.inl rfl⟩) (by decide)
  revert this; decide

/-! ## Preemption dry run (extension round 6): preempt.go preemptibleAlloc, Plugin.RemovePod / Plugin.AddPod -/

/-- **reprieve_inverse**: `Subtract` (AddPod: the victim is reprieved) undoes `Accumulate` (RemovePod) EXACTLY - both
    fields are back to what they were - for a CPU set that is disjoint from the state, as a victim's CPUs are under a
    sharing limit of one. -/
theorem reprieve_inverse (a : PreAlloc) (cpus : List Nat)
    (hA : ∀ c ∈ cpus, c ∉ a.toAdd) (hR : ∀ c ∈ cpus, c ∉ a.toRemove) :
    (a.accumulate cpus).subtract cpus = a :=
  reprieve_inverse_core a cpus hA hR

/-- … on the plugin's steps: RemovePod(u) then AddPod(u) on an unchanged ledger leaves the dry-run state as it was. -/
theorem reprieve_inverse_plugin (M : Mgr) (node uid : Nat) (a : PreAlloc)
    (hA : ∀ c ∈ podAllocatedCPUs M node uid, c ∉ a.toAdd) (hR : ∀ c ∈ podAllocatedCPUs M node uid, c ∉ a.toRemove) :
    addPodDry M node (removePodDry M node a uid) uid = a :=
  reprieve_inverse_core a _ hA hR

/-- **dryrun_preemptible_exact**: after EVERY well-formed dry run (a pod is removed only while it is on the node copy and
    reprieved only after it was removed: `drun` returns `some`) over pods with pairwise disjoint CPU sets, the CPUs
    reported preemptible are exactly (Σ removed − Σ re-added): the CPUs of the pods removed and not reprieved. -/
theorem dryrun_preemptible_exact (cpusOf : Nat → List Nat) (hd : CpusDisjoint cpusOf) (ops : List DOp)
    (a : PreAlloc) (s : List Nat) (hrun : drun cpusOf PreAlloc.empty [] ops = some (a, s)) (c : Nat) :
    c ∈ a.preemptible ↔ ∃ u ∈ s, c ∈ cpusOf u := by
  have hinv := dry_inv_run cpusOf hd ops _ _ _ _ (dry_inv_empty cpusOf) hrun
  rw [mem_preemptible, hinv.1, ← hinv.2 c]
  simp

/-- a CPU of a pod that stays (never removed, or reprieved) is never reported preemptible. -/
theorem dryrun_never_reports_held_cpu (cpusOf : Nat → List Nat) (hd : CpusDisjoint cpusOf) (ops : List DOp)
    (a : PreAlloc) (s : List Nat) (hrun : drun cpusOf PreAlloc.empty [] ops = some (a, s)) (v : Nat) (hv : v ∉ s)
    (c : Nat) (hc : c ∈ a.preemptible) : c ∉ cpusOf v := by
  obtain ⟨u, hu, hcu⟩ := (dryrun_preemptible_exact cpusOf hd ops a s hrun c).1 hc
  intro hcv
  exact hv (hd u v c hcu hcv ▸ hu)

/-- **dryrun_available_not_held** (the cpuset-not-free clause on the dry-run view): with sharing limit one and a ledger
    that is the sum of its pods, what GetAvailableCPUs(node, ∅, preemptible) offers the preemptor after any well-formed
    dry run contains no CPU of a pod that stays on the node; `take_exact` / `preferred_exact` then confine Allocate's answer to that set. -/
theorem dryrun_available_not_held (topo : List Nat) (L : Ledger) (hinv : Inv L) (hd : CpusDisjoint (ledgerCpusOf L))
    (ops : List DOp) (a : PreAlloc) (s : List Nat) (hrun : drun (ledgerCpusOf L) PreAlloc.empty [] ops = some (a, s))
    (c : Nat) (hc : c ∈ dryAvailable topo 1 L a) (v : PodAlloc) (hv : v ∈ L.pods) (hstay : v.uid ∉ s) :
    c ∉ v.cpus :=
  dry_available_not_held_core topo L hinv hd a s
    (dry_inv_run _ hd ops _ _ _ _ (dry_inv_empty _) hrun) c hc v hv hstay

/-- the hypotheses are satisfiable on the seeded scenario: A = {0,1}, B = {2,3}; RemovePod(A), RemovePod(B), AddPod(A)
    is well formed and leaves exactly B's CPUs preemptible. -/
example :
    let cpusOf : Nat → List Nat := fun u => if u = 1 then [0, 1] else if u = 2 then [2, 3] else []
    (drun cpusOf PreAlloc.empty [] [.rm 1, .rm 2, .ad 1]).map (fun r => (r.1.preemptible, r.2)) = some ([2, 3], [2]) := by
  decide

/-- the seeded reordering of `Subtract` (the argument reduced first) is NOT an inverse: after RemovePod(A),
    RemovePod(B), AddPod(A) it still reports A's CPUs 0 and 1 preemptible. -/
theorem subtract_reordered_counterexample :
    (((PreAlloc.empty.accumulate [0, 1]).accumulate [2, 3]).subtractReordered [0, 1]).preemptible = [0, 1, 2, 3] ∧
    (((PreAlloc.empty.accumulate [0, 1]).accumulate [2, 3]).subtract [0, 1]).preemptible = [2, 3] := by
  decide

end KoordVerif.C06
