import KoordVerif.Model.C17
namespace KoordVerif.C17
end KoordVerif.C17
