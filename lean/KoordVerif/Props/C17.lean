import KoordVerif.Proofs.C17Flow
import KoordVerif.Proofs.C17ExtNode
import KoordVerif.Proofs.C17ExtRead
import KoordVerif.Proofs.C17Ext3
import KoordVerif.Proofs.C17Ext5
/-
C17 — migration jobs evict only after capacity is secured; finished jobs stay finished.

The model (Model/C17.lean) is `reconcile : World → faultMask → World × Out`, one `Reconciler.Reconcile`
call with every API write taking one bit of the fault mask; a history is a list of `Op`s (environment events
and reconciles).  `Out.evicts` / `run … .2` is the log of the recording evictor: one `Snap` per `Evict` call,
stamped with the environment (reservation, pod, preemption script) at that instant.

All theorems quantify over EVERY world (job spec/status, reservation, pod, clock), every fault mask and,
where a history is mentioned, every list of operations.
-/
namespace KoordVerif.C17

/-- the state in which an eviction is allowed by the property (clause 1), read off the evictor's snapshot:
    the reservation exists, is not pending, not expired, is scheduled (node set + Scheduled=True) or the
    preemption for it has completed, is not consumed (phase Succeeded = bound to a pod), and the pod exists. -/
def Secured (s : Snap) : Prop :=
  ∃ r p, s.env.resv = some r ∧ s.env.pod = some p ∧
    resvPending r = false ∧ resvExpired r = false ∧
    (resvScheduled r = true ∨ (r.needPreempt = true ∧ s.env.preempt = 2)) ∧
    resvSucceeded r = false

/-- what `doMigrate_goal` says about one reconcile, unpacked -/
theorem reconcile_evicts (w : World) (f : Nat) :
    (reconcile w f).2.evicts = [] ∨
    ∃ m1 : M, (reconcile w f).2.evicts = [⟨m1.env, w.job, m1.mem⟩] ∧ m1.faults = f ∧
      (w.job.spec.direct = false → GatesM m1 ∧ (NCs w.job.status → NodeOK m1)) ∧ DD m1 w.job.spec.direct ∧
      (∃ p, m1.env.pod = some p) ∧
      (m1.mem.spec.resvRef = true → ∃ r, m1.env.resv = some r ∧ resvSucceeded r = false) ∧
      ¬ WFp w.job.status.conds ∧
      (f = 0 → WFp (reconcile w f).1.job.status.conds) := by
  unfold reconcile
  split
  · exact Or.inl rfl
  · have g := doMigrate_goal (NCs w.job.status) (M.init w f) w.job.spec.resvRef ⟨rfl, rfl⟩ (fun h => ⟨h, h⟩)
    rcases g with hk | ⟨m1, hk1, hq, hev⟩
    · exact Or.inl hk.evicts
    · refine Or.inr ⟨m1, ?_, hk1.faults, ?_, hk1.dd _ ⟨rfl, rfl⟩, hev.pod, hev.bound, ?_, ?_⟩
      · have h1 : m1.evicts = [] := hk1.evicts
        have h2 : m1.job0 = w.job := hk1.job0
        simp only [hev.evicts, h1, h2, List.nil_append]
      · intro hd
        exact hq ((hk1.dd _ ⟨rfl, rfl⟩).1.trans hd)
      · intro hw
        exact hev.nocond (hk1.j ⟨hw, hw⟩).1
      · intro h0
        exact hev.recorded (by rw [hk1.faults]; exact h0)

/-- **evict_only_when_secured** (clause 1, and clause 5 "a failed write never skips a gate": the fault mask is
    universally quantified).  In reservation-first mode, whatever the job status, the environment and the
    failing writes are, every `Evict` call of a reconcile is issued while the reservation exists, is not
    pending, not expired, scheduled-or-preempted-for, not consumed by a pod, and the pod exists.
    (The node clause is `evict_node_checked` / `evict_node_differs_faultfree` below.) -/
theorem evict_only_when_secured (w : World) (f : Nat) (hmode : w.job.spec.direct = false) :
    ∀ s ∈ (reconcile w f).2.evicts, s.job0 = w.job ∧ Secured s := by
  intro s hs
  rcases reconcile_evicts w f with h | ⟨m1, h, _, hg, _, ⟨p, hp⟩, hb, _, _⟩
  · rw [h] at hs; cases hs
  · rw [h] at hs
    simp only [List.mem_singleton] at hs
    subst hs
    obtain ⟨⟨hrr, r, hr, h1, h2, h3, _⟩, _⟩ := hg hmode
    obtain ⟨r', hr', hsucc⟩ := hb hrr.1
    rw [hr] at hr'; cases hr'
    exact ⟨rfl, r, p, hr, hp, h1, h2, h3, hsucc⟩

/-- the same over any history: every evictor call made on behalf of a reservation-first job is secured -/
theorem evict_only_when_secured_history (ops : List Op) :
    ∀ w : World, ∀ s ∈ (run w ops).2, s.job0.spec.direct = false → Secured s := by
  induction ops with
  | nil => intro w s hs; cases hs
  | cons op rest ih =>
    intro w s hs hd
    simp only [run, List.mem_append] at hs
    rcases hs with hs | hs
    · cases op with
      | recon f =>
        simp only [step] at hs
        by_cases hm : w.job.spec.direct = false
        · exact (evict_only_when_secured w f hm s hs).2
        · rcases reconcile_evicts w f with h | ⟨m1, h, _⟩
          · rw [h] at hs; cases hs
          · rw [h] at hs
            simp only [List.mem_singleton] at hs
            subst hs
            exact absurd hd hm
      | _ => simp [step] at hs
    · exact ih _ s hs hd

/-- reservation-first evictions never concern a job in pending-pod mode, and a reconcile calls the evictor at
    most once -/
theorem evict_once_per_reconcile (w : World) (f : Nat) : (reconcile w f).2.evicts.length ≤ 1 := by
  rcases reconcile_evicts w f with h | ⟨m1, h, _⟩ <;> simp [h]

/-- **evict_node_checked** (node part of clause 1, every fault mask).  If at the start of the reconcile the job
    has not yet recorded a target node (Status.NodeName empty and no ReservationScheduled=True condition — every
    job that has not yet passed `prepareJobWithReservationScheduleSuccess`), then every `Evict` call of that
    reconcile is issued while the reservation's node, if it has one, differs from the pod's node. -/
theorem evict_node_checked (w : World) (f : Nat) (hmode : w.job.spec.direct = false) (hnc : NCs w.job.status) :
    ∀ s ∈ (reconcile w f).2.evicts, ∀ r p, s.env.resv = some r → s.env.pod = some p → r.node ≠ 0 → r.node ≠ p.node := by
  intro s hs
  rcases reconcile_evicts w f with h | ⟨m1, h, _, hg, _⟩
  · rw [h] at hs; cases hs
  · rw [h] at hs
    simp only [List.mem_singleton] at hs
    subst hs
    exact (hg hmode).2 hnc

/-- the same over any history, any faults: an evictor call made in a reconcile that STARTED with no recorded
    target node (`s.job0` = the persisted job at the start of that reconcile) never hits a pod on the
    reservation's node.  This is exactly the complement of the known finding's input class. -/
theorem evict_node_checked_history (ops : List Op) :
    ∀ w : World, ∀ s ∈ (run w ops).2, s.job0.spec.direct = false → NCs s.job0.status →
      ∀ r p, s.env.resv = some r → s.env.pod = some p → r.node ≠ 0 → r.node ≠ p.node := by
  induction ops with
  | nil => intro w s hs; cases hs
  | cons op rest ih =>
    intro w s hs hd hnc
    simp only [run, List.mem_append] at hs
    rcases hs with hs | hs
    · cases op with
      | recon f =>
        simp only [step] at hs
        have hj : s.job0 = w.job := by
          rcases reconcile_evicts w f with h | ⟨m1, h, _⟩
          · rw [h] at hs; cases hs
          · rw [h] at hs
            simp only [List.mem_singleton] at hs
            subst hs; rfl
        rw [hj] at hd hnc
        exact evict_node_checked w f hd hnc s hs
      | _ => simp [step] at hs
    · exact ih _ s hs hd hnc

/- FULL node clause of the statement: `∀ history, ∀ s ∈ (run w ops).2, reservation-first → r.node ≠ p.node`.
   It is FALSE for the code as written once the node has been recorded in an earlier reconcile (known finding
   C17:evict-unsecured:same-node:node-check-stale): the two witnesses below are a faulty history (the Evict call
   fails, the pod is re-created on the reservation's node, the retry evicts it) and a fault-free one (a job that
   recorded the node while its reservation was in pending-pod mode; the reservation is re-created in normal mode
   on the pod's node).  `evict_node_checked` is the part that holds: the check is never skipped in the reconcile
   that records the node, whatever fails. -/
def SameNodeFree (w : World) (ops : List Op) : Prop :=
  ∀ s ∈ (run w ops).2, s.job0.spec.direct = false →
    ∀ r p, s.env.resv = some r → s.env.pod = some p → r.node ≠ 0 → r.node ≠ p.node

def cexWorld : World :=
  { job := { spec := ⟨false, false, 0, true, 1, true, false, 0⟩,
             status := ⟨Ph.running, 0, 0, 0, false, []⟩ },
    env := ⟨0, some ⟨1, 3, 0, 0, false⟩, some ⟨RPh.available, 1, 1, 0, false, 0, false, true, false⟩, 0, false, 0, 1⟩ }

def sameNodeSnap (s : Snap) : Bool :=
  match s.env.resv, s.env.pod with
  | some r, some p => r.node != 0 && r.node == p.node
  | _, _ => false

theorem not_sameNodeFree_of {w : World} {ops : List Op}
    (h : ∃ s ∈ (run w ops).2, s.job0.spec.direct = false ∧ sameNodeSnap s = true) : ¬ SameNodeFree w ops := by
  intro hfree
  obtain ⟨s, hs, hd, hsn⟩ := h
  unfold sameNodeSnap at hsn
  split at hsn
  · rename_i r p hr hp
    simp only [Bool.and_eq_true, bne_iff_ne, ne_eq, beq_iff_eq] at hsn
    exact hfree s hs hd r p hr hp hsn.1 hsn.2
  · cases hsn

/-- faulty witness.  Writes of the first reconcile: ReservationCreated (bit 0), ReservationScheduled (bit 1), Evict
    (bit 2, fails); the reservation is then re-scheduled onto the pod's node 3 (a re-created reservation); the retry
    evicts the pod from that very node.  (Until df70d80 a same-name replacement pod landing on the reservation's node
    was a second way; the uid comparison of evictPod now aborts that one.) -/
theorem evict_node_differs_counterexample :
    ¬ SameNodeFree cexWorld [.recon 4, .resv (some ⟨RPh.available, 3, 1, 0, false, 0, false, true, false⟩), .recon 0] :=
  not_sameNodeFree_of (by decide)

/-- fault-free witness: a pending (unscheduled) target pod; the job records node 1 while the reservation is in
    pending-pod mode (no eviction in that mode); the pod is then scheduled onto node 1 and the reservation is
    re-created in normal mode, still on node 1. -/
theorem evict_node_differs_faultfree_counterexample :
    ¬ SameNodeFree { cexWorld with env := { cexWorld.env with
          pod := some ⟨1, 0, 1, 0, true⟩, resv := some ⟨RPh.available, 1, 1, 0, false, 0, true, true, false⟩ } }
        [.recon 0, .pod (some ⟨1, 1, 2, 0, false⟩),
         .resv (some ⟨RPh.available, 1, 1, 0, false, 0, false, true, false⟩), .recon 0] :=
  not_sameNodeFree_of (by decide)

/-- **evict_node_differs_restricted** — the FULL node clause over all histories and ALL write-fault masks, under an
    explicit decidable restriction of the environment events (`restricted`, Proofs/C17ExtNode.lean; the harness
    evaluates the same predicate on every generated history): once the job has recorded its target node, no event
    puts the reservation on a new node (it may be deleted, or re-created unscheduled) and no event puts the pod on
    a new node.  `NodeInv w` (decidable) holds for every job that has not yet recorded a node.  Both counterexample
    histories above violate `restricted` (examples in Proofs/C17ExtNode.lean), i.e. the restriction is exactly what
    the known finding needs. -/
theorem evict_node_differs_restricted (ops : List Op) :
    ∀ w : World, NodeInv w → restricted w ops = true →
      ∀ s ∈ (run w ops).2, s.job0.spec.direct = false →
        ∀ r p, s.env.resv = some r → s.env.pod = some p → r.node ≠ 0 → r.node ≠ p.node :=
  evict_node_differs_restricted_core ops

/-- … in particular for every job that starts without a recorded node -/
theorem evict_node_differs_restricted_fresh (ops : List Op) (w : World) (h : NCs w.job.status)
    (hres : restricted w ops = true) : SameNodeFree w ops :=
  evict_node_differs_restricted_fresh_core ops w h hres

/-- the restriction is not vacuous and not trivially false: it excludes both counterexamples, and admits a history
    with a failed Evict call, a same-node pod UPDATE and a reservation update after the node was recorded, in which
    the retry does evict -/
theorem restricted_excludes_counterexamples :
    restricted cexWorld [.recon 4, .resv (some ⟨RPh.available, 3, 1, 0, false, 0, false, true, false⟩), .recon 0] = false ∧
    restricted { cexWorld with env := { cexWorld.env with
          pod := some ⟨1, 0, 1, 0, true⟩, resv := some ⟨RPh.available, 1, 1, 0, false, 0, true, true, false⟩ } }
        [.recon 0, .pod (some ⟨1, 1, 2, 0, false⟩), .resv (some ⟨RPh.available, 1, 1, 0, false, 0, false, true, false⟩), .recon 0] = false ∧
    restricted cexWorld [.recon 4, .pod (some ⟨1, 3, 2, 0, false⟩), .resv (some ⟨RPh.available, 1, 1, 7, false, 0, false, true, false⟩), .recon 0] = true ∧
    (run cexWorld [.recon 4, .pod (some ⟨1, 3, 2, 0, false⟩), .resv (some ⟨RPh.available, 1, 1, 7, false, 0, false, true, false⟩), .recon 0]).2.length = 2 := by
  decide

/-! ### clause 2 — terminal phases are absorbing -/

/-- **terminal_absorbing.**  A job whose phase is anything but ""/Pending/Running (Succeeded, Failed, Aborted, …)
    is left exactly as it is by a reconcile, under any faults: same persisted job, same environment (no
    reservation created or deleted), no API write, no evictor call. -/
theorem terminal_absorbing (w : World) (f : Nat) (h : livePhase w.job.status.phase = false) :
    reconcile w f = (w, ⟨[], []⟩) := by
  unfold reconcile
  split
  · rfl
  · unfold doMigrate
    split
    · rfl
    · simp [h, M.init]

/-- … and no operation of a history (environment events included) ever changes its status again or triggers
    an eviction. -/
theorem terminal_forever (ops : List Op) :
    ∀ w : World, livePhase w.job.status.phase = false →
      (run w ops).1.job.status = w.job.status ∧ (run w ops).2 = [] := by
  induction ops with
  | nil => intro w _; exact ⟨rfl, rfl⟩
  | cons op rest ih =>
    intro w h
    have hstep : (step w op).1.job.status = w.job.status ∧ (step w op).2 = ⟨[], []⟩ := by
      cases op with
      | recon f => simp only [step]; rw [terminal_absorbing w f h]; exact ⟨rfl, rfl⟩
      | _ => exact ⟨rfl, rfl⟩
    have h' : livePhase (step w op).1.job.status.phase = false := by rw [hstep.1]; exact h
    obtain ⟨i1, i2⟩ := ih (step w op).1 h'
    simp only [run]
    exact ⟨i1.trans hstep.1, by rw [hstep.2, i2]; rfl⟩

/-- **failed_job_never_evicts** — over ALL histories, all write-fault masks: from the moment the persisted phase is
    Failed (at any point `a` of a history `a ++ b`) no later operation calls the evictor, creates nothing and the
    phase stays Failed.  (The extended model adds: nor is the evictor called by the reconcile that is marking the job
    Failed — `failed_job_never_evictsX`.) -/
theorem failed_job_never_evicts (a b : List Op) (w : World) (h : (run w a).1.job.status.phase = Ph.failed) :
    (run (run w a).1 b).2 = [] ∧ (run (run w a).1 b).1.job.status.phase = Ph.failed := by
  have hl : livePhase (run w a).1.job.status.phase = false := by rw [h]; decide
  obtain ⟨h1, h2⟩ := terminal_forever b (run w a).1 hl
  exact ⟨h2, by rw [h1]; exact h⟩

/-! ### clause 3 — an expired job deletes its reservation -/

theorem live_ne_failed {p : Nat} (h : livePhase p = true) : p ≠ Ph.failed := by
  intro hp; subst hp; revert h; decide

/-- **expired_deletes_reservation.**  A live, un-paused job past its TTL: the reconcile issues no eviction under
    any faults; if it ends Failed then the referenced reservation is gone; and without faults it does end
    Failed/Timeout with the referenced reservation gone. -/
theorem expired_deletes_reservation (w : World) (f : Nat)
    (hmine : ¬ (w.job.spec.createdBy ≠ 0 ∧ w.job.spec.createdBy ≠ w.env.ctrl))
    (hp : w.job.spec.paused = false) (hlive : livePhase w.job.status.phase = true)
    (httl : w.job.spec.ttl ≠ 0) (hexp : w.job.spec.ttl ≤ w.env.now) :
    (reconcile w f).2.evicts = [] ∧
    ((reconcile w f).1.job.status.phase = Ph.failed → w.job.spec.resvRef = true → (reconcile w f).1.env.resv = none) ∧
    (f = 0 → (reconcile w f).1.job.status.phase = Ph.failed ∧ (reconcile w f).1.job.status.reason = Rs.timeout ∧
      (w.job.spec.resvRef = true → (reconcile w f).1.env.resv = none)) := by
  have hnl : ¬ w.env.now < w.job.spec.ttl := Nat.not_lt.mpr hexp
  have hne := live_ne_failed hlive
  unfold reconcile
  rw [if_neg hmine]
  simp only [doMigrate, M.init, hp, hlive, abortIfTimeout, httl, hnl, Res.bind, Res.m, deleteReservation,
    Bool.false_eq_true, if_false, Bool.not_true]
  by_cases hr : w.job.spec.resvRef = true
  · simp only [hr, Bool.not_true, Bool.false_eq_true, if_false]
    cases hres : w.env.resv with
    | none =>
      simp only [abortWith, M.setStatus, M.statusUpdate, M.wok, M.logw]
      by_cases hb : f.testBit 0 = true <;> simp [hb, hne, hres]
      · intro h0; subst h0; simp at hb
    | some r =>
      simp only [M.wok, M.logw, abortWith, M.setStatus, M.statusUpdate]
      by_cases hb : f.testBit 0 = true
      · simp [hb, hne]
        intro h0; subst h0; simp at hb
      · by_cases hb1 : f.testBit 1 = true <;> simp [hb, hb1, hne]
        · intro h0; subst h0; simp at hb1
  · have hr' : w.job.spec.resvRef = false := by simpa using hr
    simp only [hr', Bool.not_false, if_true, abortWith, M.setStatus, M.statusUpdate, M.wok, M.logw]
    by_cases hb : f.testBit 0 = true <;> simp [hb, hne]
    · intro h0; subst h0; simp at hb

/-! ### clause 4 — at most one eviction without API errors -/

def faultFree (ops : List Op) : Prop := ∀ f, Op.recon f ∈ ops → f = 0

/-- once an eviction is on record (condition Eviction = True, or False with reason Evicting) no reconcile calls
    the evictor again, under any faults, and the record stays -/
theorem recorded_blocks_evict (w : World) (f : Nat) (h : WFp w.job.status.conds) :
    (reconcile w f).2.evicts = [] ∧ WFp (reconcile w f).1.job.status.conds := by
  rcases reconcile_evicts w f with he | ⟨m1, _, _, _, _, _, _, hn, _⟩
  · refine ⟨he, ?_⟩
    unfold reconcile
    split
    · exact h
    · have g := doMigrate_goal False (M.init w f) w.job.spec.resvRef ⟨rfl, rfl⟩ (fun hf => hf.elim)
      rcases g with hk | ⟨m1, hk1, _, hev⟩
      · exact (hk.j ⟨h, h⟩).2
      · exact absurd (hk1.j ⟨h, h⟩).1 hev.nocond
  · exact absurd h hn

theorem env_step (w : World) (op : Op) (h : ∀ f, op ≠ .recon f) :
    (step w op).1.job.status = w.job.status ∧ (step w op).2.evicts = [] := by
  cases op with
  | recon f => exact absurd rfl (h f)
  | _ => exact ⟨rfl, rfl⟩

/-- **evict_at_most_once.**  From ANY world, along any history of environment events and fault-free reconciles,
    the evictor is called at most once in total. -/
theorem evict_at_most_once (ops : List Op) :
    ∀ w : World, faultFree ops →
      (run w ops).2.length ≤ 1 ∧ (WFp w.job.status.conds → (run w ops).2 = []) := by
  induction ops with
  | nil => intro w _; exact ⟨Nat.zero_le _, fun _ => rfl⟩
  | cons op rest ih =>
    intro w hff
    have hrest : faultFree rest := fun f hf => hff f (List.mem_cons_of_mem _ hf)
    obtain ⟨i1, i2⟩ := ih (step w op).1 hrest
    simp only [run]
    by_cases hop : ∃ f, op = .recon f
    · obtain ⟨f, rfl⟩ := hop
      have hf0 : f = 0 := hff f List.mem_cons_self
      subst hf0
      simp only [step] at i1 i2 ⊢
      rcases reconcile_evicts w 0 with he | ⟨m1, he, _, _, _, _, _, hn, hrec⟩
      · rw [he]
        refine ⟨by simpa using i1, fun hw => ?_⟩
        simp only [List.nil_append]
        exact i2 (recorded_blocks_evict w 0 hw).2
      · rw [he]
        have hz := i2 (hrec rfl)
        exact ⟨by simp [hz], fun hw => absurd hw hn⟩
    · have hne : ∀ f, op ≠ .recon f := fun f h => hop ⟨f, h⟩
      obtain ⟨e1, e2⟩ := env_step w op hne
      rw [e2]
      refine ⟨by simpa using i1, fun hw => ?_⟩
      simp only [List.nil_append]
      exact i2 (by rw [e1]; exact hw)

/-! ### extended model: API reads fail, the environment changes INSIDE a reconcile (Model/C17Read.lean)

`reconcileX w ⟨f, rf, evs⟩`: write-fault mask `f`, read-fault mask `rf` (any Get of job / pod / reservation / bound pod,
incl. the APIReader retry and the lookup inside evictPod), scripted events `evs` applied right before the k-th API call.
`GoodX w s` (Proofs/C17ExtRead.lean) is what holds at the instant of every `Evict` call. -/

/-- **read_faults_evict_secured** (clause 1 under read faults and check-then-act races).  Whatever fails and whatever
    the environment does between two reads: at every `Evict` call EVERY reservation lookup of that reconcile has been
    answered with an object (`looks` all 0 — never after a failed / NotFound lookup), the object doMigrate fetched for
    its gates was not pending, not expired, scheduled or preempted-for, not in pending-pod mode, the object of the last
    lookup (inside evictPod) was not consumed, the pod handed over exists and is the job's target (recorded uid), and
    neither the in-memory nor the persisted job is Failed/Succeeded. -/
theorem read_faults_evict_secured (w : World) (sc : Script) : ∀ s ∈ (reconcileX w sc).2.evicts, GoodX w s :=
  evictX_good w sc

theorem read_faults_evict_once (w : World) (sc : Script) : (reconcileX w sc).2.evicts.length ≤ 1 := evictX_once w sc

/-- clause `C17:evict-unsecured:lookup-failed`, over all histories -/
theorem read_faults_lookups_answered (ops : List OpX) :
    ∀ w : World, ∀ s ∈ (runX w ops).2, ∀ l ∈ s.looks, l = 0 := evict_lookups_answered_history ops

/-- **failed_job_never_evicts**, all histories incl. read faults and events inside a reconcile: the evictor is never
    called with / for a job that is Failed or Succeeded — not even by the reconcile that is marking it Failed -/
theorem read_faults_failed_job_never_evicts (ops : List OpX) :
    ∀ w : World, ∀ s ∈ (runX w ops).2, livePhase s.mem.status.phase = true ∧ livePhase s.api.status.phase = true :=
  failed_job_never_evictsX ops

/-- clause `C17:evicted-not-target`: the evicted pod is the job's target, never a same-name replacement -/
theorem read_faults_evict_target_only (ops : List OpX) :
    ∀ w : World, ∀ s ∈ (runX w ops).2, ∀ p, s.pod = some p → s.mem.spec.podUID = 0 ∨ p.uid = s.mem.spec.podUID :=
  evict_target_only_history ops

theorem read_faults_terminal_forever (ops : List OpX) :
    ∀ w : World, livePhase w.job.status.phase = false → (runX w ops).1.job.status = w.job.status ∧ (runX w ops).2 = [] :=
  terminalX_forever ops

/-! ### mode dispatch (controller.go:315, tied by `tie_direct_dispatch`) -/

/-- an explicit `Spec.Mode` wins over `args.DefaultJobMode` … -/
theorem effDirect_explicit_wins (mode dflt : Nat) (h : mode ≠ 0) : effDirect mode dflt = (mode == 2) := by
  unfold effDirect
  have : (mode == 0) = false := by simpa using h
  simp [this]

/-- … and an empty one takes the default -/
theorem effDirect_empty_takes_default (dflt : Nat) : effDirect 0 dflt = (dflt == 2) := by
  simp [effDirect]

/-! ### non-vacuity -/

def exPod : Pod := ⟨1, 3, 0, 0, false⟩
def exResv : Resv := ⟨RPh.available, 1, 1, 0, false, 0, false, true, false⟩
def exJob : Job :=
  { spec := ⟨false, false, 300, true, 1, true, false, 0⟩,
    status := ⟨Ph.running, CT.resvCreated, 0, 0, false, [⟨CT.resvCreated, true, 0, 0⟩]⟩ }
def exWorld : World := { job := exJob, env := ⟨10, some exPod, some exResv, 0, false, 0, 1⟩ }

/-- the hypotheses are satisfiable and the conclusion is not vacuous: this reconcile does evict -/
example : (reconcile exWorld 0).2.evicts.length = 1 := by decide
example : (reconcile exWorld 0).1.job.status.conds =
    [⟨CT.resvCreated, true, 0, 0⟩, ⟨CT.resvScheduled, true, 0, 0⟩, ⟨CT.eviction, false, Rs.evicting, 0⟩] := by decide
/-- a pending reservation: same job, no eviction -/
example : (reconcile { exWorld with env := { exWorld.env with resv := some { exResv with phase := RPh.pending } } } 0).2.evicts = [] := by decide
/-- TTL passed: the reservation is deleted and the job fails with Timeout -/
example : (reconcile { exWorld with env := { exWorld.env with now := 300 } } 0).1.env.resv = none ∧
    (reconcile { exWorld with env := { exWorld.env with now := 300 } } 0).1.job.status.phase = Ph.failed := by decide
/-- a two-reconcile fault-free history evicts exactly once -/
example : (run exWorld [.recon 0, .recon 0, .pod none, .recon 0]).2.length = 1 := by decide
/-- with the Evict call failing (bit 1: after the ReservationScheduled status write) the retry evicts again -/
example : (run exWorld [.recon 2, .recon 0]).2.length = 2 := by decide

/-! ### ext3 — what the controller WRITES when it creates the reservation; consumption by a sibling pod
(Model/C17Opts.lean: `writtenResv` = CreateOrUpdateReservationOptions + CreateReservation, `consume` = the scheduler's
syncStatus, `effAO` = IsReservationAllocateOnce) -/

/-- **migration_reservation_is_allocate_once.**  Whatever reservation template the job carries (none, or one with
    allocateOnce nil / true / false and any other field), whatever the job's TTL and the pod: the Reservation handed to
    the API server has `spec.allocateOnce = true`, explicitly. -/
theorem migration_reservation_is_allocate_once (t : Option Tmpl) (jobTTL : Nat) (p : Pod) :
    (writtenResv t jobTTL p).ao = some true := by
  cases t <;> rfl

/-- the other forced fields: created-by label, order label, the pod template's node name cleared; the user's own label
    survives; the TTL is the template's, else (no Expires either) the job's -/
theorem migration_reservation_forced_fields (t : Option Tmpl) (jobTTL : Nat) (p : Pod) :
    (writtenResv t jobTTL p).createdByDefault = true ∧ (writtenResv t jobTTL p).orderLabel = true ∧
    (writtenResv t jobTTL p).nodeCleared = true ∧ (writtenResv t jobTTL p).skipAffinity = (p.node != 0) ∧
    (writtenResv t jobTTL p).owners = genOwners p := by
  cases t <;> exact ⟨rfl, rfl, rfl, rfl, rfl⟩

/-- syncStatus on an allocate-once reservation that has a node: consumed = phase Succeeded, in one step with the owner -/
theorem consume_allocate_once_succeeded (r : Resv) (uid : Nat) (h : r.node ≠ 0) :
    resvSucceeded (consume r uid true) = true ∧ (consume r uid true).owner = uid := by
  simp [consume, h, resvSucceeded]

/-- a reservation the migration controller wrote and a sibling pod `uid` then consumed (the scheduler played by
    `consume` with the WRITTEN allocate-once) -/
def HeldBySibling (t : Option Tmpl) (jobTTL : Nat) (p : Pod) (r : Resv) : Prop :=
  ∃ r0 uid, r0.node ≠ 0 ∧ r = consume r0 uid (effAO (writtenResv t jobTTL p).ao)

/-- **evict_never_while_held_by_sibling** ("never while the reservation is bound to some other pod", for the reservation
    the job itself created): in reservation-first mode, under every write-fault mask, at the instant of an `Evict` call
    the reservation is not one that a sibling pod consumed — because what was written is allocate-once, consumption
    makes it Succeeded, and `evict_only_when_secured` excludes Succeeded. -/
theorem evict_never_while_held_by_sibling (w : World) (f : Nat) (hmode : w.job.spec.direct = false)
    (t : Option Tmpl) (jobTTL : Nat) (p : Pod) :
    ∀ s ∈ (reconcile w f).2.evicts, ∀ r, s.env.resv = some r → ¬ HeldBySibling t jobTTL p r := by
  intro s hs r hr ⟨r0, uid, hn, he⟩
  obtain ⟨_, r', p', hr', _, _, _, _, hsucc⟩ := evict_only_when_secured w f hmode s hs
  rw [hr] at hr'
  cases hr'
  rw [migration_reservation_is_allocate_once] at he
  have := (consume_allocate_once_succeeded r0 uid hn).1
  simp only [effAO, Option.getD_some] at he
  rw [← he] at this
  rw [this] at hsucc
  cases hsucc

/-- why `allocateOnce` must be FORCED: with a reusable reservation (allocateOnce=false honoured from the template) the
    scheduler leaves it Available while a sibling pod (uid 7) holds it, and this reconcile evicts the target pod -/
theorem reusable_reservation_evicts_while_held_counterexample :
    ¬ (∀ (w : World) (r0 : Resv), w.job.spec.direct = false → r0.node ≠ 0 → w.env.resv = some (consume r0 7 false) →
        ∀ p, w.env.pod = some p → heldByOther (consume r0 7 false) p.uid = true → (reconcile w 0).2.evicts = []) := by
  intro h
  have := h { exWorld with env := { exWorld.env with resv := some (consume exResv 7 false) } } exResv rfl (by decide) rfl
    exPod rfl (by decide)
  revert this
  decide

/-! ### ext3 — the assumed-cache under a LAGGING informer (Model/C17Cache.lean) -/

/-- **lagging_read_never_re_evicts.**  Shipped policy (`assume` after doMigrate, with the object as written).  In every
    state the policy can reach (`LagInv`: the cache holds the newest version), a reconcile that is served ANY older
    version of the job — k versions back, whatever the fault mask — is declined by the guard: no API call, no eviction,
    state unchanged. -/
theorem lagging_read_never_re_evicts (cs : CS) (k f : Nat) (h : LagInv cs) (hb : (served cs k).1 ≠ 0) :
    recLag .afterWrite cs k f = (cs, ⟨[], []⟩) :=
  recLag_stale_declined cs k f h hb

/-- `LagInv` holds initially (empty cache, nothing older to serve) and after every step of every history -/
theorem lag_invariant (ops : List OpC) (w : World) (ver : Nat) :
    LagInv (runC .afterWrite { w := w, ver := ver, olds := [], assumed := none } ops).1 := by
  suffices h : ∀ cs, LagInv cs → LagInv (runC .afterWrite cs ops).1 from
    h _ ⟨Nat.zero_le _, Or.inr ⟨rfl, rfl⟩⟩
  induction ops with
  | nil => intro cs h; exact h
  | cons op rest ih => intro cs h; exact ih _ (stepC_sim cs op h).1

def faultFreeC (ops : List OpC) : Prop := ∀ k f, OpC.lagrec k f ∈ ops → f = 0

/-- **lagging_history_evicts_at_most_once** ("with no API errors a job evicts its pod at most once", informer lag
    included): from ANY world, along any history of environment events, controller restarts and fault-free reconciles
    each served an arbitrarily lagging version of the job, the evictor is called at most once. -/
theorem lagging_history_evicts_at_most_once (ops : List OpC) (w : World) (ver : Nat) (hff : faultFreeC ops) :
    (runC .afterWrite { w := w, ver := ver, olds := [], assumed := none } ops).2.length ≤ 1 := by
  obtain ⟨pre, hpre, he⟩ := runC_sim ops { w := w, ver := ver, olds := [], assumed := none }
    ⟨Nat.zero_le _, Or.inr ⟨rfl, rfl⟩⟩
  rw [← he]
  refine (evict_at_most_once pre w ?_).1
  intro g hg
  obtain ⟨k, hk⟩ := hpre g hg
  exact hff k g hk

/-- the same over ANY history of environment events (sibling consumption included: `.resv (some (consume …))`) and
    reconciles under any write faults -/
theorem evict_never_while_held_by_sibling_history (ops : List Op) (w : World)
    (t : Option Tmpl) (jobTTL : Nat) (p : Pod) :
    ∀ s ∈ (run w ops).2, s.job0.spec.direct = false → ∀ r, s.env.resv = some r → ¬ HeldBySibling t jobTTL p r := by
  intro s hs hd r hr ⟨r0, uid, hn, he⟩
  obtain ⟨r', p', hr', _, _, _, _, hsucc⟩ := evict_only_when_secured_history ops w s hs hd
  rw [hr] at hr'
  cases hr'
  rw [migration_reservation_is_allocate_once] at he
  have := (consume_allocate_once_succeeded r0 uid hn).1
  simp only [effAO, Option.getD_some] at he
  rw [← he] at this
  rw [this] at hsucc
  cases hsucc

/-- … and along every LAGGING history (any fault masks): informer lag never lets an eviction through while a sibling
    holds the reservation -/
theorem lagging_evict_never_while_held_by_sibling (ops : List OpC) (w : World) (ver : Nat)
    (t : Option Tmpl) (jobTTL : Nat) (p : Pod) :
    ∀ s ∈ (runC .afterWrite { w := w, ver := ver, olds := [], assumed := none } ops).2,
      s.job0.spec.direct = false → ∀ r, s.env.resv = some r → ¬ HeldBySibling t jobTTL p r := by
  obtain ⟨pre, _, he⟩ := runC_sim ops { w := w, ver := ver, olds := [], assumed := none }
    ⟨Nat.zero_le _, Or.inr ⟨rfl, rfl⟩⟩
  rw [← he]
  exact evict_never_while_held_by_sibling_history pre w t jobTTL p

/-- the job of the witness: Running, reservation scheduled on another node, nothing recorded yet -/
def lagWorld : World := exWorld

/-- **assume-as-read re-evicts**: with `defer assume(job.DeepCopy())` placed before doMigrate the cache remembers the
    version AS READ; the evicting pass writes ReservationCreated, ReservationScheduled and Evicting; the next reconcile is
    served the version one write back (everything but Evicting), passes the guard and calls the evictor again — in a
    history without any failed API call. -/
theorem assume_as_read_re_evicts_counterexample :
    ¬ (∀ (ops : List OpC) (w : World) (ver : Nat), faultFreeC ops →
        (runC .asRead { w := w, ver := ver, olds := [], assumed := none } ops).2.length ≤ 1) := by
  intro h
  have := h [.lagrec 0 0, .lagrec 1 0] lagWorld 5 (by intro k f hm; simp at hm; rcases hm with ⟨_, rfl⟩ | ⟨_, rfl⟩ <;> rfl)
  revert this
  decide

/-- the same history under the shipped policy: one eviction -/
example : (runC .afterWrite { w := lagWorld, ver := 5, olds := [], assumed := none } [.lagrec 0 0, .lagrec 1 0, .lagrec 3 0, .lagrec 0 0]).2.length = 1 := by
  decide

/-! ### ext3 — the arbitrator and finished jobs (Model/C17Arb.lean)

`arbStep true` is the shipped Create handler (it skips Succeeded / Failed / Aborted jobs — fix 2a5d178, tied by
tie_create_handler_guard), `arbStep false` the handler before the fix (it added every job). -/

/-- **arbitrator_terminal_forever** (the arbitrator's part of "a job that has reached succeeded or failed never changes
    phase again", FULL clause): along EVERY history of Create events (controller restarts), controller status writes,
    pod changes and arbitration rounds — whatever the filters answer — once the persisted phase is Succeeded / Failed it
    never changes.  `ArbInv` = the arbitrator's copy is never newer than the job, and a finished job is either not
    waiting or its copy predates the write that finished it; it holds for a fresh arbitrator and is kept by every step. -/
theorem arbitrator_guarded_add_terminal_forever (ops : List AOp) :
    ∀ s : ArbS, ArbInv s → termPh s.phase = true → (arbRun true s ops).phase = s.phase := by
  induction ops with
  | nil => intro s _ _; rfl
  | cons op rest ih =>
    intro s hi ht
    obtain ⟨hi', hp⟩ := arbStep_inv s op hi
    simp only [arbRun]
    rw [ih _ hi' (by rw [hp ht]; exact ht), hp ht]

/-- … from the moment it is reached, anywhere inside any history that starts with a fresh arbitrator (nothing waiting) -/
theorem arbitrator_terminal_forever (a b : List AOp) (ph ver : Nat) (pod nr rt passed : Bool)
    (h : termPh (arbRun true ⟨ph, ver, pod, nr, rt, none, passed⟩ a).phase = true) :
    (arbRun true ⟨ph, ver, pod, nr, rt, none, passed⟩ (a ++ b)).phase =
      (arbRun true ⟨ph, ver, pod, nr, rt, none, passed⟩ a).phase := by
  have hinv : ∀ (ops : List AOp) (s : ArbS), ArbInv s → ArbInv (arbRun true s ops) := by
    intro ops
    induction ops with
    | nil => intro s hs; exact hs
    | cons op rest ih => intro s hs; exact ih _ (arbStep_inv s op hs).1
  have happ : ∀ (x y : List AOp) (s : ArbS), arbRun true s (x ++ y) = arbRun true (arbRun true s x) y := by
    intro x
    induction x with
    | nil => intro y s; rfl
    | cons op rest ih => intro y s; simp only [List.cons_append, arbRun]; exact ih y _
  rw [happ]
  exact arbitrator_guarded_add_terminal_forever b _
    (hinv a _ ⟨fun _ hv => (by cases hv), fun _ _ hv => (by cases hv)⟩) h

/-- why the guard is needed — the UNGUARDED handler shape (before 2a5d178; fingerprint
    C17:terminal-phase-changed:arbitrator-after-restart, recorded `fixed`): the Create handler re-adds a Succeeded job
    after a restart and `updateFailedJob` writes Phase=Failed with a copy that is current.  Witness: a Succeeded job, a
    pod of the target's name exists, the non-retryable filter rejects it. -/
theorem arbitrator_terminal_forever_counterexample :
    ¬ (∀ (s : ArbS) (ops : List AOp), termPh s.phase = true → (arbRun false s ops).phase = s.phase) := by
  intro h
  have := h ⟨Ph.succeeded, 3, true, true, false, none, false⟩ [.add, .round] rfl
  revert this
  decide

/-- independent of the guard: a copy that predates the job's last write never changes the phase (the API server
    refuses the stale write) — a job added while live and finished by the controller afterwards was always safe -/
theorem arbitrator_stale_copy_never_flips (s : ArbS) (h : ∀ v, s.waiting = some v → v < s.ver) :
    (arbRound s).phase = s.phase :=
  arbRound_phase_of_stale s h

/-- the hypotheses are satisfiable and the conclusion is not vacuous: the very history of the counterexample, under the
    shipped handler, leaves the Succeeded job alone -/
example : (arbRun true ⟨Ph.succeeded, 3, true, true, false, none, false⟩ [.add, .round]).phase = Ph.succeeded := by decide
example (ph ver : Nat) (pod nr rt : Bool) : ArbInv ⟨ph, ver, pod, nr, rt, none, false⟩ :=
  ⟨fun _ h => (by cases h), fun _ _ h => (by cases h)⟩

/-! ### ext5 — the scavenger; jobs created by an earlier controller instance -/

/-- **reconcile_ignores_foreign_job.**  A job stamped (`koordinator.sh/job-created-by`) by another Reconciler instance is
    never touched by `Reconcile` of the running one: no API call, no change, under any fault mask.  Hence after a restart
    (fresh uid) the reconciler itself never returns the reservation of a job its predecessor created — not even once the
    TTL has passed (this is the hypothesis `hmine` of expired_deletes_reservation). -/
theorem reconcile_ignores_foreign_job (w : World) (f : Nat) (h : foreign w = true) :
    reconcile w f = (w, ⟨[], []⟩) := reconcile_foreign w f h

/-- the job `Reconciler.Evict` of instance `c` creates is foreign to every instance with another uid -/
theorem evict_created_job_foreign_after_restart (c u ttl : Nat) (d : Bool) (p : Pod) (e : Env) (hc : c ≠ 0) (hu : e.ctrl = u)
    (hne : u ≠ c) : foreign { job := createdJob c d ttl p, env := e } = true := by
  subst hu
  simp [foreign, createdJob, hc, Ne.symm hne]

/-- **scavenger_covers_foreign_jobs.**  "An expired job deletes its reservation", with controller restarts in the
    quantifier: along EVERY history (environment events, reconciles and scavenger rounds under any faults, restarts with
    any uid) from ANY start — so whoever created the job and whichever instance runs now — if the job still exists and
    is past the scavenger's timeout (TTL + 5 min; 30 min without TTL), one scavenger round without a failed call deletes
    the job and, before it, the reservation it references. -/
theorem scavenger_covers_foreign_jobs (ops : List SOp) (s0 : SWorld)
    (hg : (runS false s0 ops).gone = false)
    (hexp : scavTimeout (runS false s0 ops).w.job.spec.ttl ≤ (runS false s0 ops).w.env.now) :
    (scavenge false (runS false s0 ops) 0).1.gone = true ∧
    ((runS false s0 ops).w.job.spec.resvRef = true → (scavenge false (runS false s0 ops) 0).1.w.env.resv = none) :=
  scavenge_expired _ hg hexp

/-- under ANY fault mask the scavenger deletes a job only after the reservation it references is gone (a failed
    reservation delete ends the round: `break`) -/
theorem scavenger_deletes_job_after_reservation (s : SWorld) (f : Nat) (hg : s.gone = false)
    (hr : s.w.job.spec.resvRef = true) (hd : (scavenge false s f).1.gone = true) :
    (scavenge false s f).1.w.env.resv = none := scavenge_order s f hg hr hd

/-- **foreign_skipping_scavenger_never_returns_reservation.**  The rule of `Reconcile` copied into the scavenger
    (`scavenge true`) leaks: a foreign job and its reservation survive EVERY history of time passing, reconciles and
    scavenger rounds (any faults) of the running instance — the job stays as it is for good. -/
theorem foreign_skipping_scavenger_never_returns_reservation (ops : List SOp) (s : SWorld)
    (hq : ∀ op ∈ ops, op.quiet = true) (hf : foreign s.w = true) :
    (runS true s ops).gone = s.gone ∧ (runS true s ops).w.job = s.w.job ∧ (runS true s ops).w.env.resv = s.w.env.resv :=
  runS_skip_foreign ops s hq hf

/-- a life: instance 1 creates the job through `Evict` (reservation-first, TTL 300 s) and its first reconcile creates the
    reservation and records the ReservationRef; restart (instance 2); 700 s pass; reconcile, scavenge -/
def lifeStart : SWorld :=
  ⟨{ job := createdJob 1 false 300 ⟨1, 1, 0, 0, false⟩,
     env := { now := 0, pod := some ⟨1, 1, 0, 0, false⟩, resv := none, bpod := 0, limited := false, preempt := 0, ctrl := 1 } }, false⟩

def lifeOps : List SOp := [.base (.recon 0), .base (.restart 2), .base (.tick 700), .base (.recon 0)]

/-- the hypotheses of scavenger_covers_foreign_jobs are met on that life, non-trivially: the job is foreign, Running, holds
    a ReservationRef, the reservation exists — and the shipped scavenger returns it -/
example : let s := runS false lifeStart lifeOps
    foreign s.w = true ∧ s.gone = false ∧ s.w.job.status.phase = Ph.running ∧ s.w.job.spec.resvRef = true ∧
    s.w.env.resv.isSome = true ∧ scavTimeout s.w.job.spec.ttl ≤ s.w.env.now ∧
    (scavenge false s 0).1.w.env.resv = none ∧ (scavenge false s 0).1.gone = true := by decide

/-- the full clause fails for the scavenger that skips foreign jobs -/
theorem scavenger_skipping_foreign_jobs_counterexample :
    ¬ (∀ s : SWorld, s.gone = false → scavTimeout s.w.job.spec.ttl ≤ s.w.env.now → s.w.job.spec.resvRef = true →
        (scavenge true s 0).1.w.env.resv = none) := by
  intro h
  have := h (runS true lifeStart lifeOps) (by decide) (by decide) (by decide)
  revert this
  decide


/-- what the scavenger does NOT cover (the open finding C17:expired-keeps-reservation:ref-write-failed, now for good): the
    creating reconcile made the reservation but the write of the ReservationRef failed (4th write), the controller
    restarted (the new instance ignores the job, so nothing re-adopts the reservation), the timeout passed — the scavenger
    deletes the job and the reservation it created stays, without any referrer -/
theorem scavenger_orphans_unrecorded_reservation_counterexample :
    ¬ (∀ s : SWorld, s.gone = false → scavTimeout s.w.job.spec.ttl ≤ s.w.env.now →
        (scavenge false s 0).1.w.env.resv = none) := by
  intro h
  have := h (runS false lifeStart [.base (.recon 8), .base (.restart 2), .base (.tick 700), .base (.recon 0)])
    (by decide) (by decide)
  revert this
  decide

end KoordVerif.C17
