import KoordVerif.Proofs.C15ExtMin
import KoordVerif.Proofs.C15ExtNs
import KoordVerif.Proofs.C15ExtUp
/-
C15 — property theorems (DESIGN.md §4 C15, Appendix A.7).

Well-formedness of the recorded topology `s` (model state of the webhook's quotaTopology):
  `Forest s` :=  one record per name ∧ no record named root
               ∧ every parent is the root or a recorded quota marked is-parent
               ∧ `Ranked` : ∃ rank, rank root = 0 ∧ rank (parent q) < rank q   (acyclic + rooted)
               ∧ children map (quotaHierarchyInfo) = inverse of the parent links.
  `WF d s`   :=  Forest ∧ key set of the children map = root + recorded names
               ∧ (min ≤ max ∧ keys(min) ⊆ keys(max) ∧ amounts ≥ 0)
               ∧ `MinSum`  : Σ children min ≤ parent min in every dimension, where a record carrying
                             allow-force-update / is-root (the two labels on which checkMinQuotaValidate
                             returns at once) is exempt as a parent and not counted as a child
               ∧ `KeysEdge`: max keys equal / child's min keys within the parent's, along every edge
               ∧ `TreeEdge`: tree ids equal along every edge
               ∧ `NsOK`    : namespaceToQuotaMap[n] = q  ⇔  the recorded quota q declares n.
FULL statement of DESIGN §4 C15, all proved below for every request and every history:
  accept_preserves_WF : WF d s → NotRootAdd op → (step d s op).2 = true → WF d (step d s op).1     (§7)
  history_WF / reachable_WF, reject_is_noop, delete_guard, no_cycle / cycle_rejected.
`accept_preserves_forest` (formerly `accept_preserves_forest`) is the structural part, kept as a lemma.
§10 restates preservation / history / delete guard for RAW requests (`stepRaw`, `runRaw`): the model decodes labels,
annotations, nil-vs-empty maps, the pod listing and the mutating default-filling as the code does (Model: `Raw`,
`decodeQI`, `fill`, `decodeOp`); these decoders are tied to the code by the differential runs.
Explicit hypothesis `NotRootAdd`: a create request NAMED koordinator-root-quota (which the scheduler does
send, createRootQuotaIfNotPresent) records a quota named root, so `Forest.nonzero` cannot survive it; the
harness never generates it in the main/exhaustive streams and exercises it in the separate root-add
stream.  For that request too the children-map clause is proved (§9 `accept_preserves_children_map`,
no hypothesis on the request) — it was FALSE before the repair f812ecb (root's child set emptied).
-/
namespace KoordVerif.C15

/-- a create request does not carry the root's own name (see header); decidable, checked by the harness on
    every generated request of the main and exhaustive streams. -/
def NotRootAdd : Op → Prop
  | .add q _ => q.name ≠ 0
  | _ => True

/-! ### 1. an accepted request keeps the forest well-formed (structural clauses; the full `WF` is §7) -/

theorem accept_preserves_forest (d : Nat) (s : Topo) (op : Op) (hF : Forest s) (hop : NotRootAdd op)
    (h : (step d s op).2 = true) : Forest (step d s op).1 := by
  cases op with
  | add q sw => exact forest_add hF hop h
  | upd q sw hp => exact forest_upd hF h
  | del n lp => exact forest_del hF h

/-! ### 2. a rejected request leaves the recorded topology unchanged -/

theorem reject_is_noop (d : Nat) (s : Topo) (op : Op) (h : (step d s op).2 = false) : (step d s op).1 = s := by
  cases op with
  | add q sw =>
    simp only [step] at h ⊢
    unfold validAdd at h ⊢
    repeat' split
    all_goals first | rfl | simp_all
  | upd q sw hp =>
    simp only [step] at h ⊢
    unfold validUpdate at h ⊢
    simp only at h ⊢
    repeat' split
    all_goals first | rfl | simp_all
  | del n lp =>
    simp only [step] at h ⊢
    unfold validDelete at h ⊢
    repeat' split
    all_goals first | rfl | simp_all

/-! ### 3. every history: the forest invariant holds in every reachable state -/

theorem history_forest (d : Nat) (ops : List Op) (hops : ∀ op ∈ ops, NotRootAdd op) :
    ∀ s, Forest s → Forest (run d s ops) := by
  induction ops with
  | nil => intro s hs; exact hs
  | cons op ops ih =>
    intro s hs
    simp only [run]
    apply ih (fun o ho => hops o (List.mem_cons_of_mem _ ho))
    cases hres : (step d s op).2 with
    | true => exact accept_preserves_forest d s op hs (hops op (List.mem_cons_self ..)) hres
    | false => rw [reject_is_noop d s op hres]; exact hs

theorem reachable_forest (d : Nat) (ops : List Op) (hops : ∀ op ∈ ops, NotRootAdd op) : Forest (run d init ops) :=
  history_forest d ops hops init forest_init

/-! ### 4. what `Ranked` means: no quota is its own proper ancestor -/

theorem anc_rank_le {info : List QI} {r : Nat → Nat} (hr : ∀ q ∈ info, r q.parent < r q.name) {x y : Nat}
    (h : Anc info x y) : r x ≤ r y := by
  induction h with
  | self => exact Nat.le_refl _
  | up hf _ ih =>
    have := hr _ (find_some hf).1
    rw [(find_some hf).2] at this
    omega

theorem no_cycle (s : Topo) (hF : Forest s) (q : QI) (hq : q ∈ s.info) : ¬ Anc s.info q.name q.parent := by
  obtain ⟨r, _, hr⟩ := hF.ranked
  intro ha
  have := anc_rank_le hr ha
  have := hr q hq
  omega

/-- following parent links from any recorded quota reaches the root (`upN n` = n steps along the links). -/
theorem reaches_root (s : Topo) (hF : Forest s) (q : QI) (hq : q ∈ s.info) : ∃ n, upN s.info n q.name = 0 := by
  obtain ⟨r, hr⟩ := hF.ranked
  exact reaches_root_aux hF r hr (r q.name) q.name (Nat.le_refl _) (Or.inr ⟨q, hq, rfl⟩)

/-- a re-parenting request that would close a cycle (new parent = the quota itself or one of its
    descendants) is never accepted as a change. -/
theorem cycle_rejected (d : Nat) (s : Topo) (q : QI) (sw hp : Bool) (hF : Forest s)
    (hcyc : Anc s.info q.name q.parent) (h : (validUpdate d s q sw hp).2 = true) :
    (validUpdate d s q sw hp).1 = s := by
  rcases validUpdate_true h with hst | ⟨o, hfo, hq0, _, _, htopo, _⟩
  · exact hst
  · exfalso
    obtain ⟨r, _, hr⟩ := hF.ranked
    have hwalk := (hitsUp_iff_anc r hq0 hF.nonzero hr (s.info.length + 1) q.parent []
      (by simp) (by simp) (by simp) (by simp)).mpr hcyc
    have hp0 : q.parent ≠ 0 := by
      intro e
      have : ∀ z, z = 0 → ¬ Anc s.info q.name z := by
        intro z hz ha
        cases ha with
        | self => exact hq0 hz
        | up hf _ => exact hF.nonzero _ (find_some hf).1 ((find_some hf).2.trans hz)
      exact this _ e hcyc
    obtain ⟨_, _, hcase⟩ := topoCheck_true hq0 htopo
    rcases hcase with ⟨h0, _⟩ | ⟨hpi, _, _⟩
    · exact hp0 h0
    · obtain ⟨_, _, _, hw⟩ := parentInfoOK_true hp0 hpi
      rw [hw] at hwalk; cases hwalk

/-! ### 5. a quota with children or (label-bound) pods is not deleted -/

theorem delete_guard (s : Topo) (n : Nat) (labelPods : Bool) (hF : Forest s)
    (h : (validDelete s n labelPods).2 = true) : (∀ c ∈ s.info, c.parent ≠ n) ∧ labelPods = false := by
  obtain ⟨_, _, hnk, hlp, _⟩ := validDelete_true h
  refine ⟨?_, hlp⟩
  intro c hc e
  exact hasKids_false hnk c.name ((hF.kidsOK _ _).mpr ⟨c, hc, rfl, e⟩)

/-! ### 6. min never exceeds max, min only in dimensions max declares, amounts non-negative -/

def SelfQ (d : Nat) (q : QI) : Prop :=
  ∀ k, k < d → 0 ≤ q.mn.val k ∧ 0 ≤ q.mx.val k ∧ (∀ a, q.mn.get k = some a → ∃ b, q.mx.get k = some b ∧ a ≤ b)

def SelfOK (d : Nat) (s : Topo) : Prop := ∀ q ∈ s.info, SelfQ d q

theorem selfOK_true {d : Nat} {q : QI} {sw : Bool} (h : selfOK d q sw = true) : SelfQ d q := by
  unfold selfOK negD minInMax at h
  simp only [Bool.and_eq_true, Bool.not_not, Bool.not_eq_true', allD_iff] at h
  obtain ⟨⟨⟨h1, h2⟩, _⟩, h3⟩ := h
  intro k hk
  refine ⟨by simpa using h2 k hk, by simpa using h1 k hk, ?_⟩
  intro a ha
  have h3k := h3 k hk
  simp only [ha] at h3k
  cases hb : q.mx.get k with
  | none => simp [hb] at h3k
  | some b => exact ⟨b, rfl, by simpa [hb] using h3k⟩

theorem accept_preserves_minmax (d : Nat) (s : Topo) (op : Op) (hS : SelfOK d s)
    (h : (step d s op).2 = true) : SelfOK d (step d s op).1 := by
  cases op with
  | add q sw =>
    obtain ⟨_, _, hself, _, hst⟩ := validAdd_true h
    simp only [step]; rw [hst]
    intro c hc
    simp only [addState, List.mem_cons] at hc
    rcases hc with rfl | hc
    · exact selfOK_true hself
    · exact hS c hc
  | upd q sw hp =>
    simp only [step]
    rcases validUpdate_true h with hst | ⟨o, _, _, _, hself, _, hst⟩
    · rw [hst]; exact hS
    · rw [hst]; intro c hc
      rcases mem_replace hc with ⟨hcq, _⟩ | ⟨hc, _⟩
      · subst hcq; exact selfOK_true hself
      · exact hS c hc
  | del n lp =>
    simp only [step]
    obtain ⟨o, _, _, _, hst⟩ := validDelete_true h
    rw [hst]; intro c hc
    simp only [delState, List.mem_filter] at hc
    exact hS c hc.1

/-! ### non-vacuity: the hypotheses are met by a non-trivial history, and the guards do reject -/

def exA : QI := { name := 3, parent := 0, isParent := true, tree := 0, force := false, treeRoot := false,
                  mn := [some 4], mx := [some 8], ns := [7] }
def exB : QI := { exA with name := 4, parent := 3, mn := [some 2], ns := [] }
def exC : QI := { exA with name := 5, parent := 0, mn := [some 3], ns := [8] }
def exS : Topo := run 1 init [.add exA false, .add exB false, .add exC false]

example : (step 1 init (.add exA false)).2 = true := by decide
example : exS.info.length = 3 ∧ exS.kids.length = 3 := by decide
-- closing a cycle (A under its child B) and self-parenting are rejected
example : (step 1 exS (.upd { exA with parent := 4 } false false)).2 = false := by decide
example : (step 1 exS (.upd { exA with parent := 3 } false false)).2 = false := by decide
-- a legitimate re-parenting (B from A to C) is accepted and changes the state
example : (step 1 exS (.upd { exB with parent := 5 } false false)).2 = true ∧
          (step 1 exS (.upd { exB with parent := 5 } false false)).1 ≠ exS := by decide
-- deleting a quota with a child is rejected, deleting a leaf is accepted
example : (step 1 exS (.del 3 false)).2 = false ∧ (step 1 exS (.del 4 false)).2 = true := by decide
-- `Anc` is inhabited non-trivially: A is an ancestor of B in exS
example : Anc exS.info 3 4 := Anc.up (a := exB) (by decide) Anc.self

/-! ### 7. FULL well-formedness (DESIGN §4 C15) and its preservation -/

/-- Well-formedness of the recorded topology, every clause of the statement:
    forest hanging off the root with children map = inverse of the parent links (`Forest`), key set of
    the children map = root + recorded names, min ≤ max / keys(min) ⊆ keys(max) / amounts ≥ 0, the
    children's mins sum to at most the parent's min (a record carrying allow-force-update / is-root is
    exempt as a parent and not counted as a child — the code's two documented bypasses), max keys
    equal and min keys included along every edge, tree ids equal along every edge, namespace map =
    the recorded quotas' namespace annotations. -/
structure WF (d : Nat) (s : Topo) : Prop where
  forest : Forest s
  hkeys  : HKeys s
  self   : SelfOK d s
  minSum : MinSum d s
  keys   : KeysEdge d s
  tree   : TreeEdge s
  ns     : NsOK s

theorem wf_init (d : Nat) : WF d init :=
  ⟨forest_init, hkeys_init, by intro q hq; simp [init] at hq, minsum_init d,
   by intro c hc; simp [init] at hc, by intro c hc; simp [init] at hc, ns_init⟩

theorem SelfOK.nonneg {d : Nat} {s : Topo} (h : SelfOK d s) : MinNonneg d s.info :=
  fun c hc k hk => (h c hc k hk).1

theorem accept_preserves_WF (d : Nat) (s : Topo) (op : Op) (hW : WF d s) (hop : NotRootAdd op)
    (h : (step d s op).2 = true) : WF d (step d s op).1 := by
  have hF' := accept_preserves_forest d s op hW.forest hop h
  have hS' := accept_preserves_minmax d s op hW.self h
  have hF := hW.forest
  have hu := uniq_of_nodup hF.nodup
  cases op with
  | add q sw =>
    simp only [step] at h hF' hS' ⊢
    have hA := add_facts hF hop h
    obtain ⟨_, _, hself, _, hst⟩ := validAdd_true h
    rw [hst] at hF' hS' ⊢
    have hqn : ∀ k, k < d → 0 ≤ q.mn.val k := fun k hk => (selfOK_true hself k hk).1
    exact ⟨hF', hkeys_add hW.hkeys hA, hS', minsum_add hF hW.minSum hW.self.nonneg hqn hA,
      keys_add hF hW.keys hA, tree_add hF hW.tree hA, ns_add hW.ns h⟩
  | upd q sw hp =>
    simp only [step] at h hF' hS' ⊢
    rcases validUpdate_true h with hst | ⟨o, hfo, hq0, hfree, hself, htopo, hst⟩
    · rw [hst]; exact hW
    · rw [hst] at hF' hS' ⊢
      have hU := upd_facts hF hfo hq0 htopo
      have hqn : ∀ k, k < d → 0 ≤ q.mn.val k := fun k hk => (selfOK_true hself k hk).1
      exact ⟨hF', hkeys_upd hW.hkeys hU.mem hU.name, hS', minsum_upd hF hW.minSum hW.self.nonneg hqn hU,
        keys_upd hF hW.keys hU, tree_upd hF hW.tree hU, ns_upd hu hW.ns hU.mem hU.name hfree⟩
  | del n lp =>
    simp only [step] at h hF' hS' ⊢
    obtain ⟨o, hfo, _, _, hst⟩ := validDelete_true h
    rw [hst] at hF' hS' ⊢
    obtain ⟨ho, hon⟩ := find_some hfo
    have hn0 : n ≠ 0 := by rw [← hon]; exact hF.nonzero o ho
    exact ⟨hF', hkeys_del hW.hkeys hn0, hS', minsum_del hW.minSum hW.self.nonneg,
      keys_del hW.keys, tree_del hW.tree, ns_del hu hW.ns ho hon⟩

/-- every history: every reachable state is well-formed (accepted steps preserve, rejected steps are no-ops). -/
theorem history_WF (d : Nat) (ops : List Op) (hops : ∀ op ∈ ops, NotRootAdd op) :
    ∀ s, WF d s → WF d (run d s ops) := by
  induction ops with
  | nil => intro s hs; exact hs
  | cons op ops ih =>
    intro s hs
    simp only [run]
    apply ih (fun o ho => hops o (List.mem_cons_of_mem _ ho))
    cases hres : (step d s op).2 with
    | true => exact accept_preserves_WF d s op hs (hops op (List.mem_cons_self ..)) hres
    | false => rw [reject_is_noop d s op hres]; exact hs

theorem reachable_WF (d : Nat) (ops : List Op) (hops : ∀ op ∈ ops, NotRootAdd op) : WF d (run d init ops) :=
  history_WF d ops hops init (wf_init d)

/-! ### 8. the clauses of `WF` in the words of the statement -/

/-- children's mins sum to at most the parent's min, when no recorded quota used a bypass label. -/
theorem wf_min_sum {d : Nat} {s : Topo} (hW : WF d s) (hnb : ∀ c ∈ s.info, c.force = false ∧ c.treeRoot = false)
    (p : QI) (hp : p ∈ s.info) (k : Nat) (hk : k < d) : childMinSum s.info p.name k ≤ p.mn.val k :=
  minsum_plain hW.minSum (fun c hc => by simp [byp, hnb c hc]) p hp k hk

/-- in general: a parent that did not bypass covers its non-bypassing children. -/
theorem wf_min_sum_bypass {d : Nat} {s : Topo} (hW : WF d s) (p : QI) (hp : p ∈ s.info)
    (hb : p.force = false ∧ p.treeRoot = false) (k : Nat) (hk : k < d) : kidSum s.info p.name k ≤ p.mn.val k :=
  hW.minSum p hp (by simp [byp, hb]) k hk

theorem keysIncl_iff {d : Nat} {p c : RL} : keysIncl d p c = true ↔ ∀ k, k < d → (c.get k).isSome = true → (p.get k).isSome = true := by
  unfold keysIncl
  rw [allD_iff]
  constructor
  · intro h k hk hc
    have := h k hk
    simpa [hc] using this
  · intro h k hk
    cases hc : (c.get k).isSome with
    | false => simp
    | true => simp [h k hk hc]

/-- resource dimensions agree along every edge: same max keys, the child's min keys among the parent's. -/
theorem wf_keys_edge {d : Nat} {s : Topo} (hW : WF d s) (c p : QI) (hc : c ∈ s.info) (hp : p ∈ s.info)
    (he : p.name = c.parent) (k : Nat) (hk : k < d) :
    ((p.mx.get k).isSome = (c.mx.get k).isSome) ∧ ((c.mn.get k).isSome = true → (p.mn.get k).isSome = true) := by
  obtain ⟨h1, h2⟩ := hW.keys c hc p hp he
  unfold keysSame at h1
  rw [Bool.and_eq_true, keysIncl_iff, keysIncl_iff] at h1
  rw [keysIncl_iff] at h2
  refine ⟨?_, h2 k hk⟩
  have a := h1.1 k hk
  have b := h1.2 k hk
  cases hx : (p.mx.get k).isSome <;> cases hy : (c.mx.get k).isSome <;> simp_all

theorem wf_tree_edge {d : Nat} {s : Topo} (hW : WF d s) (c p : QI) (hc : c ∈ s.info) (hp : p ∈ s.info)
    (he : p.name = c.parent) : p.tree = c.tree := hW.tree c hc p hp he

/-- a namespace is bound to at most one quota; the namespace map only names live quotas and is exactly
    the recorded annotations. -/
theorem wf_namespace {d : Nat} {s : Topo} (hW : WF d s) :
    (∀ a ∈ s.info, ∀ b ∈ s.info, ∀ n, n ∈ a.ns → n ∈ b.ns → a = b) ∧
    (∀ n qn, nsGet s.nsMap n = some qn → ∃ q ∈ s.info, q.name = qn ∧ n ∈ q.ns) ∧
    (∀ q ∈ s.info, ∀ n ∈ q.ns, nsGet s.nsMap n = some q.name) := by
  refine ⟨?_, ?_, ?_⟩
  · intro a ha b hb n hna hnb
    exact uniq_of_nodup hW.forest.nodup a ha b hb (ns_at_most_one hW.ns ha hb hna hnb)
  · intro n qn h; exact (hW.ns n qn).mp h
  · intro q hq n hn; exact (hW.ns n q.name).mpr ⟨q, hq, rfl, hn⟩

/-! ### 9. children map = inverse of the parent links for EVERY accepted request (no `NotRootAdd`) -/

theorem accept_preserves_children_map (d : Nat) (s : Topo) (op : Op) (hK : KidsMap s)
    (h : (step d s op).2 = true) : KidsMap (step d s op).1 := by
  cases op with
  | add q sw => exact kidsmap_add hK h
  | upd q sw hp => exact kidsmap_upd hK h
  | del n lp => exact kidsmap_del hK h

theorem history_children_map (d : Nat) (ops : List Op) : ∀ s, KidsMap s → KidsMap (run d s ops) := by
  induction ops with
  | nil => intro s hs; exact hs
  | cons op ops ih =>
    intro s hs
    simp only [run]
    apply ih
    cases hres : (step d s op).2 with
    | true => exact accept_preserves_children_map d s op hs hres
    | false => rw [reject_is_noop d s op hres]; exact hs

/-! ### 10. raw requests: the decoding glue in front of the entry points (labels, annotations, pod listing) -/

/-- a raw create request is not named koordinator-root-quota. -/
def NotRootAddRaw : RawOp → Prop
  | .add r => r.name ≠ 0
  | .madd r => r.name ≠ 0
  | _ => True

/-- the mutating step never renames the object. -/
theorem fill_name {s : Topo} {r r' : Raw} (h : fill s r = some r') : r'.name = r.name := by
  unfold fill at h
  split at h
  · cases h; rfl
  · simp only at h
    split at h
    · cases h
    · split at h
      · cases h
      · cases h; rfl

theorem notRootAdd_decode (s : Topo) (r : RawOp) (op : Op) (h : NotRootAddRaw r) (hd : decodeOp s r = some op) :
    NotRootAdd op := by
  cases r with
  | add r => simp only [decodeOp, Option.some.injEq] at hd; subst hd; simpa [NotRootAdd, NotRootAddRaw, decodeQI] using h
  | madd r =>
    simp only [decodeOp] at hd
    cases hf : fill s r with
    | none => simp [hf] at hd
    | some r' =>
      simp only [hf, Option.some.injEq] at hd; subst hd
      have := fill_name hf
      simpa [NotRootAdd, NotRootAddRaw, decodeQI, this] using h
  | upd r le pods => simp only [decodeOp, Option.some.injEq] at hd; subst hd; simp [NotRootAdd]
  | del n le pods => simp only [decodeOp, Option.some.injEq] at hd; subst hd; simp [NotRootAdd]

theorem raw_accept_preserves_WF (d : Nat) (s : Topo) (r : RawOp) (hW : WF d s) (hr : NotRootAddRaw r)
    (h : (stepRaw d s r).2 = true) : WF d (stepRaw d s r).1 := by
  unfold stepRaw at h ⊢
  cases hd : decodeOp s r with
  | none => simp [hd] at h
  | some op =>
    simp only [hd] at h ⊢
    exact accept_preserves_WF d s op hW (notRootAdd_decode s r op hr hd) h

theorem raw_reject_is_noop (d : Nat) (s : Topo) (r : RawOp) (h : (stepRaw d s r).2 = false) : (stepRaw d s r).1 = s := by
  unfold stepRaw at h ⊢
  cases hd : decodeOp s r with
  | none => rfl
  | some op => simp only [hd] at h ⊢; exact reject_is_noop d s op h

theorem raw_history_WF (d : Nat) (rs : List RawOp) (hrs : ∀ r ∈ rs, NotRootAddRaw r) :
    ∀ s, WF d s → WF d (runRaw d s rs) := by
  induction rs with
  | nil => intro s hs; exact hs
  | cons r rs ih =>
    intro s hs
    simp only [runRaw]
    apply ih (fun o ho => hrs o (List.mem_cons_of_mem _ ho))
    cases hres : (stepRaw d s r).2 with
    | true => exact raw_accept_preserves_WF d s r hs (hrs r (List.mem_cons_self ..)) hres
    | false => rw [raw_reject_is_noop d s r hres]; exact hs

/-- a quota with children, with pods carrying its label, or whose pods cannot be listed is not deleted. -/
theorem raw_delete_guard (d : Nat) (s : Topo) (n : Nat) (listErr : Bool) (pods : List Pod) (hF : Forest s)
    (h : (stepRaw d s (.del n listErr pods)).2 = true) :
    (∀ c ∈ s.info, c.parent ≠ n) ∧ listErr = false ∧ ∀ p ∈ pods, p.label ≠ some n := by
  have h' : (validDelete s n (listErr || labelPods pods n)).2 = true := h
  obtain ⟨h1, h2⟩ := delete_guard s n _ hF h'
  rw [Bool.or_eq_false_iff] at h2
  refine ⟨h1, h2.1, ?_⟩
  intro p hp e
  have := List.any_eq_false.mp h2.2 p hp
  simp [e] at this

/-- an absent or empty parent label means the root (except on the root-named object). -/
theorem decode_parent_default (r : Raw) (hn : r.name ≠ 0) (hp : r.parentCode = 98 ∨ r.parentCode = 99) :
    (decodeQI r).parent = 0 := by
  rcases hp with hp | hp <;> simp [decodeQI, parentOf, hp, hn]

/-- only the literal "true" turns a boolean label on. -/
theorem decode_labels (r : Raw) :
    ((decodeQI r).isParent = true ↔ r.isParentCode = 1) ∧ ((decodeQI r).force = true ↔ r.forceCode = 1) ∧
    ((decodeQI r).treeRoot = true ↔ r.rootCode = 1) := by
  simp [decodeQI, labelTrue]

/-! ### non-vacuity of the new clauses -/

-- the scheduler's root object (name 0, parent "" = 99) created after A, B, C: accepted, and the root keeps its children
def exRoot : QI := { name := 0, parent := 99, isParent := true, tree := 0, force := false, treeRoot := false,
                     mn := [none], mx := [none], ns := [] }
example : (step 1 exS (.add exRoot false)).2 = true ∧
          isKid (step 1 exS (.add exRoot false)).1 0 3 = true ∧ isKid (step 1 exS (.add exRoot false)).1 0 5 = true := by decide
-- it is NOT a forest in the sense of `Forest` any more (a record named root): the hypothesis NotRootAdd is needed there
example : ¬ Forest (step 1 exS (.add exRoot false)).1 := fun hF => hF.nonzero exRoot (by decide) rfl
-- min-sum: B (min 2) under A (min 4); a second child with min 3 is rejected, with the force label it is accepted
-- and the plain sum then exceeds A's min: the bypass really is part of the statement
def exD : QI := { exB with name := 6, mn := [some 3] }
example : (step 1 exS (.add exD false)).2 = false ∧ (step 1 exS (.add { exD with force := true } false)).2 = true := by decide
example : ¬ (childMinSum (step 1 exS (.add { exD with force := true } false)).1.info 3 0 ≤ exA.mn.val 0) := by decide
example : kidSum (step 1 exS (.add { exD with force := true } false)).1.info 3 0 = 2 := by decide
-- keys / tree id along an edge are enforced
example : (step 2 exS (.add { exD with mn := [some 1], mx := [some 8, some 8] } false)).2 = false := by decide
example : (step 1 exS (.add { exD with mn := [some 1], tree := 1 } false)).2 = false := by decide
-- a namespace bound to A cannot be taken by a new quota, nor by an update of C
example : (step 1 exS (.add { exD with mn := [some 1], ns := [7] } false)).2 = false ∧
          (step 1 exS (.upd { exC with ns := [7] } false false)).2 = false := by decide

-- raw layer: an update of A that only re-spells the parent label (written-out root -> absent label) is NOT the
-- unchanged-fields shortcut (the code compares raw strings): with a negative shared weight it is rejected, whereas the
-- identical spelling is accepted whatever else the object carries
def rawA (pc sw : Nat) : Raw :=
  { name := 3, parentCode := pc, isParentCode := 1, tree := 0, forceCode := 2, rootCode := 2,
    swShape := sw, nsShape := 0, nsList := [7], mnNil := false, mxNil := false, mn := [some 4], mx := [some 8] }
example : decodeQI (rawA 0 0) = exA := by decide
example : (stepRaw 1 exS (.upd (rawA 0 1) false [])).2 = true ∧ (stepRaw 1 exS (.upd (rawA 98 1) false [])).2 = false ∧
          (stepRaw 1 exS (.upd (rawA 98 0) false [])).2 = true := by decide
-- a failing pod listing, or a pod carrying the label, blocks the delete of the leaf B
example : (stepRaw 1 exS (.del 4 false [])).2 = true ∧ (stepRaw 1 exS (.del 4 true [])).2 = false ∧
          (stepRaw 1 exS (.del 4 false [{ nsKind := 1, ns := 5, label := some 4 }])).2 = false := by decide

end KoordVerif.C15
