import KoordVerif.Proofs.C15ExtMin
import KoordVerif.Proofs.C15ExtNs
import KoordVerif.Proofs.C15ExtUp
import KoordVerif.Proofs.C15ExtInf
import KoordVerif.Proofs.C15ExtRace
import KoordVerif.Proofs.C15ExtStep
/-
C15 — property theorems (DESIGN.md §4 C15, Appendix A.7).

Well-formedness of the recorded topology `s` (model state of the webhook's quotaTopology):
  `Forest s` :=  one record per name ∧ no record named root
               ∧ every parent is the root or a recorded quota marked is-parent
               ∧ `Ranked` : ∃ rank, rank root = 0 ∧ rank (parent q) < rank q   (acyclic + rooted)
               ∧ children map (quotaHierarchyInfo) = inverse of the parent links.
  `WF d s`   :=  Forest ∧ key set of the children map = root + recorded names
               ∧ (min ≤ max ∧ keys(min) ⊆ keys(max) ∧ amounts ≥ 0)
               ∧ `MinSum`  : Σ children min ≤ parent min in every dimension, where a record carrying
                             allow-force-update / is-root (the two labels on which checkMinQuotaValidate
                             returns at once) is exempt as a parent and not counted as a child
               ∧ `KeysEdge`: max keys equal / child's min keys within the parent's, along every edge
               ∧ `TreeEdge`: tree ids equal along every edge
               ∧ `NsOK`    : namespaceToQuotaMap[n] = q  ⇔  the recorded quota q declares n.
FULL statement of DESIGN §4 C15, all proved below for every request and every history:
  accept_preserves_WF : WF d s → NotRootAdd op → (step d s op).2 = true → WF d (step d s op).1     (§7)
  history_WF / reachable_WF, reject_is_noop, delete_guard, no_cycle / cycle_rejected.
`accept_preserves_forest` (formerly `accept_preserves_forest`) is the structural part, kept as a lemma.
§10 restates preservation / history / delete guard for RAW requests (`stepRaw`, `runRaw`): the model decodes labels,
annotations, nil-vs-empty maps, the pod listing and the mutating default-filling as the code does (Model: `Raw`,
`decodeQI`, `fill`, `decodeOp`); these decoders are tied to the code by the differential runs.
Explicit hypothesis `NotRootAdd`: a create request NAMED koordinator-root-quota (which the scheduler does
send, createRootQuotaIfNotPresent) records a quota named root, so `Forest.nonzero` cannot survive it; the
harness never generates it in the main/exhaustive streams and exercises it in the separate root-add
stream.  For that request too the children-map clause is proved (§9 `accept_preserves_children_map`,
no hypothesis on the request) — it was FALSE before the repair f812ecb (root's child set emptied).
-/
namespace KoordVerif.C15

/-- a create request does not carry the root's own name (see header); decidable, checked by the harness on
    every generated request of the main and exhaustive streams. -/
def NotRootAdd : Op → Prop
  | .add q _ => q.name ≠ 0
  | _ => True

/-! ### 1. an accepted request keeps the forest well-formed (structural clauses; the full `WF` is §7) -/

theorem accept_preserves_forest (d : Nat) (s : Topo) (op : Op) (hF : Forest s) (hop : NotRootAdd op)
    (h : (step d s op).2 = true) : Forest (step d s op).1 := by
  cases op with
  | add q sw => exact forest_add hF hop h
  | upd q sw hp => exact forest_upd hF h
  | del n lp => exact forest_del hF h

/-! ### 2. a rejected request leaves the recorded topology unchanged -/

theorem reject_is_noop (d : Nat) (s : Topo) (op : Op) (h : (step d s op).2 = false) : (step d s op).1 = s := by
  cases op with
  | add q sw =>
    simp only [step] at h ⊢
    unfold validAdd at h ⊢
    repeat' split
    all_goals first | rfl | simp_all
  | upd q sw hp =>
    simp only [step] at h ⊢
    unfold validUpdate at h ⊢
    simp only at h ⊢
    repeat' split
    all_goals first | rfl | simp_all
  | del n lp =>
    simp only [step] at h ⊢
    unfold validDelete at h ⊢
    repeat' split
    all_goals first | rfl | simp_all

/-! ### 3. every history: the forest invariant holds in every reachable state -/

theorem history_forest (d : Nat) (ops : List Op) (hops : ∀ op ∈ ops, NotRootAdd op) :
    ∀ s, Forest s → Forest (run d s ops) := by
  induction ops with
  | nil => intro s hs; exact hs
  | cons op ops ih =>
    intro s hs
    simp only [run]
    apply ih (fun o ho => hops o (List.mem_cons_of_mem _ ho))
    cases hres : (step d s op).2 with
    | true => exact accept_preserves_forest d s op hs (hops op (List.mem_cons_self ..)) hres
    | false => rw [reject_is_noop d s op hres]; exact hs

theorem reachable_forest (d : Nat) (ops : List Op) (hops : ∀ op ∈ ops, NotRootAdd op) : Forest (run d init ops) :=
  history_forest d ops hops init forest_init

/-! ### 4. what `Ranked` means: no quota is its own proper ancestor -/

theorem anc_rank_le {info : List QI} {r : Nat → Nat} (hr : ∀ q ∈ info, r q.parent < r q.name) {x y : Nat}
    (h : Anc info x y) : r x ≤ r y := by
  induction h with
  | self => exact Nat.le_refl _
  | up hf _ ih =>
    have := hr _ (find_some hf).1
    rw [(find_some hf).2] at this
    omega

theorem no_cycle (s : Topo) (hF : Forest s) (q : QI) (hq : q ∈ s.info) : ¬ Anc s.info q.name q.parent := by
  obtain ⟨r, _, hr⟩ := hF.ranked
  intro ha
  have := anc_rank_le hr ha
  have := hr q hq
  omega

/-- following parent links from any recorded quota reaches the root (`upN n` = n steps along the links). -/
theorem reaches_root (s : Topo) (hF : Forest s) (q : QI) (hq : q ∈ s.info) : ∃ n, upN s.info n q.name = 0 := by
  obtain ⟨r, hr⟩ := hF.ranked
  exact reaches_root_aux hF r hr (r q.name) q.name (Nat.le_refl _) (Or.inr ⟨q, hq, rfl⟩)

/-- a re-parenting request that would close a cycle (new parent = the quota itself or one of its
    descendants) is never accepted as a change. -/
theorem cycle_rejected (d : Nat) (s : Topo) (q : QI) (sw hp : Bool) (hF : Forest s)
    (hcyc : Anc s.info q.name q.parent) (h : (validUpdate d s q sw hp).2 = true) :
    (validUpdate d s q sw hp).1 = s := by
  rcases validUpdate_true h with hst | ⟨o, hfo, hq0, _, _, htopo, _⟩
  · exact hst
  · exfalso
    obtain ⟨r, _, hr⟩ := hF.ranked
    have hwalk := (hitsUp_iff_anc r hq0 hF.nonzero hr (s.info.length + 1) q.parent []
      (by simp) (by simp) (by simp) (by simp)).mpr hcyc
    have hp0 : q.parent ≠ 0 := by
      intro e
      have : ∀ z, z = 0 → ¬ Anc s.info q.name z := by
        intro z hz ha
        cases ha with
        | self => exact hq0 hz
        | up hf _ => exact hF.nonzero _ (find_some hf).1 ((find_some hf).2.trans hz)
      exact this _ e hcyc
    obtain ⟨_, _, hcase⟩ := topoCheck_true hq0 htopo
    rcases hcase with ⟨h0, _⟩ | ⟨hpi, _, _⟩
    · exact hp0 h0
    · obtain ⟨_, _, _, hw⟩ := parentInfoOK_true hp0 hpi
      rw [hw] at hwalk; cases hwalk

/-! ### 5. a quota with children or (label-bound) pods is not deleted -/

theorem delete_guard (s : Topo) (n : Nat) (labelPods : Bool) (hF : Forest s)
    (h : (validDelete s n labelPods).2 = true) : (∀ c ∈ s.info, c.parent ≠ n) ∧ labelPods = false := by
  obtain ⟨_, _, hnk, hlp, _⟩ := validDelete_true h
  refine ⟨?_, hlp⟩
  intro c hc e
  exact hasKids_false hnk c.name ((hF.kidsOK _ _).mpr ⟨c, hc, rfl, e⟩)

/-! ### 6. min never exceeds max, min only in dimensions max declares, amounts non-negative -/

def SelfQ (d : Nat) (q : QI) : Prop :=
  ∀ k, k < d → 0 ≤ q.mn.val k ∧ 0 ≤ q.mx.val k ∧ (∀ a, q.mn.get k = some a → ∃ b, q.mx.get k = some b ∧ a ≤ b)

def SelfOK (d : Nat) (s : Topo) : Prop := ∀ q ∈ s.info, SelfQ d q

theorem selfOK_true {d : Nat} {q : QI} {sw : Bool} (h : selfOK d q sw = true) : SelfQ d q := by
  unfold selfOK negD minInMax at h
  simp only [Bool.and_eq_true, Bool.not_not, Bool.not_eq_true', allD_iff] at h
  obtain ⟨⟨⟨h1, h2⟩, _⟩, h3⟩ := h
  intro k hk
  refine ⟨by simpa using h2 k hk, by simpa using h1 k hk, ?_⟩
  intro a ha
  have h3k := h3 k hk
  simp only [ha] at h3k
  cases hb : q.mx.get k with
  | none => simp [hb] at h3k
  | some b => exact ⟨b, rfl, by simpa [hb] using h3k⟩

theorem accept_preserves_minmax (d : Nat) (s : Topo) (op : Op) (hS : SelfOK d s)
    (h : (step d s op).2 = true) : SelfOK d (step d s op).1 := by
  cases op with
  | add q sw =>
    obtain ⟨_, _, hself, _, hst⟩ := validAdd_true h
    simp only [step]; rw [hst]
    intro c hc
    simp only [addState, List.mem_cons] at hc
    rcases hc with rfl | hc
    · exact selfOK_true hself
    · exact hS c hc
  | upd q sw hp =>
    simp only [step]
    rcases validUpdate_true h with hst | ⟨o, _, _, _, hself, _, hst⟩
    · rw [hst]; exact hS
    · rw [hst]; intro c hc
      rcases mem_replace hc with ⟨hcq, _⟩ | ⟨hc, _⟩
      · subst hcq; exact selfOK_true hself
      · exact hS c hc
  | del n lp =>
    simp only [step]
    obtain ⟨o, _, _, _, hst⟩ := validDelete_true h
    rw [hst]; intro c hc
    simp only [delState, List.mem_filter] at hc
    exact hS c hc.1

/-! ### non-vacuity: the hypotheses are met by a non-trivial history, and the guards do reject -/

def exA : QI := { name := 3, parent := 0, isParent := true, tree := 0, force := false, treeRoot := false,
                  mn := [some 4], mx := [some 8], ns := [7] }
def exB : QI := { exA with name := 4, parent := 3, mn := [some 2], ns := [] }
def exC : QI := { exA with name := 5, parent := 0, mn := [some 3], ns := [8] }
def exS : Topo := run 1 init [.add exA false, .add exB false, .add exC false]

example : (step 1 init (.add exA false)).2 = true := by decide
example : exS.info.length = 3 ∧ exS.kids.length = 3 := by decide
-- closing a cycle (A under its child B) and self-parenting are rejected
example : (step 1 exS (.upd { exA with parent := 4 } false false)).2 = false := by decide
example : (step 1 exS (.upd { exA with parent := 3 } false false)).2 = false := by decide
-- a legitimate re-parenting (B from A to C) is accepted and changes the state
example : (step 1 exS (.upd { exB with parent := 5 } false false)).2 = true ∧
          (step 1 exS (.upd { exB with parent := 5 } false false)).1 ≠ exS := by decide
-- deleting a quota with a child is rejected, deleting a leaf is accepted
example : (step 1 exS (.del 3 false)).2 = false ∧ (step 1 exS (.del 4 false)).2 = true := by decide
-- `Anc` is inhabited non-trivially: A is an ancestor of B in exS
example : Anc exS.info 3 4 := Anc.up (a := exB) (by decide) Anc.self

/-! ### 7. FULL well-formedness (DESIGN §4 C15) and its preservation -/

/-- Well-formedness of the recorded topology, every clause of the statement:
    forest hanging off the root with children map = inverse of the parent links (`Forest`), key set of
    the children map = root + recorded names, min ≤ max / keys(min) ⊆ keys(max) / amounts ≥ 0, the
    children's mins sum to at most the parent's min (a record carrying allow-force-update / is-root is
    exempt as a parent and not counted as a child — the code's two documented bypasses), max keys
    equal and min keys included along every edge, tree ids equal along every edge, namespace map =
    the recorded quotas' namespace annotations. -/
structure WF (d : Nat) (s : Topo) : Prop where
  forest : Forest s
  hkeys  : HKeys s
  self   : SelfOK d s
  minSum : MinSum d s
  keys   : KeysEdge d s
  tree   : TreeEdge s
  ns     : NsOK s

theorem wf_init (d : Nat) : WF d init :=
  ⟨forest_init, hkeys_init, by intro q hq; simp [init] at hq, minsum_init d,
   by intro c hc; simp [init] at hc, by intro c hc; simp [init] at hc, ns_init⟩

theorem SelfOK.nonneg {d : Nat} {s : Topo} (h : SelfOK d s) : MinNonneg d s.info :=
  fun c hc k hk => (h c hc k hk).1

theorem accept_preserves_WF (d : Nat) (s : Topo) (op : Op) (hW : WF d s) (hop : NotRootAdd op)
    (h : (step d s op).2 = true) : WF d (step d s op).1 := by
  have hF' := accept_preserves_forest d s op hW.forest hop h
  have hS' := accept_preserves_minmax d s op hW.self h
  have hF := hW.forest
  have hu := uniq_of_nodup hF.nodup
  cases op with
  | add q sw =>
    simp only [step] at h hF' hS' ⊢
    have hA := add_facts hF hop h
    obtain ⟨_, _, hself, _, hst⟩ := validAdd_true h
    rw [hst] at hF' hS' ⊢
    have hqn : ∀ k, k < d → 0 ≤ q.mn.val k := fun k hk => (selfOK_true hself k hk).1
    exact ⟨hF', hkeys_add hW.hkeys hA, hS', minsum_add hF hW.minSum hW.self.nonneg hqn hA,
      keys_add hF hW.keys hA, tree_add hF hW.tree hA, ns_add hW.ns h⟩
  | upd q sw hp =>
    simp only [step] at h hF' hS' ⊢
    rcases validUpdate_true h with hst | ⟨o, hfo, hq0, hfree, hself, htopo, hst⟩
    · rw [hst]; exact hW
    · rw [hst] at hF' hS' ⊢
      have hU := upd_facts hF hfo hq0 htopo
      have hqn : ∀ k, k < d → 0 ≤ q.mn.val k := fun k hk => (selfOK_true hself k hk).1
      exact ⟨hF', hkeys_upd hW.hkeys hU.mem hU.name, hS', minsum_upd hF hW.minSum hW.self.nonneg hqn hU,
        keys_upd hF hW.keys hU, tree_upd hF hW.tree hU, ns_upd hu hW.ns hU.mem hU.name hfree⟩
  | del n lp =>
    simp only [step] at h hF' hS' ⊢
    obtain ⟨o, hfo, _, _, hst⟩ := validDelete_true h
    rw [hst] at hF' hS' ⊢
    obtain ⟨ho, hon⟩ := find_some hfo
    have hn0 : n ≠ 0 := by rw [← hon]; exact hF.nonzero o ho
    exact ⟨hF', hkeys_del hW.hkeys hn0, hS', minsum_del hW.minSum hW.self.nonneg,
      keys_del hW.keys, tree_del hW.tree, ns_del hu hW.ns ho hon⟩

/-- every history: every reachable state is well-formed (accepted steps preserve, rejected steps are no-ops). -/
theorem history_WF (d : Nat) (ops : List Op) (hops : ∀ op ∈ ops, NotRootAdd op) :
    ∀ s, WF d s → WF d (run d s ops) := by
  induction ops with
  | nil => intro s hs; exact hs
  | cons op ops ih =>
    intro s hs
    simp only [run]
    apply ih (fun o ho => hops o (List.mem_cons_of_mem _ ho))
    cases hres : (step d s op).2 with
    | true => exact accept_preserves_WF d s op hs (hops op (List.mem_cons_self ..)) hres
    | false => rw [reject_is_noop d s op hres]; exact hs

theorem reachable_WF (d : Nat) (ops : List Op) (hops : ∀ op ∈ ops, NotRootAdd op) : WF d (run d init ops) :=
  history_WF d ops hops init (wf_init d)

/-! ### 8. the clauses of `WF` in the words of the statement -/

/-- children's mins sum to at most the parent's min, when no recorded quota used a bypass label. -/
theorem wf_min_sum {d : Nat} {s : Topo} (hW : WF d s) (hnb : ∀ c ∈ s.info, c.force = false ∧ c.treeRoot = false)
    (p : QI) (hp : p ∈ s.info) (k : Nat) (hk : k < d) : childMinSum s.info p.name k ≤ p.mn.val k :=
  minsum_plain hW.minSum (fun c hc => by simp [byp, hnb c hc]) p hp k hk

/-- in general: a parent that did not bypass covers its non-bypassing children. -/
theorem wf_min_sum_bypass {d : Nat} {s : Topo} (hW : WF d s) (p : QI) (hp : p ∈ s.info)
    (hb : p.force = false ∧ p.treeRoot = false) (k : Nat) (hk : k < d) : kidSum s.info p.name k ≤ p.mn.val k :=
  hW.minSum p hp (by simp [byp, hb]) k hk

theorem keysIncl_iff {d : Nat} {p c : RL} : keysIncl d p c = true ↔ ∀ k, k < d → (c.get k).isSome = true → (p.get k).isSome = true := by
  unfold keysIncl
  rw [allD_iff]
  constructor
  · intro h k hk hc
    have := h k hk
    simpa [hc] using this
  · intro h k hk
    cases hc : (c.get k).isSome with
    | false => simp
    | true => simp [h k hk hc]

/-- resource dimensions agree along every edge: same max keys, the child's min keys among the parent's. -/
theorem wf_keys_edge {d : Nat} {s : Topo} (hW : WF d s) (c p : QI) (hc : c ∈ s.info) (hp : p ∈ s.info)
    (he : p.name = c.parent) (k : Nat) (hk : k < d) :
    ((p.mx.get k).isSome = (c.mx.get k).isSome) ∧ ((c.mn.get k).isSome = true → (p.mn.get k).isSome = true) := by
  obtain ⟨h1, h2⟩ := hW.keys c hc p hp he
  unfold keysSame at h1
  rw [Bool.and_eq_true, keysIncl_iff, keysIncl_iff] at h1
  rw [keysIncl_iff] at h2
  refine ⟨?_, h2 k hk⟩
  have a := h1.1 k hk
  have b := h1.2 k hk
  cases hx : (p.mx.get k).isSome <;> cases hy : (c.mx.get k).isSome <;> simp_all

theorem wf_tree_edge {d : Nat} {s : Topo} (hW : WF d s) (c p : QI) (hc : c ∈ s.info) (hp : p ∈ s.info)
    (he : p.name = c.parent) : p.tree = c.tree := hW.tree c hc p hp he

/-- a namespace is bound to at most one quota; the namespace map only names live quotas and is exactly
    the recorded annotations. -/
theorem wf_namespace {d : Nat} {s : Topo} (hW : WF d s) :
    (∀ a ∈ s.info, ∀ b ∈ s.info, ∀ n, n ∈ a.ns → n ∈ b.ns → a = b) ∧
    (∀ n qn, nsGet s.nsMap n = some qn → ∃ q ∈ s.info, q.name = qn ∧ n ∈ q.ns) ∧
    (∀ q ∈ s.info, ∀ n ∈ q.ns, nsGet s.nsMap n = some q.name) := by
  refine ⟨?_, ?_, ?_⟩
  · intro a ha b hb n hna hnb
    exact uniq_of_nodup hW.forest.nodup a ha b hb (ns_at_most_one hW.ns ha hb hna hnb)
  · intro n qn h; exact (hW.ns n qn).mp h
  · intro q hq n hn; exact (hW.ns n q.name).mpr ⟨q, hq, rfl, hn⟩

/-! ### 9. children map = inverse of the parent links for EVERY accepted request (no `NotRootAdd`) -/

theorem accept_preserves_children_map (d : Nat) (s : Topo) (op : Op) (hK : KidsMap s)
    (h : (step d s op).2 = true) : KidsMap (step d s op).1 := by
  cases op with
  | add q sw => exact kidsmap_add hK h
  | upd q sw hp => exact kidsmap_upd hK h
  | del n lp => exact kidsmap_del hK h

theorem history_children_map (d : Nat) (ops : List Op) : ∀ s, KidsMap s → KidsMap (run d s ops) := by
  induction ops with
  | nil => intro s hs; exact hs
  | cons op ops ih =>
    intro s hs
    simp only [run]
    apply ih
    cases hres : (step d s op).2 with
    | true => exact accept_preserves_children_map d s op hs hres
    | false => rw [reject_is_noop d s op hres]; exact hs

/-! ### 10. raw requests: the decoding glue in front of the entry points (labels, annotations, pod listing) -/

/-- a raw create request is not named koordinator-root-quota. -/
def NotRootAddRaw : RawOp → Prop
  | .add r => r.name ≠ 0
  | .madd r => r.name ≠ 0
  | _ => True

/-- the mutating step never renames the object. -/
theorem fill_name {s : Topo} {r r' : Raw} (h : fill s r = some r') : r'.name = r.name := by
  unfold fill at h
  split at h
  · cases h; rfl
  · simp only at h
    split at h
    · cases h
    · split at h
      · cases h
      · cases h; rfl

theorem notRootAdd_decode (s : Topo) (r : RawOp) (op : Op) (h : NotRootAddRaw r) (hd : decodeOp s r = some op) :
    NotRootAdd op := by
  cases r with
  | add r => simp only [decodeOp, Option.some.injEq] at hd; subst hd; simpa [NotRootAdd, NotRootAddRaw, decodeQI] using h
  | madd r =>
    simp only [decodeOp] at hd
    cases hf : fill s r with
    | none => simp [hf] at hd
    | some r' =>
      simp only [hf, Option.some.injEq] at hd; subst hd
      have := fill_name hf
      simpa [NotRootAdd, NotRootAddRaw, decodeQI, this] using h
  | upd r le pods => simp only [decodeOp, Option.some.injEq] at hd; subst hd; simp [NotRootAdd]
  | del n le pods => simp only [decodeOp, Option.some.injEq] at hd; subst hd; simp [NotRootAdd]

theorem raw_accept_preserves_WF (d : Nat) (s : Topo) (r : RawOp) (hW : WF d s) (hr : NotRootAddRaw r)
    (h : (stepRaw d s r).2 = true) : WF d (stepRaw d s r).1 := by
  unfold stepRaw at h ⊢
  cases hd : decodeOp s r with
  | none => simp [hd] at h
  | some op =>
    simp only [hd] at h ⊢
    exact accept_preserves_WF d s op hW (notRootAdd_decode s r op hr hd) h

theorem raw_reject_is_noop (d : Nat) (s : Topo) (r : RawOp) (h : (stepRaw d s r).2 = false) : (stepRaw d s r).1 = s := by
  unfold stepRaw at h ⊢
  cases hd : decodeOp s r with
  | none => rfl
  | some op => simp only [hd] at h ⊢; exact reject_is_noop d s op h

theorem raw_history_WF (d : Nat) (rs : List RawOp) (hrs : ∀ r ∈ rs, NotRootAddRaw r) :
    ∀ s, WF d s → WF d (runRaw d s rs) := by
  induction rs with
  | nil => intro s hs; exact hs
  | cons r rs ih =>
    intro s hs
    simp only [runRaw]
    apply ih (fun o ho => hrs o (List.mem_cons_of_mem _ ho))
    cases hres : (stepRaw d s r).2 with
    | true => exact raw_accept_preserves_WF d s r hs (hrs r (List.mem_cons_self ..)) hres
    | false => rw [raw_reject_is_noop d s r hres]; exact hs

/-- a quota with children, with pods carrying its label, or whose pods cannot be listed is not deleted. -/
theorem raw_delete_guard (d : Nat) (s : Topo) (n : Nat) (listErr : Bool) (pods : List Pod) (hF : Forest s)
    (h : (stepRaw d s (.del n listErr pods)).2 = true) :
    (∀ c ∈ s.info, c.parent ≠ n) ∧ listErr = false ∧ ∀ p ∈ pods, p.label ≠ some n := by
  have h' : (validDelete s n (listErr || labelPods pods n)).2 = true := h
  obtain ⟨h1, h2⟩ := delete_guard s n _ hF h'
  rw [Bool.or_eq_false_iff] at h2
  refine ⟨h1, h2.1, ?_⟩
  intro p hp e
  have := List.any_eq_false.mp h2.2 p hp
  simp [e] at this

/-- an absent or empty parent label means the root (except on the root-named object). -/
theorem decode_parent_default (r : Raw) (hn : r.name ≠ 0) (hp : r.parentCode = 98 ∨ r.parentCode = 99) :
    (decodeQI r).parent = 0 := by
  rcases hp with hp | hp <;> simp [decodeQI, parentOf, hp, hn]

/-- only the literal "true" turns a boolean label on. -/
theorem decode_labels (r : Raw) :
    ((decodeQI r).isParent = true ↔ r.isParentCode = 1) ∧ ((decodeQI r).force = true ↔ r.forceCode = 1) ∧
    ((decodeQI r).treeRoot = true ↔ r.rootCode = 1) := by
  simp [decodeQI, labelTrue]

/-! ### non-vacuity of the new clauses -/

-- the scheduler's root object (name 0, parent "" = 99) created after A, B, C: accepted, and the root keeps its children
def exRoot : QI := { name := 0, parent := 99, isParent := true, tree := 0, force := false, treeRoot := false,
                     mn := [none], mx := [none], ns := [] }
example : (step 1 exS (.add exRoot false)).2 = true ∧
          isKid (step 1 exS (.add exRoot false)).1 0 3 = true ∧ isKid (step 1 exS (.add exRoot false)).1 0 5 = true := by decide
-- it is NOT a forest in the sense of `Forest` any more (a record named root): the hypothesis NotRootAdd is needed there
example : ¬ Forest (step 1 exS (.add exRoot false)).1 := fun hF => hF.nonzero exRoot (by decide) rfl
-- min-sum: B (min 2) under A (min 4); a second child with min 3 is rejected, with the force label it is accepted
-- and the plain sum then exceeds A's min: the bypass really is part of the statement
def exD : QI := { exB with name := 6, mn := [some 3] }
example : (step 1 exS (.add exD false)).2 = false ∧ (step 1 exS (.add { exD with force := true } false)).2 = true := by decide
example : ¬ (childMinSum (step 1 exS (.add { exD with force := true } false)).1.info 3 0 ≤ exA.mn.val 0) := by decide
example : kidSum (step 1 exS (.add { exD with force := true } false)).1.info 3 0 = 2 := by decide
-- keys / tree id along an edge are enforced
example : (step 2 exS (.add { exD with mn := [some 1], mx := [some 8, some 8] } false)).2 = false := by decide
example : (step 1 exS (.add { exD with mn := [some 1], tree := 1 } false)).2 = false := by decide
-- a namespace bound to A cannot be taken by a new quota, nor by an update of C
example : (step 1 exS (.add { exD with mn := [some 1], ns := [7] } false)).2 = false ∧
          (step 1 exS (.upd { exC with ns := [7] } false false)).2 = false := by decide

-- raw layer: an update of A that only re-spells the parent label (written-out root -> absent label) is NOT the
-- unchanged-fields shortcut (the code compares raw strings): with a negative shared weight it is rejected, whereas the
-- identical spelling is accepted whatever else the object carries
def rawA (pc sw : Nat) : Raw :=
  { name := 3, parentCode := pc, isParentCode := 1, tree := 0, forceCode := 2, rootCode := 2,
    swShape := sw, nsShape := 0, nsList := [7], mnNil := false, mxNil := false, mn := [some 4], mx := [some 8] }
example : decodeQI (rawA 0 0) = exA := by decide
example : (stepRaw 1 exS (.upd (rawA 0 1) false [])).2 = true ∧ (stepRaw 1 exS (.upd (rawA 98 1) false [])).2 = false ∧
          (stepRaw 1 exS (.upd (rawA 98 0) false [])).2 = true := by decide
-- a failing pod listing, or a pod carrying the label, blocks the delete of the leaf B
example : (stepRaw 1 exS (.del 4 false [])).2 = true ∧ (stepRaw 1 exS (.del 4 true [])).2 = false ∧
          (stepRaw 1 exS (.del 4 false [{ nsKind := 1, ns := 5, label := some 4 }])).2 = false := by decide


/-! ## 11–13. informer glue: the handlers OnQuotaAdd / OnQuotaUpdate / OnQuotaDelete (Model/C15Inf.lean)

The webhook runs in several replicas; every replica re-writes its recorded topology, unchecked, from the informer
events of the admitted objects.  `Equiv s t` (Proofs/C15ExtInf.lean) = same info list, same key set, same child
pairs, same namespace lookups — everything `WF` and the dump can see of a state.
  §11 one replica: the event of an admitted request reaches the admitting replica right after (`stepEcho`): it changes
      nothing observable (`echo_observably_idle`), so every history keeps `WF` (`history_echo_WF`).
  §12 two replicas behind one API server, handlers behind an event filter `flt` (`sysStep`): if the filter drops only
      update events whose old and new object agree on every topology-relevant field (`FilterOK`; the identity filter of
      today's NewQuotaInformer — tie_informer_unfiltered), both replicas stay well-formed and equal to the fold of the
      admitted objects after every request (`replicas_converge`).  A generation-changed filter is NOT such a filter
      (`genFilter_not_ok`) and lets the second replica delete a parent that still has a child
      (`generation_filter_counterexample`).
  §13 explicit hypothesis `FlagsKept` (decidable; the harness tags every history with whether it held): an update whose
      compared fields are unchanged (accepted by the shortcut, i.e. without any check) does not change the two bypass
      labels.  Without it the echo re-records the labels and the recorded-flag form of `MinSum` fails
      (`flag_drop_counterexample`): dropping allow-force-update from a quota that was forced over its parent's min
      leaves the violation in the tree with no label marking it.  The harness oracle therefore exempts by its own
      bookkeeping (c15Book.taint) in histories with informer events.
-/


/-! ### 7. `WF` only observes the state up to `Equiv`; under `WF` the three maps are functions of `info` -/

theorem wf_equiv {d : Nat} {s t : Topo} (h : Equiv s t) (hW : WF d s) : WF d t := by
  obtain ⟨hi, hh, hk, hn⟩ := h
  cases s with
  | mk si sh sk sn =>
  cases t with
  | mk ti th tk tn =>
  simp only at hi hh hk hn
  subst hi
  refine ⟨⟨hW.forest.nodup, hW.forest.nonzero, hW.forest.parentOK, hW.forest.ranked, ?_⟩, ?_, hW.self, hW.minSum,
    hW.keys, hW.tree, ?_⟩
  · intro p c
    exact (hk (p, c)).symm.trans (hW.forest.kidsOK p c)
  · intro n
    exact (hh n).symm.trans (hW.hkeys n)
  · intro n qn
    have := hW.ns n qn
    simp only at this ⊢
    rw [← hn n]
    exact this

theorem wf_determined {d : Nat} {s t : Topo} (hs : WF d s) (ht : WF d t) (hi : s.info = t.info) : Equiv s t := by
  refine ⟨hi, ?_, ?_, ?_⟩
  · intro k
    rw [hs.hkeys k, ht.hkeys k, hi]
  · rintro ⟨p, c⟩
    rw [hs.forest.kidsOK p c, ht.forest.kidsOK p c, hi]
  · intro n
    have h1 := hs.ns n
    have h2 := ht.ns n
    rw [hi] at h1
    have h : ∀ qn, nsGet s.nsMap n = some qn ↔ nsGet t.nsMap n = some qn := fun qn => (h1 qn).trans (h2 qn).symm
    cases hx : nsGet s.nsMap n with
    | none =>
      cases hy : nsGet t.nsMap n with
      | none => rfl
      | some b => have := (h b).mpr hy; rw [hx] at this; cases this
    | some a => exact ((h a).mp hx).symm

/-! ### 8. one replica with the echo of its own admissions -/

theorem stepEcho_accept {d : Nat} {s : Topo} {op : Op} {e : Ev} (h : (step d s op).2 = true)
    (he : evOf s.info op = some e) : stepEcho d s op = (applyEv (step d s op).1 e, true) := by
  simp [stepEcho, h, he]

theorem stepEcho_snd (d : Nat) (s : Topo) (op : Op) : (stepEcho d s op).2 = (step d s op).2 := by
  unfold stepEcho
  cases h : (step d s op).2 with
  | false => simp [h]
  | true =>
    cases evOf s.info op <;> simp [h]

/-- the echo changes nothing observable. -/
theorem echo_observably_idle (d : Nat) (s : Topo) (op : Op) (hW : WF d s) (hk : FlagsKept s.info op)
    (h : (stepEcho d s op).2 = true) : Equiv (stepEcho d s op).1 (step d s op).1 := by
  rw [stepEcho_snd] at h
  obtain ⟨e, he⟩ := accepted_ev h
  rw [stepEcho_accept h he]
  exact echo_equiv (handler_matches hW.forest hW.ns hk h he)

theorem echo_preserves_WF (d : Nat) (s : Topo) (op : Op) (hW : WF d s) (hop : NotRootAdd op)
    (hk : FlagsKept s.info op) (h : (stepEcho d s op).2 = true) : WF d (stepEcho d s op).1 := by
  have hE := echo_observably_idle d s op hW hk h
  rw [stepEcho_snd] at h
  exact wf_equiv hE.symm (accept_preserves_WF d s op hW hop h)

theorem echo_reject_is_noop (d : Nat) (s : Topo) (op : Op) (h : (stepEcho d s op).2 = false) :
    (stepEcho d s op).1 = s := by
  rw [stepEcho_snd] at h
  have : stepEcho d s op = step d s op := by simp [stepEcho, h]
  rw [this]
  exact reject_is_noop d s op h

/-- the hypotheses on a history, request by request along the run. -/
def EchoOK (d : Nat) : Topo → List Op → Prop
  | _, [] => True
  | s, op :: ops => NotRootAdd op ∧ FlagsKept s.info op ∧ EchoOK d (stepEcho d s op).1 ops

theorem history_echo_WF (d : Nat) (ops : List Op) : ∀ s, WF d s → EchoOK d s ops → WF d (runEcho d s ops) := by
  induction ops with
  | nil => intro s hs _; exact hs
  | cons op ops ih =>
    intro s hs hok
    obtain ⟨hop, hk, hrest⟩ := hok
    simp only [runEcho]
    apply ih _ _ hrest
    cases hres : (stepEcho d s op).2 with
    | true => exact echo_preserves_WF d s op hs hop hk hres
    | false => rw [echo_reject_is_noop d s op hres]; exact hs

theorem reachable_echo_WF (d : Nat) (ops : List Op) (hok : EchoOK d init ops) : WF d (runEcho d init ops) :=
  history_echo_WF d ops init (wf_init d) hok

/-! ### 9. two replicas behind one API server -/

/-- the event filter may only drop update events whose old and new object agree on every topology-relevant field. -/
def FilterOK (flt : Ev → Bool) : Prop := ∀ e, flt e = false → ∃ q, e = .upd q q

theorem filterOK_all : FilterOK (fun _ => true) := by
  intro e h; cases h

structure Synced (d : Nat) (σ : Sys) : Prop where
  wa : WF d σ.a
  wb : WF d σ.b
  ia : σ.a.info = σ.api
  ib : σ.b.info = σ.api

theorem synced_init (d : Nat) : Synced d sysInit := ⟨wf_init d, wf_init d, rfl, rfl⟩

theorem Synced.equiv {d : Nat} {σ : Sys} (h : Synced d σ) : Equiv σ.a σ.b :=
  wf_determined h.wa h.wb (h.ia.trans h.ib.symm)

/-- one accepted admission on the handling replica `hd`, seen from the other replica `ot`. -/
theorem pair_step {d : Nat} {flt : Ev → Bool} {hd ot : Topo} {api : List QI} {op : Op} (hf : FilterOK flt)
    (wh : WF d hd) (wo : WF d ot) (ih : hd.info = api) (io : ot.info = api) (hop : NotRootAdd op)
    (hk : FlagsKept api op) (hacc : (stepO d hd api op).2 = true) :
    ∃ e, evOf api op = some e ∧
      WF d (deliver flt (stepO d hd api op).1 e) ∧ WF d (deliver flt ot e) ∧
      (deliver flt (stepO d hd api op).1 e).info = infoEv api e ∧ (deliver flt ot e).info = infoEv api e := by
  subst ih
  rw [stepO_self] at hacc ⊢
  obtain ⟨e, he⟩ := accepted_ev hacc
  have w1 := accept_preserves_WF d hd op wh hop hacc
  have E1 := handler_matches wh.forest wh.ns hk hacc he
  have i1 : (step d hd op).1.info = infoEv hd.info e := by rw [← E1.info, applyEv_info]
  have Eo : Equiv ot hd := wf_determined wo wh io
  refine ⟨e, he, ?_, ?_, ?_, ?_⟩
  all_goals unfold deliver
  all_goals cases hfe : flt e
  all_goals simp only [Bool.false_eq_true, if_false, if_true]
  · exact w1
  · exact wf_equiv (echo_equiv E1).symm w1
  · exact wo
  · exact wf_equiv ((applyEv_congr Eo).trans E1).symm w1
  · exact i1
  · rw [(echo_equiv E1).info]; exact i1
  · obtain ⟨q, rfl⟩ := hf e hfe
    rw [infoEv_same (uniq_of_nodup wh.forest.nodup) he]
    exact io
  · rw [applyEv_info, io]

theorem sys_step_synced (d : Nat) (flt : Ev → Bool) (σ : Sys) (rep : Bool) (op : Op) (hf : FilterOK flt)
    (hS : Synced d σ) (hop : NotRootAdd op) (hk : FlagsKept σ.api op) : Synced d (sysStep d flt σ rep op).1 := by
  cases rep with
  | false =>
    cases hacc : (stepO d σ.a σ.api op).2 with
    | false =>
      have : sysStep d flt σ false op = (σ, false) := by simp [sysStep, hacc]
      rw [this]; exact hS
    | true =>
      obtain ⟨e, he, w1, w2, i1, i2⟩ := pair_step hf hS.wa hS.wb hS.ia hS.ib hop hk hacc
      have : sysStep d flt σ false op =
          ({ a := deliver flt (stepO d σ.a σ.api op).1 e, b := deliver flt σ.b e, api := infoEv σ.api e }, true) := by
        simp [sysStep, hacc, he]
      rw [this]
      exact ⟨w1, w2, i1, i2⟩
  | true =>
    cases hacc : (stepO d σ.b σ.api op).2 with
    | false =>
      have : sysStep d flt σ true op = (σ, false) := by simp [sysStep, hacc]
      rw [this]; exact hS
    | true =>
      obtain ⟨e, he, w1, w2, i1, i2⟩ := pair_step hf hS.wb hS.wa hS.ib hS.ia hop hk hacc
      have : sysStep d flt σ true op =
          ({ a := deliver flt σ.a e, b := deliver flt (stepO d σ.b σ.api op).1 e, api := infoEv σ.api e }, true) := by
        simp [sysStep, hacc, he]
      rw [this]
      exact ⟨w2, w1, i2, i1⟩

/-- the hypotheses on a two-replica history, request by request along the run. -/
def SysOK (d : Nat) (flt : Ev → Bool) : Sys → List (Bool × Op) → Prop
  | _, [] => True
  | σ, (rep, op) :: rs => NotRootAdd op ∧ FlagsKept σ.api op ∧ SysOK d flt (sysStep d flt σ rep op).1 rs

theorem sys_history_synced (d : Nat) (flt : Ev → Bool) (hf : FilterOK flt) (rs : List (Bool × Op)) :
    ∀ σ, Synced d σ → SysOK d flt σ rs → Synced d (sysRun d flt σ rs) := by
  induction rs with
  | nil => intro σ hS _; exact hS
  | cons r rs ih =>
    intro σ hS hok
    obtain ⟨rep, op⟩ := r
    obtain ⟨hop, hk, hrest⟩ := hok
    simp only [sysRun]
    exact ih _ (sys_step_synced d flt σ rep op hf hS hop hk) hrest

/-- both replicas stay well-formed, agree with the API store, and are observably equal, whichever replica handles
    each request and for every event filter that only drops no-change updates. -/
theorem replicas_converge (d : Nat) (flt : Ev → Bool) (hf : FilterOK flt) (rs : List (Bool × Op)) :
    ∀ σ, Synced d σ → SysOK d flt σ rs →
      Synced d (sysRun d flt σ rs) ∧ Equiv (sysRun d flt σ rs).a (sysRun d flt σ rs).b := by
  intro σ hS hok
  have := sys_history_synced d flt hf rs σ hS hok
  exact ⟨this, this.equiv⟩

theorem replicas_converge_init (d : Nat) (flt : Ev → Bool) (hf : FilterOK flt) (rs : List (Bool × Op))
    (hok : SysOK d flt sysInit rs) :
    Synced d (sysRun d flt sysInit rs) ∧ Equiv (sysRun d flt sysInit rs).a (sysRun d flt sysInit rs).b :=
  replicas_converge d flt hf rs sysInit (synced_init d) hok

/-! ### 10. counterexamples and non-vacuity (concrete data, `d = 1`) -/

def cxDept1 : QI := { name := 3, parent := 0, isParent := true, tree := 0, force := false, treeRoot := false,
                      mn := [some 4], mx := [some 8], ns := [] }
def cxDept2 : QI := { cxDept1 with name := 4 }
def cxTeam : QI := { cxDept1 with name := 5, parent := 3, isParent := false, mn := [some 1] }

/-- a. the generation-changed filter drops an update event that moves a quota under another parent. -/
theorem genFilter_not_ok : ¬ FilterOK genFilter := by
  intro h
  obtain ⟨q, hq⟩ := h (.upd cxTeam { cxTeam with parent := 4 }) (by decide)
  have h1 : cxTeam = q := by injection hq
  have h2 : ({ cxTeam with parent := 4 } : QI) = q := by injection hq
  exact absurd (h1.trans h2.symm) (by decide)

/-- two departments and a team under the first one, all created through replica a; then the team is moved under the
    second department, again through replica a. -/
def cxHist : List (Bool × Op) :=
  [(false, .add cxDept1 false), (false, .add cxDept2 false), (false, .add cxTeam false),
   (false, .upd { cxTeam with parent := 4 } false false)]

-- every request of the history is accepted, under either filter
example : (sysStep 1 genFilter sysInit false (.add cxDept1 false)).2 = true ∧
    (sysStep 1 genFilter (sysRun 1 genFilter sysInit (cxHist.take 1)) false (.add cxDept2 false)).2 = true ∧
    (sysStep 1 genFilter (sysRun 1 genFilter sysInit (cxHist.take 2)) false (.add cxTeam false)).2 = true ∧
    (sysStep 1 genFilter (sysRun 1 genFilter sysInit (cxHist.take 3)) false
      (.upd { cxTeam with parent := 4 } false false)).2 = true := by decide

/-- b. with the generation-changed filter replica b never learns about the move: it ACCEPTS the delete of the second
    department, and the API store is left with a team whose parent does not exist. -/
theorem generation_filter_counterexample :
    (sysStep 1 genFilter (sysRun 1 genFilter sysInit cxHist) true (.del 4 false)).2 = true ∧
    (∃ c ∈ (sysStep 1 genFilter (sysRun 1 genFilter sysInit cxHist) true (.del 4 false)).1.api,
      c.parent = 4 ∧ find (sysStep 1 genFilter (sysRun 1 genFilter sysInit cxHist) true (.del 4 false)).1.api 4 = none) ∧
    (sysRun 1 genFilter sysInit cxHist).a ≠ (sysRun 1 genFilter sysInit cxHist).b := by decide

/-- the same history with today's unfiltered registration: the delete is rejected (by either replica). -/
theorem unfiltered_rejects :
    (sysStep 1 (fun _ => true) (sysRun 1 (fun _ => true) sysInit cxHist) true (.del 4 false)).2 = false ∧
    (sysStep 1 (fun _ => true) (sysRun 1 (fun _ => true) sysInit cxHist) false (.del 4 false)).2 = false := by decide

/-- the history meets every hypothesis of `replicas_converge` except `FilterOK`. -/
theorem cxHist_sysOK : SysOK 1 genFilter sysInit (cxHist ++ [(true, .del 4 false)]) := by
  refine ⟨show cxDept1.name ≠ 0 by decide, trivial, show cxDept2.name ≠ 0 by decide, trivial,
    show cxTeam.name ≠ 0 by decide, trivial, trivial, ?_, trivial, trivial, trivial⟩
  intro o hf hs
  have : find (sysRun 1 genFilter sysInit (cxHist.take 3)).api 5 = some cxTeam := by decide
  have hf : find (sysRun 1 genFilter sysInit (cxHist.take 3)).api 5 = some o := hf
  rw [this] at hf
  cases hf
  revert hs
  decide

def cxP : QI := { name := 3, parent := 0, isParent := true, tree := 0, force := false, treeRoot := false,
                  mn := [some 4], mx := [some 8], ns := [] }
def cxA : QI := { cxP with name := 4, parent := 3, isParent := false, force := true, mn := [some 6] }

def cxFlagHist : List Op := [.add cxP false, .add cxA false, .upd { cxA with force := false } false false]

-- all three requests are accepted: the create of A by the allow-force-update bypass, the label removal by the
-- unchanged-fields shortcut (the label is not among the compared fields)
example : (stepEcho 1 init (.add cxP false)).2 = true ∧
    (stepEcho 1 (runEcho 1 init (cxFlagHist.take 1)) (.add cxA false)).2 = true ∧
    (stepEcho 1 (runEcho 1 init (cxFlagHist.take 2)) (.upd { cxA with force := false } false false)).2 = true ∧
    sameFields cxA { cxA with force := false } = true := by decide

/-- c. WITHOUT `FlagsKept`: the echo of the label removal records `force = false` for A although admission took the
    shortcut and checked nothing; the recorded topology then violates the min-sum clause (A's min 6 > P's min 4). -/
theorem flag_drop_counterexample : ¬ MinSum 1 (runEcho 1 init cxFlagHist) := by
  intro h
  have := h cxP (by decide) (by decide) 0 (by decide)
  revert this
  decide

-- admission alone (no echo) keeps the old record, which satisfies the inequality for P (A still counts as bypassing)
example : kidSum (run 1 init cxFlagHist).info cxP.name 0 ≤ cxP.mn.val 0 := by decide
example : (run 1 init cxFlagHist).info = [cxA, cxP] ∧ (runEcho 1 init cxFlagHist).info = [{ cxA with force := false }, cxP] := by
  decide
-- and the hypothesis `FlagsKept` is exactly what fails on the third request
example : ¬ FlagsKept (runEcho 1 init (cxFlagHist.take 2)).info (.upd { cxA with force := false } false false) := by
  intro h
  have := (h cxA (by decide) (by decide)).1
  revert this
  decide

/-! non-vacuity of `EchoOK` / `history_echo_WF` -/

def nvA : QI := { exA with ns := [7, 8] }
def nvHist : List Op := [.add nvA false, .add exB false, .upd { nvA with ns := [8, 9] } false false,
                         .upd { exB with mn := [some 3] } false false]

theorem nvHist_echoOK : EchoOK 1 init nvHist := by
  refine ⟨show nvA.name ≠ 0 by decide, trivial, show exB.name ≠ 0 by decide, trivial, trivial, ?_, trivial, ?_, trivial⟩
  · intro o hf hs
    have h3 : find (runEcho 1 init (nvHist.take 2)).info 3 = some nvA := by decide
    have hf : find (runEcho 1 init (nvHist.take 2)).info 3 = some o := hf
    rw [h3] at hf
    cases hf
    revert hs
    decide
  · intro o hf hs
    have h4 : find (runEcho 1 init (nvHist.take 3)).info 4 = some exB := by decide
    have hf : find (runEcho 1 init (nvHist.take 3)).info 4 = some o := hf
    rw [h4] at hf
    cases hf
    revert hs
    decide

-- all four requests are accepted; the update that moves A's namespaces from [7,8] to [8,9] keeps 8 bound, unbinds 7,
-- binds 9 — after the admission's own update AND the informer echo
example : (stepEcho 1 init (.add nvA false)).2 = true ∧
    (stepEcho 1 (runEcho 1 init (nvHist.take 1)) (.add exB false)).2 = true ∧
    (stepEcho 1 (runEcho 1 init (nvHist.take 2)) (.upd { nvA with ns := [8, 9] } false false)).2 = true ∧
    (stepEcho 1 (runEcho 1 init (nvHist.take 3)) (.upd { exB with mn := [some 3] } false false)).2 = true := by decide
example : nsGet (runEcho 1 init nvHist).nsMap 8 = some 3 ∧ nsGet (runEcho 1 init nvHist).nsMap 7 = none ∧
    nsGet (runEcho 1 init nvHist).nsMap 9 = some 3 := by decide
example : WF 1 (runEcho 1 init nvHist) := reachable_echo_WF 1 nvHist nvHist_echoOK
-- the echo is not literally a no-op on the list encoding (duplicates appear), only observably
example : (runEcho 1 init nvHist) ≠ (run 1 init nvHist) ∧ (runEcho 1 init nvHist).info = (run 1 init nvHist).info := by decide

/-! ### 14. more on the handlers: no nil-map write, namespaces kept across an update, raw requests -/

/-- OnQuotaUpdate writes `quotaHierarchyInfo[newParent][name]` without creating the child set: for the event of an
    ADMITTED update the set exists — on the admitting replica (before and after its own state update) and, by
    `replicas_converge`, on every replica whose record equals the admitted objects. -/
theorem handler_no_panic (d : Nat) (s : Topo) (q o : QI) (sw hp : Bool) (hW : WF d s)
    (hfo : find s.info q.name = some o) (h : (validUpdate d s q sw hp).2 = true) :
    onUpdatePanics s o q = false ∧ onUpdatePanics (validUpdate d s q sw hp).1 o q = false := by
  by_cases hpar : o.parent = q.parent
  · simp [onUpdatePanics, hpar]
  · have hkey : s.hkeys.contains q.parent = true ∧ (validUpdate d s q sw hp).1.hkeys = s.hkeys := by
      rcases validUpdate_true h with hst | ⟨o', hfo', hq0, _, _, htopo, hst⟩
      · -- unchanged state: only possible through the shortcut, which needs equal parents
        exfalso
        have hsf : sameFields o q = true := by
          by_cases hsf : sameFields o q = true
          · exact hsf
          · exfalso
            have hsf' : sameFields o q = false := by simpa using hsf
            have := validUpdate_checked (d := d) (sw := sw) (hp := hp) hfo hsf' h
            rw [hst] at this
            have hk := congrArg Topo.kids this
            have hne : (o.parent != q.parent) = true := by simpa using hpar
            simp only [updState, hne, if_true] at hk
            have hmem : (q.parent, q.name) ∈ s.kids := by rw [hk]; exact List.mem_cons_self ..
            obtain ⟨c, hc, hcn, hcp⟩ := (hW.forest.kidsOK _ _).mp hmem
            obtain ⟨ho, hon⟩ := find_some hfo
            have := uniq_of_nodup hW.forest.nodup c hc o ho (hcn.trans hon.symm)
            exact hpar (this ▸ hcp)
        unfold sameFields at hsf
        simp only [Bool.and_eq_true, beq_iff_eq] at hsf
        exact hpar hsf.1.1.1.1.1.1.1.1.1.1
      · rw [hfo] at hfo'; cases hfo'
        refine ⟨?_, by rw [hst]; rfl⟩
        obtain ⟨_, _, hcase⟩ := topoCheck_true hq0 htopo
        by_cases hp0 : q.parent = 0
        · rw [hp0]; exact List.contains_iff_mem.mpr ((hW.hkeys 0).mpr (Or.inl rfl))
        · rcases hcase with ⟨h0, _⟩ | ⟨hpi, _, _⟩
          · exact absurd h0 hp0
          · unfold parentInfoOK at hpi
            simp only [hp0, if_false] at hpi
            split at hpi
            · cases hpi
            · simp only [Bool.and_eq_true] at hpi; exact hpi.1.1
    have hmem : q.parent ∈ s.hkeys := List.contains_iff_mem.mp hkey.1
    simp [onUpdatePanics, hkey.2, hmem]

/-- OnQuotaUpdate binds every namespace of the new object, also one the old object already had. -/
theorem onUpdate_binds_new (s : Topo) (o q : QI) (n : Nat) (hne : o.ns ≠ q.ns) (hn : n ∈ q.ns) :
    nsGet (onUpdate s o q).nsMap n = some q.name := by
  have : (o.ns != q.ns) = true := by simpa using hne
  simp only [onUpdate, this, if_true]
  rw [nsGet_nsSetAll]; simp [hn]

/-- the other order — bind the new namespaces, then unbind the old ones — loses a namespace that is in both lists:
    quota 3 goes from [7, 8] to [8, 9]; namespace 8 is free afterwards and can be bound by another quota. -/
theorem bind_then_unbind_counterexample :
    nsGet (nsDelAll (nsSetAll [(7, 3), (8, 3)] [8, 9] 3) [7, 8]) 8 = none ∧
    nsGet (nsSetAll (nsDelAll [(7, 3), (8, 3)] [7, 8]) [8, 9] 3) 8 = some 3 := by decide

/-- raw requests (decoded labels / annotations / pod listing / mutating step) with the informer echo. -/
theorem raw_echo_preserves_WF (d : Nat) (s : Topo) (r : RawOp) (hW : WF d s) (hr : NotRootAddRaw r)
    (hk : ∀ op, decodeOp s r = some op → FlagsKept s.info op)
    (h : (stepRawEcho d s r).2 = true) : WF d (stepRawEcho d s r).1 := by
  unfold stepRawEcho at h ⊢
  cases hd : decodeOp s r with
  | none => simp [hd] at h
  | some op =>
    simp only [hd] at h ⊢
    exact echo_preserves_WF d s op hW (notRootAdd_decode s r op hr hd) (hk op hd) h

theorem raw_echo_reject_is_noop (d : Nat) (s : Topo) (r : RawOp) (h : (stepRawEcho d s r).2 = false) :
    (stepRawEcho d s r).1 = s := by
  unfold stepRawEcho at h ⊢
  cases hd : decodeOp s r with
  | none => rfl
  | some op => simp only [hd] at h ⊢; exact echo_reject_is_noop d s op h

/-! ### 15. a delete that arrives as a tombstone (defect found by the gated exhibit of round 2, repaired by fc155e0;
    the stream `tombstone` and the typed-object tombstones of the two-replica stream now run by default) -/

/-- every representation the code can convert behaves like the plain event. -/
theorem applyEvAs_convertible (reg : Bool) (shape : Nat) (s : Topo) (e : Ev) (h : convertible reg shape = true) :
    applyEvAs reg shape s e = applyEv s e := by simp [applyEvAs, h]

/-- NewQuotaInformer asks for a TYPED informer, so a tombstone holds the typed object (shape 3): it is converted
    whatever the scheme (FALSE before fc155e0); the unstructured forms need the type in client-go's scheme. -/
theorem tombstone_typed_convertible :
    (∀ reg, convertible reg 3 = true ∧ convertible reg 0 = true) ∧ convertible false 2 = false ∧ convertible false 1 = false ∧
    (∀ reg, convertible reg 4 = false) := by decide

/-- so a delete delivered as a typed-object tombstone has the effect of the plain delete event. -/
theorem tombstone_typed_delivered (reg : Bool) (s : Topo) (e : Ev) : applyEvAs reg 3 s e = applyEv s e :=
  applyEvAs_convertible reg 3 s e ((tombstone_typed_convertible.1 reg).1)

/-- why it matters: a replica that LOSES the delete of parent 3 (an object the handler cannot convert, shape 4; before
    fc155e0 also the typed-object tombstone) ADMITS a child under the deleted parent, which a replica that saw the
    delete — plainly or as a typed-object tombstone — rejects: "every parent exists" fails for the admitted objects. -/
theorem dropped_delete_counterexample :
    let b1 := onAdd init cxDept1                                   -- b learnt quota 3 from the informer
    let bSeen := applyEvAs false 0 b1 (.del cxDept1)               -- plain delete event
    let bTomb := applyEvAs false 3 b1 (.del cxDept1)               -- the same delete as a typed-object tombstone
    let bLost := applyEvAs false 4 b1 (.del cxDept1)               -- the delete in a form the handler drops
    (validAdd 1 bSeen cxTeam false).2 = false ∧ bTomb = bSeen ∧ (validAdd 1 bLost cxTeam false).2 = true ∧
    (validAdd 1 bLost cxDept1 false).2 = false := by decide

/-! ### 16. two reading notes decided on the unchanged tree (gated exhibits of the harness: VERIF_C15_ROOTPARENT=1,
    VERIF_C15_STRICTROOT=1); the model behaves as the code does -/

/-- (i) validateQuotaTopology returns at once for the root NAME: a create of koordinator-root-quota that carries a parent
    label is admitted and recorded as a child of that parent — of itself, or of a quota that does not exist (this is why
    `NotRootAdd` is a hypothesis of the Forest theorems). -/
theorem root_with_parent_counterexample :
    (step 1 init (.add { exRoot with parent := 0 } false)).2 = true ∧
    isKid (step 1 init (.add { exRoot with parent := 0 } false)).1 0 0 = true ∧
    (step 1 init (.add { exRoot with parent := 7 } false)).2 = true ∧
    find (step 1 init (.add { exRoot with parent := 7 } false)).1.info 7 = none := by decide

/-- (ii) checkMinQuotaValidate returns at once for ANY quota labelled is-root, also below the first level: under A
    (min 4, child B min 2) a further child with min 3 is rejected, with is-root=true it is admitted and the plain sum
    5 exceeds 4.  `MinSum` exempts the label wherever it sits, as the code does. -/
theorem is_root_below_root_counterexample :
    (step 1 exS (.add exD false)).2 = false ∧ (step 1 exS (.add { exD with treeRoot := true } false)).2 = true ∧
    ¬ (childMinSum (step 1 exS (.add { exD with treeRoot := true } false)).1.info 3 0 ≤ exA.mn.val 0) := by decide


/-! ### 17. the echo / replica theorems under the weaker hypothesis `NoFlagDrop`

`FlagsKept` (§13) forbids every change of the two bypass labels by a label-only update.  Only DROPPING a label breaks
`MinSum` (`flag_drop_counterexample`); gaining one makes the echo really change the record (so `handler_matches` /
`echo_observably_idle` do not apply) but keeps `WF` (`relabel_preserves_WF`).  The `_nd` theorems restate §11–§12 with
`NoFlagDrop`: a label-only update keeps every bypass label the recorded object carries. -/
def NoFlagDrop (api : List QI) : Op → Prop
  | .upd q _ _ => ∀ o, find api q.name = some o → sameFields o q = true →
      (o.force = true → q.force = true) ∧ (o.treeRoot = true → q.treeRoot = true)
  | _ => True

theorem flagsKept_noFlagDrop {api : List QI} {op : Op} (h : FlagsKept api op) : NoFlagDrop api op := by
  cases op with
  | add q sw => trivial
  | del n lp => trivial
  | upd q sw hp =>
    intro o hf hs
    obtain ⟨h1, h2⟩ := h o hf hs
    exact ⟨fun e => h1 ▸ e, fun e => h2 ▸ e⟩

/-- either the request is covered by `FlagsKept`, or it is an update that takes the unchanged-fields shortcut. -/
theorem op_cases (api : List QI) (op : Op) :
    FlagsKept api op ∨ ∃ q sw hp o, op = .upd q sw hp ∧ find api q.name = some o ∧ sameFields o q = true := by
  cases op with
  | add q sw => exact Or.inl trivial
  | del n lp => exact Or.inl trivial
  | upd q sw hp =>
    cases hf : find api q.name with
    | none => left; intro o ho; rw [hf] at ho; cases ho
    | some o =>
      cases hs : sameFields o q with
      | false => left; intro o' ho' hs'; rw [hf] at ho'; cases ho'; rw [hs] at hs'; cases hs'
      | true => exact Or.inr ⟨q, sw, hp, o, rfl, hf, hs⟩

/-! ### records that agree on everything but the two bypass labels -/

/-- agreement on every field the clauses of `WF` other than `MinSum` look at. -/
structure Sim (a b : QI) : Prop where
  name     : a.name = b.name
  parent   : a.parent = b.parent
  isParent : a.isParent = b.isParent
  tree     : a.tree = b.tree
  ns       : a.ns = b.ns
  mn       : a.mn = b.mn
  mx       : a.mx = b.mx

theorem Sim.refl (a : QI) : Sim a a := ⟨rfl, rfl, rfl, rfl, rfl, rfl, rfl⟩

theorem sameFields_sim {o q : QI} (hn : o.name = q.name) (h : sameFields o q = true) : Sim o q := by
  simp only [sameFields, Bool.and_eq_true, beq_iff_eq] at h
  obtain ⟨⟨⟨⟨⟨⟨⟨⟨⟨⟨h1, h2⟩, h3⟩, h4⟩, h5⟩, h6⟩, _⟩, _⟩, _⟩, _⟩, _⟩ := h
  exact ⟨hn, h1, h2, h3, h4, h5, h6⟩

theorem replace_back {l : List QI} {o q : QI} (ho : o ∈ l) (hs : Sim o q)
    (hb : byp q = false → byp o = false) {c' : QI} (hc : c' ∈ replace l q) :
    ∃ c ∈ l, Sim c c' ∧ (byp c' = false → byp c = false) := by
  rcases mem_replace hc with ⟨hcq, _⟩ | ⟨hc', _⟩
  · subst hcq; exact ⟨o, ho, hs, hb⟩
  · exact ⟨c', hc', Sim.refl _, id⟩

theorem replace_fwd {l : List QI} {o q : QI} (hu : Uniq l) (ho : o ∈ l) (hs : Sim o q) {c : QI} (hc : c ∈ l) :
    ∃ c' ∈ replace l q, Sim c c' := by
  by_cases hn : c.name = q.name
  · have : c = o := hu c hc o ho (hn.trans hs.name.symm)
    subst this
    exact ⟨q, mem_replace_self hc hs.name, hs⟩
  · exact ⟨c, mem_replace_of_ne hc hn, Sim.refl _⟩

theorem selfQ_sim {d : Nat} {a b : QI} (hs : Sim a b) (h : SelfQ d a) : SelfQ d b := by
  unfold SelfQ at h ⊢
  rw [← hs.mn, ← hs.mx]; exact h

/-- the recorded topology with the record named `q.name` overwritten by `q`, nothing else touched. -/
def relabel (s : Topo) (q : QI) : Topo := { s with info := replace s.info q }

theorem kidSum_replace_le {d : Nat} {l : List QI} {o q : QI} (hnd : (l.map (·.name)).Nodup) (ho : o ∈ l) (hs : Sim o q)
    (hb : byp q = false → byp o = false) (hnn : MinNonneg d l) (n k : Nat) (hk : k < d) :
    kidSum (replace l q) n k ≤ kidSum l n k := by
  have hu := uniq_of_nodup hnd
  unfold kidSum
  rw [sumF_replace hnd ⟨o, ho, hs.name⟩]
  have h2 := sumF_replace (f := fun c => c.mn.val k) (P := fun c => c.parent == n && !byp c) (q := o) hnd ⟨o, ho, rfl⟩
  rw [replace_self hu ho] at h2
  rw [h2, hs.name]
  have hfo : 0 ≤ o.mn.val k := hnn o ho k hk
  simp only [← hs.parent, ← hs.mn]
  cases hbq : byp q with
  | true =>
    simp only [Bool.not_true, Bool.and_false, Bool.false_eq_true, if_false]
    split <;> omega
  | false =>
    simp only [hb hbq]
    exact Int.le_refl _

theorem relabel_WF {d : Nat} {s : Topo} {o q : QI} (hW : WF d s) (ho : o ∈ s.info) (hs : Sim o q)
    (hb : byp q = false → byp o = false) : WF d (relabel s q) := by
  have hF := hW.forest
  have hu := uniq_of_nodup hF.nodup
  have back : ∀ c' ∈ replace s.info q, ∃ c ∈ s.info, Sim c c' ∧ (byp c' = false → byp c = false) :=
    fun c' hc => replace_back ho hs hb hc
  have fwd : ∀ c ∈ s.info, ∃ c' ∈ replace s.info q, Sim c c' := fun c hc => replace_fwd hu ho hs hc
  refine ⟨⟨?_, ?_, ?_, ?_, ?_⟩, ?_, ?_, ?_, ?_, ?_, ?_⟩
  · show ((replace s.info q).map (·.name)).Nodup
    rw [replace_names]; exact hF.nodup
  · intro c' hc'
    obtain ⟨c, hc, hsim, _⟩ := back c' hc'
    rw [← hsim.name]; exact hF.nonzero c hc
  · intro c' hc'
    obtain ⟨c, hc, hsim, _⟩ := back c' hc'
    rcases hF.parentOK c hc with h0 | ⟨p, hp, hpn, hpi⟩
    · left; rw [← hsim.parent]; exact h0
    · right
      obtain ⟨p', hp', hps⟩ := fwd p hp
      exact ⟨p', hp', by rw [← hps.name, ← hsim.parent]; exact hpn, by rw [← hps.isParent]; exact hpi⟩
  · obtain ⟨r, hr0, hr⟩ := hF.ranked
    refine ⟨r, hr0, ?_⟩
    intro c' hc'
    obtain ⟨c, hc, hsim, _⟩ := back c' hc'
    rw [← hsim.name, ← hsim.parent]; exact hr c hc
  · intro p c
    show (p, c) ∈ s.kids ↔ ∃ x ∈ replace s.info q, x.name = c ∧ x.parent = p
    rw [hF.kidsOK p c]
    constructor
    · rintro ⟨x, hx, hxn, hxp⟩
      obtain ⟨x', hx', hsim⟩ := fwd x hx
      exact ⟨x', hx', by rw [← hsim.name]; exact hxn, by rw [← hsim.parent]; exact hxp⟩
    · rintro ⟨x', hx', hxn, hxp⟩
      obtain ⟨x, hx, hsim, _⟩ := back x' hx'
      exact ⟨x, hx, by rw [hsim.name]; exact hxn, by rw [hsim.parent]; exact hxp⟩
  · intro n
    show n ∈ s.hkeys ↔ n = 0 ∨ ∃ x ∈ replace s.info q, x.name = n
    rw [hW.hkeys n]
    constructor
    · rintro (h0 | ⟨x, hx, hxn⟩)
      · exact Or.inl h0
      · obtain ⟨x', hx', hsim⟩ := fwd x hx
        exact Or.inr ⟨x', hx', by rw [← hsim.name]; exact hxn⟩
    · rintro (h0 | ⟨x', hx', hxn⟩)
      · exact Or.inl h0
      · obtain ⟨x, hx, hsim, _⟩ := back x' hx'
        exact Or.inr ⟨x, hx, by rw [hsim.name]; exact hxn⟩
  · intro c' hc'
    obtain ⟨c, hc, hsim, _⟩ := back c' hc'
    exact selfQ_sim hsim (hW.self c hc)
  · intro p' hp' hbp k hk
    obtain ⟨p, hp, hsim, hbb⟩ := back p' hp'
    have h1 := hW.minSum p hp (hbb hbp) k hk
    have h2 := kidSum_replace_le hF.nodup ho hs hb hW.self.nonneg p.name k hk
    show kidSum (replace s.info q) p'.name k ≤ p'.mn.val k
    rw [← hsim.name, ← hsim.mn]
    omega
  · intro c' hc' p' hp' hpc
    obtain ⟨c, hc, hsc, _⟩ := back c' hc'
    obtain ⟨p, hp, hsp, _⟩ := back p' hp'
    have := hW.keys c hc p hp (by rw [hsp.name, hsc.parent]; exact hpc)
    unfold KeysRel at this ⊢
    rw [← hsp.mx, ← hsp.mn, ← hsc.mx, ← hsc.mn]; exact this
  · intro c' hc' p' hp' hpc
    obtain ⟨c, hc, hsc, _⟩ := back c' hc'
    obtain ⟨p, hp, hsp, _⟩ := back p' hp'
    have := hW.tree c hc p hp (by rw [hsp.name, hsc.parent]; exact hpc)
    show p'.tree = c'.tree
    rw [← hsp.tree, ← hsc.tree]; exact this
  · intro n qn
    show nsGet s.nsMap n = some qn ↔ ∃ x ∈ replace s.info q, x.name = qn ∧ n ∈ x.ns
    rw [hW.ns n qn]
    constructor
    · rintro ⟨x, hx, hxn, hxs⟩
      obtain ⟨x', hx', hsim⟩ := fwd x hx
      exact ⟨x', hx', by rw [← hsim.name]; exact hxn, by rw [← hsim.ns]; exact hxs⟩
    · rintro ⟨x', hx', hxn, hxs⟩
      obtain ⟨x, hx, hsim, _⟩ := back x' hx'
      exact ⟨x, hx, by rw [hsim.name]; exact hxn, by rw [hsim.ns]; exact hxs⟩

theorem onUpdate_relabel {s : Topo} {o q : QI} (hfo : find s.info q.name = some o) (hs : Sim o q) :
    onUpdate s o q = relabel s q := by
  simp only [onUpdate, relabel, put_present hfo, hs.parent, hs.ns, bne_self_eq_false, Bool.false_eq_true, if_false]

/-- a label-only update that does not drop a bypass label: the handler's overwrite keeps the record well-formed. -/
theorem relabel_preserves_WF {d : Nat} {s : Topo} {o q : QI} (hW : WF d s) (hfo : find s.info q.name = some o)
    (hsf : sameFields o q = true) (hf : o.force = true → q.force = true) (ht : o.treeRoot = true → q.treeRoot = true) :
    WF d (onUpdate s o q) := by
  obtain ⟨ho, hon⟩ := find_some hfo
  have hs := sameFields_sim hon hsf
  rw [onUpdate_relabel hfo hs]
  refine relabel_WF hW ho hs ?_
  intro hbq
  unfold byp at hbq ⊢
  rw [Bool.or_eq_false_iff] at hbq ⊢
  constructor
  · cases h : o.force with
    | false => rfl
    | true => rw [hf h] at hbq; exact absurd hbq.1 (by simp)
  · cases h : o.treeRoot with
    | false => rfl
    | true => rw [ht h] at hbq; exact absurd hbq.2 (by simp)

/-! ### one replica -/

theorem echo_preserves_WF_nd (d : Nat) (s : Topo) (op : Op) (hW : WF d s) (hop : NotRootAdd op)
    (hk : NoFlagDrop s.info op) (h : (stepEcho d s op).2 = true) : WF d (stepEcho d s op).1 := by
  rcases op_cases s.info op with hfk | ⟨q, sw, hp, o, rfl, hfo, hsf⟩
  · exact echo_preserves_WF d s op hW hop hfk h
  · obtain ⟨hf, ht⟩ := hk o hfo hsf
    have : stepEcho d s (.upd q sw hp) = (onUpdate s o q, true) := by
      simp [stepEcho, step, validUpdate, evOf, hfo, hsf, applyEv]
    rw [this]
    exact relabel_preserves_WF hW hfo hsf hf ht

def EchoOK' (d : Nat) : Topo → List Op → Prop
  | _, [] => True
  | s, op :: ops => NotRootAdd op ∧ NoFlagDrop s.info op ∧ EchoOK' d (stepEcho d s op).1 ops

theorem history_echo_WF_nd (d : Nat) (ops : List Op) : ∀ s, WF d s → EchoOK' d s ops → WF d (runEcho d s ops) := by
  induction ops with
  | nil => intro s hs _; exact hs
  | cons op ops ih =>
    intro s hs hok
    obtain ⟨hop, hk, hrest⟩ := hok
    simp only [runEcho]
    apply ih _ _ hrest
    cases hres : (stepEcho d s op).2 with
    | true => exact echo_preserves_WF_nd d s op hs hop hk hres
    | false => rw [echo_reject_is_noop d s op hres]; exact hs

theorem reachable_echo_WF_nd (d : Nat) (ops : List Op) (hok : EchoOK' d init ops) : WF d (runEcho d init ops) :=
  history_echo_WF_nd d ops init (wf_init d) hok

theorem echoOK_echoOK_nd (d : Nat) (ops : List Op) : ∀ s, EchoOK d s ops → EchoOK' d s ops := by
  induction ops with
  | nil => intro s _; trivial
  | cons op ops ih => intro s h; exact ⟨h.1, flagsKept_noFlagDrop h.2.1, ih _ h.2.2⟩

/-! ### two replicas -/

/-- delivery of a label-only update event (no label dropped) to a replica in sync with the API store. -/
theorem deliver_relabel {d : Nat} {flt : Ev → Bool} {x : Topo} {api : List QI} {o q : QI} (hf : FilterOK flt)
    (wx : WF d x) (ix : x.info = api) (hfo : find api q.name = some o) (hsf : sameFields o q = true)
    (h1 : o.force = true → q.force = true) (h2 : o.treeRoot = true → q.treeRoot = true) :
    WF d (deliver flt x (.upd o q)) ∧ (deliver flt x (.upd o q)).info = put api q := by
  subst ix
  unfold deliver
  cases hfe : flt (.upd o q) with
  | true =>
    simp only [if_true, applyEv]
    exact ⟨relabel_preserves_WF wx hfo hsf h1 h2, rfl⟩
  | false =>
    simp only [Bool.false_eq_true, if_false]
    refine ⟨wx, ?_⟩
    obtain ⟨q', hq'⟩ := hf _ hfe
    have e1 : o = q' := by injection hq'
    have e2 : q = q' := by injection hq'
    have : o = q := e1.trans e2.symm
    subst this
    rw [put_present hfo, replace_self (uniq_of_nodup wx.forest.nodup) (find_some hfo).1]

theorem sys_step_synced_nd (d : Nat) (flt : Ev → Bool) (σ : Sys) (rep : Bool) (op : Op) (hf : FilterOK flt)
    (hS : Synced d σ) (hop : NotRootAdd op) (hk : NoFlagDrop σ.api op) : Synced d (sysStep d flt σ rep op).1 := by
  rcases op_cases σ.api op with hfk | ⟨q, sw, hp, o, rfl, hfo, hsf⟩
  · exact sys_step_synced d flt σ rep op hf hS hop hfk
  · obtain ⟨h1, h2⟩ := hk o hfo hsf
    have : sysStep d flt σ rep (.upd q sw hp) =
        ({ a := deliver flt σ.a (.upd o q), b := deliver flt σ.b (.upd o q), api := put σ.api q }, true) := by
      cases rep <;> simp [sysStep, stepO, validUpdateO, evOf, hfo, hsf, infoEv]
    rw [this]
    obtain ⟨wa, ia⟩ := deliver_relabel hf hS.wa hS.ia hfo hsf h1 h2
    obtain ⟨wb, ib⟩ := deliver_relabel hf hS.wb hS.ib hfo hsf h1 h2
    exact ⟨wa, wb, ia, ib⟩

def SysOK' (d : Nat) (flt : Ev → Bool) : Sys → List (Bool × Op) → Prop
  | _, [] => True
  | σ, (rep, op) :: rs => NotRootAdd op ∧ NoFlagDrop σ.api op ∧ SysOK' d flt (sysStep d flt σ rep op).1 rs

theorem sys_history_synced_nd (d : Nat) (flt : Ev → Bool) (hf : FilterOK flt) (rs : List (Bool × Op)) :
    ∀ σ, Synced d σ → SysOK' d flt σ rs → Synced d (sysRun d flt σ rs) := by
  induction rs with
  | nil => intro σ hS _; exact hS
  | cons r rs ih =>
    intro σ hS hok
    obtain ⟨rep, op⟩ := r
    obtain ⟨hop, hk, hrest⟩ := hok
    simp only [sysRun]
    exact ih _ (sys_step_synced_nd d flt σ rep op hf hS hop hk) hrest

theorem replicas_converge_nd (d : Nat) (flt : Ev → Bool) (hf : FilterOK flt) (rs : List (Bool × Op)) :
    ∀ σ, Synced d σ → SysOK' d flt σ rs →
      Synced d (sysRun d flt σ rs) ∧ Equiv (sysRun d flt σ rs).a (sysRun d flt σ rs).b := by
  intro σ hS hok
  have := sys_history_synced_nd d flt hf rs σ hS hok
  exact ⟨this, this.equiv⟩

theorem replicas_converge_init_nd (d : Nat) (flt : Ev → Bool) (hf : FilterOK flt) (rs : List (Bool × Op))
    (hok : SysOK' d flt sysInit rs) :
    Synced d (sysRun d flt sysInit rs) ∧ Equiv (sysRun d flt sysInit rs).a (sysRun d flt sysInit rs).b :=
  replicas_converge_nd d flt hf rs sysInit (synced_init d) hok

/-! ### non-vacuity: a label-only update that GAINS allow-force-update meets `NoFlagDrop` but not `FlagsKept`; the echo
    changes the record and the result is well-formed -/

def gnP : QI := { name := 3, parent := 0, isParent := true, tree := 0, force := false, treeRoot := false,
                  mn := [some 4], mx := [some 8], ns := [] }
def gnA : QI := { gnP with name := 4, parent := 3, isParent := false, mn := [some 2] }
def gnHist : List Op := [.add gnP false, .add gnA false, .upd { gnA with force := true } false false]

theorem gnHist_echoOK_nd : EchoOK' 1 init gnHist := by
  refine ⟨show gnP.name ≠ 0 by decide, trivial, show gnA.name ≠ 0 by decide, trivial, trivial, ?_, trivial⟩
  intro o hf hs
  have h4 : find (runEcho 1 init (gnHist.take 2)).info 4 = some gnA := by decide
  have hf : find (runEcho 1 init (gnHist.take 2)).info 4 = some o := hf
  rw [h4] at hf
  cases hf
  exact ⟨by decide, by decide⟩

example : ¬ EchoOK 1 init gnHist := by
  intro h
  have := (h.2.2.2.2.2.1 gnA (by decide) (by decide)).1
  revert this
  decide

example : (stepEcho 1 (runEcho 1 init (gnHist.take 2)) (.upd { gnA with force := true } false false)).2 = true ∧
    (runEcho 1 init gnHist).info = [{ gnA with force := true }, gnP] ∧ (run 1 init gnHist).info = [gnA, gnP] := by decide
example : WF 1 (runEcho 1 init gnHist) := reachable_echo_WF_nd 1 gnHist gnHist_echoOK_nd

/-! ### 18. the delete's critical section against a concurrent request (round 4; Model/C15Race.lean, Proofs/C15ExtRace.lean)
    ValidDeleteQuota holds the topology lock from its 'exists and has no children' check across the pod List to the
    removal (Ties: tie_delete_one_section).  Small-step model: delete thread (lock · check · list · remove · unlock) against
    one concurrent admission request / informer event on the same topology, every schedule. -/

/-- invariant of the atomic shape: the state is well-formed, and what the check and the pod list established still
    holds of the CURRENT state when the removal runs. -/
structure RaceInv (d n : Nat) (lp : Bool) (c : RC) : Prop where
  wf  : WF d c.s
  chk : c.pc = 2 ∨ c.pc = 3 → delCheck c.s n = true
  lst : c.pc = 3 → lp = false

theorem dstep_atomic_inv {d n : Nat} {lp : Bool} {c : RC} (h : RaceInv d n lp c) :
    RaceInv d n lp (dstep .atomic n lp c) := by
  obtain ⟨s, pc, dres, ores⟩ := c
  match pc, h with
  | 0, h => simp only [dstep]; exact ⟨h.wf, by simp, by simp⟩
  | 1, h =>
    simp only [dstep]
    split
    · next hc => exact ⟨h.wf, fun _ => hc, by simp⟩
    · exact ⟨h.wf, by simp, by simp⟩
  | 2, h =>
    simp only [dstep]
    cases lp with
    | true => exact ⟨h.wf, by simp, by simp⟩
    | false => exact ⟨h.wf, fun _ => h.chk (Or.inl rfl), fun _ => rfl⟩
  | 3, h =>
    simp only [dstep]
    have hc := h.chk (Or.inr rfl)
    have hl := h.lst rfl
    subst hl
    have hv := validDelete_sections s n false
    simp only [hc, Bool.not_false, Bool.and_self, if_true] at hv
    have hacc : (step d s (.del n false)).2 = true := by simp [step, hv]
    have := accept_preserves_WF d s (.del n false) h.wf trivial hacc
    simp only [step, hv] at this
    exact ⟨this, by simp, by simp⟩
  | k+4, h => simp only [dstep]; exact h

theorem ostep_atomic_inv {d n : Nat} {lp : Bool} {c : RC} {r : RawOp} (hr : NotRootAddRaw r) (h : RaceInv d n lp c) :
    RaceInv d n lp (ostep d .atomic (.req r) c) := by
  unfold ostep
  split
  · exact h
  · next hfree =>
    have hpc : ¬ (c.pc = 2 ∨ c.pc = 3) := by
      intro hp
      rcases hp with hp | hp <;> simp [lockHeld, hp] at hfree
    refine ⟨?_, fun hp => absurd hp hpc, fun hp => absurd (Or.inr hp) hpc⟩
    simp only [otherRun]
    cases hres : (stepRaw d c.s r).2 with
    | true => exact raw_accept_preserves_WF d c.s r h.wf hr hres
    | false => rw [raw_reject_is_noop d c.s r hres]; exact h.wf

/-- ONE SECTION FROM THE CHECK TO THE REMOVAL ⇒ under EVERY interleaving of the delete with a concurrent admission
    request (create, create through the mutating step, update, another delete) every intermediate and the final recorded
    topology is well-formed. -/
theorem race_atomic_WF (d n : Nat) (lp : Bool) (r : RawOp) (hr : NotRootAddRaw r) (sched : List Bool) :
    ∀ c, RaceInv d n lp c → RaceInv d n lp (raceExec d .atomic n lp (.req r) c sched) := by
  induction sched with
  | nil => intro c h; exact h
  | cons w ws ih =>
    intro c h
    simp only [raceExec, List.foldl_cons]
    apply ih
    unfold raceStep
    cases w with
    | true => exact ostep_atomic_inv hr h
    | false => exact dstep_atomic_inv h

theorem race_atomic_WF_init (d n : Nat) (lp : Bool) (r : RawOp) (hr : NotRootAddRaw r) (sched : List Bool) (s : Topo)
    (hW : WF d s) : WF d (raceExec d .atomic n lp (.req r) { s := s } sched).s :=
  (race_atomic_WF d n lp r hr sched { s := s } ⟨hW, by simp, by simp⟩).wf

/-- every interleaving of the atomic shape is one of the two sequential orders. -/
theorem race_atomic_linearizable (d n : Nat) (lp : Bool) (o : Other) (s0 : Topo) (sched : List Bool) :
    let c := raceExec d .atomic n lp o { s := s0 } sched
    c.pc = 4 → c.ores.isSome = true →
      (c.s = (validDelete (otherRun d o s0).1 n lp).1 ∧ c.dres = some (validDelete (otherRun d o s0).1 n lp).2 ∧
        c.ores = some (otherRun d o s0).2) ∨
      (c.s = (otherRun d o (validDelete s0 n lp).1).1 ∧ c.dres = some (validDelete s0 n lp).2 ∧
        c.ores = some (otherRun d o (validDelete s0 n lp).1).2) := by
  have key : ∀ (sched : List Bool) (c : RC), SerInv d n lp o s0 c → SerInv d n lp o s0 (raceExec d .atomic n lp o c sched) := by
    intro sched
    induction sched with
    | nil => intro c h; exact h
    | cons w ws ih =>
      intro c h
      simp only [raceExec, List.foldl_cons]
      exact ih _ (raceStep_serInv w h)
  intro c hpc hsome
  have hinv : SerInv d n lp o s0 c :=
    key sched { s := s0 } (Or.inl ⟨rfl, Or.inl ⟨by simp, rfl, rfl, by simp, by simp⟩⟩)
  rcases hinv with ⟨ho, _⟩ | ⟨ho, hm⟩ | ⟨_, hd, ho, hs⟩
  · simp [ho] at hsome
  · rcases hm with ⟨hle, _⟩ | ⟨_, hs, hd⟩
    · omega
    · exact Or.inl ⟨hs, hd, ho⟩
  · exact Or.inr ⟨hs, hd, ho⟩

/-- decided after an admitted delete, the create of a child under the deleted quota is rejected: its parent is gone
    (what the request that had to wait for the lock meets). -/
theorem child_after_delete_rejected (d : Nat) (s : Topo) (n : Nat) (lp : Bool) (q : QI) (sw : Bool)
    (h : (validDelete s n lp).2 = true) (hp : q.parent = n) (hq : q.name ≠ 0) :
    (validAdd d (validDelete s n lp).1 q sw).2 = false := by
  obtain ⟨o, hfo, hk, hlp, hst⟩ := validDelete_true h
  have hn0 : n ≠ 0 := by
    intro h0; subst h0; simp [validDelete] at h
  have hfind : find (validDelete s n lp).1.info n = none := by
    rw [hst]
    unfold find delState
    simp [List.find?_eq_none]
  have ht : topoCheck d (validDelete s n lp).1 none q false = false := by
    unfold topoCheck parentInfoOK
    simp only [hp, hfind, hn0, hq, if_false]
    simp [isParentChangeOK]
  unfold validAdd
  simp only [ht]
  split
  · rfl
  · split
    · rfl
    · split
      · rfl
      · simp

/-- decided after an admitted delete of `n`, an update that hangs a quota under `n` is rejected (the unchanged-fields
    shortcut cannot apply: a recorded quota whose parent is `n` would have been a child, and the delete was admitted). -/
theorem reparent_after_delete_rejected (d : Nat) (s : Topo) (n : Nat) (lp : Bool) (q : QI) (sw hp : Bool)
    (hW : WF d s) (h : (validDelete s n lp).2 = true) (hpar : q.parent = n) :
    (validUpdate d (validDelete s n lp).1 q sw hp).2 = false := by
  obtain ⟨o, hfo, hk, hlp, hst⟩ := validDelete_true h
  have hn0 : n ≠ 0 := by
    intro h0; subst h0; simp [validDelete] at h
  have hfind : find (validDelete s n lp).1.info n = none := by
    rw [hst]
    unfold find delState
    simp [List.find?_eq_none]
  have hsub : ∀ c ∈ (validDelete s n lp).1.info, c ∈ s.info := by
    rw [hst]; intro c hc; exact (List.mem_filter.mp hc).1
  have ht : ∀ o', q.name ≠ 0 → topoCheck d (validDelete s n lp).1 (some o') q hp = false := by
    intro o' hq
    unfold topoCheck parentInfoOK
    simp only [hpar, hfind, hn0, hq, if_false]
    repeat' split
    all_goals simp_all
  unfold validUpdate
  cases hold : find (validDelete s n lp).1.info q.name with
  | none =>
    simp only []
    repeat' split
    all_goals first | rfl | simp_all
  | some o' =>
    by_cases hsf : sameFields o' q = true
    · exfalso
      have hop : o'.parent = n := by
        have : (o'.parent == q.parent) = true := by
          simp only [sameFields, Bool.and_eq_true] at hsf
          exact hsf.1.1.1.1.1.1.1.1.1.1
        rw [← hpar]; simpa using this
      have hmem := hsub o' (find_some hold).1
      have hkid : (n, o'.name) ∈ s.kids := (hW.forest.kidsOK n o'.name).mpr ⟨o', hmem, rfl, hop⟩
      have : hasKids s n = true := by
        unfold hasKids
        exact List.any_eq_true.mpr ⟨(n, o'.name), hkid, by simp⟩
      rw [this] at hk; cases hk
    · simp only [hsf]
      by_cases hq : q.name = 0
      · simp [hq]
      · simp only [ht o' hq]
        repeat' split
        all_goals first | rfl | simp_all

/-- THE SPLIT SHAPE (check in a read-locked helper, pod list outside any lock, removal under a re-taken write lock that
    only re-checks that the quota still exists): parent 3 without children; the delete passes its check, the create of
    child 4 under 3 runs while the pod list is in flight and is admitted (its parent exists), the removal then deletes
    the parent — BOTH requests are admitted and the recorded child's parent does not exist. -/
def rxChild : Raw :=
  { name := 4, parentCode := 3, isParentCode := 0, tree := 0, forceCode := 2, rootCode := 2, swShape := 0, nsShape := 0,
    nsList := [], mnNil := false, mxNil := false, mn := [some 2], mx := [some 8] }
def rxS : Topo := (step 1 init (.add exA false)).1
def rxSplit : RC := raceExec 1 .split 3 false (.req (.add rxChild)) { s := rxS } [false, true, false, false]

theorem race_split_counterexample :
    rxSplit.dres = some true ∧ rxSplit.ores = some true ∧ rxSplit.s.info = [decodeQI rxChild] ∧
    (decodeQI rxChild).parent = 3 := by decide

theorem race_split_not_WF : WF 1 rxS ∧ ¬ WF 1 rxSplit.s := by
  refine ⟨?_, ?_⟩
  · exact accept_preserves_WF 1 init (.add exA false) (wf_init 1) (by show exA.name ≠ 0; decide) (by decide)
  · intro hW
    obtain ⟨_, _, hinfo, hpar⟩ := race_split_counterexample
    have := hW.forest.parentOK (decodeQI rxChild) (by rw [hinfo]; simp)
    rw [hinfo] at this
    rcases this with h0 | ⟨p, hp, hpn, _⟩
    · rw [hpar] at h0; exact absurd h0 (by decide)
    · simp at hp; subst hp; rw [hpar] at hpn; exact absurd hpn (by decide)

/-- the same attempt under the code's shape: the create has to wait, is decided after the removal and is rejected. -/
theorem race_atomic_same_attempt :
    let c := raceExec 1 .atomic 3 false (.req (.add rxChild)) { s := rxS } harnessSched
    c.dres = some true ∧ c.ores = some false ∧ c.s.info = [] := by decide


/-- a delete decided after the child's create (or after the informer told the replica of the child) is rejected. -/
theorem delete_after_child_rejected (s : Topo) (q : QI) (lp : Bool) :
    (validDelete (addState s q) q.parent lp).2 = false := by
  have hk : hasKids (addState s q) q.parent = true := by simp [hasKids, addState]
  rw [validDelete_sections]
  simp [delCheck, hk]

theorem onAdd_hasKids (s : Topo) (q : QI) : hasKids (onAdd s q) q.parent = true := by simp [hasKids, onAdd]

/-- THE PROPERTY OF THE RACE: under the code's lock shape, whatever the schedule, the delete of quota `n` and the
    concurrent create of a child under `n` are never BOTH admitted. -/
theorem race_atomic_not_both (d n : Nat) (lp : Bool) (r : Raw) (hn : r.name ≠ 0) (hp : (decodeQI r).parent = n)
    (s0 : Topo) (sched : List Bool) :
    let c := raceExec d .atomic n lp (.req (.add r)) { s := s0 } sched
    c.pc = 4 → ¬ (c.dres = some true ∧ c.ores = some true) := by
  intro c hpc hboth
  have hsome : c.ores.isSome = true := by rw [hboth.2]; rfl
  have hname : (decodeQI r).name ≠ 0 := hn
  rcases race_atomic_linearizable d n lp (.req (.add r)) s0 sched hpc hsome with ⟨_, hd, ho⟩ | ⟨_, hd, ho⟩
  · -- the create first: it is admitted, so the quota has a child when the delete checks
    rw [hboth.2] at ho
    rw [hboth.1] at hd
    simp only [otherRun, stepRaw, decodeOp, step, Option.some.injEq] at ho hd
    obtain ⟨_, _, _, _, hst⟩ := validAdd_true ho.symm
    rw [hst, ← hp, delete_after_child_rejected] at hd
    cases hd
  · -- the delete first: the parent is gone when the create is decided
    rw [hboth.2] at ho
    rw [hboth.1] at hd
    simp only [otherRun, stepRaw, decodeOp, step, Option.some.injEq] at ho hd
    rw [child_after_delete_rejected d s0 n lp (decodeQI r) _ hd.symm hp hname] at ho
    cases ho

/-- the informer variant: an OnQuotaAdd of a child under `n` that ran before the delete's verdict makes the delete fail;
    with an admitted delete the event was applied after the removal (a late event). -/
theorem race_atomic_informer_add (d n : Nat) (lp : Bool) (q : QI) (hp : q.parent = n) (s0 : Topo) (sched : List Bool) :
    let c := raceExec d .atomic n lp (.ev (.add q)) { s := s0 } sched
    c.pc = 4 → c.ores.isSome = true → c.dres = some true → c.s = onAdd (validDelete s0 n lp).1 q := by
  intro c hpc hsome hd
  rcases race_atomic_linearizable d n lp (.ev (.add q)) s0 sched hpc hsome with ⟨_, hd', _⟩ | ⟨hs, _, _⟩
  · rw [hd] at hd'
    simp only [otherRun, applyEv, Option.some.injEq] at hd'
    have hk := onAdd_hasKids s0 q
    rw [validDelete_sections] at hd'
    simp [delCheck, hp ▸ hk] at hd'
  · simpa [otherRun, applyEv] using hs

/-- a delete of `n` decided after an admitted update that hangs (or keeps) a quota under `n` is rejected. -/
theorem delete_after_reparent_rejected (d : Nat) (s : Topo) (n : Nat) (lp : Bool) (q : QI) (sw hp : Bool)
    (hW : WF d s) (h : (validUpdate d s q sw hp).2 = true) (hpar : q.parent = n) :
    (validDelete (validUpdate d s q sw hp).1 n lp).2 = false := by
  have hW' : WF d (validUpdate d s q sw hp).1 := accept_preserves_WF d s (.upd q sw hp) hW trivial h
  have hex : ∃ c ∈ (validUpdate d s q sw hp).1.info, c.parent = n := by
    cases hf : find s.info q.name with
    | none =>
      exfalso
      unfold validUpdate at h
      simp only [hf] at h
      repeat' split at h
      all_goals simp_all
    | some o =>
      by_cases h0 : sameFields o q = true
      · have hs : (validUpdate d s q sw hp).1 = s := by unfold validUpdate; simp [hf, h0]
        have hop : (o.parent == q.parent) = true := by
          simp only [sameFields, Bool.and_eq_true] at h0
          exact h0.1.1.1.1.1.1.1.1.1.1
        rw [hs]
        exact ⟨o, (find_some hf).1, by rw [← hpar]; simpa using hop⟩
      · by_cases c1 : (decide (q.name = 0) || decide (q.name = 1)) = true
        · simp [validUpdate, hf, h0, c1] at h
        by_cases c2 : nsFree s q = true
        · by_cases c3 : selfOK d q sw = true
          · by_cases c4 : topoCheck d s (some o) q hp = true
            · have hi : (validUpdate d s q sw hp).1.info = replace s.info q := by
                simp [validUpdate, hf, h0, c1, c2, c3, c4]
              exact ⟨q, by rw [hi]; exact mem_replace_self (find_some hf).1 (find_some hf).2, hpar⟩
            · simp [validUpdate, hf, h0, c1, c2, c3, c4] at h
          · simp [validUpdate, hf, h0, c1, c2, c3] at h
        · simp [validUpdate, hf, h0, c1, c2] at h
  obtain ⟨c, hc, hcp⟩ := hex
  have hkid := (hW'.forest.kidsOK n c.name).mpr ⟨c, hc, rfl, hcp⟩
  have hk : hasKids (validUpdate d s q sw hp).1 n = true := by
    unfold hasKids
    exact List.any_eq_true.mpr ⟨(n, c.name), hkid, by simp⟩
  rw [validDelete_sections]
  simp [delCheck, hk]

/-- the re-parenting variant of the race: under the code's lock shape the delete of `n` and a concurrent update that
    hangs a quota under `n` are never both admitted. -/
theorem race_atomic_not_both_reparent (d n : Nat) (lp : Bool) (r : Raw) (le : Bool) (pods : List Pod)
    (hp : (decodeQI r).parent = n) (s0 : Topo) (hW : WF d s0) (sched : List Bool) :
    let c := raceExec d .atomic n lp (.req (.upd r le pods)) { s := s0 } sched
    c.pc = 4 → ¬ (c.dres = some true ∧ c.ores = some true) := by
  intro c hpc hboth
  have hsome : c.ores.isSome = true := by rw [hboth.2]; rfl
  rcases race_atomic_linearizable d n lp (.req (.upd r le pods)) s0 sched hpc hsome with ⟨_, hd, ho⟩ | ⟨_, hd, ho⟩
  · rw [hboth.2] at ho
    rw [hboth.1] at hd
    simp only [otherRun, stepRaw, decodeOp, step, Option.some.injEq] at ho hd
    rw [delete_after_reparent_rejected d s0 n lp _ _ _ hW ho.symm hp] at hd
    cases hd
  · rw [hboth.2] at ho
    rw [hboth.1] at hd
    simp only [otherRun, stepRaw, decodeOp, step, Option.some.injEq] at ho hd
    rw [reparent_after_delete_rejected d s0 n lp _ _ _ hW hd.symm hp] at ho
    cases ho

/-! ### 19. the unchanged-fields shortcut sees zero-valued entries (round 4; Ties: tie_unchanged_fields_copy) -/

/-- the shortcut applies only when the spec maps are IDENTICAL — key sets included. -/
theorem sameFields_spec {o q : QI} (h : sameFields o q = true) : o.mn = q.mn ∧ o.mx = q.mx := by
  simp only [sameFields, Bool.and_eq_true, beq_iff_eq] at h
  exact ⟨h.1.1.1.1.1.1.2, h.1.1.1.1.1.2⟩

/-- so an update that only adds (or drops) an entry with amount 0 is a change: it is checked like any other. -/
theorem zero_entry_edit_is_a_change {o q : QI} {k : Nat} (ho : o.mx.get k = none) (hq : q.mx.get k = some 0) :
    sameFields o q = false := by
  cases h : sameFields o q with
  | false => rfl
  | true => rw [(sameFields_spec h).2] at ho; rw [ho] at hq; cases hq

/-- witness (two dimensions): child B of A gains the max key of dimension 1 with amount 0 — rejected, because the max keys
    of a child and its parent must agree; a shortcut blind to zero-valued entries would admit it unchecked. -/
theorem zero_entry_edit_checked :
    sameFields exB { exB with mx := [some 8, some 0] } = false ∧
    (step 2 exS (.upd { exB with mx := [some 8, some 0] } false false)).2 = false ∧
    (step 2 exS (.upd exB false false)).2 = true := by decide

/-! ### 20. the min-sum clause as a TRANSITION clause (round 7; Proofs/C15ExtStep.lean)
The state invariant `MinSum` exempts a record carrying allow-force-update / is-root as a parent too (it may lower its
own min unchecked).  A request that does not itself carry one of the two labels is exempt from nothing. -/

/-- an admitted create without a bypass label below a quota: its min plus the mins of ALL recorded brothers is at most
    the parent's recorded min — whatever labels the parent carries (a tree root's children ARE checked against it). -/
theorem checked_add_brothers_bound (d : Nat) (s : Topo) (q : QI) (sw : Bool)
    (h : (step d s (.add q sw)).2 = true) (hn : q.name ≠ 0) (hf : q.force = false) (hr : q.treeRoot = false)
    (hp : q.parent ≠ 0) :
    ∃ p, find s.info q.parent = some p ∧
      ∀ k, k < d → minSum s q.parent (some q.name) k + q.mn.val k ≤ p.mn.val k :=
  add_checked_brothers_bound d s q sw h hn hf hr hp

/-- the same for an admitted update that is really checked (not taken by the unchanged-fields shortcut). -/
theorem checked_update_brothers_bound (d : Nat) (s : Topo) (q : QI) (sw hpods : Bool)
    (h : (step d s (.upd q sw hpods)).2 = true)
    (hs : ∀ o, find s.info q.name = some o → sameFields o q = false)
    (hn : q.name ≠ 0) (hf : q.force = false) (hr : q.treeRoot = false) (hp : q.parent ≠ 0) :
    ∃ p, find s.info q.parent = some p ∧
      ∀ k, k < d → minSum s q.parent (some q.name) k + q.mn.val k ≤ p.mn.val k :=
  upd_checked_brothers_bound d s q sw hpods h hs hn hf hr hp

/-- checkMinQuotaValidate's second check: the recorded children of an unlabelled request fit under its new min. -/
theorem checked_children_bound (d : Nat) (s : Topo) (q : QI)
    (h : minCheck d s q = true) (hf : q.force = false) (hr : q.treeRoot = false) (hk : hasKids s q.name = true) :
    ∀ k, k < d → minSum s q.name none k ≤ q.mn.val k :=
  minCheck_children_bound d s q h hf hr hk

/-- witness: below a tree root (is-root=true, min 10) with a child of min 6, a second child of min 6 is rejected, one
    of min 4 admitted, raising the first child to 11 rejected, to 10 admitted. -/
theorem tree_root_children_are_checked :
    (validAdd 1 init stepT false).2 = true ∧ (validAdd 1 (validAdd 1 init stepT false).1 (stepC 4 6) false).2 = true ∧
    (validAdd 1 stepS (stepC 5 6) false).2 = false ∧ (validAdd 1 stepS (stepC 5 4) false).2 = true ∧
    (validUpdate 1 stepS (stepC 4 11) false false).2 = false ∧ (validUpdate 1 stepS (stepC 4 10) false false).2 = true :=
  is_root_parent_checks_children

/-- what is exempt is the quota that CARRIES the label: the same over-sized child is admitted once it carries is-root
    itself (reading note (ii)). -/
theorem tree_root_label_exempts_the_request :
    (validAdd 1 stepS { stepC 5 6 with treeRoot := true } false).2 = true :=
  is_root_request_not_checked

/-! ### 21. a STALE OldObject — the recorded info wins (round 7; Proofs/C15ExtStep.lean, Model/C15Inf.lean `validUpdateO`) -/

/-- an update whose OldObject lags behind the recorded object (an earlier update was admitted but never persisted) is
    decided and recorded exactly like the update against the recorded object, provided the stale object declares the
    same namespaces and takes the same way through the unchanged-fields shortcut (checked by the harness on every
    generated stale request): old parent / is-parent / tree id of the bookkeeping are the RECORDED ones. -/
theorem stale_old_object_is_recorded_update (d : Nat) (s : Topo) (a o q : QI) (sw hpods : Bool)
    (ho : find s.info q.name = some o) (hns : a.ns = o.ns) (hsf : sameFields a q = sameFields o q) :
    validUpdateO d s (some a) q sw hpods = validUpdate d s q sw hpods :=
  stale_old_object_recorded_wins d s a o q sw hpods ho hns hsf

/-- witness: quota 4 was moved from tree root 3 under tree root 6 (admitted, not persisted); the next update carries
    the stale OldObject (parent 3) and moves it back to 3 with another min: it is unlinked from its RECORDED parent 6. -/
theorem stale_reparent_uses_recorded_parent :
    isKid stepS2 6 4 = true ∧ isKid stepS2 3 4 = false ∧
    (validUpdateO 1 stepS2 (some (stepC 4 6)) (stepC 4 5) false false).2 = true ∧
    isKid (validUpdateO 1 stepS2 (some (stepC 4 6)) (stepC 4 5) false false).1 6 4 = false ∧
    isKid (validUpdateO 1 stepS2 (some (stepC 4 6)) (stepC 4 5) false false).1 3 4 = true :=
  stale_reparent_unlinks_recorded_parent

end KoordVerif.C15
