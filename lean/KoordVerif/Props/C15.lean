import KoordVerif.Model.C15
namespace KoordVerif.C15

theorem reject_is_noop (d : Nat) (s : Topo) (op : Op) (h : (step d s op).2 = false) : (step d s op).1 = s := by
  cases op <;> simp only [step] at h ⊢
  · unfold validAdd at h ⊢; split <;> try rfl
    split <;> try rfl
    split <;> try rfl
    split <;> try rfl
    simp_all
  · unfold validUpdate at h ⊢; simp only at h ⊢
    split <;> try rfl
    · simp_all
    split <;> try rfl
    split <;> try rfl
    split <;> try rfl
    split <;> try rfl
    split <;> try rfl
    simp_all
  · unfold validDelete at h ⊢
    split <;> try rfl
    split <;> try rfl
    split <;> try rfl
    split <;> try rfl
    split <;> try rfl
    simp_all

end KoordVerif.C15
