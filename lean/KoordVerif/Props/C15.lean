import KoordVerif.Proofs.C15Forest
/-
C15 — property theorems (DESIGN.md §4 C15, Appendix A.7).

Well-formedness of the recorded topology `s` (model state of the webhook's quotaTopology):
  `Forest s` :=  one record per name ∧ no record named root
               ∧ every parent is the root or a recorded quota marked is-parent
               ∧ `Ranked` : ∃ rank, rank root = 0 ∧ rank (parent q) < rank q   (acyclic + rooted)
               ∧ children map (quotaHierarchyInfo) = inverse of the parent links.
FULL statement of DESIGN §4 C15 (not all of it is proved here):
  accept_preserves_WF : WF s → (step d s op).2 = true → WF (step d s op).1   with
  WF := Forest ∧ (min ≤ max ∧ keys(min) ⊆ keys(max) ∧ amounts ≥ 0) ∧ (Σ children min ≤ parent min, absent
        allow-force-update / is-root requests) ∧ (max keys equal / min keys included along edges) ∧
        (tree ids agree along edges) ∧ (namespace map = the accepted objects' annotations, injective).
Proved below: the `Forest` part in full (`accept_preserves_WF_partial`, every request, every history,
including acyclicity by the rank argument) and the min/max clause (`accept_preserves_minmax`).
MISSING in Lean: min-sum, keys along edges, tree id along edges, namespace map — these clauses are
evaluated by the harness oracle on every generated history but have no Lean proof yet.
Out of the model: a create request for an object NAMED koordinator-root-quota (hypothesis `NotRootAdd`).
-/
namespace KoordVerif.C15

/-- a create request never carries the root's own name (see header). -/
def NotRootAdd : Op → Prop
  | .add q _ => q.name ≠ 0
  | _ => True

/-! ### 1. an accepted request keeps the forest well-formed (partial: structural clauses) -/

theorem accept_preserves_WF_partial (d : Nat) (s : Topo) (op : Op) (hF : Forest s) (hop : NotRootAdd op)
    (h : (step d s op).2 = true) : Forest (step d s op).1 := by
  cases op with
  | add q sw => exact forest_add hF hop h
  | upd q sw hp => exact forest_upd hF h
  | del n lp => exact forest_del hF h

/-! ### 2. a rejected request leaves the recorded topology unchanged -/

theorem reject_is_noop (d : Nat) (s : Topo) (op : Op) (h : (step d s op).2 = false) : (step d s op).1 = s := by
  cases op with
  | add q sw =>
    simp only [step] at h ⊢
    unfold validAdd at h ⊢
    repeat' split
    all_goals first | rfl | simp_all
  | upd q sw hp =>
    simp only [step] at h ⊢
    unfold validUpdate at h ⊢
    simp only at h ⊢
    repeat' split
    all_goals first | rfl | simp_all
  | del n lp =>
    simp only [step] at h ⊢
    unfold validDelete at h ⊢
    repeat' split
    all_goals first | rfl | simp_all

/-! ### 3. every history: the forest invariant holds in every reachable state -/

theorem history_forest (d : Nat) (ops : List Op) (hops : ∀ op ∈ ops, NotRootAdd op) :
    ∀ s, Forest s → Forest (run d s ops) := by
  induction ops with
  | nil => intro s hs; exact hs
  | cons op ops ih =>
    intro s hs
    simp only [run]
    apply ih (fun o ho => hops o (List.mem_cons_of_mem _ ho))
    cases hres : (step d s op).2 with
    | true => exact accept_preserves_WF_partial d s op hs (hops op (List.mem_cons_self ..)) hres
    | false => rw [reject_is_noop d s op hres]; exact hs

theorem reachable_forest (d : Nat) (ops : List Op) (hops : ∀ op ∈ ops, NotRootAdd op) : Forest (run d init ops) :=
  history_forest d ops hops init forest_init

/-! ### 4. what `Ranked` means: no quota is its own proper ancestor -/

theorem anc_rank_le {info : List QI} {r : Nat → Nat} (hr : ∀ q ∈ info, r q.parent < r q.name) {x y : Nat}
    (h : Anc info x y) : r x ≤ r y := by
  induction h with
  | self => exact Nat.le_refl _
  | up hf _ ih =>
    have := hr _ (find_some hf).1
    rw [(find_some hf).2] at this
    omega

theorem no_cycle (s : Topo) (hF : Forest s) (q : QI) (hq : q ∈ s.info) : ¬ Anc s.info q.name q.parent := by
  obtain ⟨r, _, hr⟩ := hF.ranked
  intro ha
  have := anc_rank_le hr ha
  have := hr q hq
  omega

/-- a re-parenting request that would close a cycle (new parent = the quota itself or one of its
    descendants) is never accepted as a change. -/
theorem cycle_rejected (d : Nat) (s : Topo) (q : QI) (sw hp : Bool) (hF : Forest s)
    (hcyc : Anc s.info q.name q.parent) (h : (validUpdate d s q sw hp).2 = true) :
    (validUpdate d s q sw hp).1 = s := by
  rcases validUpdate_true h with hst | ⟨o, hfo, hq0, _, _, htopo, _⟩
  · exact hst
  · exfalso
    obtain ⟨r, _, hr⟩ := hF.ranked
    have hwalk := (hitsUp_iff_anc r hq0 hF.nonzero hr (s.info.length + 1) q.parent []
      (by simp) (by simp) (by simp) (by simp)).mpr hcyc
    have hp0 : q.parent ≠ 0 := by
      intro e
      have : ∀ z, z = 0 → ¬ Anc s.info q.name z := by
        intro z hz ha
        cases ha with
        | self => exact hq0 hz
        | up hf _ => exact hF.nonzero _ (find_some hf).1 ((find_some hf).2.trans hz)
      exact this _ e hcyc
    obtain ⟨_, _, hcase⟩ := topoCheck_true hq0 htopo
    rcases hcase with ⟨h0, _⟩ | ⟨hpi, _, _⟩
    · exact hp0 h0
    · obtain ⟨_, _, _, hw⟩ := parentInfoOK_true hp0 hpi
      rw [hw] at hwalk; cases hwalk

/-! ### 5. a quota with children or (label-bound) pods is not deleted -/

theorem delete_guard (s : Topo) (n : Nat) (labelPods : Bool) (hF : Forest s)
    (h : (validDelete s n labelPods).2 = true) : (∀ c ∈ s.info, c.parent ≠ n) ∧ labelPods = false := by
  obtain ⟨_, _, hnk, hlp, _⟩ := validDelete_true h
  refine ⟨?_, hlp⟩
  intro c hc e
  exact hasKids_false hnk c.name ((hF.kidsOK _ _).mpr ⟨c, hc, rfl, e⟩)

/-! ### 6. min never exceeds max, min only in dimensions max declares, amounts non-negative -/

def SelfQ (d : Nat) (q : QI) : Prop :=
  ∀ k, k < d → 0 ≤ q.mn.val k ∧ 0 ≤ q.mx.val k ∧ (∀ a, q.mn.get k = some a → ∃ b, q.mx.get k = some b ∧ a ≤ b)

def SelfOK (d : Nat) (s : Topo) : Prop := ∀ q ∈ s.info, SelfQ d q

theorem selfOK_true {d : Nat} {q : QI} {sw : Bool} (h : selfOK d q sw = true) : SelfQ d q := by
  unfold selfOK negD minInMax at h
  simp only [Bool.and_eq_true, Bool.not_not, Bool.not_eq_true', allD_iff] at h
  obtain ⟨⟨⟨h1, h2⟩, _⟩, h3⟩ := h
  intro k hk
  refine ⟨by simpa using h2 k hk, by simpa using h1 k hk, ?_⟩
  intro a ha
  have h3k := h3 k hk
  simp only [ha] at h3k
  cases hb : q.mx.get k with
  | none => simp [hb] at h3k
  | some b => exact ⟨b, rfl, by simpa [hb] using h3k⟩

theorem accept_preserves_minmax (d : Nat) (s : Topo) (op : Op) (hS : SelfOK d s)
    (h : (step d s op).2 = true) : SelfOK d (step d s op).1 := by
  cases op with
  | add q sw =>
    obtain ⟨_, _, hself, _, hst⟩ := validAdd_true h
    simp only [step]; rw [hst]
    intro c hc
    simp only [addState, List.mem_cons] at hc
    rcases hc with rfl | hc
    · exact selfOK_true hself
    · exact hS c hc
  | upd q sw hp =>
    simp only [step]
    rcases validUpdate_true h with hst | ⟨o, _, _, _, hself, _, hst⟩
    · rw [hst]; exact hS
    · rw [hst]; intro c hc
      rcases mem_replace hc with ⟨hcq, _⟩ | ⟨hc, _⟩
      · subst hcq; exact selfOK_true hself
      · exact hS c hc
  | del n lp =>
    simp only [step]
    obtain ⟨o, _, _, _, hst⟩ := validDelete_true h
    rw [hst]; intro c hc
    simp only [delState, List.mem_filter] at hc
    exact hS c hc.1

/-! ### non-vacuity: the hypotheses are met by a non-trivial history, and the guards do reject -/

def exA : QI := { name := 3, parent := 0, isParent := true, tree := 0, force := false, treeRoot := false,
                  mn := [some 4], mx := [some 8], ns := [7] }
def exB : QI := { exA with name := 4, parent := 3, mn := [some 2], ns := [] }
def exC : QI := { exA with name := 5, parent := 0, mn := [some 3], ns := [8] }
def exS : Topo := run 1 init [.add exA false, .add exB false, .add exC false]

example : (step 1 init (.add exA false)).2 = true := by decide
example : exS.info.length = 3 ∧ exS.kids.length = 3 := by decide
-- closing a cycle (A under its child B) and self-parenting are rejected
example : (step 1 exS (.upd { exA with parent := 4 } false false)).2 = false := by decide
example : (step 1 exS (.upd { exA with parent := 3 } false false)).2 = false := by decide
-- a legitimate re-parenting (B from A to C) is accepted and changes the state
example : (step 1 exS (.upd { exB with parent := 5 } false false)).2 = true ∧
          (step 1 exS (.upd { exB with parent := 5 } false false)).1 ≠ exS := by decide
-- deleting a quota with a child is rejected, deleting a leaf is accepted
example : (step 1 exS (.del 3 false)).2 = false ∧ (step 1 exS (.del 4 false)).2 = true := by decide
-- `Anc` is inhabited non-trivially: A is an ancestor of B in exS
example : Anc exS.info 3 4 := Anc.up (a := exB) (by decide) Anc.self

end KoordVerif.C15
