import KoordVerif.Proofs.C02Iter
import KoordVerif.Proofs.C02Perm
import KoordVerif.Proofs.C02Scale
import KoordVerif.Proofs.C02ExtGlue
import KoordVerif.Proofs.C02ExtNodes
/-
C02 — property theorems (DESIGN.md §4 C02).  `redistributeN total ns` is the model of
`quotaTree.redistribution(total)` over the sibling list `ns`: it returns every sibling with
its runtime quota, plus the amount that could not be handed out.  All statements are for
every sibling list, every total and every request/min/guarantee; the only hypothesis is that
shared weights are non-negative (the property says "shared weight incl. zero").
-/
namespace KoordVerif.C02

def WeightsOK (ns : List Node) : Prop := ∀ n ∈ ns, 0 ≤ n.weight

/-! ### shape of the initial phase -/

theorem initAll_partition_perm (ns : List Node) :
    ((initAll ns).filter (fun p => !needAdjust p.1) ++ (initAll ns).filter (fun p => needAdjust p.1)).Perm (initAll ns) := by
  have h := List.filter_append_perm (fun p : Node × Int => !needAdjust p.1) (initAll ns)
  simpa using h

theorem initAll_partition_sum (ns : List Node) :
    runtimeSum ((initAll ns).filter (fun p => !needAdjust p.1)) + runtimeSum ((initAll ns).filter (fun p => needAdjust p.1))
      = runtimeSum (initAll ns) := by
  generalize initAll ns = l
  induction l with
  | nil => simp [runtimeSum]
  | cons p l ih =>
    unfold runtimeSum at *
    by_cases h : needAdjust p.1
    · simp only [List.filter_cons, h, Bool.not_true, Bool.false_eq_true, if_false, if_true, List.map_cons, List.sum_cons] at *
      omega
    · simp only [List.filter_cons, h, Bool.not_false, Bool.false_eq_true, if_false, if_true, List.map_cons, List.sum_cons] at *
      omega

theorem mem_initAll (ns : List Node) (p : Node × Int) (h : p ∈ initAll ns) : p.1 ∈ ns ∧ p.2 = initRuntime p.1 := by
  unfold initAll at h
  obtain ⟨n, hn, rfl⟩ := List.mem_map.mp h
  exact ⟨hn, rfl⟩

theorem initAll_nodes (ns : List Node) : (initAll ns).map (·.1) = ns := by
  unfold initAll; rw [List.map_map]; simp [Function.comp_def]

/-- invariant handed to the iteration: nodes needing adjustment start at min' < request. -/
theorem adj_inv (ns : List Node) :
    ∀ p ∈ (initAll ns).filter (fun p => needAdjust p.1), effMin p.1 ≤ p.2 ∧ p.2 < p.1.request := by
  intro p hp
  have h := List.mem_filter.mp hp
  have h1 := (mem_initAll ns p h.1).2
  have h2 : p.1.request > effMin p.1 := by simpa [needAdjust] using h.2
  rw [h1]; unfold initRuntime; rw [if_pos h2]; omega

/-! ### 0. every sibling gets exactly one runtime quota -/

theorem nodes_preserved (total : Int) (ns : List Node) :
    ((redistributeN total ns).1.map (·.1)).Perm ns := by
  unfold redistributeN
  simp only []
  have hp := (initAll_partition_perm ns).map (·.1)
  rw [initAll_nodes] at hp
  split
  · simp only [List.map_append] at hp ⊢
    refine List.Perm.trans ?_ hp
    exact List.Perm.append_left _ (iter_nodes_perm _ _ _ _)
  · exact hp

/-! ### 1. min guaranteed, request-capped -/

theorem runtime_bounds (total : Int) (ns : List Node) :
    ∀ q ∈ (redistributeN total ns).1,
      min q.1.request (effMin q.1) ≤ q.2 ∧ q.2 ≤ max q.1.request (effMin q.1) := by
  have hrest : ∀ q ∈ (initAll ns).filter (fun p => !needAdjust p.1),
      min q.1.request (effMin q.1) ≤ q.2 ∧ q.2 ≤ max q.1.request (effMin q.1) := by
    intro q hq
    have h := List.mem_filter.mp hq
    have h1 := (mem_initAll ns q h.1).2
    have h2 : ¬ q.1.request > effMin q.1 := by simpa [needAdjust] using h.2
    rw [h1]; unfold initRuntime; simp only [h2, if_false]
    split <;> omega
  have hadj := adj_inv ns
  unfold redistributeN
  simp only []
  split
  · intro q hq
    rcases List.mem_append.mp hq with h | h
    · exact hrest q h
    · have := iter_bounds _ _ _ _ hadj q h; omega
  · intro q hq
    rcases List.mem_append.mp hq with h | h
    · exact hrest q h
    · have := hadj q h; omega

/-! ### 2. lend rule: a sibling asking for no more than its minimum -/

theorem lend_rule (total : Int) (ns : List Node) :
    ∀ q ∈ (redistributeN total ns).1, q.1.request ≤ effMin q.1 →
      q.2 = if q.1.lend then q.1.request else effMin q.1 := by
  have hrest : ∀ q ∈ (initAll ns).filter (fun p => !needAdjust p.1), q.1.request ≤ effMin q.1 →
      q.2 = if q.1.lend then q.1.request else effMin q.1 := by
    intro q hq hle
    have h := List.mem_filter.mp hq
    have h1 := (mem_initAll ns q h.1).2
    have h2 : ¬ q.1.request > effMin q.1 := by omega
    rw [h1]; unfold initRuntime; simp only [h2, if_false]
  have hadjn : ∀ n ∈ ((initAll ns).filter (fun p => needAdjust p.1)).map (·.1), effMin n < n.request := by
    intro n hn
    obtain ⟨p, hp, rfl⟩ := List.mem_map.mp hn
    have := adj_inv ns p hp; omega
  unfold redistributeN
  simp only []
  split
  · intro q hq hle
    rcases List.mem_append.mp hq with h | h
    · exact hrest q h hle
    · exfalso
      have hm : q.1 ∈ (iter _ _ _ _).1.map (·.1) := List.mem_map.mpr ⟨q, h, rfl⟩
      have := hadjn q.1 ((iter_nodes_perm _ _ _ _).mem_iff.mp hm)
      omega
  · intro q hq hle
    rcases List.mem_append.mp hq with h | h
    · exact hrest q h hle
    · exfalso
      have := hadjn q.1 (List.mem_map.mpr ⟨q, h, rfl⟩)
      omega

/-! ### 3. exactness: runtime quotas + leftover = total (no unit created or dropped) -/

theorem conservation (total : Int) (ns : List Node) (hw : WeightsOK ns) :
    runtimeSum (redistributeN total ns).1 + (redistributeN total ns).2 = total := by
  have hps := initAll_partition_sum ns
  have hwadj : ∀ p ∈ (initAll ns).filter (fun p => needAdjust p.1), 0 ≤ p.1.weight := by
    intro p hp
    exact hw p.1 (mem_initAll ns p (List.mem_filter.mp hp).1).1
  unfold redistributeN
  simp only []
  split
  · have := iter_conserve ((initAll ns).filter (fun p => needAdjust p.1)).length
      (total - runtimeSum (initAll ns)) _ _ hwadj rfl
    simp only [runtimeSum, List.map_append, List.sum_append] at *
    omega
  · simp only [runtimeSum, List.map_append, List.sum_append] at *
    omega

theorem initRuntime_le_effMin (n : Node) : initRuntime n ≤ effMin n := by
  unfold initRuntime; split
  · omega
  · split <;> omega

def effMinSum (ns : List Node) : Int := (ns.map effMin).sum

theorem initAll_sum_le (ns : List Node) : runtimeSum (initAll ns) ≤ effMinSum ns := by
  unfold initAll runtimeSum effMinSum
  induction ns with
  | nil => simp
  | cons n ns ih =>
    have := initRuntime_le_effMin n
    simp only [List.map_cons, List.sum_cons] at *
    omega

/-- whenever the minimums fit, the siblings together never get more than the parent has. -/
theorem sum_le_total (total : Int) (ns : List Node) (hw : WeightsOK ns) (hfit : effMinSum ns ≤ total) :
    runtimeSum (redistributeN total ns).1 ≤ total := by
  have hc := conservation total ns hw
  have hi := initAll_sum_le ns
  have hl : 0 ≤ (redistributeN total ns).2 := by
    unfold redistributeN
    simp only []
    split
    · apply iter_leftover_nonneg; omega
    · simp only []; omega
  omega

/-! ### 4. work conservation -/

/-- either nothing is left, or every sibling with a positive shared weight got at least its request. -/
theorem work_conserving (total : Int) (ns : List Node) (hw : WeightsOK ns) :
    (redistributeN total ns).2 ≤ 0 ∨
    ∀ q ∈ (redistributeN total ns).1, 0 < q.1.weight → q.1.request ≤ q.2 := by
  have hrest : ∀ q ∈ (initAll ns).filter (fun p => !needAdjust p.1), q.1.request ≤ q.2 := by
    intro q hq
    have h := List.mem_filter.mp hq
    have h1 := (mem_initAll ns q h.1).2
    have h2 : ¬ q.1.request > effMin q.1 := by simpa [needAdjust] using h.2
    rw [h1]; unfold initRuntime; simp only [h2, if_false]
    split <;> omega
  have hwadj : ∀ p ∈ (initAll ns).filter (fun p => needAdjust p.1), 0 ≤ p.1.weight := by
    intro p hp
    exact hw p.1 (mem_initAll ns p (List.mem_filter.mp hp).1).1
  unfold redistributeN
  simp only []
  split
  · have := iter_work_conserving ((initAll ns).filter (fun p => needAdjust p.1)).length
      (total - runtimeSum (initAll ns)) _ _ (Nat.le_refl _) hwadj rfl
    rcases this with h | h
    · left; exact h
    · right
      intro q hq hq0
      rcases List.mem_append.mp hq with h' | h'
      · exact hrest q h'
      · have := h q h' hq0; omega
  · left; simp only []; omega

/-- siblings with zero weight never get anything beyond their (effective) minimum. -/
theorem hamilton_zero_weight (T W : Int) (ns : List Node) (hT : 0 < T) (hW : 0 < W) :
    ∀ n ∈ ns, n.weight ≤ 0 → baseOf T W n = 0 := by
  intro n _ h; simp [baseOf, h]

/-! ### 5. the largest-remainder split is exact -/

theorem hamilton_exact (T W : Int) (hT : 0 < T) (hW : 0 < W) (ns : List Node)
    (hw : WeightsOK ns) (hsum : (ns.map (·.weight)).sum = W) :
    (hamilton T W ns).sum = T ∧ (hamilton T W ns).length = ns.length ∧ ∀ d ∈ hamilton T W ns, 0 ≤ d :=
  ⟨hamilton_sum T W hT hW ns hw hsum, hamilton_length T W ns, hamilton_nonneg T W ns⟩

/-- proportional to the shared weights, exact in integers: every sibling's share of one round is the
    floor of its exact proportional share, or that plus one unit; a sibling with no positive weight gets 0. -/
theorem hamilton_proportional (T W : Int) (hT : 0 < T) (hW : 0 < W) (ns : List Node) (hne : ns ≠ [])
    (j : Nat) (hj : j < ns.length) :
    let δ := (hamilton T W ns)[j]'(by rw [hamilton_length]; exact hj)
    (0 < ns[j].weight → W * δ ≤ ns[j].weight * T + W ∧ ns[j].weight * T < W * δ + W) ∧
    (ns[j].weight ≤ 0 → δ = 0) := by
  intro δ
  constructor
  · intro hw
    have hf := hamilton_fair T W hT hW ns hne j hj
    have hb : baseOf T W ns[j] = ns[j].weight * T / W := by
      have : ¬ ns[j].weight ≤ 0 := by omega
      simp [baseOf, this]
    rw [hb] at hf
    have h1 := Int.mul_ediv_add_emod (ns[j].weight * T) W
    have h2 := Int.emod_nonneg (ns[j].weight * T) (show W ≠ 0 by omega)
    have h3 := Int.emod_lt_of_pos (ns[j].weight * T) hW
    generalize ns[j].weight * T / W = q at *
    generalize ns[j].weight * T % W = r at *
    generalize ns[j].weight * T = x at *
    have hδ : q ≤ δ ∧ δ ≤ q + 1 := hf
    have e1 : W * δ ≤ W * (q + 1) := Int.mul_le_mul_of_nonneg_left hδ.2 (by omega)
    have e2 : W * q ≤ W * δ := Int.mul_le_mul_of_nonneg_left hδ.1 (by omega)
    rw [Int.mul_add] at e1
    constructor <;> omega
  · intro hw
    exact hamilton_zero_weight_delta T W ns j hj hw

/-- side condition of `bits.Div64(hi, lo, W)`: `hi < W`, i.e. the quotient fits in 64 bits. -/
theorem div64_no_panic (w T W : Nat) (hw : w ≤ W) (hW : 0 < W) (hT : T < 2 ^ 64) :
    (w * T) / 2 ^ 64 < W := by
  apply Nat.div_lt_of_lt_mul
  calc w * T ≤ W * T := Nat.mul_le_mul_right T hw
    _ < W * 2 ^ 64 := Nat.mul_lt_mul_of_pos_left hT hW
    _ = 2 ^ 64 * W := Nat.mul_comm _ _

/-! ### 5b. the division does not depend on iteration order -/

/-- Go ranges over a map: the siblings arrive in an arbitrary order.  For sibling names that are
    pairwise distinct, any two orders give every sibling the same runtime quota (the results are
    permutations of each other as lists of (sibling, runtime)) and leave the same amount over. -/
theorem order_independent (total : Int) (ns₁ ns₂ : List Node) (h : ns₁.Perm ns₂) (hnd : NamesNodup ns₁) :
    (redistributeN total ns₁).1.Perm (redistributeN total ns₂).1 ∧
    (redistributeN total ns₁).2 = (redistributeN total ns₂).2 :=
  redistributeN_perm total h hnd

/-- consequence: a (sibling, runtime) pair is produced by one order iff it is produced by the other. -/
theorem order_independent_mem (total : Int) (ns₁ ns₂ : List Node) (h : ns₁.Perm ns₂) (hnd : NamesNodup ns₁)
    (q : Node × Int) : q ∈ (redistributeN total ns₁).1 ↔ q ∈ (redistributeN total ns₂).1 :=
  (order_independent total ns₁ ns₂ h hnd).1.mem_iff

/-! ### 5d. the bounds lift to multi-level trees (top-down refresh along a path) -/

theorem levelRuntime_mem (total : Int) (ns : List Node) (name : Nat) (rt : Int)
    (h : levelRuntime total ns name = some rt) :
    ∃ q ∈ (redistributeN total ns).1, q.1.name = name ∧ q.2 = rt := by
  unfold levelRuntime lookupRt redistribute at h
  cases hf : List.find? (fun p => p.1 == name) ((redistributeN total ns).1.map (fun p => (p.1.name, p.2))) with
  | none => rw [hf] at h; cases h
  | some p =>
    rw [hf] at h
    simp only [Option.map_some, Option.some.injEq] at h
    have hm := List.mem_of_find?_eq_some hf
    have hp := List.find?_some hf
    obtain ⟨q, hq, rfl⟩ := List.mem_map.mp hm
    exact ⟨q, hq, by simpa using hp, h⟩

/-- at every level the path's node gets a runtime between the smaller and the larger of its request
    and its (effective) minimum. -/
theorem level_runtime_bounds (total : Int) (ns : List Node) (name : Nat) (rt : Int)
    (h : levelRuntime total ns name = some rt) :
    ∃ n ∈ ns, n.name = name ∧ min n.request (effMin n) ≤ rt ∧ rt ≤ max n.request (effMin n) := by
  obtain ⟨q, hq, hn, hrt⟩ := levelRuntime_mem total ns name rt h
  have hb := runtime_bounds total ns q hq
  have hmem : q.1 ∈ ns := (nodes_preserved total ns).mem_iff.mp (List.mem_map.mpr ⟨q, hq, rfl⟩)
  exact ⟨q.1, hmem, hn, by rw [← hrt]; exact hb.1, by rw [← hrt]; exact hb.2⟩

def NonNegNodes (ns : List Node) : Prop := ∀ n ∈ ns, 0 ≤ n.request ∧ 0 ≤ n.min ∧ 0 ≤ n.guarantee

theorem runtimeSum_ge_mem (ps : List (Node × Int)) (hnn : ∀ p ∈ ps, 0 ≤ p.2) (q : Node × Int) (hq : q ∈ ps) :
    q.2 ≤ runtimeSum ps := by
  induction ps with
  | nil => cases hq
  | cons p ps ih =>
    have hp := hnn p (by simp)
    have hrest : 0 ≤ runtimeSum ps := by
      clear ih hq
      induction ps with
      | nil => simp [runtimeSum]
      | cons r rs ih2 =>
        have := hnn r (by simp)
        have := ih2 (fun x hx => hnn x (by
          rcases List.mem_cons.mp hx with rfl | hx'
          · simp
          · simp [hx']))
        simp only [runtimeSum, List.map_cons, List.sum_cons] at *; omega
    simp only [runtimeSum, List.map_cons, List.sum_cons] at *
    rcases List.mem_cons.mp hq with rfl | hq'
    · omega
    · have := ih (fun x hx => hnn x (by simp [hx])) hq'; omega

/-- when the siblings' minimums fit, no child gets more than its parent has. -/
theorem level_runtime_le_total (total : Int) (ns : List Node) (name : Nat) (rt : Int)
    (hw : WeightsOK ns) (hnn : NonNegNodes ns) (hfit : effMinSum ns ≤ total)
    (h : levelRuntime total ns name = some rt) : 0 ≤ rt ∧ rt ≤ total := by
  obtain ⟨q, hq, _, hrt⟩ := levelRuntime_mem total ns name rt h
  have hall : ∀ p ∈ (redistributeN total ns).1, 0 ≤ p.2 := by
    intro p hp
    have hb := runtime_bounds total ns p hp
    have hmem : p.1 ∈ ns := (nodes_preserved total ns).mem_iff.mp (List.mem_map.mpr ⟨p, hp, rfl⟩)
    have := hnn p.1 hmem
    have : 0 ≤ effMin p.1 := by unfold effMin; split <;> omega
    omega
  have h1 := runtimeSum_ge_mem _ hall q hq
  have h2 := sum_le_total total ns hw hfit
  rw [← hrt]
  exact ⟨hall q hq, by omega⟩

/-- the minimums fit at every level of the path, each level measured against the runtime handed down. -/
def PathFits : Int → List (List Node × Nat) → Prop
  | _, [] => True
  | total, (ns, name) :: rest =>
    WeightsOK ns ∧ NonNegNodes ns ∧ effMinSum ns ≤ total ∧
    ∀ rt, levelRuntime total ns name = some rt → PathFits rt rest

/-- along any path of a multi-level tree the runtime only shrinks: a descendant never gets more than
    any of its ancestors, nor more than the cluster total. -/
theorem refresh_path_le_total (total : Int) (levels : List (List Node × Nat)) (r : Int)
    (h0 : 0 ≤ total) (hf : PathFits total levels) (h : refreshPath total levels = some r) :
    0 ≤ r ∧ r ≤ total := by
  induction levels generalizing total with
  | nil => simp [refreshPath] at h; omega
  | cons lv rest ih =>
    obtain ⟨ns, name⟩ := lv
    unfold refreshPath at h
    obtain ⟨hw, hnn, hfit, hrest⟩ := hf
    cases hl : levelRuntime total ns name with
    | none => rw [hl] at h; cases h
    | some rt =>
      rw [hl] at h
      have hb := level_runtime_le_total total ns name rt hw hnn hfit hl
      have := ih rt hb.1 (hrest rt hl) h
      omega

/-- and the leaf of the path is bounded by its own request / minimum. -/
theorem refresh_path_bounds (total : Int) (pre : List (List Node × Nat)) (ns : List Node) (name : Nat) (r : Int)
    (h : refreshPath total (pre ++ [(ns, name)]) = some r) :
    ∃ n ∈ ns, n.name = name ∧ min n.request (effMin n) ≤ r ∧ r ≤ max n.request (effMin n) := by
  induction pre generalizing total with
  | nil =>
    simp only [List.nil_append, refreshPath] at h
    cases hl : levelRuntime total ns name with
    | none => rw [hl] at h; cases h
    | some rt =>
      rw [hl] at h
      simp only [refreshPath, Option.some.injEq] at h
      subst h
      exact level_runtime_bounds total ns name rt hl
  | cons lv rest ih =>
    obtain ⟨ms, nm⟩ := lv
    simp only [List.cons_append, refreshPath] at h
    cases hl : levelRuntime total ms nm with
    | none => rw [hl] at h; cases h
    | some rt => rw [hl] at h; exact ih rt h

/-! ### 5c. minimums are scaled down only when they do not fit, and then they fit again -/

inductive SMOp where
  | upd (n : Nat) (min : Int) (enable : Bool)
  | rem (n : Nat)
deriving Repr

def SMOp.ok : SMOp → Prop
  | .upd _ min _ => 0 ≤ min
  | .rem _ => True

def SM.step (s : SM) : SMOp → SM
  | .upd n min e => s.update n min e
  | .rem n => s.remove n

/-- over ANY history of update/remove calls (non-negative minimums) the two recorded sums are exactly
    the sums of the minimums of the children currently recorded, scalable and non-scalable; the
    non-negative clamps never absorb anything. -/
theorem scale_sums_exact (ops : List SMOp) (hok : ∀ op ∈ ops, op.ok) :
    (ops.foldl SM.step SM.init).Inv := by
  have gen : ∀ (s : SM), s.Inv → (ops.foldl SM.step s).Inv := by
    induction ops with
    | nil => intro s hs; exact hs
    | cons op ops ih =>
      intro s hs
      simp only [List.foldl_cons]
      apply ih (fun o ho => hok o (by simp [ho]))
      cases op with
      | upd n min e =>
        have h0 : (SMOp.upd n min e).ok := hok (SMOp.upd n min e) (by simp)
        exact update_inv s hs n min e h0
      | rem n => exact remove_inv s hs n
  exact gen _ init_inv

/-- when the children's minimums fit into the total, a scalable child keeps its declared minimum. -/
theorem scaled_fits_unchanged (share : Int → Int → Int → Int) (s : SM) (total : Int) (n : Nat) (c : SMChild)
    (hc : smFind s.children n = some c) (hk : s.known = true) (he : c.enable = true)
    (hfit : s.disableSum + s.enableSum ≤ total) : s.scaled share total n = some c.min := by
  unfold SM.scaled
  rw [hc]
  have : ¬ total < s.disableSum + s.enableSum := by omega
  simp [hk, he, this]

/-- a child that is not scalable (or not recorded) is never scaled. -/
theorem scaled_none_unless_scalable (share : Int → Int → Int → Int) (s : SM) (total : Int) (n : Nat) :
    (smFind s.children n = none ∨ ∃ c, smFind s.children n = some c ∧ c.enable = false) →
    s.scaled share total n = none := by
  intro h
  unfold SM.scaled
  rcases h with h | ⟨c, hc, he⟩
  · rw [h]
  · rw [hc]; simp [he]

theorem floor_sum_le (E : Int) (hE : 0 < E) (xs : List Int) :
    (xs.map (· / E)).sum ≤ xs.sum / E := by
  induction xs with
  | nil => simp
  | cons x xs ih =>
    simp only [List.map_cons, List.sum_cons]
    apply Int.le_ediv_of_mul_le hE
    have h1 := Int.ediv_mul_le x (show E ≠ 0 by omega)
    have h2 := Int.ediv_mul_le xs.sum (show E ≠ 0 by omega)
    have h3 : (xs.map (· / E)).sum * E ≤ xs.sum / E * E := Int.mul_le_mul_of_nonneg_right ih (by omega)
    rw [Int.add_mul]
    omega

/-- with exact arithmetic the scaled minimums of all scalable children together fit into what is left after
    the non-scalable minimums, and no minimum is scaled up. -/
theorem scaled_shares_fit (cs : List SMChild) (avail : Int) (havail : 0 ≤ avail)
    (hnn : ∀ c ∈ cs, 0 ≤ c.min) (hE : 0 < eSum cs) :
    ((cs.filter (·.enable)).map (fun c => exactShare avail c.min (eSum cs))).sum ≤ avail ∧
    (avail ≤ eSum cs → ∀ c ∈ cs, exactShare avail c.min (eSum cs) ≤ c.min) := by
  constructor
  · have hmap : ((cs.filter (·.enable)).map (fun c => exactShare avail c.min (eSum cs))) =
        ((cs.filter (·.enable)).map (fun c => avail * c.min)).map (· / eSum cs) := by
      rw [List.map_map]; rfl
    rw [hmap]
    refine Int.le_trans (floor_sum_le (eSum cs) hE _) ?_
    have hsum : ((cs.filter (·.enable)).map (fun c => avail * c.min)).sum = avail * eSum cs := by
      clear hmap hE hnn
      induction cs with
      | nil => simp [eSum]
      | cons c cs ih =>
        cases hce : c.enable
        · simp only [List.filter_cons, hce, Bool.false_eq_true, if_false, eSum, List.map_cons, List.sum_cons]
          simp only [eSum] at ih; rw [ih]; simp
        · simp only [List.filter_cons, hce, if_true, eSum, List.map_cons, List.sum_cons]
          simp only [eSum] at ih; rw [ih, Int.mul_add]
    rw [hsum, Int.mul_ediv_cancel _ (show eSum cs ≠ 0 by omega)]
    exact Int.le_refl _
  · intro hle c hc
    unfold exactShare
    apply Int.ediv_le_of_le_mul hE
    have := hnn c hc
    calc avail * c.min ≤ eSum cs * c.min := Int.mul_le_mul_of_nonneg_right hle this
      _ = c.min * eSum cs := Int.mul_comm _ _

/-! ### 6. the version-stamped cache never serves a stale runtime -/

/-- cache invariant: an entry stamped with the current version holds the from-scratch value. -/
def Calc.Fresh (c : Calc) : Prop :=
  ∀ name v rt, cacheGet name c.cache = some (v, rt) →
    v ≤ c.version ∧ (v = c.version → rt = (lookupRt name (redistribute c.total c.nodes)).getD 0)

theorem cacheGet_put_same (name : Nat) (v : Nat × Int) (c : List (Nat × Nat × Int)) :
    cacheGet name (cachePut name v c) = some v := by
  simp [cacheGet, cachePut]

theorem cacheGet_put_other (name other : Nat) (v : Nat × Int) (c : List (Nat × Nat × Int)) (h : other ≠ name) :
    cacheGet other (cachePut name v c) = cacheGet other c := by
  have : ¬ name = other := fun e => h e.symm
  simp [cacheGet, cachePut, this]

theorem recompute_fresh (c : Calc) (nm : Nat) (h : c.Fresh) : (c.recompute nm).Fresh := by
  intro name v rt hget
  unfold Calc.recompute at hget ⊢
  simp only at hget ⊢
  by_cases hn : name = nm
  · subst hn
    rw [cacheGet_put_same] at hget
    cases hget
    exact ⟨Nat.le_refl _, fun _ => rfl⟩
  · rw [cacheGet_put_other nm name _ _ hn] at hget
    exact h name v rt hget

theorem step_preserves_fresh (c : Calc) (op : CalcOp) (h : c.Fresh) : (c.step op).Fresh := by
  cases op with
  | setTotal t =>
    intro name v rt hget
    have := h name v rt hget
    simp only [Calc.step] at *
    exact ⟨by omega, fun hv => by omega⟩
  | upsert n =>
    intro name v rt hget
    have := h name v rt hget
    simp only [Calc.step] at *
    exact ⟨by omega, fun hv => by omega⟩
  | erase nm =>
    intro name v rt hget
    have := h name v rt hget
    simp only [Calc.step] at *
    exact ⟨by omega, fun hv => by omega⟩
  | refresh nm =>
    simp only [Calc.step]
    split
    · split
      · exact h
      · exact recompute_fresh c nm h
    · exact recompute_fresh c nm h

/-- after any history of mutations and refreshes, a refresh of `name` leaves in the cache exactly the
    runtime computed from scratch from the calculator's current inputs, stamped with the current
    version: a stale value is never served. -/
theorem refresh_fresh (c0 : Calc) (h0 : c0.Fresh) (ops : List CalcOp) (name : Nat) :
    let c := (ops.foldl Calc.step c0).step (.refresh name)
    ∃ v rt, cacheGet name c.cache = some (v, rt) ∧ v = c.version ∧
      rt = (lookupRt name (redistribute c.total c.nodes)).getD 0 := by
  have hf : (ops.foldl Calc.step c0).Fresh := by
    induction ops generalizing c0 with
    | nil => exact h0
    | cons op ops ih => exact ih (c0.step op) (step_preserves_fresh c0 op h0)
  generalize ops.foldl Calc.step c0 = c1 at hf
  intro c
  have hfc : c.Fresh := step_preserves_fresh c1 (.refresh name) hf
  have hex : ∃ v rt, cacheGet name c.cache = some (v, rt) ∧ v = c.version := by
    show ∃ v rt, cacheGet name (c1.step (.refresh name)).cache = some (v, rt) ∧ v = (c1.step (.refresh name)).version
    simp only [Calc.step]
    split
    · rename_i v rt hg
      split
      · rename_i hv
        exact ⟨v, rt, hg, hv⟩
      · exact ⟨_, _, cacheGet_put_same _ _ _, rfl⟩
    · exact ⟨_, _, cacheGet_put_same _ _ _, rfl⟩
  obtain ⟨v, rt, hg, hv⟩ := hex
  exact ⟨v, rt, hg, hv, (hfc name v rt hg).2 hv⟩

/-! ### 4b. zero weights get nothing beyond the minimum (whole division, not only one round) -/

/-- a sibling whose shared weight is not positive ends with exactly its phase-1 runtime: its effective
    minimum when it asks for more, else what the lend rule gives — whatever the total and the siblings. -/
theorem zero_weight_gets_nothing_beyond_min (total : Int) (ns : List Node) :
    ∀ q ∈ (redistributeN total ns).1, q.1.weight ≤ 0 → q.2 = initRuntime q.1 := by
  have hall : ∀ q ∈ initAll ns, q.2 = initRuntime q.1 := fun q hq => (mem_initAll ns q hq).2
  have hadj : ∀ p ∈ (initAll ns).filter (fun p => needAdjust p.1), p.2 < p.1.request :=
    fun p hp => (adj_inv ns p hp).2
  unfold redistributeN
  simp only []
  split
  · intro q hq hw
    rcases List.mem_append.mp hq with h | h
    · exact hall q (List.mem_filter.mp h).1
    · have := iter_zero_weight_unchanged _ _ _ _ hadj q h hw
      exact hall q (List.mem_filter.mp this).1
  · intro q hq _
    rcases List.mem_append.mp hq with h | h
    · exact hall q (List.mem_filter.mp h).1
    · exact hall q (List.mem_filter.mp h).1

theorem zero_weight_hungry_gets_min (total : Int) (ns : List Node) :
    ∀ q ∈ (redistributeN total ns).1, q.1.weight ≤ 0 → effMin q.1 < q.1.request → q.2 = effMin q.1 := by
  intro q hq hw hr
  rw [zero_weight_gets_nothing_beyond_min total ns q hq hw]
  unfold initRuntime
  simp [hr]

/-! ### 7. the glue: what is DECLARED on the ElasticQuota object is what the division works on -/

/-- declared list entries are non-negative (the webhook rejects negative max / min / shared weight). -/
def QDecl.NonNeg (q : QDecl) : Prop :=
  (∀ p ∈ q.max, 0 ≤ p.2) ∧ (∀ p ∈ q.min, 0 ≤ p.2) ∧ (∀ l, q.ann = .parsed l → ∀ p ∈ l, 0 ≤ p.2)

/-- a dimension the annotation names with weight 0 keeps weight 0 — it is NOT replaced by max — as soon
    as the annotation is not all-zero. -/
theorem weight_zero_dimension_kept (l max : RL) (d : Nat) (hz : rlIsZero l = false) (h0 : rlFind l d = some 0) :
    sharedWeight (.parsed l) max d = 0 := by
  rw [sharedWeight_parsed_nonzero l max d hz]; exact rlGet_of_find_some l d 0 h0

/-- a dimension a valid, not all-zero annotation does not name has weight 0. -/
theorem weight_missing_dimension_is_zero (l max : RL) (d : Nat) (hz : rlIsZero l = false) (h0 : rlFind l d = none) :
    sharedWeight (.parsed l) max d = 0 := by
  rw [sharedWeight_parsed_nonzero l max d hz]; exact rlGet_of_find_none l d h0

/-- every other non-zero annotation entry is taken as it is. -/
theorem weight_is_annotation (l max : RL) (d : Nat) (v : Int) (hz : rlIsZero l = false) (h0 : rlFind l d = some v) :
    sharedWeight (.parsed l) max d = v := by
  rw [sharedWeight_parsed_nonzero l max d hz]; exact rlGet_of_find_some l d v h0

/-- no annotation, an annotation that does not parse, `{}` and an all-zero annotation: spec.max in every
    dimension (0 where max does not name the dimension). -/
theorem weight_default_is_max (a : Ann) (max : RL) (d : Nat)
    (h : a = .absent ∨ a = .invalid ∨ ∃ l, a = .parsed l ∧ rlIsZero l = true) :
    sharedWeight a max d = rlGet max d := sharedWeight_default a max d h

/-- lend label: absent and "true" lend, "false" does not; guaranteed-usage mode never lends. -/
theorem allow_lent_default : allowLent false 0 = true ∧ allowLent false 1 = true ∧ allowLent false 2 = false ∧
    ∀ l, allowLent true l = false := by
  refine ⟨by decide, by decide, by decide, ?_⟩
  intro l; simp [allowLent]

/-- a key missing from spec.min (or a nil spec.min) is a minimum of 0. -/
theorem declared_min_missing_key_is_zero (q : QDecl) (d : Nat) (h : rlFind q.min d = none) : rlGet q.min d = 0 :=
  rlGet_of_find_none q.min d h

/-- the request handed to the parent: never above a declared max; a quota that does not lend asks at
    least for its declared min (unless max caps it); a lending quota asks for what its children ask. -/
theorem declared_request_rules (gate : Bool) (q : QDecl) (d : Nat) :
    (∀ m, rlFind q.max d = some m → limitedRequest gate q d ≤ m) ∧
    (rlFind q.max d = none → allowLent gate q.label = false → rlGet q.min d ≤ limitedRequest gate q d) ∧
    (rlFind q.max d = none → allowLent gate q.label = true → limitedRequest gate q d = q.childReq) := by
  refine ⟨fun m h => limitedRequest_le_max gate q d m h, ?_, ?_⟩
  · intro h hl; rw [limitedRequest_uncapped gate q d h]; exact (declRequest_nolend_ge_min gate q d hl).1
  · intro h hl; rw [limitedRequest_uncapped gate q d h]; exact declRequest_lend gate q d hl

/-- guarantee: nothing unless guaranteed-usage mode is on; then at least the declared min and at least
    what is allocated below. -/
theorem declared_guarantee_rules (q : QDecl) (d : Nat) :
    guaranteeOf false q d = 0 ∧ rlGet q.min d ≤ guaranteeOf true q d ∧ q.alloc ≤ guaranteeOf true q d :=
  ⟨guaranteeOf_off q d, (guaranteeOf_on q d).1, (guaranteeOf_on q d).2⟩

/-- the nodes derived from non-negative declarations satisfy the one hypothesis of the division theorems,
    so every theorem above holds for runtimes computed straight from the declared objects. -/
theorem glue_weights_ok (share : Int → Int → Int → Int) (gate scale : Bool) (total : Int) (d : Nat) (qs : List QDecl)
    (h : ∀ q ∈ qs, q.NonNeg) : WeightsOK (glueNodes share gate scale total d qs) := by
  intro n hn
  unfold glueNodes at hn
  obtain ⟨q, hq, rfl⟩ := List.mem_map.mp hn
  have := h q hq
  exact sharedWeight_nonneg q.ann q.max d this.1 this.2.2

/-- end to end: a quota whose (valid, not all-zero) annotation gives dimension `d` weight 0 — by naming it
    with 0 or by not naming it — gets nothing beyond its phase-1 runtime in that dimension. -/
theorem glue_zero_weight_no_share (share : Int → Int → Int → Int) (gate scale : Bool) (total : Int) (d : Nat)
    (qs : List QDecl) (q : QDecl) (l : RL) (ha : q.ann = .parsed l) (hz : rlIsZero l = false) (h0 : rlGet l d = 0) :
    ∀ p ∈ (redistributeN total (glueNodes share gate scale total d qs)).1,
      p.1 = glueNode share gate scale total d qs q → p.2 = initRuntime p.1 := by
  intro p hp he
  apply zero_weight_gets_nothing_beyond_min total _ p hp
  rw [he]
  show sharedWeight q.ann q.max d ≤ 0
  rw [ha, sharedWeight_parsed_nonzero l q.max d hz, h0]
  exact Int.le_refl 0

/-! ### 8. the calculator's mutators visit every tracked dimension -/

/-- `updateOneGroupMinQuota` writes `newMin.Name(resKey)` into EVERY tracked dimension: a key that was
    removed from the new min (or a dropped min) resets that dimension's node minimum to 0. -/
theorem update_min_removed_key_resets (c : CalcD) (name : Nat) (newMin : RL) (d : Nat)
    (hd : c.keys.contains d = true) (hrm : rlFind newMin d = none) :
    ∀ n ∈ (c.updateMin name newMin).trees d, n.name = name → n.min = 0 := by
  intro n hn hname
  obtain ⟨n0, _, rfl⟩ := calcD_update_mem setMin c name newMin d hd n hn
  by_cases h : n0.name = name
  · simp [h, setMin, rlGet_of_find_none newMin d hrm]
  · simp [h] at hname

/-- in general the node's minimum becomes the new list's entry, other nodes and other fields stay. -/
theorem update_min_sets_every_tracked_dimension (c : CalcD) (name : Nat) (newMin : RL) (d : Nat)
    (hd : c.keys.contains d = true) :
    ∀ n ∈ (c.updateMin name newMin).trees d,
      (n.name = name → n.min = rlGet newMin d) ∧ (n.name ≠ name → n ∈ c.trees d) := by
  intro n hn
  obtain ⟨n0, h0, rfl⟩ := calcD_update_mem setMin c name newMin d hd n hn
  by_cases h : n0.name = name
  · simp [h, setMin]
  · simp [h, h0]

/-- same loop, same domain for the shared weight. -/
theorem update_weight_sets_every_tracked_dimension (c : CalcD) (name : Nat) (w : RL) (d : Nat)
    (hd : c.keys.contains d = true) :
    ∀ n ∈ (c.updateWeight name w).trees d, n.name = name → n.weight = rlGet w d := by
  intro n hn hname
  obtain ⟨n0, _, rfl⟩ := calcD_update_mem setWeight c name w d hd n hn
  by_cases h : n0.name = name
  · simp [h, setWeight]
  · simp [h] at hname

/-- a min change of a quota also refreshes the request its node carries (a quota that does not lend asks for
    max(children, min)): after `doUpdateOneGroupMinQuotaNoLock` both inputs of the division are the current ones
    in every tracked dimension. -/
theorem min_change_refreshes_request (c : CalcD) (name : Nat) (newMin newLimitReq : RL) (d : Nat)
    (hd : c.keys.contains d = true) :
    ∀ n ∈ (c.minQuotaChanged name newMin newLimitReq).trees d, n.name = name →
      n.min = rlGet newMin d ∧ n.request = rlGet newLimitReq d := by
  intro n hn hname
  have hd' : (c.updateMin name newMin).keys.contains d = true := hd
  obtain ⟨n1, h1, rfl⟩ := calcD_update_mem setRequest (c.updateMin name newMin) name newLimitReq d hd' n hn
  have hm := update_min_sets_every_tracked_dimension c name newMin d hd n1 h1
  by_cases h : n1.name = name
  · simp only [h, if_true]
    exact ⟨by simpa [setRequest] using hm.1 h, by simp [setRequest]⟩
  · simp [h] at hname

/-- the trees are a function of the LAST declared list only: an earlier update of the same quota leaves
    no trace (no history dependence through the min / weight glue). -/
theorem update_min_last_wins (c : CalcD) (name : Nat) (l1 l2 : RL) (d : Nat) :
    ((c.updateMin name l1).updateMin name l2).trees d = (c.updateMin name l2).trees d :=
  calcD_update_last_wins setMin (fun _ _ => rfl) (fun _ _ _ => rfl) c name l1 l2 d

theorem update_weight_last_wins (c : CalcD) (name : Nat) (l1 l2 : RL) (d : Nat) :
    ((c.updateWeight name l1).updateWeight name l2).trees d = (c.updateWeight name l2).trees d :=
  calcD_update_last_wins setWeight (fun _ _ => rfl) (fun _ _ _ => rfl) c name l1 l2 d

/-! non-vacuity of the new material -/

example : sharedWeight (.parsed [(0, 0), (1, 5)]) [(0, 100000), (1, 7)] 0 = 0 := by decide
example : sharedWeight (.parsed [(0, 0), (1, 0)]) [(0, 100000), (1, 7)] 0 = 100000 := by decide
example : sharedWeight .invalid [(0, 100000), (1, 7)] 2 = 0 := by decide

/-- quota a declares cpu weight 0, b declares 100; both ask for 100 cpu of a total of 100: 0 / 100. -/
example : glueRun exactShare false false 100000 0
    [⟨1, 0, 100000, 0, [(0, 100000), (1, 100)], [], .parsed [(0, 0), (1, 100)]⟩,
     ⟨2, 0, 100000, 0, [(0, 100000), (1, 100)], [], .parsed [(0, 100000), (1, 100)]⟩] = [(2, 100000), (1, 0)] := by decide

/-- min {cpu 20, mem 20} → {cpu 20}: the memory tree's node goes back to 0. -/
example : ((⟨[0, 1], fun _ => [⟨1, 1, 100, 20, 0, true⟩]⟩ : CalcD).updateMin 1 [(0, 20)]).trees 1
    = [⟨1, 1, 100, 0, 0, true⟩] := by decide

/-! ### non-vacuity -/

example : WeightsOK [⟨1, 3, 700, 100, 0, true⟩, ⟨2, 1, 350, 200, 0, false⟩, ⟨3, 0, 900, 250, 0, true⟩] := by
  intro n hn; simp at hn; rcases hn with rfl | rfl | rfl <;> simp

example : redistribute 950 [⟨1, 3, 700, 100, 0, true⟩, ⟨2, 1, 350, 200, 0, false⟩, ⟨3, 0, 900, 250, 0, true⟩]
    = [(1, 400), (2, 300), (3, 250)] := by decide

example : NamesNodup [⟨1, 3, 700, 100, 0, true⟩, ⟨2, 1, 350, 200, 0, false⟩, ⟨3, 0, 900, 250, 0, true⟩] := by
  simp [NamesNodup]

example : ((SM.init.update 1 50 true).update 2 50 true |>.update 3 20 false).scaled exactShare 100 1 = some 40 := by decide

example : (⟨1, 0, [], []⟩ : Calc).Fresh := by intro name v rt h; simp [cacheGet] at h

/-! ### 9. the cluster total is the from-scratch sum over the CURRENT node set, after ANY history of node events -/

/-- main statement (all histories an informer can deliver): in every resource name, the manager's cluster total
    reads the sum of that name over the nodes that currently exist — a name one node no longer lists counts 0 for
    that node. -/
theorem total_eq_sum_of_current_nodes (evs : List NEv) (h : coherentHist [] evs = true) (d : Nat) :
    rlGet (NS.run rlSub {} evs).total d = stSum (evs.foldl stStep []) d :=
  (ninv_run rlSub fullSub_rlSub evs {} [] ninv_init h).total d

/-- … and so does the total the ROOT calculator divides (what RefreshRuntime of a top-level quota sees). -/
theorem root_total_eq_sum_of_current_nodes (evs : List NEv) (h : coherentHist [] evs = true) (d : Nat) :
    rlGet (NS.run rlSub {} evs).pushed d = stSum (evs.foldl stStep []) d := by
  have hi := ninv_run rlSub fullSub_rlSub evs {} [] ninv_init h
  rw [hi.pushed d, hi.total d]

/-- the manager's set of known nodes is the current node set. -/
theorem known_nodes_eq_current_nodes (evs : List NEv) (h : coherentHist [] evs = true) :
    (NS.run rlSub {} evs).known = (evs.foldl stStep []).map Prod.fst :=
  (ninv_run rlSub fullSub_rlSub evs {} [] ninv_init h).known

/-- the same from any state that is already right, and for ANY way of building the update delta that reads
    new − old in every resource name (a refactoring of the subtraction keeps the theorem). -/
theorem total_eq_sum_any_full_subtract (sub : RL → RL → RL) (hsub : FullSub sub) (s : NS) (st : Store)
    (hi : NInv s st) (evs : List NEv) (h : coherentHist st evs = true) (d : Nat) :
    rlGet (NS.run sub s evs).total d = stSum (evs.foldl stStep st) d ∧
    rlGet (NS.run sub s evs).pushed d = stSum (evs.foldl stStep st) d := by
  have hi' := ninv_run sub hsub evs s st hi h
  exact ⟨hi'.total d, by rw [hi'.pushed d, hi'.total d]⟩

/-- a resource name that VANISHES from a node's allocatable is subtracted in full. -/
theorem vanished_key_is_subtracted (new old : RL) (d : Nat) (h : rlFind new d = none) :
    rlGet (rlSub new old) d = - rlGet old d := by
  rw [rlGet_sub]; simp [rlGet, h]

/-- a delta built from the NEW allocatable's keys only is NOT enough: two nodes with 8 GPUs each, node 1 loses the
    gpu key — the total keeps 16 although the cluster has 8. -/
theorem new_keys_only_delta_counterexample :
    ¬ (∀ evs : List NEv, coherentHist [] evs = true → ∀ d,
        rlGet (NS.run rlSubNewKeysOnly {} evs).total d = stSum (evs.foldl stStep []) d) := by
  intro h
  have := h [.add 1 [(0, 4000), (2, 8)], .add 2 [(0, 4000), (2, 8)], .update 1 [(0, 4000), (2, 8)] [(0, 4000)]]
    (by decide) 2
  revert this
  decide

/-- … it differs from the full subtraction only there: as long as every name of the old list is still named by
    the new one (value changes, a drop to an explicit 0, new names) both deltas read the same. -/
theorem new_keys_only_right_while_keys_stay (new old : RL) (hk : ∀ d, rlHas old d = true → rlHas new d = true)
    (d : Nat) : rlGet (rlSubNewKeysOnly new old) d = rlGet (rlSub new old) d := by
  rw [rlGet_subNewKeysOnly, rlGet_sub]
  cases hn : rlHas new d
  · have ho : rlHas old d = false := by
      cases ho : rlHas old d
      · rfl
      · rw [hk d ho] at hn; cases hn
    simp only [rlHas] at hn ho
    have h1 : rlFind new d = none := by cases h : rlFind new d <;> simp_all
    have h2 : rlFind old d = none := by cases h : rlFind old d <;> simp_all
    simp [rlGet, h1, h2]
  · simp

/-- end to end: after any history of node events, top-level siblings whose minimums fit into what the CURRENT
    nodes offer together never get more than that. -/
theorem siblings_le_sum_of_current_nodes (evs : List NEv) (h : coherentHist [] evs = true) (d : Nat)
    (ns : List Node) (hw : WeightsOK ns) (hfit : effMinSum ns ≤ stSum (evs.foldl stStep []) d) :
    runtimeSum (redistributeN (rlGet (NS.run rlSub {} evs).pushed d) ns).1 ≤ stSum (evs.foldl stStep []) d := by
  rw [root_total_eq_sum_of_current_nodes evs h d]
  exact sum_le_total _ ns hw hfit

/-- the hypothesis is satisfiable on a history with a vanishing name, a replayed add, an equal update, an update of
    an unknown node and a delete; the model ends with the sum over the two nodes left. -/
example :
    let evs : List NEv := [.add 1 [(0, 4000), (2, 8)], .add 2 [(0, 4000), (2, 8)], .add 1 [(0, 4000), (2, 8)],
      .update 1 [(0, 4000), (2, 8)] [(0, 4000)], .update 2 [(0, 4000), (2, 8)] [(2, 8), (0, 4000)],
      .update 3 [] [(2, 0)], .delete 9 [(0, 1)], .delete 3 [(2, 0)]]
    coherentHist [] evs = true ∧ rlGet (NS.run rlSub {} evs).total 2 = 8 ∧ rlGet (NS.run rlSub {} evs).total 0 = 8000 ∧
      (NS.run rlSub {} evs).known = [2, 1] := by decide

end KoordVerif.C02
