import KoordVerif.Proofs.C02Iter
import KoordVerif.Proofs.C02Perm
import KoordVerif.Proofs.C02Scale
/-
C02 — property theorems (DESIGN.md §4 C02).  `redistributeN total ns` is the model of
`quotaTree.redistribution(total)` over the sibling list `ns`: it returns every sibling with
its runtime quota, plus the amount that could not be handed out.  All statements are for
every sibling list, every total and every request/min/guarantee; the only hypothesis is that
shared weights are non-negative (the property says "shared weight incl. zero").
-/
namespace KoordVerif.C02

def WeightsOK (ns : List Node) : Prop := ∀ n ∈ ns, 0 ≤ n.weight

/-! ### shape of the initial phase -/

theorem initAll_partition_perm (ns : List Node) :
    ((initAll ns).filter (fun p => !needAdjust p.1) ++ (initAll ns).filter (fun p => needAdjust p.1)).Perm (initAll ns) := by
  have h := List.filter_append_perm (fun p : Node × Int => !needAdjust p.1) (initAll ns)
  simpa using h

theorem initAll_partition_sum (ns : List Node) :
    runtimeSum ((initAll ns).filter (fun p => !needAdjust p.1)) + runtimeSum ((initAll ns).filter (fun p => needAdjust p.1))
      = runtimeSum (initAll ns) := by
  generalize initAll ns = l
  induction l with
  | nil => simp [runtimeSum]
  | cons p l ih =>
    unfold runtimeSum at *
    by_cases h : needAdjust p.1
    · simp only [List.filter_cons, h, Bool.not_true, Bool.false_eq_true, if_false, if_true, List.map_cons, List.sum_cons] at *
      omega
    · simp only [List.filter_cons, h, Bool.not_false, Bool.false_eq_true, if_false, if_true, List.map_cons, List.sum_cons] at *
      omega

theorem mem_initAll (ns : List Node) (p : Node × Int) (h : p ∈ initAll ns) : p.1 ∈ ns ∧ p.2 = initRuntime p.1 := by
  unfold initAll at h
  obtain ⟨n, hn, rfl⟩ := List.mem_map.mp h
  exact ⟨hn, rfl⟩

theorem initAll_nodes (ns : List Node) : (initAll ns).map (·.1) = ns := by
  unfold initAll; rw [List.map_map]; simp [Function.comp_def]

/-- invariant handed to the iteration: nodes needing adjustment start at min' < request. -/
theorem adj_inv (ns : List Node) :
    ∀ p ∈ (initAll ns).filter (fun p => needAdjust p.1), effMin p.1 ≤ p.2 ∧ p.2 < p.1.request := by
  intro p hp
  have h := List.mem_filter.mp hp
  have h1 := (mem_initAll ns p h.1).2
  have h2 : p.1.request > effMin p.1 := by simpa [needAdjust] using h.2
  rw [h1]; unfold initRuntime; rw [if_pos h2]; omega

/-! ### 0. every sibling gets exactly one runtime quota -/

theorem nodes_preserved (total : Int) (ns : List Node) :
    ((redistributeN total ns).1.map (·.1)).Perm ns := by
  unfold redistributeN
  simp only []
  have hp := (initAll_partition_perm ns).map (·.1)
  rw [initAll_nodes] at hp
  split
  · simp only [List.map_append] at hp ⊢
    refine List.Perm.trans ?_ hp
    exact List.Perm.append_left _ (iter_nodes_perm _ _ _ _)
  · exact hp

/-! ### 1. min guaranteed, request-capped -/

theorem runtime_bounds (total : Int) (ns : List Node) :
    ∀ q ∈ (redistributeN total ns).1,
      min q.1.request (effMin q.1) ≤ q.2 ∧ q.2 ≤ max q.1.request (effMin q.1) := by
  have hrest : ∀ q ∈ (initAll ns).filter (fun p => !needAdjust p.1),
      min q.1.request (effMin q.1) ≤ q.2 ∧ q.2 ≤ max q.1.request (effMin q.1) := by
    intro q hq
    have h := List.mem_filter.mp hq
    have h1 := (mem_initAll ns q h.1).2
    have h2 : ¬ q.1.request > effMin q.1 := by simpa [needAdjust] using h.2
    rw [h1]; unfold initRuntime; simp only [h2, if_false]
    split <;> omega
  have hadj := adj_inv ns
  unfold redistributeN
  simp only []
  split
  · intro q hq
    rcases List.mem_append.mp hq with h | h
    · exact hrest q h
    · have := iter_bounds _ _ _ _ hadj q h; omega
  · intro q hq
    rcases List.mem_append.mp hq with h | h
    · exact hrest q h
    · have := hadj q h; omega

/-! ### 2. lend rule: a sibling asking for no more than its minimum -/

theorem lend_rule (total : Int) (ns : List Node) :
    ∀ q ∈ (redistributeN total ns).1, q.1.request ≤ effMin q.1 →
      q.2 = if q.1.lend then q.1.request else effMin q.1 := by
  have hrest : ∀ q ∈ (initAll ns).filter (fun p => !needAdjust p.1), q.1.request ≤ effMin q.1 →
      q.2 = if q.1.lend then q.1.request else effMin q.1 := by
    intro q hq hle
    have h := List.mem_filter.mp hq
    have h1 := (mem_initAll ns q h.1).2
    have h2 : ¬ q.1.request > effMin q.1 := by omega
    rw [h1]; unfold initRuntime; simp only [h2, if_false]
  have hadjn : ∀ n ∈ ((initAll ns).filter (fun p => needAdjust p.1)).map (·.1), effMin n < n.request := by
    intro n hn
    obtain ⟨p, hp, rfl⟩ := List.mem_map.mp hn
    have := adj_inv ns p hp; omega
  unfold redistributeN
  simp only []
  split
  · intro q hq hle
    rcases List.mem_append.mp hq with h | h
    · exact hrest q h hle
    · exfalso
      have hm : q.1 ∈ (iter _ _ _ _).1.map (·.1) := List.mem_map.mpr ⟨q, h, rfl⟩
      have := hadjn q.1 ((iter_nodes_perm _ _ _ _).mem_iff.mp hm)
      omega
  · intro q hq hle
    rcases List.mem_append.mp hq with h | h
    · exact hrest q h hle
    · exfalso
      have := hadjn q.1 (List.mem_map.mpr ⟨q, h, rfl⟩)
      omega

/-! ### 3. exactness: runtime quotas + leftover = total (no unit created or dropped) -/

theorem conservation (total : Int) (ns : List Node) (hw : WeightsOK ns) :
    runtimeSum (redistributeN total ns).1 + (redistributeN total ns).2 = total := by
  have hps := initAll_partition_sum ns
  have hwadj : ∀ p ∈ (initAll ns).filter (fun p => needAdjust p.1), 0 ≤ p.1.weight := by
    intro p hp
    exact hw p.1 (mem_initAll ns p (List.mem_filter.mp hp).1).1
  unfold redistributeN
  simp only []
  split
  · have := iter_conserve ((initAll ns).filter (fun p => needAdjust p.1)).length
      (total - runtimeSum (initAll ns)) _ _ hwadj rfl
    simp only [runtimeSum, List.map_append, List.sum_append] at *
    omega
  · simp only [runtimeSum, List.map_append, List.sum_append] at *
    omega

theorem initRuntime_le_effMin (n : Node) : initRuntime n ≤ effMin n := by
  unfold initRuntime; split
  · omega
  · split <;> omega

def effMinSum (ns : List Node) : Int := (ns.map effMin).sum

theorem initAll_sum_le (ns : List Node) : runtimeSum (initAll ns) ≤ effMinSum ns := by
  unfold initAll runtimeSum effMinSum
  induction ns with
  | nil => simp
  | cons n ns ih =>
    have := initRuntime_le_effMin n
    simp only [List.map_cons, List.sum_cons] at *
    omega

/-- whenever the minimums fit, the siblings together never get more than the parent has. -/
theorem sum_le_total (total : Int) (ns : List Node) (hw : WeightsOK ns) (hfit : effMinSum ns ≤ total) :
    runtimeSum (redistributeN total ns).1 ≤ total := by
  have hc := conservation total ns hw
  have hi := initAll_sum_le ns
  have hl : 0 ≤ (redistributeN total ns).2 := by
    unfold redistributeN
    simp only []
    split
    · apply iter_leftover_nonneg; omega
    · simp only []; omega
  omega

/-! ### 4. work conservation -/

/-- either nothing is left, or every sibling with a positive shared weight got at least its request. -/
theorem work_conserving (total : Int) (ns : List Node) (hw : WeightsOK ns) :
    (redistributeN total ns).2 ≤ 0 ∨
    ∀ q ∈ (redistributeN total ns).1, 0 < q.1.weight → q.1.request ≤ q.2 := by
  have hrest : ∀ q ∈ (initAll ns).filter (fun p => !needAdjust p.1), q.1.request ≤ q.2 := by
    intro q hq
    have h := List.mem_filter.mp hq
    have h1 := (mem_initAll ns q h.1).2
    have h2 : ¬ q.1.request > effMin q.1 := by simpa [needAdjust] using h.2
    rw [h1]; unfold initRuntime; simp only [h2, if_false]
    split <;> omega
  have hwadj : ∀ p ∈ (initAll ns).filter (fun p => needAdjust p.1), 0 ≤ p.1.weight := by
    intro p hp
    exact hw p.1 (mem_initAll ns p (List.mem_filter.mp hp).1).1
  unfold redistributeN
  simp only []
  split
  · have := iter_work_conserving ((initAll ns).filter (fun p => needAdjust p.1)).length
      (total - runtimeSum (initAll ns)) _ _ (Nat.le_refl _) hwadj rfl
    rcases this with h | h
    · left; exact h
    · right
      intro q hq hq0
      rcases List.mem_append.mp hq with h' | h'
      · exact hrest q h'
      · have := h q h' hq0; omega
  · left; simp only []; omega

/-- siblings with zero weight never get anything beyond their (effective) minimum. -/
theorem hamilton_zero_weight (T W : Int) (ns : List Node) (hT : 0 < T) (hW : 0 < W) :
    ∀ n ∈ ns, n.weight ≤ 0 → baseOf T W n = 0 := by
  intro n _ h; simp [baseOf, h]

/-! ### 5. the largest-remainder split is exact -/

theorem hamilton_exact (T W : Int) (hT : 0 < T) (hW : 0 < W) (ns : List Node)
    (hw : WeightsOK ns) (hsum : (ns.map (·.weight)).sum = W) :
    (hamilton T W ns).sum = T ∧ (hamilton T W ns).length = ns.length ∧ ∀ d ∈ hamilton T W ns, 0 ≤ d :=
  ⟨hamilton_sum T W hT hW ns hw hsum, hamilton_length T W ns, hamilton_nonneg T W ns⟩

/-- proportional to the shared weights, exact in integers: every sibling's share of one round is the
    floor of its exact proportional share, or that plus one unit; a sibling with no positive weight gets 0. -/
theorem hamilton_proportional (T W : Int) (hT : 0 < T) (hW : 0 < W) (ns : List Node) (hne : ns ≠ [])
    (j : Nat) (hj : j < ns.length) :
    let δ := (hamilton T W ns)[j]'(by rw [hamilton_length]; exact hj)
    (0 < ns[j].weight → W * δ ≤ ns[j].weight * T + W ∧ ns[j].weight * T < W * δ + W) ∧
    (ns[j].weight ≤ 0 → δ = 0) := by
  intro δ
  constructor
  · intro hw
    have hf := hamilton_fair T W hT hW ns hne j hj
    have hb : baseOf T W ns[j] = ns[j].weight * T / W := by
      have : ¬ ns[j].weight ≤ 0 := by omega
      simp [baseOf, this]
    rw [hb] at hf
    have h1 := Int.mul_ediv_add_emod (ns[j].weight * T) W
    have h2 := Int.emod_nonneg (ns[j].weight * T) (show W ≠ 0 by omega)
    have h3 := Int.emod_lt_of_pos (ns[j].weight * T) hW
    generalize ns[j].weight * T / W = q at *
    generalize ns[j].weight * T % W = r at *
    generalize ns[j].weight * T = x at *
    have hδ : q ≤ δ ∧ δ ≤ q + 1 := hf
    have e1 : W * δ ≤ W * (q + 1) := Int.mul_le_mul_of_nonneg_left hδ.2 (by omega)
    have e2 : W * q ≤ W * δ := Int.mul_le_mul_of_nonneg_left hδ.1 (by omega)
    rw [Int.mul_add] at e1
    constructor <;> omega
  · intro hw
    exact hamilton_zero_weight_delta T W ns j hj hw

/-- side condition of `bits.Div64(hi, lo, W)`: `hi < W`, i.e. the quotient fits in 64 bits. -/
theorem div64_no_panic (w T W : Nat) (hw : w ≤ W) (hW : 0 < W) (hT : T < 2 ^ 64) :
    (w * T) / 2 ^ 64 < W := by
  apply Nat.div_lt_of_lt_mul
  calc w * T ≤ W * T := Nat.mul_le_mul_right T hw
    _ < W * 2 ^ 64 := Nat.mul_lt_mul_of_pos_left hT hW
    _ = 2 ^ 64 * W := Nat.mul_comm _ _

/-! ### 5b. the division does not depend on iteration order -/

/-- Go ranges over a map: the siblings arrive in an arbitrary order.  For sibling names that are
    pairwise distinct, any two orders give every sibling the same runtime quota (the results are
    permutations of each other as lists of (sibling, runtime)) and leave the same amount over. -/
theorem order_independent (total : Int) (ns₁ ns₂ : List Node) (h : ns₁.Perm ns₂) (hnd : NamesNodup ns₁) :
    (redistributeN total ns₁).1.Perm (redistributeN total ns₂).1 ∧
    (redistributeN total ns₁).2 = (redistributeN total ns₂).2 :=
  redistributeN_perm total h hnd

/-- consequence: a (sibling, runtime) pair is produced by one order iff it is produced by the other. -/
theorem order_independent_mem (total : Int) (ns₁ ns₂ : List Node) (h : ns₁.Perm ns₂) (hnd : NamesNodup ns₁)
    (q : Node × Int) : q ∈ (redistributeN total ns₁).1 ↔ q ∈ (redistributeN total ns₂).1 :=
  (order_independent total ns₁ ns₂ h hnd).1.mem_iff

/-! ### 5d. the bounds lift to multi-level trees (top-down refresh along a path) -/

theorem levelRuntime_mem (total : Int) (ns : List Node) (name : Nat) (rt : Int)
    (h : levelRuntime total ns name = some rt) :
    ∃ q ∈ (redistributeN total ns).1, q.1.name = name ∧ q.2 = rt := by
  unfold levelRuntime lookupRt redistribute at h
  cases hf : List.find? (fun p => p.1 == name) ((redistributeN total ns).1.map (fun p => (p.1.name, p.2))) with
  | none => rw [hf] at h; cases h
  | some p =>
    rw [hf] at h
    simp only [Option.map_some, Option.some.injEq] at h
    have hm := List.mem_of_find?_eq_some hf
    have hp := List.find?_some hf
    obtain ⟨q, hq, rfl⟩ := List.mem_map.mp hm
    exact ⟨q, hq, by simpa using hp, h⟩

/-- at every level the path's node gets a runtime between the smaller and the larger of its request
    and its (effective) minimum. -/
theorem level_runtime_bounds (total : Int) (ns : List Node) (name : Nat) (rt : Int)
    (h : levelRuntime total ns name = some rt) :
    ∃ n ∈ ns, n.name = name ∧ min n.request (effMin n) ≤ rt ∧ rt ≤ max n.request (effMin n) := by
  obtain ⟨q, hq, hn, hrt⟩ := levelRuntime_mem total ns name rt h
  have hb := runtime_bounds total ns q hq
  have hmem : q.1 ∈ ns := (nodes_preserved total ns).mem_iff.mp (List.mem_map.mpr ⟨q, hq, rfl⟩)
  exact ⟨q.1, hmem, hn, by rw [← hrt]; exact hb.1, by rw [← hrt]; exact hb.2⟩

def NonNegNodes (ns : List Node) : Prop := ∀ n ∈ ns, 0 ≤ n.request ∧ 0 ≤ n.min ∧ 0 ≤ n.guarantee

theorem runtimeSum_ge_mem (ps : List (Node × Int)) (hnn : ∀ p ∈ ps, 0 ≤ p.2) (q : Node × Int) (hq : q ∈ ps) :
    q.2 ≤ runtimeSum ps := by
  induction ps with
  | nil => cases hq
  | cons p ps ih =>
    have hp := hnn p (by simp)
    have hrest : 0 ≤ runtimeSum ps := by
      clear ih hq
      induction ps with
      | nil => simp [runtimeSum]
      | cons r rs ih2 =>
        have := hnn r (by simp)
        have := ih2 (fun x hx => hnn x (by
          rcases List.mem_cons.mp hx with rfl | hx'
          · simp
          · simp [hx']))
        simp only [runtimeSum, List.map_cons, List.sum_cons] at *; omega
    simp only [runtimeSum, List.map_cons, List.sum_cons] at *
    rcases List.mem_cons.mp hq with rfl | hq'
    · omega
    · have := ih (fun x hx => hnn x (by simp [hx])) hq'; omega

/-- when the siblings' minimums fit, no child gets more than its parent has. -/
theorem level_runtime_le_total (total : Int) (ns : List Node) (name : Nat) (rt : Int)
    (hw : WeightsOK ns) (hnn : NonNegNodes ns) (hfit : effMinSum ns ≤ total)
    (h : levelRuntime total ns name = some rt) : 0 ≤ rt ∧ rt ≤ total := by
  obtain ⟨q, hq, _, hrt⟩ := levelRuntime_mem total ns name rt h
  have hall : ∀ p ∈ (redistributeN total ns).1, 0 ≤ p.2 := by
    intro p hp
    have hb := runtime_bounds total ns p hp
    have hmem : p.1 ∈ ns := (nodes_preserved total ns).mem_iff.mp (List.mem_map.mpr ⟨p, hp, rfl⟩)
    have := hnn p.1 hmem
    have : 0 ≤ effMin p.1 := by unfold effMin; split <;> omega
    omega
  have h1 := runtimeSum_ge_mem _ hall q hq
  have h2 := sum_le_total total ns hw hfit
  rw [← hrt]
  exact ⟨hall q hq, by omega⟩

/-- the minimums fit at every level of the path, each level measured against the runtime handed down. -/
def PathFits : Int → List (List Node × Nat) → Prop
  | _, [] => True
  | total, (ns, name) :: rest =>
    WeightsOK ns ∧ NonNegNodes ns ∧ effMinSum ns ≤ total ∧
    ∀ rt, levelRuntime total ns name = some rt → PathFits rt rest

/-- along any path of a multi-level tree the runtime only shrinks: a descendant never gets more than
    any of its ancestors, nor more than the cluster total. -/
theorem refresh_path_le_total (total : Int) (levels : List (List Node × Nat)) (r : Int)
    (h0 : 0 ≤ total) (hf : PathFits total levels) (h : refreshPath total levels = some r) :
    0 ≤ r ∧ r ≤ total := by
  induction levels generalizing total with
  | nil => simp [refreshPath] at h; omega
  | cons lv rest ih =>
    obtain ⟨ns, name⟩ := lv
    unfold refreshPath at h
    obtain ⟨hw, hnn, hfit, hrest⟩ := hf
    cases hl : levelRuntime total ns name with
    | none => rw [hl] at h; cases h
    | some rt =>
      rw [hl] at h
      have hb := level_runtime_le_total total ns name rt hw hnn hfit hl
      have := ih rt hb.1 (hrest rt hl) h
      omega

/-- and the leaf of the path is bounded by its own request / minimum. -/
theorem refresh_path_bounds (total : Int) (pre : List (List Node × Nat)) (ns : List Node) (name : Nat) (r : Int)
    (h : refreshPath total (pre ++ [(ns, name)]) = some r) :
    ∃ n ∈ ns, n.name = name ∧ min n.request (effMin n) ≤ r ∧ r ≤ max n.request (effMin n) := by
  induction pre generalizing total with
  | nil =>
    simp only [List.nil_append, refreshPath] at h
    cases hl : levelRuntime total ns name with
    | none => rw [hl] at h; cases h
    | some rt =>
      rw [hl] at h
      simp only [refreshPath, Option.some.injEq] at h
      subst h
      exact level_runtime_bounds total ns name rt hl
  | cons lv rest ih =>
    obtain ⟨ms, nm⟩ := lv
    simp only [List.cons_append, refreshPath] at h
    cases hl : levelRuntime total ms nm with
    | none => rw [hl] at h; cases h
    | some rt => rw [hl] at h; exact ih rt h

/-! ### 5c. minimums are scaled down only when they do not fit, and then they fit again -/

inductive SMOp where
  | upd (n : Nat) (min : Int) (enable : Bool)
  | rem (n : Nat)
deriving Repr

def SMOp.ok : SMOp → Prop
  | .upd _ min _ => 0 ≤ min
  | .rem _ => True

def SM.step (s : SM) : SMOp → SM
  | .upd n min e => s.update n min e
  | .rem n => s.remove n

/-- over ANY history of update/remove calls (non-negative minimums) the two recorded sums are exactly
    the sums of the minimums of the children currently recorded, scalable and non-scalable; the
    non-negative clamps never absorb anything. -/
theorem scale_sums_exact (ops : List SMOp) (hok : ∀ op ∈ ops, op.ok) :
    (ops.foldl SM.step SM.init).Inv := by
  have gen : ∀ (s : SM), s.Inv → (ops.foldl SM.step s).Inv := by
    induction ops with
    | nil => intro s hs; exact hs
    | cons op ops ih =>
      intro s hs
      simp only [List.foldl_cons]
      apply ih (fun o ho => hok o (by simp [ho]))
      cases op with
      | upd n min e =>
        have h0 : (SMOp.upd n min e).ok := hok (SMOp.upd n min e) (by simp)
        exact update_inv s hs n min e h0
      | rem n => exact remove_inv s hs n
  exact gen _ init_inv

/-- when the children's minimums fit into the total, a scalable child keeps its declared minimum. -/
theorem scaled_fits_unchanged (share : Int → Int → Int → Int) (s : SM) (total : Int) (n : Nat) (c : SMChild)
    (hc : smFind s.children n = some c) (hk : s.known = true) (he : c.enable = true)
    (hfit : s.disableSum + s.enableSum ≤ total) : s.scaled share total n = some c.min := by
  unfold SM.scaled
  rw [hc]
  have : ¬ total < s.disableSum + s.enableSum := by omega
  simp [hk, he, this]

/-- a child that is not scalable (or not recorded) is never scaled. -/
theorem scaled_none_unless_scalable (share : Int → Int → Int → Int) (s : SM) (total : Int) (n : Nat) :
    (smFind s.children n = none ∨ ∃ c, smFind s.children n = some c ∧ c.enable = false) →
    s.scaled share total n = none := by
  intro h
  unfold SM.scaled
  rcases h with h | ⟨c, hc, he⟩
  · rw [h]
  · rw [hc]; simp [he]

theorem floor_sum_le (E : Int) (hE : 0 < E) (xs : List Int) :
    (xs.map (· / E)).sum ≤ xs.sum / E := by
  induction xs with
  | nil => simp
  | cons x xs ih =>
    simp only [List.map_cons, List.sum_cons]
    apply Int.le_ediv_of_mul_le hE
    have h1 := Int.ediv_mul_le x (show E ≠ 0 by omega)
    have h2 := Int.ediv_mul_le xs.sum (show E ≠ 0 by omega)
    have h3 : (xs.map (· / E)).sum * E ≤ xs.sum / E * E := Int.mul_le_mul_of_nonneg_right ih (by omega)
    rw [Int.add_mul]
    omega

/-- with exact arithmetic the scaled minimums of all scalable children together fit into what is left after
    the non-scalable minimums, and no minimum is scaled up. -/
theorem scaled_shares_fit (cs : List SMChild) (avail : Int) (havail : 0 ≤ avail)
    (hnn : ∀ c ∈ cs, 0 ≤ c.min) (hE : 0 < eSum cs) :
    ((cs.filter (·.enable)).map (fun c => exactShare avail c.min (eSum cs))).sum ≤ avail ∧
    (avail ≤ eSum cs → ∀ c ∈ cs, exactShare avail c.min (eSum cs) ≤ c.min) := by
  constructor
  · have hmap : ((cs.filter (·.enable)).map (fun c => exactShare avail c.min (eSum cs))) =
        ((cs.filter (·.enable)).map (fun c => avail * c.min)).map (· / eSum cs) := by
      rw [List.map_map]; rfl
    rw [hmap]
    refine Int.le_trans (floor_sum_le (eSum cs) hE _) ?_
    have hsum : ((cs.filter (·.enable)).map (fun c => avail * c.min)).sum = avail * eSum cs := by
      clear hmap hE hnn
      induction cs with
      | nil => simp [eSum]
      | cons c cs ih =>
        cases hce : c.enable
        · simp only [List.filter_cons, hce, Bool.false_eq_true, if_false, eSum, List.map_cons, List.sum_cons]
          simp only [eSum] at ih; rw [ih]; simp
        · simp only [List.filter_cons, hce, if_true, eSum, List.map_cons, List.sum_cons]
          simp only [eSum] at ih; rw [ih, Int.mul_add]
    rw [hsum, Int.mul_ediv_cancel _ (show eSum cs ≠ 0 by omega)]
    exact Int.le_refl _
  · intro hle c hc
    unfold exactShare
    apply Int.ediv_le_of_le_mul hE
    have := hnn c hc
    calc avail * c.min ≤ eSum cs * c.min := Int.mul_le_mul_of_nonneg_right hle this
      _ = c.min * eSum cs := Int.mul_comm _ _

/-! ### 6. the version-stamped cache never serves a stale runtime -/

/-- cache invariant: an entry stamped with the current version holds the from-scratch value. -/
def Calc.Fresh (c : Calc) : Prop :=
  ∀ name v rt, cacheGet name c.cache = some (v, rt) →
    v ≤ c.version ∧ (v = c.version → rt = (lookupRt name (redistribute c.total c.nodes)).getD 0)

theorem cacheGet_put_same (name : Nat) (v : Nat × Int) (c : List (Nat × Nat × Int)) :
    cacheGet name (cachePut name v c) = some v := by
  simp [cacheGet, cachePut]

theorem cacheGet_put_other (name other : Nat) (v : Nat × Int) (c : List (Nat × Nat × Int)) (h : other ≠ name) :
    cacheGet other (cachePut name v c) = cacheGet other c := by
  have : ¬ name = other := fun e => h e.symm
  simp [cacheGet, cachePut, this]

theorem recompute_fresh (c : Calc) (nm : Nat) (h : c.Fresh) : (c.recompute nm).Fresh := by
  intro name v rt hget
  unfold Calc.recompute at hget ⊢
  simp only at hget ⊢
  by_cases hn : name = nm
  · subst hn
    rw [cacheGet_put_same] at hget
    cases hget
    exact ⟨Nat.le_refl _, fun _ => rfl⟩
  · rw [cacheGet_put_other nm name _ _ hn] at hget
    exact h name v rt hget

theorem step_preserves_fresh (c : Calc) (op : CalcOp) (h : c.Fresh) : (c.step op).Fresh := by
  cases op with
  | setTotal t =>
    intro name v rt hget
    have := h name v rt hget
    simp only [Calc.step] at *
    exact ⟨by omega, fun hv => by omega⟩
  | upsert n =>
    intro name v rt hget
    have := h name v rt hget
    simp only [Calc.step] at *
    exact ⟨by omega, fun hv => by omega⟩
  | erase nm =>
    intro name v rt hget
    have := h name v rt hget
    simp only [Calc.step] at *
    exact ⟨by omega, fun hv => by omega⟩
  | refresh nm =>
    simp only [Calc.step]
    split
    · split
      · exact h
      · exact recompute_fresh c nm h
    · exact recompute_fresh c nm h

/-- after any history of mutations and refreshes, a refresh of `name` leaves in the cache exactly the
    runtime computed from scratch from the calculator's current inputs, stamped with the current
    version: a stale value is never served. -/
theorem refresh_fresh (c0 : Calc) (h0 : c0.Fresh) (ops : List CalcOp) (name : Nat) :
    let c := (ops.foldl Calc.step c0).step (.refresh name)
    ∃ v rt, cacheGet name c.cache = some (v, rt) ∧ v = c.version ∧
      rt = (lookupRt name (redistribute c.total c.nodes)).getD 0 := by
  have hf : (ops.foldl Calc.step c0).Fresh := by
    induction ops generalizing c0 with
    | nil => exact h0
    | cons op ops ih => exact ih (c0.step op) (step_preserves_fresh c0 op h0)
  generalize ops.foldl Calc.step c0 = c1 at hf
  intro c
  have hfc : c.Fresh := step_preserves_fresh c1 (.refresh name) hf
  have hex : ∃ v rt, cacheGet name c.cache = some (v, rt) ∧ v = c.version := by
    show ∃ v rt, cacheGet name (c1.step (.refresh name)).cache = some (v, rt) ∧ v = (c1.step (.refresh name)).version
    simp only [Calc.step]
    split
    · rename_i v rt hg
      split
      · rename_i hv
        exact ⟨v, rt, hg, hv⟩
      · exact ⟨_, _, cacheGet_put_same _ _ _, rfl⟩
    · exact ⟨_, _, cacheGet_put_same _ _ _, rfl⟩
  obtain ⟨v, rt, hg, hv⟩ := hex
  exact ⟨v, rt, hg, hv, (hfc name v rt hg).2 hv⟩

/-! ### non-vacuity -/

example : WeightsOK [⟨1, 3, 700, 100, 0, true⟩, ⟨2, 1, 350, 200, 0, false⟩, ⟨3, 0, 900, 250, 0, true⟩] := by
  intro n hn; simp at hn; rcases hn with rfl | rfl | rfl <;> simp

example : redistribute 950 [⟨1, 3, 700, 100, 0, true⟩, ⟨2, 1, 350, 200, 0, false⟩, ⟨3, 0, 900, 250, 0, true⟩]
    = [(1, 400), (2, 300), (3, 250)] := by decide

example : NamesNodup [⟨1, 3, 700, 100, 0, true⟩, ⟨2, 1, 350, 200, 0, false⟩, ⟨3, 0, 900, 250, 0, true⟩] := by
  simp [NamesNodup]

example : ((SM.init.update 1 50 true).update 2 50 true |>.update 3 20 false).scaled exactShare 100 1 = some 40 := by decide

example : (⟨1, 0, [], []⟩ : Calc).Fresh := by intro name v rt h; simp [cacheGet] at h

end KoordVerif.C02
