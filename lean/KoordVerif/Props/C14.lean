import KoordVerif.Model.C14
import KoordVerif.Model.C14Entry
import KoordVerif.Model.C14Proxy
import KoordVerif.Proofs.C14Ext
/-
C14 — property theorems (see DESIGN.md §4 C14).  Only statements about the property live
here.  `-1` is the cgroup encoding of "unlimited"; `QLe a b` is `a ≤ b` with -1 as top.
-/
namespace KoordVerif.C14

/-- assumptions on the float scaling `⌈q / ratio⌉` for `ratio > 1` (tested per input by the harness). -/
structure ScaleOK (f : Int → Int) : Prop where
  pos  : ∀ q, 0 < q → 0 < f q
  le   : ∀ q, 0 < q → f q ≤ q
  mono : ∀ a b, 0 < a → a ≤ b → f a ≤ f b

/-- `a` is no looser than `b`, reading -1 as "unlimited" (top). -/
def QLe (a b : Int) : Prop := b = -1 ∨ (a ≠ -1 ∧ a ≤ b)

/-! ### 1. container values are the standard conversion (literals of the statement) -/

theorem std_shares (m : Int) :
    milliCPUToShares stdConsts m =
      if m ≤ 0 then 2 else max 2 (min 262144 (m * 1024 / 1000)) := by
  unfold milliCPUToShares stdConsts
  by_cases h : m ≤ 0
  · simp [h]
  · simp only [h, if_false]
    have hm : 0 ≤ m * 1024 := by omega
    rw [Int.tdiv_eq_ediv_of_nonneg hm]
    generalize m * 1024 / 1000 = s
    by_cases h1 : s < 2 <;> by_cases h2 : s > 262144 <;> simp [h1, h2] <;> omega

theorem std_quota (m : Int) :
    milliCPUToQuota stdConsts m = if m ≤ 0 then -1 else max 1000 (m * 100) := by
  unfold milliCPUToQuota stdConsts
  by_cases h : m ≤ 0
  · have : Int.tdiv (m * 100000) 1000 ≤ 0 := by
      have : m * 100000 = -((-m) * 100000) := by omega
      rw [this, Int.neg_tdiv]
      have hm : 0 ≤ (-m) * 100000 := by omega
      rw [Int.tdiv_eq_ediv_of_nonneg hm]; omega
    simp [h, this]
  · have hm : 0 ≤ m * 100000 := by omega
    simp only [h, if_false]
    rw [Int.tdiv_eq_ediv_of_nonneg hm]
    have : m * 100000 / 1000 = m * 100 := by omega
    rw [this]
    by_cases h1 : m * 100 ≤ 0
    · omega
    · by_cases h2 : m * 100 < 1000 <;> simp [h1, h2] <;> omega

theorem container_values_standard (cfg : Cfg) (c : Ctr) (hcfs : cfg.cfs = true) (hr : cfg.ratioGt1 = false) :
    ctrShares stdConsts c = (if c.req ≤ 0 then 2 else max 2 (min 262144 (c.req * 1024 / 1000))) ∧
    ctrQuota stdConsts cfg c = (if c.lim ≤ 0 then -1 else max 1000 (c.lim * 100)) ∧
    ctrMem c = (if c.mem ≤ 0 then -1 else c.mem) := by
  refine ⟨?_, ?_, ?_⟩
  · unfold ctrShares; rw [std_shares]
    by_cases h : c.req > 0
    · have : ¬ c.req ≤ 0 := by omega
      simp [h, this]
    · have : c.req ≤ 0 := by omega
      simp [h, this]
  · unfold ctrQuota applyScale; rw [std_quota]
    by_cases h : c.lim > 0
    · have : ¬ c.lim ≤ 0 := by omega
      simp [h, this, hcfs, hr]
    · have : c.lim ≤ 0 := by omega
      simp [h, this, hcfs, hr]
  · unfold ctrMem
    by_cases h : c.mem > 0
    · have : ¬ c.mem ≤ 0 := by omega
      simp [h, this]
    · have : c.mem ≤ 0 := by omega
      simp [h, this]

/-- CFS quota switched off: every quota is -1 (unset). -/
theorem cfs_off_unlimited (k : Consts) (cfg : Cfg) (h : cfg.cfs = false) (c : Ctr) (cs : List Ctr) :
    ctrQuota k cfg c = -1 ∧ podQuota k cfg cs = -1 := by
  simp [ctrQuota, podQuota, h]

/-- with a normalisation ratio above 1 a limited quota is the scaled standard quota. -/
theorem container_quota_scaled (cfg : Cfg) (c : Ctr) (hcfs : cfg.cfs = true) (hr : cfg.ratioGt1 = true)
    (hl : 0 < c.lim) : ctrQuota stdConsts cfg c = cfg.scale (max 1000 (c.lim * 100)) := by
  unfold ctrQuota applyScale; rw [std_quota]
  have : ¬ c.lim ≤ 0 := by omega
  have h2 : max 1000 (c.lim * 100) > 0 := by omega
  simp [hl, this, hcfs, hr, h2]

/-! ### loop = closed form -/

theorem sumOrUnlimitedLoop_eq (acc : Int) (xs : List Int) :
    sumOrUnlimitedLoop acc xs = if xs.any (· ≤ 0) then -1 else acc + xs.sum := by
  induction xs generalizing acc with
  | nil => simp [sumOrUnlimitedLoop]
  | cons x xs ih =>
    unfold sumOrUnlimitedLoop
    by_cases h : x ≤ 0
    · simp [h]
    · simp only [h, if_false, ih, List.any_cons, List.sum_cons, decide_false, Bool.false_or]
      split <;> omega

theorem sumOrUnlimited_eq (xs : List Int) :
    sumOrUnlimited xs = if xs.any (· ≤ 0) then -1 else xs.sum := by
  unfold sumOrUnlimited; rw [sumOrUnlimitedLoop_eq]; simp

theorem sumPos_nonneg (xs : List Int) : 0 ≤ sumPos xs := by
  induction xs with
  | nil => simp [sumPos]
  | cons x xs ih => unfold sumPos; split <;> omega

theorem sumPos_ge_mem (xs : List Int) (x : Int) (h : x ∈ xs) : x ≤ sumPos xs := by
  induction xs with
  | nil => cases h
  | cons y ys ih =>
    unfold sumPos
    have := sumPos_nonneg ys
    rcases List.mem_cons.mp h with rfl | h'
    · split <;> omega
    · have := ih h'; split <;> omega

theorem sum_ge_mem_of_pos (xs : List Int) (hpos : ∀ y ∈ xs, 0 < y) (x : Int) (h : x ∈ xs) : x ≤ xs.sum := by
  induction xs with
  | nil => cases h
  | cons y ys ih =>
    have hy : 0 < y := hpos y (by simp)
    have hys : ∀ z ∈ ys, 0 < z := fun z hz => hpos z (by simp [hz])
    have hs : 0 ≤ ys.sum := by
      clear ih h
      induction ys with
      | nil => simp
      | cons z zs ih2 =>
        have := hpos z (by simp)
        have := ih2 (fun w hw => hpos w (by
          rcases List.mem_cons.mp hw with rfl | hw'
          · simp
          · simp [hw'])) (fun w hw => hys w (by simp [hw]))
        simp; omega
    rcases List.mem_cons.mp h with rfl | h'
    · simp; omega
    · have := ih hys h'; simp; omega

/-! ### monotonicity of the unit conversions -/

theorem shares_mono (a b : Int) (h : a ≤ b) :
    milliCPUToShares stdConsts a ≤ milliCPUToShares stdConsts b := by
  rw [std_shares, std_shares]
  by_cases ha : a ≤ 0 <;> by_cases hb : b ≤ 0 <;> simp only [ha, hb, if_true, if_false] <;> omega

theorem quota_mono_pos (a b : Int) (ha : 0 < a) (h : a ≤ b) :
    milliCPUToQuota stdConsts a ≤ milliCPUToQuota stdConsts b ∧ 0 < milliCPUToQuota stdConsts a := by
  rw [std_quota, std_quota]
  have h1 : ¬ a ≤ 0 := by omega
  have h2 : ¬ b ≤ 0 := by omega
  simp only [h1, h2, if_false]; omega

/-! ### 2. the pod cgroup is never tighter than one of its containers -/

theorem pod_shares_ge_container (cs : List Ctr) (c : Ctr) (hc : c ∈ cs) :
    ctrShares stdConsts c ≤ podShares stdConsts cs := by
  unfold ctrShares podShares
  apply shares_mono
  have hmem : c.req ∈ cs.map (·.req) := List.mem_map.mpr ⟨c, hc, rfl⟩
  have h1 := sumPos_ge_mem _ _ hmem
  have h2 := sumPos_nonneg (cs.map (·.req))
  split <;> omega

theorem pod_quota_ge_container (cfg : Cfg) (hs : ScaleOK cfg.scale) (cs : List Ctr) (c : Ctr) (hc : c ∈ cs) :
    QLe (ctrQuota stdConsts cfg c) (podQuota stdConsts cfg cs) := by
  unfold QLe ctrQuota podQuota
  by_cases hcfs : cfg.cfs = true
  case neg => left; simp [hcfs]
  simp only [hcfs, Bool.not_true, Bool.false_eq_true, if_false]
  rw [sumOrUnlimited_eq]
  by_cases hany : (cs.map (·.lim)).any (· ≤ 0) = true
  · left
    simp only [hany, if_true]
    have : milliCPUToQuota stdConsts (-1) = -1 := by rw [std_quota]; simp
    rw [this]; unfold applyScale; simp
  · right
    simp only [hany, Bool.false_eq_true, if_false]
    have hall : ∀ y ∈ cs.map (·.lim), 0 < y := by
      intro y hy
      have h3 : ¬ (decide (y ≤ 0) = true) := fun h => hany (List.any_eq_true.mpr ⟨y, hy, h⟩)
      simp at h3; omega
    have hmem : c.lim ∈ cs.map (·.lim) := List.mem_map.mpr ⟨c, hc, rfl⟩
    have hpos : 0 < c.lim := hall _ hmem
    have hle := sum_ge_mem_of_pos _ hall _ hmem
    simp only [hpos, if_true]
    obtain ⟨hq, hq0⟩ := quota_mono_pos _ _ hpos hle
    have hq1 : 0 < milliCPUToQuota stdConsts (cs.map (·.lim)).sum := by omega
    unfold applyScale
    by_cases hr : cfg.ratioGt1 = true
    · simp only [hr, hq0, hq1, decide_true, Bool.and_self, if_true]
      have := hs.pos _ hq0
      have := hs.mono _ _ hq0 hq
      omega
    · simp only [hr, Bool.and_false, Bool.false_eq_true, if_false]
      omega

theorem pod_mem_ge_container (cs : List Ctr) (c : Ctr) (hc : c ∈ cs) :
    QLe (ctrMem c) (podMem cs) := by
  unfold QLe ctrMem podMem
  rw [sumOrUnlimited_eq]
  by_cases hany : (cs.map (·.mem)).any (· ≤ 0) = true
  · left; simp [hany]
  · right
    simp only [hany, Bool.false_eq_true, if_false]
    have hall : ∀ y ∈ cs.map (·.mem), 0 < y := by
      intro y hy
      have h3 : ¬ (decide (y ≤ 0) = true) := fun h => hany (List.any_eq_true.mpr ⟨y, hy, h⟩)
      simp at h3; omega
    have hmem : c.mem ∈ cs.map (·.mem) := List.mem_map.mpr ⟨c, hc, rfl⟩
    have hpos : 0 < c.mem := hall _ hmem
    have hle := sum_ge_mem_of_pos _ hall _ hmem
    have h1 : ¬ c.mem ≤ 0 := by omega
    simp only [hpos, if_true, h1, if_false]
    omega

/-! ### 4. unlimited as soon as one container is unlimited -/

theorem unlimited_propagates (cfg : Cfg) (cs : List Ctr) :
    ((∃ c ∈ cs, c.lim ≤ 0) → podQuota stdConsts cfg cs = -1) ∧
    ((∃ c ∈ cs, c.mem ≤ 0) → podMem cs = -1) := by
  constructor
  · rintro ⟨c, hc, hl⟩
    unfold podQuota
    by_cases hcfs : cfg.cfs = true
    · simp only [hcfs, Bool.not_true, Bool.false_eq_true, if_false]
      rw [sumOrUnlimited_eq]
      have : (cs.map (·.lim)).any (· ≤ 0) = true :=
        List.any_eq_true.mpr ⟨c.lim, List.mem_map.mpr ⟨c, hc, rfl⟩, by simp [hl]⟩
      simp only [this, if_true]
      have : milliCPUToQuota stdConsts (-1) = -1 := by rw [std_quota]; simp
      rw [this]; unfold applyScale; simp
    · simp [hcfs]
  · rintro ⟨c, hc, hl⟩
    unfold podMem; rw [sumOrUnlimited_eq]
    have : (cs.map (·.mem)).any (· ≤ 0) = true :=
      List.any_eq_true.mpr ⟨c.mem, List.mem_map.mpr ⟨c, hc, rfl⟩, by simp [hl]⟩
    simp [this]

/-! ### 3. pod value = conversion of the sums (exact for quota and memory) -/

theorem pod_values_of_sums (cfg : Cfg) (cs : List Ctr) (hcfs : cfg.cfs = true) (hr : cfg.ratioGt1 = false)
    (hl : ∀ c ∈ cs, 0 < c.lim) (hm : ∀ c ∈ cs, 0 < c.mem) (hne : cs ≠ []) :
    podQuota stdConsts cfg cs = max 1000 ((cs.map (·.lim)).sum * 100) ∧
    podMem cs = (cs.map (·.mem)).sum := by
  have hany1 : (cs.map (·.lim)).any (· ≤ 0) = false := by
    apply Bool.eq_false_iff.mpr
    intro h
    obtain ⟨y, hy, hy0⟩ := List.any_eq_true.mp h
    obtain ⟨c, hc, rfl⟩ := List.mem_map.mp hy
    have := hl c hc
    simp at hy0; omega
  have hany2 : (cs.map (·.mem)).any (· ≤ 0) = false := by
    apply Bool.eq_false_iff.mpr
    intro h
    obtain ⟨y, hy, hy0⟩ := List.any_eq_true.mp h
    obtain ⟨c, hc, rfl⟩ := List.mem_map.mp hy
    have := hm c hc
    simp at hy0; omega
  constructor
  · unfold podQuota applyScale
    rw [sumOrUnlimited_eq, std_quota]
    obtain ⟨c, hc⟩ := List.exists_mem_of_ne_nil cs hne
    have hall : ∀ y ∈ cs.map (·.lim), 0 < y := by
      intro y hy; obtain ⟨d, hd, rfl⟩ := List.mem_map.mp hy; exact hl d hd
    have := sum_ge_mem_of_pos _ hall _ (List.mem_map.mpr ⟨c, hc, rfl⟩)
    have := hl c hc
    have h0 : ¬ (cs.map (·.lim)).sum ≤ 0 := by omega
    simp [hcfs, hr, hany1, h0]
  · unfold podMem; rw [sumOrUnlimited_eq]; simp [hany2]

/-! ### 3b. the pod value equals the sum of the container values up to rounding and the minimum clamps -/

def effReq (c : Ctr) : Int := if c.req > 0 then c.req else 0

theorem sumPos_eq_effReq (cs : List Ctr) : sumPos (cs.map (·.req)) = (cs.map effReq).sum := by
  induction cs with
  | nil => simp [sumPos]
  | cons c cs ih =>
    simp only [List.map_cons, sumPos, List.sum_cons, ih, effReq]
    by_cases h : c.req ≤ 0
    · have : ¬ c.req > 0 := by omega
      simp [h, this]
    · have : c.req > 0 := by omega
      simp [h, this]

/-- the unclamped conversion `⌊1024·m/1000⌋` is super-additive and loses less than one share per summand. -/
theorem raw_shares_sum (xs : List Int) (h : ∀ x ∈ xs, 0 ≤ x) :
    0 ≤ xs.sum ∧ (xs.map (fun m => m * 1024 / 1000)).sum ≤ xs.sum * 1024 / 1000 ∧
    xs.sum * 1024 / 1000 ≤ (xs.map (fun m => m * 1024 / 1000)).sum + xs.length := by
  induction xs with
  | nil => simp
  | cons x xs ih =>
    have hx := h x (by simp)
    obtain ⟨h0, h1, h2⟩ := ih (fun y hy => h y (by simp [hy]))
    simp only [List.map_cons, List.sum_cons, List.length_cons]
    refine ⟨by omega, ?_, ?_⟩
    · omega
    · have : ((xs.length + 1 : Nat) : Int) = (xs.length : Int) + 1 := by simp
      rw [this]; omega

theorem ctrShares_bounds (c : Ctr) :
    effReq c * 1024 / 1000 ≤ ctrShares stdConsts c + 0 ∨ ctrShares stdConsts c = 262144 := by
  unfold ctrShares effReq
  rw [std_shares]
  by_cases h : c.req > 0
  · have h' : ¬ c.req ≤ 0 := by omega
    simp only [h, if_true, h', if_false]; omega
  · simp only [h, if_false]; left; omega

/-- pod shares against the sum of the container shares (n = number of containers, n ≥ 1):
    never more than the sum plus one share per container (rounding), and — unless the pod hits the
    maximum clamp — never less than the sum minus two shares per container (minimum clamp). -/
theorem pod_shares_eq_sum_up_to_clamp (cs : List Ctr) (hne : cs ≠ []) :
    podShares stdConsts cs ≤ (cs.map (ctrShares stdConsts)).sum + cs.length ∧
    (podShares stdConsts cs = 262144 ∨ (cs.map (ctrShares stdConsts)).sum ≤ podShares stdConsts cs + 2 * cs.length) := by
  unfold podShares
  rw [sumPos_eq_effReq, std_shares]
  have hnn : ∀ x ∈ cs.map effReq, 0 ≤ x := by
    intro x hx; obtain ⟨c, _, rfl⟩ := List.mem_map.mp hx; unfold effReq; split <;> omega
  obtain ⟨h0, h1, h2⟩ := raw_shares_sum (cs.map effReq) hnn
  rw [List.map_map] at h1 h2
  simp only [List.length_map] at h2
  -- per container: raw ≤ ctr ≤ raw + 2 unless clamped at the maximum
  have hper : (cs.map ((fun m => m * 1024 / 1000) ∘ effReq)).sum ≤ (cs.map (ctrShares stdConsts)).sum ∨
      ∃ c ∈ cs, ctrShares stdConsts c = 262144 := by
    clear h1 h2 h0 hnn hne
    induction cs with
    | nil => left; simp
    | cons c cs ih =>
      rcases ctrShares_bounds c with hc | hc
      · rcases ih with hi | ⟨d, hd, hd2⟩
        · left; simp only [List.map_cons, List.sum_cons, Function.comp] at hi ⊢; omega
        · right; exact ⟨d, by simp [hd], hd2⟩
      · right; exact ⟨c, by simp, hc⟩
  have hup : ∀ c : Ctr, ctrShares stdConsts c ≤ effReq c * 1024 / 1000 + 2 ∧ 2 ≤ ctrShares stdConsts c := by
    intro c
    unfold ctrShares effReq; rw [std_shares]
    by_cases h : c.req > 0
    · have h' : ¬ c.req ≤ 0 := by omega
      simp only [h, if_true, h', if_false]; omega
    · simp only [h, if_false]; simp
  have hsum_up : (cs.map (ctrShares stdConsts)).sum ≤ (cs.map ((fun m => m * 1024 / 1000) ∘ effReq)).sum + 2 * cs.length ∧
      2 * (cs.length : Int) ≤ (cs.map (ctrShares stdConsts)).sum := by
    clear h1 h2 h0 hnn hne hper
    induction cs with
    | nil => simp
    | cons c cs ih =>
      have := hup c
      simp only [List.map_cons, List.sum_cons, List.length_cons, Function.comp] at *
      have hl : ((cs.length + 1 : Nat) : Int) = (cs.length : Int) + 1 := by simp
      rw [hl]; omega
  have hlen : 1 ≤ (cs.length : Int) := by
    have : 0 < cs.length := List.length_pos_iff.mpr hne
    omega
  constructor
  · rcases hper with hp | ⟨c, hc, hc2⟩
    · split <;> omega
    · -- some container is clamped at the maximum, so the sum is already ≥ 262144 ≥ pod shares
      have hge : 262144 ≤ (cs.map (ctrShares stdConsts)).sum := by
        clear h1 h2 h0 hnn hne hsum_up hlen
        induction cs with
        | nil => cases hc
        | cons d ds ih =>
          simp only [List.map_cons, List.sum_cons]
          have h2d := (hup d).2
          have hds : 0 ≤ (ds.map (ctrShares stdConsts)).sum := by
            clear ih hc
            induction ds with
            | nil => simp
            | cons e es ih2 => have := (hup e).2; simp only [List.map_cons, List.sum_cons]; omega
          rcases List.mem_cons.mp hc with rfl | hc'
          · omega
          · have := ih hc'; omega
      split <;> omega
  · by_cases hmax : (cs.map effReq).sum * 1024 / 1000 ≥ 262144
    · left; split <;> omega
    · right; split <;> omega

/-- quota: the pod quota never exceeds the sum of the container quotas and is at most one minimum quota
    per container below it (all containers limited, CFS quota on, no normalisation ratio). -/
theorem pod_quota_eq_sum_up_to_clamp (cfg : Cfg) (cs : List Ctr) (hcfs : cfg.cfs = true) (hr : cfg.ratioGt1 = false)
    (hl : ∀ c ∈ cs, 0 < c.lim) (hm : ∀ c ∈ cs, 0 < c.mem) (hne : cs ≠ []) :
    podQuota stdConsts cfg cs ≤ (cs.map (ctrQuota stdConsts cfg)).sum ∧
    (cs.map (ctrQuota stdConsts cfg)).sum ≤ podQuota stdConsts cfg cs + 1000 * cs.length := by
  rw [(pod_values_of_sums cfg cs hcfs hr hl hm hne).1]
  have hq : ∀ c ∈ cs, ctrQuota stdConsts cfg c = max 1000 (c.lim * 100) := by
    intro c hc
    have := (container_values_standard cfg c hcfs hr).2.1
    have hp := hl c hc
    have : ¬ c.lim ≤ 0 := by omega
    simp_all
  clear hm
  have key : (cs.map (·.lim)).sum * 100 ≤ (cs.map (ctrQuota stdConsts cfg)).sum ∧
      (cs.map (ctrQuota stdConsts cfg)).sum ≤ (cs.map (·.lim)).sum * 100 + 1000 * cs.length ∧
      1000 * (cs.length : Int) ≤ (cs.map (ctrQuota stdConsts cfg)).sum := by
    clear hne
    induction cs with
    | nil => simp
    | cons c cs ih =>
      have ih' := ih (fun d hd => hl d (by simp [hd])) (fun d hd => hq d (by simp [hd]))
      have hc := hq c (by simp)
      have hpos := hl c (by simp)
      simp only [List.map_cons, List.sum_cons, List.length_cons] at *
      have hlen : ((cs.length + 1 : Nat) : Int) = (cs.length : Int) + 1 := by simp
      rw [hlen]
      omega
  have hlen : 1 ≤ (cs.length : Int) := by
    have : 0 < cs.length := List.length_pos_iff.mpr hne
    omega
  omega

/-! ### 5. pods that are not best-effort are left untouched -/

theorem non_be_untouched (k : Consts) (cfg : Cfg) (hasSpec : Bool) (cs : List Ctr) (c : Ctr) :
    podHook k cfg false hasSpec cs = none ∧ ctrHook k cfg false hasSpec c = none := by
  simp [podHook, ctrHook]

theorem be_gets_conversion (k : Consts) (cfg : Cfg) (cs : List Ctr) :
    podHook k cfg true true cs = some ⟨podShares k cs, podQuota k cfg cs, podMem cs⟩ := by
  simp [podHook]

/-! ### 6. the rule in force is the one configured last (any history of callbacks) -/

/-- assumptions on the float64 test `|old - new| >= 0.01` over two-decimal ratios (in hundredths). -/
structure ChangedOK (changed : Int → Int → Bool) : Prop where
  far  : ∀ a b, (a - b ≥ 2 ∨ b - a ≥ 2) → changed a b = true
  same : ∀ a, changed a a = false

/-- last ratio a node-meta callback configured (-100 = annotation absent), if any. -/
def lastRatio : List RuleEv → Option Int
  | [] => none
  | ev :: rest =>
    match lastRatio rest with
    | some p => some p
    | none => match ev with
      | .nodeRatio p => some p
      | _ => none

def lastSlo : List RuleEv → Option Bool
  | [] => none
  | ev :: rest =>
    match lastSlo rest with
    | some p => some p
    | none => match ev with
      | .slo e => some e
      | _ => none

def runRule (changed : Int → Int → Bool) (r : Rule) (evs : List RuleEv) : Rule :=
  evs.foldl (fun r ev => (Rule.step changed r ev).1) r

theorem runRule_cons (changed : Int → Int → Bool) (r : Rule) (ev : RuleEv) (evs : List RuleEv) :
    runRule changed r (ev :: evs) = runRule changed (Rule.step changed r ev).1 evs := by
  simp [runRule]

/-- after any history, the stored ratio is within one hundredth (the code's epsilon) of the ratio the
    node configured last; in particular removing the annotation resets it exactly. -/
theorem rule_tracks_ratio (changed : Int → Int → Bool) (hc : ChangedOK changed) (evs : List RuleEv) (r : Rule) :
    match lastRatio evs with
    | some p => ∃ q, (runRule changed r evs).ratio = some q ∧ q - p ≤ 1 ∧ p - q ≤ 1
    | none => (runRule changed r evs).ratio = r.ratio := by
  induction evs generalizing r with
  | nil => simp [lastRatio, runRule]
  | cons ev evs ih =>
    rw [runRule_cons]
    have ih' := ih (Rule.step changed r ev).1
    unfold lastRatio
    cases hl : lastRatio evs with
    | some p => simp only [hl] at ih' ⊢; exact ih'
    | none =>
      simp only [hl] at ih' ⊢
      cases ev with
      | nodeRatio p =>
        simp only []
        rw [ih']
        unfold Rule.step
        cases hr : r.ratio with
        | none => exact ⟨p, by simp, by omega, by omega⟩
        | some old =>
          simp only []
          by_cases hch : changed old p = true
          · simp only [hch, if_true]; exact ⟨p, rfl, by omega, by omega⟩
          · simp only [hch]
            refine ⟨old, hr, ?_, ?_⟩
            · by_cases h : old - p ≥ 2
              · exact absurd (hc.far old p (Or.inl h)) hch
              · omega
            · by_cases h : p - old ≥ 2
              · exact absurd (hc.far old p (Or.inr h)) hch
              · omega
      | nodeBad => simp only []; rw [ih']; simp [Rule.step]
      | slo e =>
        simp only []; rw [ih']
        unfold Rule.step
        cases r.cfs with
        | none => simp
        | some old => simp only []; split <;> simp

/-- the CFS switch in force is exactly the one the last node-SLO callback computed (default: on). -/
theorem rule_tracks_cfs (changed : Int → Int → Bool) (evs : List RuleEv) (r : Rule) :
    match lastSlo evs with
    | some e => (runRule changed r evs).cfs = some e
    | none => (runRule changed r evs).cfs = r.cfs := by
  induction evs generalizing r with
  | nil => simp [lastSlo, runRule]
  | cons ev evs ih =>
    rw [runRule_cons]
    have ih' := ih (Rule.step changed r ev).1
    unfold lastSlo
    cases hl : lastSlo evs with
    | some p => simp only [hl] at ih' ⊢; exact ih'
    | none =>
      simp only [hl] at ih' ⊢
      cases ev with
      | nodeRatio p =>
        simp only []; rw [ih']
        unfold Rule.step
        cases r.ratio with
        | none => simp
        | some old => simp only []; split <;> simp
      | nodeBad => simp only []; rw [ih']; simp [Rule.step]
      | slo e =>
        simp only []; rw [ih']
        unfold Rule.step
        cases hr : r.cfs with
        | none => simp
        | some old =>
          simp only []
          by_cases h : old = e
          · subst h; simp [hr]
          · simp [h]

/-- removing the ratio annotation (or configuring a ratio far from the stored one) takes effect at once. -/
theorem ratio_removed_resets (changed : Int → Int → Bool) (hc : ChangedOK changed) (r : Rule) (old : Int)
    (hr : r.ratio = some old) (hpos : 0 < old) :
    (Rule.step changed r (.nodeRatio (-100))).1.ratio = some (-100) := by
  unfold Rule.step
  rw [hr]
  have : changed old (-100) = true := hc.far old (-100) (Or.inl (by omega))
  simp [this]

/-! ### 7. entry paths of the protocol package: NRI, runtime proxy and reconciler decode the same request -/

/-- The NRI and the runtime-proxy path decode every annotation shape identically, pod- and container-level; and for
    the annotation the webhook dumps for the pod (`webhookDump pod`) the reconciler path — which reads the pod spec
    first — builds the same request as the other two. -/
theorem entry_paths_agree (pod : List (Option Ctr)) (a : Ann) :
    podFromNri a = podFromProxy a ∧ (∀ i, ctrFromNri a i = ctrFromProxy a i) ∧
    (a = webhookDump pod →
      podFromReconciler pod a = podFromNri a ∧ ∀ i, ctrFromReconciler pod a i = ctrFromNri a i) := by
  refine ⟨?_, ?_, ?_⟩
  · cases a <;> rfl
  · intro i; cases a <;> rfl
  · intro h
    have hl := lookup_declared pod
    unfold webhookDump at h
    cases hd : declaredFrom 0 pod with
    | nil =>
      rw [hd] at h hl; subst h
      refine ⟨by simp [podFromReconciler, specFromPod, hd, getExtSpec, podFromNri], ?_⟩
      intro i
      have : nth pod i = none := by rw [← hl i]; rfl
      simp [ctrFromReconciler, this, getExtSpec, ctrFromNri]
    | cons x t =>
      rw [hd] at h hl; subst h
      refine ⟨by simp [podFromReconciler, specFromPod, hd, getExtSpec, podFromNri], ?_⟩
      intro i
      have hi := hl i
      simp only [ctrFromReconciler, ctrFromNri, getExtSpec]
      cases hn : nth pod i with
      | none => rfl
      | some c => rw [hn] at hi; simp [hi]

/-- a pod spec that declares batch resources wins over whatever the annotation says (reconciler path). -/
theorem reconciler_prefers_pod_spec (pod : List (Option Ctr)) (a : Ann) (h : declaredFrom 0 pod ≠ []) :
    podFromReconciler pod a = some (declaredFrom 0 pod) := by
  unfold podFromReconciler specFromPod
  cases hd : declaredFrom 0 pod with
  | nil => exact absurd hd h
  | cons x t => rfl

/-- "undeclared means untouched": when the decoded annotation has no (non-nil) container map — key absent, "",
    "{}", {"containers":null}, "null", invalid JSON — no entry path lets the hooks write anything, whatever the QoS,
    the rule, the cgroup version or the initial file contents; the reconciler path too when the pod spec declares
    nothing (resp. for a container that declares nothing). -/
theorem no_spec_no_write (k : Consts) (cfg : Cfg) (isBE v2 : Bool) (init : Files) (a : Ann)
    (h : ∀ m, getExtSpec a ≠ some (some m)) :
    applyOut v2 init (podEntry k cfg isBE (podFromNri a)) = init ∧
    applyOut v2 init (podEntry k cfg isBE (podFromProxy a)) = init ∧
    (∀ i, ctrEntry k cfg isBE (ctrFromNri a i) = none ∧ ctrEntry k cfg isBE (ctrFromProxy a i) = none) ∧
    (∀ pod, declaredFrom 0 pod = [] →
      applyOut v2 init (podEntry k cfg isBE (podFromReconciler pod a)) = init) ∧
    (∀ pod i, nth pod i = none →
      applyOut v2 init (ctrEntry k cfg isBE (ctrFromReconciler pod a i)) = init) := by
  have hN : podFromNri a = none := by
    unfold podFromNri
    cases hg : getExtSpec a with
    | none => rfl
    | some s => cases s with
      | none => rfl
      | some m => exact absurd hg (h m)
  have hP : podFromProxy a = none := by rw [← (entry_paths_agree [] a).1]; exact hN
  have hC : ∀ i, ctrFromNri a i = none := by
    intro i
    unfold ctrFromNri
    cases hg : getExtSpec a with
    | none => rfl
    | some s => cases s with
      | none => rfl
      | some m => exact absurd hg (h m)
  have hCP : ∀ i, ctrFromProxy a i = none := fun i => by rw [← (entry_paths_agree [] a).2.1 i]; exact hC i
  have hpod : ∀ b : Bool, podHook k cfg b false [] = none := by intro b; cases b <;> simp [podHook]
  refine ⟨by rw [hN]; simp [podEntry, hpod, applyOut], by rw [hP]; simp [podEntry, hpod, applyOut],
    fun i => ⟨by rw [hC i]; rfl, by rw [hCP i]; rfl⟩, ?_, ?_⟩
  · intro pod hd
    have : podFromReconciler pod a = none := by
      unfold podFromReconciler specFromPod
      rw [hd]
      cases hg : getExtSpec a with
      | none => rfl
      | some s => cases s with
        | none => rfl
        | some m => exact absurd hg (h m)
    rw [this]; simp [podEntry, hpod, applyOut]
  · intro pod i hn
    have : ctrFromReconciler pod a i = none := by
      unfold ctrFromReconciler
      rw [hn]
      cases hg : getExtSpec a with
      | none => rfl
      | some s => cases s with
        | none => rfl
        | some m => exact absurd hg (h m)
    rw [this]; rfl

/-- the hypothesis of `no_spec_no_write` holds for exactly these shapes. -/
theorem no_spec_shapes (a : Ann) :
    (∀ m, getExtSpec a ≠ some (some m)) ↔
      (a = .absent ∨ a = .emptyStr ∨ a = .emptyObj ∨ a = .nullCtrs ∨ a = .invalid ∨ a = .jsonNull) := by
  cases a <;> simp [getExtSpec]

/-- FULL statement one would like: "an annotation that carries no container lets nothing be written".  It is FALSE
    for `{"containers":{}}` (a non-nil EMPTY map passes the `spec.Containers != nil` guard): the pod hook then sums
    over zero containers and injects cpu.shares 2, cfs quota -1 and MEMORY LIMIT 0, under every rule. -/
theorem empty_containers_map_counterexample :
    ¬ (∀ a : Ann, (∀ m, getExtSpec a = some (some m) → m = []) →
        podEntry stdConsts ⟨true, false, id⟩ true (podFromNri a) = none) := by
  intro h
  have := h .emptyCtrs (by intro m hm; simp [getExtSpec] at hm; exact hm)
  revert this; decide

theorem empty_containers_map_writes (cfg : Cfg) :
    podEntry stdConsts cfg true (podFromNri .emptyCtrs) = some ⟨2, -1, 0⟩ ∧
    podEntry stdConsts cfg true (podFromProxy .emptyCtrs) = some ⟨2, -1, 0⟩ := by
  have hq : podQuota stdConsts cfg [] = -1 := by
    unfold podQuota
    by_cases hc : cfg.cfs = true
    · have : milliCPUToQuota stdConsts (sumOrUnlimited []) = -1 := by decide
      simp [hc, this, applyScale]
    · simp [hc]
  have hs : podShares stdConsts [] = 2 := by decide
  have hm : podMem [] = 0 := by decide
  constructor <;> simp [podEntry, podFromNri, podFromProxy, getExtSpec, podHook, hq, hs, hm]

/-- non-BE pods: nothing is written on any path, for any decoded request. -/
theorem non_be_no_write (k : Consts) (cfg : Cfg) (v2 : Bool) (init : Files)
    (spec : Option (List (Nat × Ctr))) (c : Option Ctr) :
    applyOut v2 init (podEntry k cfg false spec) = init ∧ applyOut v2 init (ctrEntry k cfg false c) = init ∧
    applyQuota v2 init (podEntry k cfg false spec) = init := by
  cases spec <;> cases c <;> simp [podEntry, ctrEntry, podHook, ctrHook, applyOut, applyQuota]

/-- BE pod carrying the webhook's dump of a pod spec that declares something: all three pod-level paths write
    exactly the conversion of the sums over the declaring containers. -/
theorem entry_known_writes_conversion (cfg : Cfg) (v2 : Bool) (init : Files) (pod : List (Option Ctr))
    (h : declaredFrom 0 pod ≠ []) :
    let cs := (declaredFrom 0 pod).map (·.2)
    let want : Files := { shares := writeShares v2 (podShares stdConsts cs),
                          quota := writeLimit v2 (podQuota stdConsts cfg cs),
                          mem := writeLimit v2 (podMem cs) }
    applyOut v2 init (podEntry stdConsts cfg true (podFromNri (webhookDump pod))) = want ∧
    applyOut v2 init (podEntry stdConsts cfg true (podFromProxy (webhookDump pod))) = want ∧
    applyOut v2 init (podEntry stdConsts cfg true (podFromReconciler pod (webhookDump pod))) = want := by
  intro cs want
  have hrec := reconciler_prefers_pod_spec pod (webhookDump pod) h
  have hagree := entry_paths_agree pod (webhookDump pod)
  have hN : podFromNri (webhookDump pod) = some (declaredFrom 0 pod) := by
    rw [← (hagree.2.2 rfl).1]; exact hrec
  have hP : podFromProxy (webhookDump pod) = some (declaredFrom 0 pod) := by rw [← hagree.1]; exact hN
  rw [hN, hP, hrec]
  simp [podEntry, podHook, applyOut, want, cs]

/-! ### 8. cgroup v2 formats: cpu.weight from shares, `max` for unlimited -/

theorem weight_range (s : Int) : 1 ≤ sharesToWeight s ∧ sharesToWeight s ≤ 10000 := sharesToWeight_range s

theorem weight_mono (a b : Int) (ha : 2 ≤ a) (h : a ≤ b) : sharesToWeight a ≤ sharesToWeight b :=
  sharesToWeight_mono a b ha h

/-- the ends of the share range map to the ends of the weight range. -/
theorem weight_ends : sharesToWeight 2 = 1 ∧ sharesToWeight 262144 = 10000 ∧ sharesToWeight 1024 = 39 := by decide

/-- on cgroup v2 too the pod's cpu.weight is never below a container's. -/
theorem pod_weight_ge_container (cs : List Ctr) (c : Ctr) (hc : c ∈ cs) :
    sharesToWeight (ctrShares stdConsts c) ≤ sharesToWeight (podShares stdConsts cs) := by
  apply sharesToWeight_mono _ _ ?_ (pod_shares_ge_container cs c hc)
  unfold ctrShares; rw [std_shares]; split <;> omega

/-- v2 writes `max` exactly for the unlimited value -1 (cpu.max, memory.max); v1 writes the number itself. -/
theorem v2_unlimited_is_max (v : Int) :
    (writeLimit true v = .max ↔ v = -1) ∧ writeLimit false v = .num v := by
  unfold writeLimit
  by_cases h : v = -1
  · subst h; simp
  · simp [h]

/-! ### 9. what is finally written: rule callbacks, and pod vs container on the files -/

/-- a rule callback moves only the cfs-quota file, and to the value the hook path would write. -/
theorem cb_only_quota (v2 : Bool) (init : Files) (o : Option Out) :
    (applyQuota v2 init o).shares = init.shares ∧ (applyQuota v2 init o).mem = init.mem ∧
    (∀ out, o = some out → (applyQuota v2 init o).quota = (applyOut v2 init o).quota) := by
  cases o <;> simp [applyQuota, applyOut]

/-- "no looser than" on file contents of cpu.cfs_quota_us|cpu.max and memory.limit_in_bytes|memory.max:
    `max` and `-1` are top. -/
def FLe : FVal → FVal → Prop
  | _, .max => True
  | .num x, .num y => y = -1 ∨ (x ≠ -1 ∧ x ≤ y)
  | _, _ => False

theorem writeLimit_le (v2 : Bool) (a b : Int) (h : QLe a b) : FLe (writeLimit v2 a) (writeLimit v2 b) := by
  unfold writeLimit
  cases v2
  · simpa [FLe, QLe] using h
  · by_cases hb : b = -1
    · subst hb; simp [FLe]
    · rcases h with h | ⟨h1, h2⟩
      · exact absurd h hb
      · simp [hb, h1, FLe, h2]

/-- what is WRITTEN (v1 or v2 format) for the pod is never tighter than what is written for one of the containers
    of the decoded request: cpu.shares / cpu.weight, cfs quota, memory limit. -/
theorem written_pod_ge_container (cfg : Cfg) (hs : ScaleOK cfg.scale) (v2 : Bool) (m : List (Nat × Ctr))
    (i : Nat) (c : Ctr) (hc : (i, c) ∈ m) :
    let cs := m.map (·.2)
    (match writeShares v2 (ctrShares stdConsts c), writeShares v2 (podShares stdConsts cs) with
      | .num x, .num y => x ≤ y
      | _, _ => False) ∧
    FLe (writeLimit v2 (ctrQuota stdConsts cfg c)) (writeLimit v2 (podQuota stdConsts cfg cs)) ∧
    FLe (writeLimit v2 (ctrMem c)) (writeLimit v2 (podMem cs)) := by
  intro cs
  have hmem : c ∈ cs := List.mem_map.mpr ⟨(i, c), hc, rfl⟩
  refine ⟨?_, writeLimit_le v2 _ _ (pod_quota_ge_container cfg hs cs c hmem),
    writeLimit_le v2 _ _ (pod_mem_ge_container cs c hmem)⟩
  unfold writeShares
  cases v2
  · simpa using pod_shares_ge_container cs c hmem
  · simpa using pod_weight_ge_container cs c hmem

/-- a container without a status / container id (no cgroup yet) is left alone by the reconciler path and by the
    rule callbacks, whatever it declares; with an id the reconciler request is the one of `ctrFromReconciler`. -/
theorem no_status_no_write (k : Consts) (cfg : Cfg) (isBE v2 : Bool) (init : Files) (pod : List (Option Ctr))
    (a : Ann) (i : Nat) :
    applyOut v2 init (ctrEntry k cfg isBE (ctrFromReconcilerSt false pod a i)) = init ∧
    applyQuota v2 init (ctrEntry k cfg isBE (ctrFromReconcilerSt false pod a i)) = init ∧
    ctrFromReconcilerSt true pod a i = ctrFromReconciler pod a i := by
  simp [ctrFromReconcilerSt, ctrEntry, applyOut, applyQuota]

/-! ### 10. rule glue: NodeSLO shape and ratio annotation -/

/-- the CFS quota of BE pods is given up exactly for an explicit BE strategy that is ENABLED and uses the cfsQuota
    policy; nil spec, missing strategy, unset policy (default strategy), `enable: false` and the cpuset policy all keep it. -/
theorem slo_glue (s : SloShape) : sloEnablesCFS s = false ↔ s = .strategy true 2 := by
  cases s with
  | nilSpec => simp [sloEnablesCFS, suppressPolicyOf]
  | noStrategy => simp [sloEnablesCFS, suppressPolicyOf]
  | strategy e p =>
    unfold sloEnablesCFS suppressPolicyOf
    by_cases hp : p = 0
    · subst hp; simp
    · cases e <;> simp [hp]

/-- an absent ratio annotation is the -1 sentinel ("no ratio": a stored ratio is reset, see `ratio_removed_resets`),
    a malformed or non-positive one is an error that leaves the rule alone, a positive one is taken as it is. -/
theorem ratio_glue (changed : Int → Int → Bool) (r : Rule) :
    ratioEv .absent = .nodeRatio (-100) ∧
    (Rule.step changed r (ratioEv .malformed)) = (r, false) ∧
    (∀ p, p ≤ 0 → (Rule.step changed r (ratioEv (.value p))) = (r, false)) ∧
    (∀ p, 0 < p → ratioEv (.value p) = .nodeRatio p) := by
  refine ⟨rfl, rfl, ?_, ?_⟩
  · intro p hp; simp [ratioEv, hp, Rule.step]
  · intro p hp
    have : ¬ p ≤ 0 := by omega
    simp [ratioEv, this]

/-! ### non-vacuity -/

example : ChangedOK (fun a b => decide (a ≠ b)) := ⟨fun a b h => by simp; omega, fun a => by simp⟩


example : ScaleOK (fun q => (q * 100 + 109) / 110) := by
  refine ⟨?_, ?_, ?_⟩ <;> intros <;> omega

example : podQuota stdConsts ⟨true, false, id⟩ [⟨500, 1000, 64⟩, ⟨100, 5, 64⟩] = 100500 := by decide

-- the hypotheses of the entry-path theorems are satisfiable on non-trivial inputs
example : webhookDump [some ⟨500, 1000, 64⟩, none, some ⟨100, 5, 64⟩] = .valid [(0, ⟨500, 1000, 64⟩), (2, ⟨100, 5, 64⟩)] := by decide
example : ∀ m, getExtSpec .nullCtrs ≠ some (some m) := by intro m; simp [getExtSpec]
example : ctrFromReconciler [some ⟨500, 1000, 64⟩, none] .absent 0 = some ⟨500, 1000, 64⟩ ∧ ctrFromNri .absent 0 = none := by decide

/-! ### 12. runtime-proxy mode: the hook answer reaches the CRI request -/

/-- the oracle's rule, field by field: a set answer (quota: ANY non-zero value, so -1 too; period / shares /
    memory: positive) replaces what the executor held, an unset one keeps it; cpuset strings follow the answer. -/
theorem proxy_merge_rule (a b : CriRes) :
    (mergeHook a b).quota = (if b.quota ≠ 0 then b.quota else a.quota) ∧
    (mergeHook a b).shares = (if b.shares > 0 then b.shares else a.shares) ∧
    (mergeHook a b).mem = (if b.mem > 0 then b.mem else a.mem) ∧
    (mergeHook a b).period = (if b.period > 0 then b.period else a.period) ∧
    (mergeHook a b).cpus = b.cpus ∧ (mergeHook a b).mems = b.mems := by
  simp [mergeHook]

/-- "undeclared limit means unlimited" on the runtime-proxy path: whenever the executor holds resources and the hook
    answers quota -1, the runtime is handed -1 -- at create and at ANY later update, whatever was checkpointed
    before and whatever the kubelet's update request carries. -/
theorem proxy_unlimited_quota_reaches_runtime (a req b : CriRes) (hb : b.quota = -1) :
    (proxyCreate req (.res b)).2.out.quota = -1 ∧
    (proxyUpdate (some (some a)) req (.res b)).2.out.quota = -1 := by
  simp [proxyCreate, proxyUpdate, applyResp, mergeHook, hb]

/-- more generally every non-zero quota answer is what the runtime gets, and it is what the checkpoint remembers. -/
theorem proxy_quota_answer_wins (a req b : CriRes) (hb : b.quota ≠ 0) :
    (proxyUpdate (some (some a)) req (.res b)).2.out.quota = b.quota ∧
    (proxyUpdate (some (some a)) req (.res b)).1 = some (some (proxyUpdate (some (some a)) req (.res b)).2.out) := by
  simp [proxyUpdate, applyResp, mergeHook, hb]

/-- the two-step history of the finding class: a finite quota injected at create is remembered; an update whose
    answer leaves the quota unset hands the runtime that finite quota again, an answer of -1 lifts it. -/
theorem proxy_two_step_history (orig f req b : CriRes) (hf : f.quota > 0) (hreq : req.quota = 0) :
    let ck := (proxyCreate orig (.res f)).1
    (b.quota = 0 → (proxyUpdate ck req (.res b)).2.out.quota = f.quota) ∧
    (b.quota = -1 → (proxyUpdate ck req (.res b)).2.out.quota = -1) := by
  have hf' : f.quota ≠ 0 := by omega
  simp [proxyCreate, proxyUpdate, applyResp, mergeHook, mergeUpd, hf', hreq]
  exact ⟨fun h h' => absurd h h', fun h => by simp [h]⟩

/-- the kubelet's own update request: a set value is what the hook is shown, an unset one shows the remembered value. -/
theorem proxy_update_request_rule (a req : CriRes) (resp : HookResp) :
    (proxyUpdate (some (some a)) req resp).2.hook = some (some (mergeUpd a req)) ∧
    (mergeUpd a req).quota = (if req.quota ≠ 0 then req.quota else a.quota) ∧
    (mergeUpd a req).shares = (if req.shares > 0 then req.shares else a.shares) ∧
    (mergeUpd a req).mem = (if req.mem > 0 then req.mem else a.mem) := by
  simp [proxyUpdate, mergeUpd]

/-- no answer: the request passes as sent; an answer without resources: the runtime gets the executor's state. -/
theorem proxy_no_answer (a req : CriRes) :
    (proxyUpdate (some (some a)) req .noResp).2.out = req ∧
    (proxyUpdate (some (some a)) req .noRes).2.out = mergeUpd a req ∧
    (proxyCreate req .noResp).2.out = req ∧ (proxyCreate req .noRes).2.out = req := by
  simp [proxyUpdate, proxyCreate, applyResp]

/-- composition with the koordlet half: for a BE container with a spec the runtime is handed exactly the
    conversion of the declared amounts for shares and quota (unlimited = -1 included), and the declared memory
    limit; an undeclared memory limit (-1) leaves the memory field of the request as the hook saw it. -/
theorem proxy_runtime_gets_conversion (cfg : Cfg) (hs : ScaleOK cfg.scale) (c : Ctr) (a req : CriRes) :
    let seen := mergeUpd a req
    let out := (proxyUpdate (some (some a)) req (.res (koordletAnswer seen (ctrEntry stdConsts cfg true (some c))))).2.out
    out.shares = ctrShares stdConsts c ∧ out.quota = ctrQuota stdConsts cfg c ∧
    out.mem = (if c.mem > 0 then c.mem else seen.mem) ∧
    out.period = seen.period ∧ out.cpus = seen.cpus ∧ out.mems = seen.mems := by
  have hsh : ctrShares stdConsts c > 0 := by
    unfold ctrShares; rw [std_shares]; split <;> omega
  have hq : ctrQuota stdConsts cfg c ≠ 0 := by
    unfold ctrQuota
    by_cases hc : cfg.cfs = true
    · simp only [hc, Bool.not_true, Bool.false_eq_true, if_false]
      unfold applyScale; rw [std_quota]
      by_cases hl : c.lim > 0
      · have hl' : ¬ c.lim ≤ 0 := by omega
        simp only [hl, if_true, hl', if_false]
        have hpos : 0 < max 1000 (c.lim * 100) := by omega
        by_cases hr : cfg.ratioGt1 = true
        · have := hs.pos _ hpos
          simp [hr, hpos]; omega
        · simp [hr]; omega
      · simp [hl]
    · simp [hc]
  have hm : ctrMem c = if c.mem > 0 then c.mem else -1 := by
    unfold ctrMem; by_cases h : c.mem > 0
    · have : ¬ c.mem ≤ 0 := by omega
      simp [h, this]
    · simp [h]
  simp only [proxyUpdate, applyResp, ctrEntry, ctrHook, koordletAnswer, Option.map, Option.getD, mergeHook]
  simp only [Bool.not_true, Bool.false_eq_true, if_false]
  refine ⟨by simp [hsh], by simp [hq], ?_, by simp, trivial, trivial⟩
  rw [hm]; by_cases h : c.mem > 0 <;> simp [h]

/-- the memory quirk of the code as written: an "unlimited" MEMORY answer over a finite remembered limit is NOT taken
    over (only positive values are).  Tagged by harness `criproxy`, reported, not failed. -/
theorem proxy_memory_unlimited_not_taken_counterexample :
    ¬ ∀ a b : CriRes, b.mem = -1 → (mergeHook a b).mem = -1 := by
  intro h
  have := h ⟨100000, 0, 2, 1024, 0, 0⟩ ⟨0, 0, 0, -1, 0, 0⟩ rfl
  revert this; decide

/-- a container known only from fail-over has no resources: the answer does not reach the request. -/
theorem proxy_failover_answer_not_applied (req b : CriRes) :
    (proxyUpdate (some none) req (.res b)).2.out = req ∧ (proxyUpdate none req (.res b)).2.out = req := by
  simp [proxyUpdate, applyResp]

example : (proxyUpdate (proxyCreate ⟨100000, 0, 2, 0, 0, 0⟩ (.res ⟨100000, 50000, 512, 1 <<< 30, 0, 0⟩)).1 CriRes.zero
    (.res ⟨100000, -1, 512, 1 <<< 30, 0, 0⟩)).2.out.quota = -1 := by decide

end KoordVerif.C14
