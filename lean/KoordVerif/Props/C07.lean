import KoordVerif.Proofs.C07Base
import KoordVerif.Proofs.C07Ext
import KoordVerif.Model.C07RO
import KoordVerif.Model.C07Shape
import KoordVerif.Proofs.C07Ext3
import KoordVerif.Proofs.C07Ext6
/-
C07 — property theorems (DESIGN.md §4 C07).  All amounts are read value-wise: `drVal d minor k` is the
amount of resource dimension `k` on device `minor`, a missing map entry or key counting as 0.
A history is any list of `Op`s (updateCacheUsed add / remove with CALLER-SUPPLIED allocations, inventory
refresh) replayed from the empty ledger of one device type.
-/
namespace KoordVerif.C07

def DRNonneg (d : DevRes) : Prop := ∀ m k, 0 ≤ drVal d m k

/-- amounts carried by an operation are non-negative (quantities of the Device CR / the allocation annotation) -/
def OpWF : Op → Prop
  | .add _ al => AlNonneg al
  | .remove _ al => AlNonneg al
  | .refresh nt => DRNonneg nt

/-- free = (total − used)⁺ on every device and dimension -/
def FreeEq (s : TState) : Prop :=
  ∀ m k, drVal s.free m k = max 0 (drVal s.total m k - drVal s.used m k)

structure Inv1 (s : TState) : Prop where
  tpos : DRNonneg s.total
  upos : DRNonneg s.used
  free : FreeEq s

theorem inv1_empty : Inv1 TState.empty := by
  refine ⟨?_, ?_, ?_⟩ <;> intro m k <;> simp [TState.empty, drVal, drGetD, drGet, rlVal_nil]

theorem inv1_resetFree (s : TState) (ht : DRNonneg s.total) (hu : DRNonneg s.used) : Inv1 (resetFree s) := by
  refine ⟨?_, ?_, ?_⟩
  · intro m k; rw [resetFree_total_val]; exact ht m k
  · intro m k; rw [resetFree_used]; exact hu m k
  · intro m k
    rw [resetFree_free_val s m k (ht m k) (hu m k), resetFree_total_val, resetFree_used]

theorem inv1_setPods (s : TState) (x : List (Nat × DevRes)) (h : Inv1 s) : Inv1 { s with pods := x } :=
  ⟨h.tpos, h.upos, h.free⟩

/-! ### 1. free = (total − used)⁺ always -/

theorem step_preserves_inv1 (s : TState) (op : Op) (h : Inv1 s) (hop : OpWF op) : Inv1 (step s op) := by
  cases op with
  | add p al =>
    simp only [step, addT]
    split
    · exact h
    · apply inv1_setPods
      apply inv1_resetFree
      · exact h.tpos
      · intro m k
        show 0 ≤ drVal (usedAdd s.used al) m k
        rw [usedAdd_val]
        have := alSum_nonneg al hop m k
        have := h.upos m k
        omega
  | remove p al =>
    simp only [step, removeT]
    split
    · exact h
    · apply inv1_setPods
      apply inv1_resetFree
      · exact h.tpos
      · intro m k
        show 0 ≤ drVal (usedSub s.used al) m k
        rw [usedSub_val al hop _ _ _ (h.upos m k)]
        omega
  | refresh nt =>
    simp only [step, refreshT]
    apply inv1_resetFree
    · exact hop
    · exact h.upos

theorem run_inv1 (ops : List Op) : ∀ (s : TState), Inv1 s → (∀ op ∈ ops, OpWF op) → Inv1 (run s ops) := by
  induction ops with
  | nil => intro s h _; exact h
  | cons op rest ih =>
    intro s h hw
    simp only [run, List.foldl]
    exact ih _ (step_preserves_inv1 s op h (hw op (by simp))) (fun o ho => hw o (by simp [ho]))

/-- **free_eq**: after ANY history (any interleaving of adds, removals with arbitrary caller-supplied
    allocations, duplicate events, inventory refreshes) free = max 0 (total − used) on every device and
    dimension, and total, used ≥ 0. -/
theorem free_eq (ops : List Op) (hw : ∀ op ∈ ops, OpWF op) (m k : Nat) :
    let s := run TState.empty ops
    drVal s.free m k = max 0 (drVal s.total m k - drVal s.used m k) ∧
      0 ≤ drVal s.used m k ∧ 0 ≤ drVal s.total m k ∧ drVal s.free m k ≤ drVal s.total m k := by
  have h := run_inv1 ops _ inv1_empty hw
  have h1 := h.free m k
  have h2 := h.upos m k
  have h3 := h.tpos m k
  refine ⟨h1, h2, h3, ?_⟩
  omega

/-! ### 6. duplicate add / removal of an absent pod are no-ops -/

theorem dup_add_noop (s : TState) (p : Nat) (al : List (Nat × RL)) (h : hasPod s p = true) :
    addT s p al = s := by simp [addT, h]

theorem remove_absent_noop (s : TState) (p : Nat) (al : List (Nat × RL)) (h : hasPod s p = false) :
    removeT s p al = s := by simp [removeT, h]

example : hasPod (addT TState.empty 7 [(0, [some 50])]) 7 = true := by decide

/-! ### 2. used = Σ live allocations — step equations

The FULL statement `used_eq_sum` (all histories satisfying the decidable predicate `histExact`: amounts ≥ 0, one entry
per minor, every accepted removal carries the recorded allocation) is proved in the extension section below; these
two step equations (kept under their original `_partial` names) hold for ANY caller-supplied allocation: each
accepted add raises `used` by exactly the supplied amounts, each accepted removal lowers it by exactly the
CALLER-SUPPLIED amounts, truncated at 0 (so a stale removal is where the sum can break). -/

theorem used_step_add_partial (s : TState) (p : Nat) (al : List (Nat × RL)) (h : hasPod s p = false) (m k : Nat) :
    drVal (addT s p al).used m k = drVal s.used m k + alSum al m k := by
  simp only [addT, h]
  show drVal (usedAdd s.used al) m k = _
  exact usedAdd_val al s.used m k

theorem used_step_remove_partial (s : TState) (p : Nat) (al : List (Nat × RL)) (h : hasPod s p = true)
    (hal : AlNonneg al) (hu : DRNonneg s.used) (m k : Nat) :
    drVal (removeT s p al).used m k = max 0 (drVal s.used m k - alSum al m k) := by
  simp only [removeT, h]
  show drVal (usedSub s.used al) m k = _
  exact usedSub_val al hal s.used m k (hu m k)

/-- a removal that carries something else than what was recorded leaves `used` ≠ Σ live (here: pod 1 holds 50, the
    removal event says 20; afterwards nothing is live but 30 stay in use) -/
theorem stale_remove_counterexample :
    let s := removeT (addT (refreshT TState.empty [(0, [some 100])]) 1 [(0, [some 50])]) 1 [(0, [some 20])]
    s.pods = [] ∧ drVal s.used 0 0 = 30 := by decide

/-! ### 3. over-commit: who can create it -/

/-- a removal never increases any in-use amount -/
theorem remove_used_le (s : TState) (p : Nat) (al : List (Nat × RL)) (hal : AlNonneg al)
    (hu : DRNonneg s.used) (m k : Nat) :
    drVal (removeT s p al).used m k ≤ drVal s.used m k := by
  simp only [removeT]
  split
  · omega
  · show drVal (usedSub s.used al) m k ≤ _
    rw [usedSub_val al hal _ _ _ (hu m k)]
    have := alSum_nonneg al hal m k
    have := hu m k
    omega

/-- an inventory refresh leaves `used` alone and installs the new totals: the device is over-committed
    afterwards IFF the new total is below what is in use (the branch the truncated subtraction hides in `free`). -/
theorem refresh_no_overcommit_iff (s : TState) (nt : DevRes) (m k : Nat) :
    drVal (refreshT s nt).used m k ≤ drVal (refreshT s nt).total m k ↔ drVal s.used m k ≤ drVal nt m k := by
  simp only [refreshT, resetFree_total_val, resetFree_used]

theorem refresh_used_unchanged (s : TState) (nt : DevRes) : (refreshT s nt).used = s.used := rfl

/-! ### 4./5. the allocator -/

def KeysNodup (d : DevRes) : Prop := (d.map (·.1)).Nodup

theorem drGet_of_mem (d : DevRes) (h : KeysNodup d) (m : Nat) (f : RL) (hm : (m, f) ∈ d) :
    drGet d m = some f := by
  induction d with
  | nil => simp at hm
  | cons p r ih =>
    obtain ⟨k, w⟩ := p
    simp only [KeysNodup, List.map_cons, List.nodup_cons] at h
    simp only [List.mem_cons, Prod.mk.injEq] at hm
    simp only [drGet]
    rcases hm with ⟨h1, h2⟩ | hm
    · simp [h1, h2]
    · have : k ≠ m := by
        intro hk; subst hk
        exact h.1 (List.mem_map.mpr ⟨(k, f), hm, rfl⟩)
      simp [this, ih h.2 hm]

theorem effMax_ge (a : AllocReq) : effDesired a ≤ effMax a := by
  unfold effMax; simp only []; split <;> split <;> omega

theorem insCand_perm (le : Nat × RL → Nat × RL → Bool) (x : Nat × RL) (l : DevRes) :
    (insCand le x l).Perm (x :: l) := by
  induction l with
  | nil => exact List.Perm.refl _
  | cons y ys ih =>
    simp only [insCand]
    split
    · exact List.Perm.refl _
    · exact (ih.cons y).trans (List.Perm.swap x y ys)

theorem sortCands_perm (free : DevRes) (pref : List Nat) : (sortCands free pref).Perm free := by
  induction free with
  | nil => exact List.Perm.refl _
  | cons x xs ih =>
    simp only [sortCands, List.foldr] at *
    exact (insCand_perm _ x _).trans (ih.cons x)

/-- the request asks only for resources the chosen device exposes (holds for homogeneous inventories; without it
    `LessThanOrEqual` silently accepts the missing key — see `missing_dimension_counterexample`) -/
def Covered (req f : RL) : Prop := ∀ k, (rlAt req k).isSome → (rlAt f k).isSome

/-- **alloc_sound**, one-state form with the map-ness of `free` (`KeysNodup`) as a hypothesis; `keys_nodup` proves it
    over all histories and `alloc_sound` below is the full statement: a successful allocation returns between desired and maxDesired
    DISTINCT minors, each permitted, each a non-zero device whose free amount covers the request. -/
theorem alloc_sound_partial (s : TState) (a : AllocReq) (ms : List Nat) (hk : KeysNodup s.free)
    (h : allocate s a = some ms) :
    effDesired a ≤ ms.length ∧ ms.length ≤ effMax a ∧ ms.Nodup ∧
    ∀ m ∈ ms, (a.required = [] ∨ m ∈ a.required) ∧
      ∃ f, drGet s.free m = some f ∧ rlIsZero f = false ∧ rlLeq a.req f = true ∧
        (Covered a.req f → ∀ k, 0 ≤ rlVal a.req k → 0 ≤ rlVal f k → rlVal a.req k ≤ rlVal f k) := by
  unfold allocate allocateFrom at h
  simp only [] at h
  split at h
  · exact absurd h (by simp)
  · rename_i hlen
    injection h with h
    subst h
    have hperm := sortCands_perm s.free a.preferred
    refine ⟨by omega, by simp [List.length_take]; omega, ?_, ?_⟩
    · have hk' : (s.free.map (fun p : Nat × RL => p.1)).Nodup := hk
      have h1 : ((sortCands s.free a.preferred).map (fun p : Nat × RL => p.1)).Nodup :=
        (hperm.map (fun p : Nat × RL => p.1)).nodup_iff.mpr hk'
      have h2 : (((sortCands s.free a.preferred).filter (qualifies a)).map (·.1)).Nodup :=
        List.Nodup.sublist (List.Sublist.map _ List.filter_sublist) h1
      exact List.Nodup.sublist (List.take_sublist _ _) h2
    · intro m hm
      have hm' := List.mem_of_mem_take hm
      obtain ⟨⟨m', f⟩, hmem, rfl⟩ := List.mem_map.mp hm'
      obtain ⟨hin, hq⟩ := List.mem_filter.mp hmem
      have hin' : (m', f) ∈ s.free := hperm.mem_iff.mp hin
      simp only [qualifies, Bool.and_eq_true, Bool.or_eq_true, Bool.not_eq_true'] at hq
      obtain ⟨⟨hreq, hz⟩, hle⟩ := hq
      refine ⟨?_, f, drGet_of_mem _ hk _ _ hin', hz, hle, ?_⟩
      · rcases hreq with h | h
        · left; simpa using h
        · right; simpa using h
      · intro hcov k ha hf
        rcases rlLeq_val a.req f k hle (hcov k) ha hf with h | h <;> omega

/-- **alloc_complete**: the allocator fails only when fewer than `desired` candidates qualify
    (permitted minor, non-zero free, request ≤ free). -/
theorem alloc_complete (s : TState) (a : AllocReq) (h : allocate s a = none) :
    numQualifying s a < effDesired a := by
  unfold allocate allocateFrom at h
  simp only [] at h
  split at h
  · rename_i hlen
    have hperm := sortCands_perm s.free a.preferred
    have hl : ((sortCands s.free a.preferred).filter (qualifies a)).length = numQualifying s a :=
      (hperm.filter _).length_eq
    have := effMax_ge a
    simp only [List.length_take, List.length_map] at hlen
    omega
  · exact absurd h (by simp)

/-- … and then no set of `desired` distinct qualifying devices exists. -/
theorem alloc_complete_sets (s : TState) (a : AllocReq) (hk : KeysNodup s.free) (h : allocate s a = none)
    (S : List Nat) (hS : S.Nodup)
    (hq : ∀ m ∈ S, ∃ f, (m, f) ∈ s.free ∧ qualifies a (m, f) = true) : S.length < effDesired a := by
  have hc := alloc_complete s a h
  have hsub : S ⊆ (s.free.filter (qualifies a)).map (·.1) := by
    intro m hm
    obtain ⟨f, hin, hqq⟩ := hq m hm
    exact List.mem_map.mpr ⟨(m, f), List.mem_filter.mpr ⟨hin, hqq⟩, rfl⟩
  have hlen : S.length ≤ ((s.free.filter (qualifies a)).map (·.1)).length :=
    List.Nodup.length_le_of_subset hS hsub
  simp only [List.length_map] at hlen
  unfold numQualifying at hc
  omega

/-! ### 3. allocate-then-commit never over-commits -/

theorem alSum_allocList (a : AllocReq) (ms : List Nat) (hn : ms.Nodup) (m k : Nat) :
    alSum (allocList a ms) m k = if m ∈ ms then rlVal a.req k else 0 := by
  induction ms with
  | nil => simp [allocList, alSum]
  | cons x xs ih =>
    simp only [List.nodup_cons] at hn
    simp only [allocList, List.map_cons, alSum] at *
    rw [ih hn.2]
    by_cases h : x = m
    · subst h; simp [hn.1]
    · simp [h, Ne.symm h]

/-- commit_no_overcommit, first form (every device of the type covers the request); superseded by
    `commit_no_overcommit` / `no_overcommit` / `sched_no_overcommit` below, which need it only for the CHOSEN devices
    and discharge `Inv1` / `KeysNodup` over histories. -/
theorem commit_no_overcommit_partial (s : TState) (a : AllocReq) (ms : List Nat) (p : Nat)
    (hinv : Inv1 s) (hk : KeysNodup s.free) (h : allocate s a = some ms)
    (hreq : ∀ k, 0 ≤ rlVal a.req k)
    (hcov : ∀ m f, drGet s.free m = some f → Covered a.req f)
    (m k : Nat) (hle : drVal s.used m k ≤ drVal s.total m k) :
    drVal (addT s p (allocList a ms)).used m k ≤ drVal (addT s p (allocList a ms)).total m k := by
  obtain ⟨_, _, hnd, hall⟩ := alloc_sound_partial s a ms hk h
  simp only [addT]
  split
  · exact hle
  · show drVal (resetFree { s with used := usedAdd s.used (allocList a ms) }).used m k ≤
      drVal (resetFree { s with used := usedAdd s.used (allocList a ms) }).total m k
    rw [resetFree_total_val, resetFree_used]
    show drVal (usedAdd s.used (allocList a ms)) m k ≤ drVal s.total m k
    rw [usedAdd_val, alSum_allocList a ms hnd]
    by_cases hm : m ∈ ms
    · obtain ⟨_, f, hf, _, hleq, hval⟩ := hall m hm
      have hfv : drVal s.free m k = rlVal f k := by simp [drVal, drGetD, hf]
      have hfe := hinv.free m k
      have hu := hinv.upos m k
      have ht := hinv.tpos m k
      have hf0 : 0 ≤ rlVal f k := by rw [← hfv, hfe]; omega
      have := hval (hcov m f hf) k (hreq k) hf0
      simp only [hm, if_true]
      by_cases hz : rlVal a.req k = 0
      · omega
      · have : 0 < rlVal a.req k := by have := hreq k; omega
        omega
    · simp [hm]; exact hle

/-! ## Extension: the `_partial` hypotheses discharged over histories -/


/-! ### the ledgers stay maps over every history -/

structure Inv3 (s : TState) : Prop where
  tk : KeysNodup s.total
  fk : KeysNodup s.free
  uk : KeysNodup s.used

theorem inv3_empty : Inv3 TState.empty := by
  refine ⟨?_, ?_, ?_⟩ <;> simp [KeysNodup, TState.empty]

theorem inv3_resetFree (s : TState) (ht : KeysNodup s.total) (hu : KeysNodup s.used) : Inv3 (resetFree s) := by
  obtain ⟨h1, h2, h3⟩ := keysNodup_resetFree s ht hu
  exact ⟨h1, h2, h3⟩

theorem inv3_setPods (s : TState) (x : List (Nat × DevRes)) (h : Inv3 s) : Inv3 { s with pods := x } :=
  ⟨h.tk, h.fk, h.uk⟩

theorem opWF_of_B (op : Op) (h : opWFB op = true) : OpWF op := by
  cases op with
  | add p al => exact alNonneg_of al h
  | remove p al => exact alNonneg_of al h
  | refresh nt =>
    simp only [opWFB, invOK, Bool.and_eq_true] at h
    exact fun m k => drVal_nonneg_of nt h.1 m k

theorem step_preserves_inv3 (s : TState) (op : Op) (h : Inv3 s) (hop : opWFB op = true) : Inv3 (step s op) := by
  cases op with
  | add p al =>
    simp only [step, addT]
    split
    · exact h
    · exact inv3_setPods _ _
        (inv3_resetFree { s with used := usedAdd s.used al } h.tk (keysNodup_usedAdd al s.used h.uk))
  | remove p al =>
    simp only [step, removeT]
    split
    · exact h
    · exact inv3_setPods _ _
        (inv3_resetFree { s with used := usedSub s.used al } h.tk (keysNodup_usedSub al s.used h.uk))
  | refresh nt =>
    simp only [opWFB, invOK, Bool.and_eq_true] at hop
    exact inv3_resetFree { s with total := nt } ((nodupB_iff _).mp hop.2) h.uk

theorem run_inv3 (ops : List Op) : ∀ (s : TState), Inv3 s → histWFB ops = true → Inv3 (run s ops) := by
  induction ops with
  | nil => intro s h _; exact h
  | cons op rest ih =>
    intro s h hw
    simp only [histWFB, List.all_cons, Bool.and_eq_true] at hw
    simp only [run, List.foldl]
    exact ih _ (step_preserves_inv3 s op h hw.1) hw.2

theorem histWF_forall (ops : List Op) (hw : histWFB ops = true) : ∀ op ∈ ops, OpWF op := by
  intro op hop
  simp only [histWFB, List.all_eq_true] at hw
  exact opWF_of_B op (hw op hop)

/-- **keys_nodup**: after ANY history (weakly well-formed: amounts ≥ 0, inventories are maps) total, free and used
    have one entry per minor. -/
theorem keys_nodup (ops : List Op) (hw : histWFB ops = true) :
    let s := run TState.empty ops
    KeysNodup s.total ∧ KeysNodup s.free ∧ KeysNodup s.used := by
  have h := run_inv3 ops _ inv3_empty hw
  exact ⟨h.tk, h.fk, h.uk⟩

/-! ### 2. used = Σ allocateSet over exact histories -/

structure Inv2 (s : TState) : Prop where
  pk : (s.pods.map (·.1)).Nodup
  rpos : ∀ e ∈ s.pods, ∀ m k, 0 ≤ drVal e.2 m k
  sum : ∀ m k, drVal s.used m k = podsSum s.pods m k

theorem inv2_empty : Inv2 TState.empty := by
  refine ⟨?_, ?_, ?_⟩
  · simp [TState.empty]
  · intro e he; simp [TState.empty] at he
  · intro m k; simp [TState.empty, podsSum, drVal, drGetD, drGet, rlVal_nil]

theorem step_preserves_inv2 (s : TState) (op : Op) (h : Inv2 s) (hop : opExact s op = true) : Inv2 (step s op) := by
  cases op with
  | add p al =>
    simp only [step, addT]
    cases hp : hasPod s p with
    | true => simpa using h
    | false =>
      simp only [opExact, hp, Bool.false_or, alOK, Bool.and_eq_true] at hop
      have hn : (al.map (·.1)).Nodup := (nodupB_iff _).mp hop.2
      have hal := alNonneg_of al hop.1
      have hget : podsGet s.pods p = none := by
        have := hasPod_iff_get s p
        rw [hp] at this
        cases hg : podsGet s.pods p with
        | none => rfl
        | some r => rw [hg] at this; simp at this
      simp only [Bool.false_eq_true, if_false]
      refine ⟨?_, ?_, ?_⟩
      · show ((s.pods ++ [(p, recOf al)]).map (·.1)).Nodup
        rw [List.map_append]
        apply nodup_append_of _ _ h.pk (by simp)
        intro x hx
        simp only [List.map_cons, List.map_nil, List.mem_singleton] at hx
        subst hx
        exact podsGet_none_not_mem s.pods x hget
      · intro e he m k
        have he' : e ∈ s.pods ++ [(p, recOf al)] := he
        rcases List.mem_append.mp he' with h1 | h1
        · exact h.rpos e h1 m k
        · simp only [List.mem_singleton] at h1
          subst h1
          show 0 ≤ drVal (recOf al) m k
          rw [recOf_val al hn]
          exact alSum_nonneg al hal m k
      · intro m k
        show drVal (usedAdd s.used al) m k = podsSum (s.pods ++ [(p, recOf al)]) m k
        rw [usedAdd_val, podsSum_append, h.sum m k]
        simp [podsSum, recOf_val al hn]
  | remove p al =>
    simp only [step, removeT]
    cases hg : podsGet s.pods p with
    | none =>
      have : hasPod s p = false := by rw [hasPod_iff_get, hg]; rfl
      simpa [this] using h
    | some r =>
      have hp : hasPod s p = true := by rw [hasPod_iff_get, hg]; rfl
      simp only [opExact, hg, alOK, Bool.and_eq_true, decide_eq_true_eq] at hop
      obtain ⟨⟨hamt, hnd⟩, hrec⟩ := hop
      have hn : (al.map (·.1)).Nodup := (nodupB_iff _).mp hnd
      have hal := alNonneg_of al hamt
      simp only [hp, Bool.not_true, Bool.false_eq_true, if_false]
      refine ⟨?_, ?_, ?_⟩
      · show ((s.pods.filter (fun e => e.1 != p)).map (·.1)).Nodup
        exact List.Nodup.sublist (List.Sublist.map _ List.filter_sublist) h.pk
      · intro e he m k
        have he' : e ∈ s.pods.filter (fun e => e.1 != p) := he
        exact h.rpos e (List.mem_filter.mp he').1 m k
      · intro m k
        show drVal (usedSub s.used al) m k = podsSum (s.pods.filter (fun e => e.1 != p)) m k
        have hu : 0 ≤ drVal s.used m k := by rw [h.sum]; exact podsSum_nonneg s.pods h.rpos m k
        rw [usedSub_val al hal _ _ _ hu, h.sum m k, podsSum_filter s.pods p r h.pk hg m k,
          ← hrec, recOf_val al hn]
        have := podsSum_nonneg (s.pods.filter (fun e => e.1 != p))
          (fun e he => h.rpos e (List.mem_filter.mp he).1) m k
        omega
  | refresh nt =>
    exact ⟨h.pk, h.rpos, h.sum⟩

theorem run_inv2 (ops : List Op) : ∀ (s : TState), Inv2 s → histExact s ops = true → Inv2 (run s ops) := by
  induction ops with
  | nil => intro s h _; exact h
  | cons op rest ih =>
    intro s h hw
    simp only [histExact, Bool.and_eq_true] at hw
    simp only [run, List.foldl]
    exact ih _ (step_preserves_inv2 s op h hw.1) hw.2

/-- **used_eq_sum**: over every history in which each accepted add carries a well-formed allocation (amounts ≥ 0,
    one entry per minor) and each accepted removal carries exactly what allocateSet recorded (`histExact`, a
    decidable predicate the harness evaluates on every generated history), the in-use amount of every device and
    dimension is the sum of the recorded allocations of the live pods, those pods are pairwise distinct and every
    recorded amount is ≥ 0. -/
theorem used_eq_sum (ops : List Op) (hx : histExact TState.empty ops = true) (m k : Nat) :
    let s := run TState.empty ops
    drVal s.used m k = podsSum s.pods m k ∧ (s.pods.map (·.1)).Nodup ∧ 0 ≤ podsSum s.pods m k := by
  have h := run_inv2 ops _ inv2_empty hx
  exact ⟨h.sum m k, h.pk, podsSum_nonneg _ h.rpos m k⟩

/-- a live pod's recorded allocation never exceeds what is in use (so an exact release can never hit the clamp) -/
theorem rec_le_used (ops : List Op) (hx : histExact TState.empty ops = true) (p : Nat) (r : DevRes)
    (hg : podsGet (run TState.empty ops).pods p = some r) (m k : Nat) :
    drVal r m k ≤ drVal (run TState.empty ops).used m k := by
  have h := run_inv2 ops _ inv2_empty hx
  rw [h.sum m k, podsSum_filter _ p r h.pk hg m k]
  have := podsSum_nonneg ((run TState.empty ops).pods.filter (fun e => e.1 != p))
    (fun e he => h.rpos e (List.mem_filter.mp he).1) m k
  omega

/-! ### 4. alloc_sound in full, 3. no_overcommit over all histories -/

/-- **alloc_sound**: in the state reached by ANY weakly well-formed history a successful allocation returns between
    desired and maxDesired DISTINCT minors, each permitted, each a non-zero device whose free entry satisfies
    `LessThanOrEqual(request, free)`; on a device that exposes every requested key that is request ≤ free. -/
theorem alloc_sound (ops : List Op) (hw : histWFB ops = true) (a : AllocReq) (ms : List Nat)
    (h : allocate (run TState.empty ops) a = some ms) :
    let s := run TState.empty ops
    effDesired a ≤ ms.length ∧ ms.length ≤ effMax a ∧ ms.Nodup ∧
    ∀ m ∈ ms, (a.required = [] ∨ m ∈ a.required) ∧
      ∃ f, drGet s.free m = some f ∧ rlIsZero f = false ∧ rlLeq a.req f = true ∧
        (Covered a.req f → ∀ k, 0 ≤ rlVal a.req k → rlVal a.req k ≤ rlVal f k) := by
  intro s
  have hk := (keys_nodup ops hw).2.1
  have hinv := run_inv1 ops _ inv1_empty (histWF_forall ops hw)
  obtain ⟨h1, h2, h3, h4⟩ := alloc_sound_partial s a ms hk h
  refine ⟨h1, h2, h3, ?_⟩
  intro m hm
  obtain ⟨hr, f, hf, hz, hle, hv⟩ := h4 m hm
  refine ⟨hr, f, hf, hz, hle, ?_⟩
  intro hcov k hreq
  have hfv : drVal s.free m k = rlVal f k := by simp [drVal, drGetD, hf]
  have hf0 : 0 ≤ rlVal f k := by
    rw [← hfv, hinv.free m k]; omega
  exact hv hcov k hreq hf0

/-- commit of the allocator's own result in a state with the invariants: `used ≤ total` is preserved wherever it
    held, provided the CHOSEN devices expose every requested key (`chosenCovered`, checked by the harness on every
    committed allocation of the main stream). -/
theorem commit_no_overcommit (s : TState) (a : AllocReq) (ms : List Nat) (p : Nat)
    (hinv : Inv1 s) (hk : KeysNodup s.free) (h : allocate s a = some ms)
    (hreq : rlNonneg a.req = true) (hcov : chosenCovered s a ms = true)
    (m k : Nat) (hle : drVal s.used m k ≤ drVal s.total m k) :
    drVal (addT s p (allocList a ms)).used m k ≤ drVal (addT s p (allocList a ms)).total m k := by
  obtain ⟨_, _, hnd, hall⟩ := alloc_sound_partial s a ms hk h
  have hreq' := rlVal_nonneg_of a.req hreq
  simp only [addT]
  split
  · exact hle
  · show drVal (resetFree { s with used := usedAdd s.used (allocList a ms) }).used m k ≤
      drVal (resetFree { s with used := usedAdd s.used (allocList a ms) }).total m k
    rw [resetFree_total_val, resetFree_used]
    show drVal (usedAdd s.used (allocList a ms)) m k ≤ drVal s.total m k
    rw [usedAdd_val, alSum_allocList a ms hnd]
    by_cases hm : m ∈ ms
    · obtain ⟨_, f, hf, _, hleq, hval⟩ := hall m hm
      have hc : Covered a.req f := by
        simp only [chosenCovered, List.all_eq_true] at hcov
        have := hcov m hm
        rw [hf] at this
        exact covered_of_B a.req f this
      have hfv : drVal s.free m k = rlVal f k := by simp [drVal, drGetD, hf]
      have hfe := hinv.free m k
      have hu := hinv.upos m k
      have ht := hinv.tpos m k
      have hf0 : 0 ≤ rlVal f k := by rw [← hfv, hfe]; omega
      have := hval hc k (hreq' k) hf0
      simp only [hm, if_true]
      by_cases hz : rlVal a.req k = 0
      · omega
      · have : 0 < rlVal a.req k := by have := hreq' k; omega
        omega
    · simp [hm]; exact hle

/-- **no_overcommit**: after ANY weakly well-formed history, allocate-then-commit never makes `used` exceed `total`
    on a device and dimension where it did not before. -/
theorem no_overcommit (ops : List Op) (hw : histWFB ops = true) (a : AllocReq) (ms : List Nat) (p : Nat)
    (h : allocate (run TState.empty ops) a = some ms)
    (hreq : rlNonneg a.req = true) (hcov : chosenCovered (run TState.empty ops) a ms = true) (m k : Nat)
    (hle : drVal (run TState.empty ops).used m k ≤ drVal (run TState.empty ops).total m k) :
    let s' := run TState.empty (ops ++ [Op.add p (allocList a ms)])
    drVal s'.used m k ≤ drVal s'.total m k := by
  intro s'
  have hs' : s' = addT (run TState.empty ops) p (allocList a ms) := by
    simp [s', run, List.foldl_append, step]
  rw [hs']
  exact commit_no_overcommit _ a ms p (run_inv1 ops _ inv1_empty (histWF_forall ops hw))
    (keys_nodup ops hw).2.1 h hreq hcov m k hle

/-! ### informer events (updatePod / deletePod) -/

/-- **used_eq_sum_events**: the same over histories of informer / scheduler EVENTS (updatePodOps / deletePodOps say
    which ledger ops an event performs): whenever the performed ops are exact, used = Σ allocateSet. -/
theorem used_eq_sum_events (evs : List Ev) (hx : histExact TState.empty (evs.flatMap evOps) = true) (m k : Nat) :
    drVal (runEv TState.empty evs).used m k = podsSum (runEv TState.empty evs).pods m k :=
  (used_eq_sum (evs.flatMap evOps) hx m k).1

/-- a FAITHFUL update is exact: the old object is assigned and carries exactly what the cache recorded for the pod, the
    new object is assigned, not terminated, and its annotation (if any) is well-formed — whatever the new annotation
    says (other minor, other amounts, absent). -/
theorem update_faithful_exact (s : TState) (p : Nat) (old new : PodObj) (al : List (Nat × RL)) (r : DevRes)
    (hrec : podsGet s.pods p = some r)
    (ho1 : old.assigned = true) (ho2 : old.alloc = some al) (ho3 : alOK al = true) (ho4 : recOf al = r)
    (hn1 : new.assigned = true) (hn2 : new.terminated = false)
    (hn3 : ∀ al', new.alloc = some al' → alOK al' = true) :
    histExact s (updatePodOps p (some old) new) = true := by
  simp only [updatePodOps, hn1, hn2, ho1, ho2, Bool.not_true, Bool.false_eq_true, if_false, if_true]
  cases hna : new.alloc with
  | none => simp [histExact, opExact, hrec, ho3, ho4]
  | some al' => simp [histExact, opExact, hrec, ho3, ho4, hn3 al' hna]

/-- … and afterwards the cache holds exactly the new object's allocation for the pod (or nothing). -/
theorem update_faithful_result (s : TState) (p : Nat) (old new : PodObj) (al : List (Nat × RL))
    (hp : hasPod s p = true)
    (ho1 : old.assigned = true) (ho2 : old.alloc = some al)
    (hn1 : new.assigned = true) (hn2 : new.terminated = false) :
    podsGet (run s (updatePodOps p (some old) new)).pods p = new.alloc.map recOf := by
  have hfilter : ∀ (l : List (Nat × DevRes)), podsGet (l.filter (fun e => e.1 != p)) p = none := by
    intro l
    induction l with
    | nil => rfl
    | cons e rest ih =>
      obtain ⟨q, rr⟩ := e
      by_cases hq : q = p
      · subst hq; simpa [List.filter_cons] using ih
      · have : (q != p) = true := by simp [hq]
        simp [List.filter_cons, this, podsGet, hq, ih]
  have happ : ∀ (l : List (Nat × DevRes)) (x : DevRes), podsGet l p = none → podsGet (l ++ [(p, x)]) p = some x := by
    intro l x
    induction l with
    | nil => intro _; simp [podsGet]
    | cons e rest ih =>
      obtain ⟨q, rr⟩ := e
      intro h
      by_cases hq : q = p
      · simp [podsGet, hq] at h
      · simp only [podsGet, hq, if_false] at h
        simp [podsGet, hq, ih h]
  simp only [updatePodOps, hn1, hn2, ho1, ho2, Bool.not_true, Bool.false_eq_true, if_false, if_true]
  have h1 : (removeT s p al).pods = s.pods.filter (fun e => e.1 != p) := by simp [removeT, hp, resetFree]
  cases hna : new.alloc with
  | none =>
    simp only [List.append_nil, run, List.foldl, step, Option.map_none]
    rw [h1]; exact hfilter _
  | some al' =>
    have hnp : hasPod (removeT s p al) p = false := by
      rw [hasPod_iff_get, h1, hfilter]; rfl
    simp only [List.singleton_append, run, List.foldl, step, Option.map_some]
    simp only [addT, hnp, Bool.false_eq_true, if_false]
    show podsGet ((removeT s p al).pods ++ [(p, recOf al')]) p = some (recOf al')
    rw [h1]
    exact happ _ _ (hfilter _)

/-- the annotation changes in the very update that reports the pod terminated: updatePod calls deletePod(NEW object),
    so the new annotation is subtracted while the old one was recorded (pod 1 holds 50 on device 0, the terminating
    update says 20): nothing is live afterwards, 30 stay in use for ever.  The history is not exact. -/
theorem terminated_update_counterexample :
    let o : PodObj := { assigned := true, terminated := false, alloc := some [(0, [some 50])] }
    let n : PodObj := { assigned := true, terminated := true, alloc := some [(0, [some 20])] }
    let evs := [Ev.device [(0, [some 100])], Ev.podAdd 1 o, Ev.podUpdate 1 o n]
    (runEv TState.empty evs).pods = [] ∧ drVal (runEv TState.empty evs).used 0 0 = 30 ∧
      histExact TState.empty (evs.flatMap evOps) = false := by decide

/-- Reserve records 50; the annotation that reaches the informer says 20 (edited by someone else): the add half is
    dropped by the duplicate gate, the later delete subtracts 20: 30 leak. -/
theorem dup_gate_then_delete_counterexample :
    let n : PodObj := { assigned := true, terminated := false, alloc := some [(0, [some 20])] }
    let evs := [Ev.device [(0, [some 100])], Ev.reserve 1 [(0, [some 50])],
      Ev.podUpdate 1 { assigned := false, terminated := false, alloc := none } n, Ev.podDelete 1 n]
    (runEv TState.empty evs).pods = [] ∧ drVal (runEv TState.empty evs).used 0 0 = 30 := by decide

/-- the same (old → new) update delivered twice is NOT idempotent when the annotation changed: the second delivery
    releases the old object's amounts from a pod that now holds the new ones (device 0: 50 → device 1: 50, twice:
    device 1 ends with 100 in use for one live pod holding 50). -/
theorem redelivered_update_counterexample :
    let o : PodObj := { assigned := true, terminated := false, alloc := some [(0, [some 50])] }
    let n : PodObj := { assigned := true, terminated := false, alloc := some [(1, [some 50])] }
    let evs := [Ev.device [(0, [some 100]), (1, [some 100])], Ev.podAdd 1 o, Ev.podUpdate 1 o n, Ev.podUpdate 1 o n]
    drVal (runEv TState.empty evs).used 1 0 = 100 ∧ podsSum (runEv TState.empty evs).pods 1 0 = 50 := by decide

example :
    let o : PodObj := { assigned := true, terminated := false, alloc := some [(0, [some 50])] }
    let n : PodObj := { assigned := true, terminated := false, alloc := some [(1, [some 70])] }
    let evs := [Ev.device [(0, [some 100]), (1, [some 100])], Ev.podAdd 1 o, Ev.podUpdate 1 o n]
    histExact TState.empty (evs.flatMap evOps) = true ∧ drVal (runEv TState.empty evs).used 0 0 = 0 ∧
      drVal (runEv TState.empty evs).used 1 0 = 70 := by decide

/-! ### scheduler histories: `used ≤ total` is an invariant -/

theorem alSum_mem_nodup (al : List (Nat × RL)) (hn : (al.map (·.1)).Nodup) (m : Nat) (r : RL) (hm : (m, r) ∈ al)
    (k : Nat) : alSum al m k = rlVal r k := by
  induction al with
  | nil => simp at hm
  | cons e rest ih =>
    obtain ⟨m', v⟩ := e
    simp only [List.map_cons, List.nodup_cons] at hn
    simp only [alSum]
    rcases List.mem_cons.mp hm with h | h
    · injection h with h1 h2
      subst h1; subst h2
      rw [alSum_not_mem rest m k hn.1]; simp
    · have hne : m' ≠ m := by
        intro he; subst he
        exact hn.1 (List.mem_map.mpr ⟨(m', r), h, rfl⟩)
      simp [hne, ih hn.2 h]

structure InvS (s : TState) : Prop where
  inv1 : Inv1 s
  le : ∀ m k, drVal s.used m k ≤ drVal s.total m k

theorem step_preserves_invS (s : TState) (op : Op) (h : InvS s) (hop : schedOK s op = true) : InvS (step s op) := by
  cases op with
  | add p al =>
    cases hp : hasPod s p with
    | true => simpa [step, addT, hp] using h
    | false =>
      simp only [schedOK, hp, Bool.false_or, Bool.and_eq_true, List.all_eq_true] at hop
      obtain ⟨hnd, hall⟩ := hop
      have hn : (al.map (·.1)).Nodup := (nodupB_iff _).mp hnd
      have hal : AlNonneg al := fun e he k => rlVal_nonneg_of e.2 (hall e he).1 k
      refine ⟨step_preserves_inv1 s _ h.inv1 hal, ?_⟩
      intro m k
      simp only [step, addT, hp, Bool.false_eq_true, if_false]
      show drVal (resetFree { s with used := usedAdd s.used al }).used m k ≤
        drVal (resetFree { s with used := usedAdd s.used al }).total m k
      rw [resetFree_total_val, resetFree_used]
      show drVal (usedAdd s.used al) m k ≤ drVal s.total m k
      rw [usedAdd_val]
      have hle := h.le m k
      by_cases hm : m ∈ al.map (·.1)
      · obtain ⟨⟨m', r⟩, hmem, hm'⟩ := List.mem_map.mp hm
        simp only at hm'
        subst hm'
        rw [alSum_mem_nodup al hn m' r hmem k]
        have hc := (hall (m', r) hmem).2
        have hr := rlVal_nonneg_of r (hall (m', r) hmem).1 k
        simp only at hc
        cases hf : drGet s.free m' with
        | none => rw [hf] at hc; simp at hc
        | some f =>
          rw [hf] at hc
          simp only [Bool.and_eq_true] at hc
          have hfv : drVal s.free m' k = rlVal f k := by simp [drVal, drGetD, hf]
          have hfe := h.inv1.free m' k
          have hf0 : 0 ≤ rlVal f k := by rw [← hfv, hfe]; omega
          rcases rlLeq_val r f k hc.1 (covered_of_B r f hc.2 k) hr hf0 with h1 | h1 <;> omega
      · rw [alSum_not_mem al m k hm]; omega
  | remove p al =>
    have hal : AlNonneg al := alNonneg_of al hop
    refine ⟨step_preserves_inv1 s _ h.inv1 hal, ?_⟩
    intro m k
    have h1 := remove_used_le s p al hal h.inv1.upos m k
    have h2 : drVal (removeT s p al).total m k = drVal s.total m k := by
      simp only [removeT]
      split
      · rfl
      · show drVal (resetFree { s with used := usedSub s.used al }).total m k = _
        rw [resetFree_total_val]
    simp only [step]
    have := h.le m k
    omega
  | refresh nt =>
    simp only [schedOK, Bool.and_eq_true, List.all_eq_true, List.mem_range, decide_eq_true_eq] at hop
    obtain ⟨hinv, hu⟩ := hop
    have hnt : DRNonneg nt := by
      simp only [invOK, Bool.and_eq_true] at hinv
      exact fun m k => drVal_nonneg_of nt hinv.1 m k
    refine ⟨step_preserves_inv1 s _ h.inv1 hnt, ?_⟩
    intro m k
    simp only [step]
    rw [refresh_no_overcommit_iff]
    cases hg : drGet s.used m with
    | none => rw [drVal_none s.used m k hg]; exact hnt m k
    | some v =>
      have hmem := drGet_mem s.used m v hg
      have hv : drVal s.used m k = rlVal v k := by simp [drVal, drGetD, hg]
      rw [hv]
      by_cases hk : k < v.length
      · exact hu (m, v) hmem k hk
      · rw [show rlVal v k = 0 by simp [rlVal, rlAt_none_of_ge v k (by omega), qVal]]
        exact hnt m k

theorem run_invS (ops : List Op) : ∀ (s : TState), InvS s → histSched s ops = true → InvS (run s ops) := by
  induction ops with
  | nil => intro s h _; exact h
  | cons op rest ih =>
    intro s h hw
    simp only [histSched, Bool.and_eq_true] at hw
    simp only [run, List.foldl]
    exact ih _ (step_preserves_invS s op h hw.1) hw.2

/-- **sched_no_overcommit**: over every history made of allocator-consistent commits, arbitrary (non-negative)
    removals, duplicate / unmatched events and inventory refreshes that stay at or above what is in use
    (`histSched`, decidable), NO device is ever over-committed in any dimension. -/
theorem sched_no_overcommit (ops : List Op) (h : histSched TState.empty ops = true) (m k : Nat) :
    drVal (run TState.empty ops).used m k ≤ drVal (run TState.empty ops).total m k :=
  (run_invS ops _ ⟨inv1_empty, by intro m k; simp [TState.empty, drVal, drGetD, drGet, rlVal_nil]⟩ h).le m k

/-- the allocator's own answer is an allocator-consistent commit (so Reserve after a successful allocation on the
    current ledger satisfies `schedOK`), given the request is non-negative and the chosen devices expose its keys -/
theorem allocate_commit_schedOK (s : TState) (a : AllocReq) (ms : List Nat) (p : Nat) (hk : KeysNodup s.free)
    (h : allocate s a = some ms) (hreq : rlNonneg a.req = true) (hcov : chosenCovered s a ms = true) :
    schedOK s (Op.add p (allocList a ms)) = true := by
  obtain ⟨_, _, hnd, hall⟩ := alloc_sound_partial s a ms hk h
  simp only [schedOK, Bool.or_eq_true, Bool.and_eq_true, List.all_eq_true]
  right
  refine ⟨?_, ?_⟩
  · rw [nodupB_iff]
    simpa [allocList, List.map_map, Function.comp_def] using hnd
  · intro e he
    simp only [allocList, List.mem_map] at he
    obtain ⟨m, hm, rfl⟩ := he
    obtain ⟨_, f, hf, _, hleq, _⟩ := hall m hm
    simp only [chosenCovered, List.all_eq_true] at hcov
    have hc := hcov m hm
    rw [hf] at hc
    simp [hreq, hf, hleq, hc]

example : histSched TState.empty
    [Op.refresh [(0, [some 100]), (1, [some 100])], Op.add 1 [(0, [some 60])], Op.add 2 [(0, [some 40]), (1, [some 40])],
     Op.remove 1 [(0, [some 60])], Op.refresh [(0, [some 50]), (1, [some 40])]] = true := by decide

example : histSched TState.empty
    [Op.refresh [(0, [some 100])], Op.add 1 [(0, [some 60])], Op.add 2 [(0, [some 60])]] = false := by decide

/-! ### allocateSet = the live pods (the duplicate gate is keyed on it) -/

theorem hasPod_append (s : TState) (x : List (Nat × DevRes)) (q : Nat) :
    hasPod { s with pods := s.pods ++ x } q = (hasPod s q || x.any (fun e => e.1 == q)) := by
  simp [hasPod, List.any_append]

/-- an add leaves the pod recorded, and changes the recorded set for no other pod -/
theorem add_records (s : TState) (p : Nat) (al : List (Nat × RL)) (q : Nat) :
    hasPod (addT s p al) q = (hasPod s q || decide (p = q)) := by
  simp only [addT]
  cases hp : hasPod s p with
  | true =>
    simp only [if_true]
    by_cases h : p = q
    · subst h; simp [hp]
    · simp [h]
  | false =>
    simp only [Bool.false_eq_true, if_false]
    show hasPod { (resetFree { s with used := usedAdd s.used al }) with
      pods := (resetFree { s with used := usedAdd s.used al }).pods ++ [(p, recOf al)] } q = _
    rw [hasPod_append]
    by_cases h : p = q <;> simp [hasPod, resetFree, h]

/-- a removal leaves the pod unrecorded, and changes the recorded set for no other pod -/
theorem remove_forgets (s : TState) (p : Nat) (al : List (Nat × RL)) (q : Nat) :
    hasPod (removeT s p al) q = (hasPod s q && !decide (p = q)) := by
  simp only [removeT]
  cases hp : hasPod s p with
  | false =>
    simp only [Bool.not_false, if_true]
    by_cases h : p = q
    · subst h; simp [hp]
    · simp [h]
  | true =>
    simp only [Bool.not_true, Bool.false_eq_true, if_false]
    show (List.filter (fun e => e.1 != p) s.pods).any (fun e => e.1 == q) = _
    simp only [hasPod, List.any_filter]
    by_cases h : p = q
    · subst h
      simp only [decide_true, Bool.not_true, Bool.and_false]
      rw [List.any_eq_false]
      intro e _
      by_cases h2 : e.1 = p <;> simp [h2]
    · simp only [h, decide_false, Bool.not_false, Bool.and_true]
      congr 1
      funext e
      by_cases h2 : e.1 = q
      · have : e.1 ≠ p := fun h3 => h (h3 ▸ h2)
        simp [h2, this]
        exact fun h3 => h (h3 ▸ rfl)
      · simp [h2]

/-- a refresh does not touch allocateSet and installs exactly the new inventory as total -/
theorem refresh_total (s : TState) (nt : DevRes) (m k : Nat) :
    (refreshT s nt).pods = s.pods ∧ drVal (refreshT s nt).total m k = drVal nt m k := by
  refine ⟨rfl, ?_⟩
  simp only [refreshT, resetFree_total_val]

/-! ### the filtered view (nodeDevice.filter) -/

theorem drGet_filter_key (d : DevRes) (f : Nat → Bool) (m : Nat) :
    drGet (d.filter (fun p => f p.1)) m = if f m then drGet d m else none := by
  induction d with
  | nil => simp [drGet]
  | cons p r ih =>
    obtain ⟨k, w⟩ := p
    simp only [List.filter_cons]
    by_cases hk : k = m
    · subst hk
      cases hf : f k <;> simp [hf, drGet, ih]
    · cases hf : f k
      · simp only [Bool.false_eq_true, if_false, ih, drGet, hk]
      · simp only [if_true, drGet, hk, if_false, ih]

theorem drGet_none_of_not_mem (d : DevRes) (m : Nat) (h : m ∉ d.map (·.1)) : drGet d m = none := by
  induction d with
  | nil => rfl
  | cons p r ih =>
    obtain ⟨k, w⟩ := p
    simp only [List.map_cons, List.mem_cons, not_or] at h
    simp [drGet, Ne.symm h.1, ih h.2]

/-- dropping all-zero entries of a map does not change any value -/
theorem drVal_filter_nonzero (d : DevRes) (hn : KeysNodup d) (m k : Nat) :
    drVal (d.filter (fun p => !rlIsZero p.2)) m k = drVal d m k := by
  induction d with
  | nil => rfl
  | cons p r ih =>
    obtain ⟨k0, v⟩ := p
    simp only [KeysNodup, List.map_cons, List.nodup_cons] at hn
    by_cases hk : k0 = m
    · subst hk
      have h1 : drGet r k0 = none := drGet_none_of_not_mem r k0 hn.1
      have h2 : drGet (r.filter (fun p => !rlIsZero p.2)) k0 = none := by
        apply drGet_none_of_not_mem
        intro hmem
        exact hn.1 ((List.Sublist.map _ List.filter_sublist).subset hmem)
      cases hz : rlIsZero v
      · simp [List.filter_cons, hz, drVal, drGetD, drGet]
      · simp [List.filter_cons, hz, drVal, drGetD, drGet, h2, rlVal_nil, rlVal_of_isZero v k hz]
    · have ih' := ih hn.2
      cases hz : rlIsZero v
      · simpa [List.filter_cons, hz, drVal, drGetD, drGet, hk] using ih'
      · simpa [List.filter_cons, hz, drVal, drGetD, drGet, hk] using ih'

/-- **view_free**: the free amount the allocator sees on a filtered view (device_cache.go filter): on a minor the
    view admits, `min(total, e)` where `e` is the entry calcFreeWithPreemptible computed for it (free, or what is
    left after the preemptible amounts are given back, capped by the reserved amounts); nothing on any other minor.
    (`fd` non-zero: otherwise the type is dropped from the view altogether.) -/
theorem view_free (s : TState) (ms : List Nat) (preempt required : DevRes)
    (hnz : drIsZero (calcFree s preempt required) = false)
    (hk : KeysNodup (calcFree s preempt required))
    (he : ∀ m e, drGet (calcFree s preempt required) m = some e → ∀ k, 0 ≤ rlVal e k)
    (ht : DRNonneg s.total) (m k : Nat) :
    drVal (filterT s (some ms) preempt required).free m k =
      match drGet (calcFree s preempt required) m with
      | some e => if ms.contains m then min (drVal s.total m k) (rlVal e k) else 0
      | none => 0 := by
  simp only [filterT, hnz, Bool.false_eq_true, if_false]
  generalize hfd : calcFree s preempt required = fd at *
  -- the view before resetFree
  let kept := fd.filter (fun p => ms.contains p.1)
  let tot : DevRes := kept.map (fun p => (p.1, drGetD s.total p.1))
  let usd0 : DevRes := kept.map (fun p => (p.1, rlSubNN (drGetD s.total p.1) p.2))
  have hkept : drGet kept m = if ms.contains m then drGet fd m else none := drGet_filter_key fd (fun x => ms.contains x) m
  have htot : drGet tot m = (drGet kept m).map (fun _ => drGetD s.total m) :=
    drGet_mapVal kept (fun x _ => drGetD s.total x) m
  have husd0 : drGet usd0 m = (drGet kept m).map (fun e => rlSubNN (drGetD s.total m) e) :=
    drGet_mapVal kept (fun x e => rlSubNN (drGetD s.total x) e) m
  have hkn : KeysNodup usd0 := by
    have : usd0.map (·.1) = kept.map (·.1) := by simp [usd0, List.map_map, Function.comp_def]
    show (usd0.map (·.1)).Nodup
    rw [this]
    exact List.Nodup.sublist (List.Sublist.map _ List.filter_sublist) hk
  have hT : ∀ k, 0 ≤ drVal tot m k := by
    intro k
    simp only [drVal, drGetD, htot]
    cases drGet kept m with
    | none => simp [rlVal_nil]
    | some e => simpa [drVal, drGetD] using ht m k
  have hUval : ∀ k, drVal (usd0.filter (fun p => !rlIsZero p.2)) m k = drVal usd0 m k :=
    fun k => drVal_filter_nonzero usd0 hkn m k
  have hU : ∀ k, 0 ≤ drVal usd0 m k := by
    intro k
    simp only [drVal, drGetD, husd0]
    cases drGet kept m with
    | none => simp [rlVal_nil]
    | some e => simpa using rlVal_subNN_nonneg _ _ k
  show drVal (resetFree { total := tot, free := [], used := usd0.filter (fun p => !rlIsZero p.2), pods := [] }).free m k = _
  rw [resetFree_free_val _ m k (hT k) (by rw [hUval]; exact hU k)]
  show max 0 (drVal tot m k - drVal (usd0.filter (fun p => !rlIsZero p.2)) m k) = _
  rw [hUval]
  simp only [drVal, drGetD, htot, husd0, hkept]
  cases hg : drGet fd m with
  | none => simp [rlVal_nil]
  | some e =>
    cases hc : ms.contains m
    · simp [rlVal_nil]
    · have he' := he m e hg k
      have htt := ht m k
      simp only [drVal, drGetD] at htt
      simp only [if_true, Option.map_some, Option.getD_some]
      rw [rlVal_subNN _ _ _ he']
      omega

theorem qVal_min (x y : Q) (hx : 0 ≤ qVal x) (hy : 0 ≤ qVal y) : qVal (qMin x y) = min (qVal x) (qVal y) := by
  cases x <;> cases y <;> simp [qMin, qVal] at * <;> (try split) <;> omega

/-- util.MinResourceList value-wise (a key missing on either side counts as 0, and is dropped) -/
theorem rlVal_min (a b : RL) (k : Nat) (ha : 0 ≤ rlVal a k) (hb : 0 ≤ rlVal b k) :
    rlVal (rlMin a b) k = min (rlVal a k) (rlVal b k) := by
  simp only [rlVal, rlMin, rlAt_zipPad qMin rfl]
  exact qVal_min _ _ ha hb

/-- calcFreeWithPreemptible without preemptible amounts and without reserved amounts is deviceFree itself -/
theorem calcFree_plain (s : TState) : calcFree s [] [] = s.free := by
  simp [calcFree]

/-- … with reserved amounts `required` (allocation from a reservation): only the reserved minors, each capped by
    the reserved amounts -/
theorem calcFree_required (s : TState) (required : DevRes) (hr : required ≠ []) (m : Nat) :
    drGet (calcFree s [] required) m =
      if drHas required m then (drGet s.free m).map (fun f => rlMin f (drGetD required m)) else none := by
  have h1 : required.isEmpty = false := by
    cases required with
    | nil => exact absurd rfl hr
    | cons _ _ => rfl
  simp only [calcFree, List.isEmpty_nil, if_true, h1, Bool.false_eq_true, if_false]
  rw [drGet_mapVal (s.free.filter (fun p => drHas required p.1)) (fun x f => rlMin f (drGetD required x)) m,
    drGet_filter_key s.free (fun x => drHas required x) m]
  cases drHas required m <;> simp

/-- what calcFreeWithPreemptible leaves on a minor whose preemptible amounts are `P` -/
def remainingOf (s : TState) (m : Nat) (P : RL) : RL :=
  rlSubNN (drGetD s.total m) (rlSubNN (drGetD s.used m) P)

def mergeStep (s : TState) (acc : DevRes) (p : Nat × RL) : DevRes :=
  if rlIsZero (remainingOf s p.1 p.2) then acc else drSet acc p.1 (remainingOf s p.1 p.2)

theorem drGet_foldl_merge (s : TState) (pre : DevRes) (m : Nat) : ∀ (acc : DevRes), (pre.map (·.1)).Nodup →
    drGet (pre.foldl (mergeStep s) acc) m =
      match drGet pre m with
      | some P => if rlIsZero (remainingOf s m P) then drGet acc m else some (remainingOf s m P)
      | none => drGet acc m := by
  induction pre with
  | nil => intro acc _; simp [drGet]
  | cons p rest ih =>
    intro acc hn
    obtain ⟨m', P'⟩ := p
    simp only [List.map_cons, List.nodup_cons] at hn
    simp only [List.foldl_cons]
    rw [ih _ hn.2]
    by_cases hm : m' = m
    · subst hm
      rw [drGet_none_of_not_mem rest m' hn.1]
      simp only [drGet, if_true, mergeStep]
      split
      · rfl
      · simp [drGet_drSet]
    · have hacc : drGet (mergeStep s acc (m', P')) m = drGet acc m := by
        simp only [mergeStep]
        split
        · rfl
        · simp [drGet_drSet, hm]
      simp only [drGet, hm, if_false, hacc]

theorem calcFree_preempt_get (s : TState) (pre : DevRes) (hn : (pre.map (·.1)).Nodup) (m : Nat) :
    drGet (calcFree s pre []) m =
      match drGet pre m with
      | some P => if rlIsZero (remainingOf s m P) then drGet s.free m else some (remainingOf s m P)
      | none => drGet s.free m := by
  have hmerged : (if pre.isEmpty then ([] : DevRes) else
      pre.foldl (fun acc p =>
        let used := rlSubNN (drGetD s.used p.1) p.2
        let remaining := rlSubNN (drGetD s.total p.1) used
        if rlIsZero remaining then acc else drSet acc p.1 remaining) []) = pre.foldl (mergeStep s) [] := by
    cases pre with
    | nil => rfl
    | cons _ _ => rfl
  simp only [calcFree, List.isEmpty_nil, if_true]
  rw [hmerged]
  have hg := drGet_foldl_merge s pre m [] hn
  simp only [drGet] at hg
  generalize hM : pre.foldl (mergeStep s) [] = merged at *
  have hfree : drGet (if merged.isEmpty then s.free else merged ++ s.free.filter (fun p => !drHas merged p.1)) m =
      match drGet merged m with
      | some v => some v
      | none => drGet s.free m := by
    cases hme : merged.isEmpty
    · simp only [Bool.false_eq_true, if_false]
      rw [drGet_append, drGet_filter_key s.free (fun x => !drHas merged x) m]
      cases hgm : drGet merged m with
      | some v => rfl
      | none => simp [drHas, hgm]
    · have : merged = [] := List.isEmpty_iff.mp hme
      subst this
      simp [drGet]
  rw [hfree, hg]
  cases drGet pre m with
  | none => rfl
  | some P =>
    simp only []
    cases rlIsZero (remainingOf s m P) <;> simp

/-- **calcFree_preempt**: with preemptible amounts `pre` (what the victims hold, per minor) and no reserved amounts,
    the free amount offered on a preemptible minor is `max 0 (total − max 0 (used − P))`, on any other minor it is
    deviceFree — value-wise, on a ledger with the invariants. -/
theorem calcFree_preempt (s : TState) (hinv : Inv1 s) (pre : DevRes) (hn : (pre.map (·.1)).Nodup)
    (hp : amountsOK pre = true) (m k : Nat) :
    drVal (calcFree s pre []) m k =
      match drGet pre m with
      | some P => max 0 (drVal s.total m k - max 0 (drVal s.used m k - rlVal P k))
      | none => drVal s.free m k := by
  have hget := calcFree_preempt_get s pre hn m
  cases hg : drGet pre m with
  | none =>
    rw [hg] at hget
    simp only [drVal, drGetD, hget]
  | some P =>
    rw [hg] at hget
    simp only [] at hget
    have hP : 0 ≤ rlVal P k := alNonneg_of pre hp (m, P) (drGet_mem pre m P hg) k
    have hrem : rlVal (remainingOf s m P) k = max 0 (drVal s.total m k - max 0 (drVal s.used m k - rlVal P k)) := by
      simp only [remainingOf]
      rw [rlVal_subNN _ _ _ (rlVal_subNN_nonneg _ _ k), rlVal_subNN _ _ _ hP]
      rfl
    by_cases hz : rlIsZero (remainingOf s m P) = true
    · simp only [hz, if_true] at hget
      have h0 := rlVal_of_isZero _ k hz
      rw [hrem] at h0
      have hf := hinv.free m k
      have hu := hinv.upos m k
      have ht := hinv.tpos m k
      simp only [drVal, drGetD, hget] at *
      omega
    · simp only [hz, if_false] at hget
      simp only [drVal, drGetD, hget, Option.getD_some]
      simpa [drVal, drGetD] using hrem

example :
    let s := addT (refreshT TState.empty [(0, [some 100]), (1, [some 100])]) 1 [(0, [some 70])]
    -- 70 of device 0 are preemptible, the reservation holds 50 of device 0: the view offers min(100, 50) there
    drVal (filterT s (some [0, 1]) [(0, [some 70])] [(0, [some 50])]).free 0 0 = 50 ∧
    drVal (filterT s (some [0, 1]) [] []).free 0 0 = 30 ∧ drVal (filterT s (some [1]) [] []).free 0 0 = 0 := by decide

/-! ### the memory / memory-ratio pair (fillGPUTotalMem) — OPEN KNOWN FINDING C07:derived-memory-dimension-overcommit -/

/-- one card {core 100, memory 1000, ratio 100}; pod 1 requests 199 units of memory (19.9 %: recorded as ratio 19),
    pod 2 requests ratio 81 — it fits the 81 the ledger believes to be free, and 810 units of memory are committed:
    1009 in use of 1000.  The fit check never looked at the derived dimension. -/
theorem derived_memory_overcommit_counterexample :
    let s0 := refreshT TState.empty [(0, [some 100, some 1000, some 100])]
    ∃ s1 s2, reserveGPU b2rFloor s0 1 [none, some 199, none] = some s1 ∧
      reserveGPU b2rFloor s1 2 [none, none, some 81] = some s2 ∧
      drVal s2.used 0 1 = 1009 ∧ drVal s2.total 0 1 = 1000 ∧ drVal s2.used 0 2 = 100 := by
  refine ⟨_, _, rfl, rfl, ?_⟩
  decide

/-! The positive side, as arithmetic on one card with total memory `T > 0` and total ratio 100.  `Um`, `Ur` = memory and
ratio in use.  The ledger is CONSISTENT when `100 * Um = Ur * T`; a request is EXACT when its two memory dimensions
(requested `b` or `r`, the other one derived) satisfy `100 * b = r * T` — true for every ratio request when `T` is a
multiple of 100 and for a byte request iff it is a whole percent of the card.  Then the derived dimension fits
whenever the requested one does, and consistency is preserved, so no over-commit can arise from the pair. -/

theorem derived_ratio_fits (T Um Ur b r : Int) (hT : 0 < T) (hc : 100 * Um = Ur * T) (hx : 100 * b = r * T)
    (hb : 0 ≤ b) (hfit : b ≤ max 0 (T - Um)) : r ≤ max 0 (100 - Ur) := by
  by_cases hb0 : b = 0
  · subst hb0
    have : r * T = 0 := by omega
    rcases Int.mul_eq_zero.mp this with h | h <;> omega
  · have h1 : b ≤ T - Um := by omega
    have h2 : r * T ≤ (100 - Ur) * T := by
      rw [Int.sub_mul]; omega
    have := Int.le_of_mul_le_mul_right h2 hT
    omega

theorem derived_bytes_fits (T Um Ur b r : Int) (hT : 0 < T) (hc : 100 * Um = Ur * T) (hx : 100 * b = r * T)
    (hr : 0 ≤ r) (hfit : r ≤ max 0 (100 - Ur)) : b ≤ max 0 (T - Um) := by
  by_cases hr0 : r = 0
  · subst hr0; omega
  · have h1 : r ≤ 100 - Ur := by omega
    have h2 : r * T ≤ (100 - Ur) * T := Int.mul_le_mul_of_nonneg_right h1 (by omega)
    rw [Int.sub_mul] at h2
    omega

theorem mem_consistent_commit (T Um Ur b r : Int) (hc : 100 * Um = Ur * T) (hx : 100 * b = r * T) :
    100 * (Um + b) = (Ur + r) * T := by
  rw [Int.add_mul]; omega

theorem mem_consistent_release (T Um Ur b r : Int) (hc : 100 * Um = Ur * T) (hx : 100 * b = r * T) :
    100 * (Um - b) = (Ur - r) * T := by
  rw [Int.sub_mul]; omega

/-- a ratio request is exact on a card whose memory is a multiple of 100 (memoryRatioToBytes loses nothing) -/
theorem ratio_request_exact (T r : Int) (hT : T % 100 = 0) : 100 * (r * T / 100) = r * T := by
  have : (r * T) % 100 = 0 := by
    rw [Int.mul_emod, hT]; simp
  omega

/-- a whole-percent byte request is exact for the floor reading of memoryBytesToRatio -/
theorem byte_request_exact (T b : Int) (hT : 0 < T) (hw : (b * 100) % T = 0) : 100 * b = b2rFloor b T * T := by
  unfold b2rFloor
  have h := Int.ediv_mul_cancel (Int.dvd_of_emod_eq_zero hw)
  omega

/-! ### the quirk behind `Covered` -/

/-- a device that does not expose a requested resource at all still qualifies: `LessThanOrEqual` skips the key -/
theorem missing_dimension_counterexample :
    allocate { TState.empty with free := [(0, [some 100, none])] }
      { req := [some 10, some 5], desired := 1, npcie := 0, required := [], preferred := [] } = some [0] := by
  decide

/-! ### non-vacuity -/

example : allocate (refreshT TState.empty [(0, [some 100]), (1, [some 100]), (2, [none])])
    { req := [some 60], desired := 2, npcie := 0, required := [], preferred := [1] } = some [1, 0] := by decide

example : allocate (addT (refreshT TState.empty [(0, [some 100]), (1, [some 100])]) 1 [(0, [some 50])])
    { req := [some 60], desired := 2, npcie := 0, required := [], preferred := [] } = none := by decide

/-! ## Extension 2: read-only pipeline steps, event shapes, reservations behind the filtering handler
    (Model/C07RO.lean; driven by the `events` harness) -/

/-! ### read-only steps are the identity on the ledger -/

theorem dryRemovePod_fst (s : TState) (d : Dry) (p : Nat) (rsv : Option Nat) : (dryRemovePod s d p rsv).1 = s := by
  unfold dryRemovePod
  simp only []
  split
  · rfl
  · split <;> rfl

theorem dryAddPod_fst (s : TState) (d : Dry) (p : Nat) (rsv : Option Nat) : (dryAddPod s d p rsv).1 = s := by
  unfold dryAddPod
  simp only []
  split
  · rfl
  · split <;> rfl

theorem roStep_fst (sc : TState × Cycle) (st : RoStep) : (roStep sc st).1 = sc.1 := by
  cases st with
  | removePod p rsv => simp only [roStep]; exact dryRemovePod_fst _ _ _ _
  | addPod p rsv => simp only [roStep]; exact dryAddPod_fst _ _ _ _
  | restore m u => rfl
  | filter ms a => rfl
  | unmodelled => rfl

/-- READ-ONLY STEPS PRESERVE THE STATE: whatever preemption dry-run (RemovePod / AddPod over any victims, with or
    without reservations), reservation restore and Filter steps a scheduling cycle runs, in any order and number, the
    ledger (total, free, used, allocateSet) it started from is the ledger it ends with. -/
theorem readonly_steps_preserve_state (s : TState) (c : Cycle) (steps : List RoStep) : (roRun s c steps).1 = s := by
  unfold roRun
  suffices h : ∀ (sc : TState × Cycle), (steps.foldl roStep sc).1 = sc.1 from h (s, c)
  induction steps with
  | nil => intro sc; rfl
  | cons st rest ih => intro sc; simp only [List.foldl_cons]; rw [ih, roStep_fst]

/-- so every theorem about `run` holds verbatim for histories with read-only cycles interleaved -/
theorem run_with_readonly (s : TState) (ops : List Op) (c : Cycle) (steps : List RoStep) :
    run (roRun s c steps).1 ops = run s ops := by rw [readonly_steps_preserve_state]

/-! ### what a dry-run accumulates: Σ of the victims' records -/

theorem alSum_eq_drVal (d : DevRes) (hn : (d.map (·.1)).Nodup) (m k : Nat) : alSum d m k = drVal d m k := by
  induction d with
  | nil => simp [alSum, drVal, drGetD, drGet, rlVal_nil]
  | cons e rest ih =>
    obtain ⟨m', v⟩ := e
    simp only [List.map_cons, List.nodup_cons] at hn
    simp only [alSum, drVal, drGetD, drGet]
    by_cases h : m' = m
    · subst h
      simp [alSum_not_mem rest m' k hn.1]
    · have := ih hn.2
      simp only [drVal, drGetD] at this
      simp [h, this]

theorem drAppend_val (inp : DevRes) : ∀ (r : DevRes) (m k : Nat),
    drVal (drAppend r inp []) m k = drVal r m k + alSum inp m k := by
  induction inp with
  | nil => intro r m k; simp [drAppend, alSum]
  | cons e rest ih =>
    intro r m k
    obtain ⟨m', v⟩ := e
    have ih' := ih
    unfold drAppend at ih' ⊢
    simp only [List.foldl_cons, List.isEmpty_nil, Bool.not_true, Bool.false_and, Bool.false_eq_true, if_false] at ih' ⊢
    rw [ih']
    simp only [alSum]
    cases hg : drGet r m' with
    | none =>
      simp only [drVal, drGetD, drGet_drSet]
      by_cases h : m' = m
      · subst h; simp [hg, rlVal_nil]
      · simp [h]
    | some d =>
      simp only [drVal, drGetD, drGet_drSet]
      by_cases h : m' = m
      · subst h; simp [hg, rlVal_add]; omega
      · simp [h]

/-- Σ over the victims of what the cache records for them -/
def victimsSum (s : TState) : List Nat → Nat → Nat → Int
  | [], _, _ => 0
  | p :: ps, m, k => alSum (getUsed s p) m k + victimsSum s ps m k

theorem foldl_removePod (s : TState) (ps : List Nat) : ∀ (c : Cycle) (m k : Nat),
    drVal (roRun s c (ps.map (fun p => RoStep.removePod p none))).2.dry.pre m k
      = drVal c.dry.pre m k + victimsSum s ps m k := by
  induction ps with
  | nil => intro c m k; simp [roRun, victimsSum]
  | cons p rest ih =>
    intro c m k
    have hstep : roStep (s, c) (RoStep.removePod p none) = (s, { c with dry := (dryRemovePod s c.dry p none).2 }) := by
      have := dryRemovePod_fst s c.dry p none
      simp only [roStep]
      cases hd : dryRemovePod s c.dry p none with
      | mk a b => simp [hd] at this; subst this; rfl
    have hrun : roRun s c ((p :: rest).map (fun p => RoStep.removePod p none))
        = roRun s { c with dry := (dryRemovePod s c.dry p none).2 } (rest.map (fun p => RoStep.removePod p none)) := by
      simp only [roRun, List.map_cons, List.foldl_cons, hstep]
    rw [hrun, ih]
    simp only [victimsSum]
    have : drVal (dryRemovePod s c.dry p none).2.pre m k = drVal c.dry.pre m k + alSum (getUsed s p) m k := by
      unfold dryRemovePod
      simp only [dryTarget]
      split
      · rename_i he
        have : getUsed s p = [] := by
          cases hgu : getUsed s p with
          | nil => rfl
          | cons a b => simp [hgu] at he
        simp [this, alSum]
      · simp only []
        exact drAppend_val _ _ _ _
    rw [this]; omega

/-- the preemptible amounts after a dry-run removal of the victims `ps` (none inside a reservation), started on a fresh
    cycle, are exactly the sum of what the cache records for the victims -/
theorem dry_pre_eq_sum (s : TState) (ps : List Nat) (m k : Nat) :
    drVal (roRun s Cycle.empty (ps.map (fun p => RoStep.removePod p none))).2.dry.pre m k = victimsSum s ps m k := by
  rw [foldl_removePod]
  simp [Cycle.empty, Dry.empty, drVal, drGetD, drGet, rlVal_nil]

/-! ### event shapes -/

theorem delete_shape_decoded (sh : Shape) (p : Nat) (o : PodObj) :
    sevOps (.podDelete sh p o) = if sh.wellFormedDelete then deletePodOps p o else [] := by
  cases sh <;> rfl

theorem run_single (s : TState) (op : Op) : run s [op] = step s op := rfl

/-- a delete event of an assigned, device-holding pod delivered in ANY well-formed shape (the object, or a tombstone by
    value) leaves the pod unrecorded and touches the record of no other pod -/
theorem delete_wellformed_releases (s : TState) (sh : Shape) (p : Nat) (o : PodObj) (al : List (Nat × RL))
    (hw : sh.wellFormedDelete = true) (ha : o.assigned = true) (hal : o.alloc = some al) (q : Nat) :
    hasPod (run s (sevOps (.podDelete sh p o))) q = (hasPod s q && !decide (p = q)) := by
  rw [delete_shape_decoded, hw]
  simp only [if_true, deletePodOps, ha, hal, Bool.not_true, Bool.false_eq_true, if_false, run_single, step]
  exact remove_forgets s p al q

/-- shapes client-go never delivers are ignored (the ledger is untouched) -/
theorem delete_garbage_noop (s : TState) (sh : Shape) (p : Nat) (o : PodObj) (hw : sh.wellFormedDelete = false) :
    run s (sevOps (.podDelete sh p o)) = s := by
  rw [delete_shape_decoded, hw]; rfl

theorem histExact_append (a : List Op) : ∀ (s : TState) (b : List Op),
    histExact s (a ++ b) = (histExact s a && histExact (run s a) b) := by
  induction a with
  | nil => intro s b; simp [histExact, run]
  | cons op rest ih =>
    intro s b
    simp only [List.cons_append, histExact, ih, run, List.foldl_cons, Bool.and_assoc]

theorem run_append (s : TState) (a b : List Op) : run s (a ++ b) = run (run s a) b := by
  simp [run, List.foldl_append]

/-- … and gives back exactly what the pod held: after an exact history, a well-formed delete carrying the recorded
    allocation lowers the in-use amount of every device and dimension by the pod's record, no clamp, nothing else -/
theorem delete_wellformed_releases_amount (ops : List Op) (hx : histExact TState.empty ops = true)
    (sh : Shape) (p : Nat) (o : PodObj) (al : List (Nat × RL)) (r : DevRes)
    (hw : sh.wellFormedDelete = true) (ha : o.assigned = true) (hal : o.alloc = some al)
    (hg : podsGet (run TState.empty ops).pods p = some r) (hok : alOK al = true) (hr : recOf al = r) (m k : Nat) :
    drVal (run (run TState.empty ops) (sevOps (.podDelete sh p o))).used m k
      = drVal (run TState.empty ops).used m k - drVal r m k := by
  have hops : sevOps (.podDelete sh p o) = [Op.remove p al] := by
    rw [delete_shape_decoded, hw]; simp [deletePodOps, ha, hal]
  rw [hops, ← run_append]
  have hx2 : histExact TState.empty (ops ++ [Op.remove p al]) = true := by
    rw [histExact_append, hx]
    simp [histExact, opExact, hg, hok, hr]
  have h1 := (used_eq_sum _ hx2 m k).1
  have h0 := used_eq_sum _ hx m k
  simp only [] at h1 h0
  rw [h1, h0.1]
  have hpods : (run TState.empty (ops ++ [Op.remove p al])).pods
      = (run TState.empty ops).pods.filter (fun e => e.1 != p) := by
    rw [run_append, run_single]
    have hh : hasPod (run TState.empty ops) p = true := by rw [hasPod_iff_get, hg]; rfl
    simp only [step, removeT, hh, Bool.not_true, Bool.false_eq_true, if_false]
    rfl
  rw [hpods, podsSum_filter _ p r h0.2.1 hg m k]
  omega

/-- the Lean reading of the code's type switch: a POINTER to a tombstone is not a delete -/
theorem ptr_tombstone_ignored (p : Nat) (o : PodObj) : sevOps (.podDelete .ptrTomb p o) = [] := rfl

/-! ### reservations behind the filtering handler -/

/-- a reservation delete in ANY well-formed shape (the object, or a tombstone by value — the filter in front of the
    handler unwraps it, fix c70eb65) releases the reserve pod's devices and touches no other record -/
theorem rsv_delete_wellformed_releases (s : TState) (sh : Shape) (p : Nat) (r : RsvObj) (al : List (Nat × RL))
    (hw : sh.wellFormedDelete = true) (hv : r.valid = true) (hac : r.active = true) (ha : r.pod.assigned = true)
    (hal : r.pod.alloc = some al) (q : Nat) :
    hasPod (run s (revOps (.rsvDelete sh p r))) q = (hasPod s q && !decide (p = q)) := by
  have hd : decodeDelete sh = true := by cases sh <;> simp_all [Shape.wellFormedDelete, decodeDelete]
  simp only [revOps, rsvFilter, hd, hv, hac, Bool.and_self, if_true, deletePodOps, ha, hal, Bool.not_true,
    Bool.false_eq_true, if_false, run_single, step]
  exact remove_forgets s p al q

/-- a reservation that stops being active (Succeeded / Failed) is released by the UPDATE that reports it -/
theorem rsv_inactive_update_releases (s : TState) (p : Nat) (old new : RsvObj) (al : List (Nat × RL))
    (hv : old.valid = true) (hac : old.active = true) (ha : old.pod.assigned = true) (hal : old.pod.alloc = some al)
    (hn : new.active = false) (q : Nat) :
    hasPod (run s (revOps (.rsvUpdate .obj .obj p old new))) q = (hasPod s q && !decide (p = q)) := by
  simp only [revOps, rsvFilter, decodeDelete, hv, hac, hn, Bool.and_self, Bool.and_false, Bool.false_and, Bool.true_and,
    Bool.false_eq_true, if_false, if_true, deletePodOps, ha, hal, Bool.not_true, run_single, step]
  exact remove_forgets s p al q

/-- events the filter or the typed handlers drop leave the ledger alone: invalid / inactive reservations, shapes
    client-go never delivers, and a tombstone handed to OnAdd -/
theorem rsv_filtered_noop (s : TState) (sh : Shape) (p : Nat) (r : RsvObj)
    (h : (r.valid && r.active) = false ∨ sh.wellFormedDelete = false) :
    run s (revOps (.rsvAdd sh p r)) = s ∧ run s (revOps (.rsvDelete sh p r)) = s := by
  have hf : rsvFilter sh r = false := by
    rcases h with h | h
    · simp only [rsvFilter, Bool.and_assoc, h, Bool.and_false]
    · cases sh <;> simp_all [Shape.wellFormedDelete, rsvFilter, decodeDelete]
  simp [revOps, hf, run]

theorem rsv_add_tombstone_noop (s : TState) (p : Nat) (r : RsvObj) : run s (revOps (.rsvAdd .tomb p r)) = s := by
  simp [revOps, decodeObj, run]

/-! ### a live pod's record is what its add recorded, until its own removal -/

theorem podsGet_append_single (l : List (Nat × DevRes)) (p : Nat) (r : DevRes) (q : Nat) :
    podsGet (l ++ [(p, r)]) q = match podsGet l q with
      | some x => some x
      | none => if p = q then some r else none := by
  induction l with
  | nil => simp [podsGet]
  | cons e rest ih =>
    obtain ⟨k, v⟩ := e
    simp only [List.cons_append, podsGet]
    by_cases h : k = q
    · simp [h]
    · simp [h, ih]

theorem podsGet_filter_ne (l : List (Nat × DevRes)) (p q : Nat) (h : q ≠ p) :
    podsGet (l.filter (fun e => e.1 != p)) q = podsGet l q := by
  induction l with
  | nil => rfl
  | cons e rest ih =>
    obtain ⟨k, v⟩ := e
    by_cases hk : k = p
    · subst hk
      have : k ≠ q := fun h2 => h h2.symm
      simp [List.filter_cons, podsGet, this, ih]
    · by_cases hq : k = q
      · subst hq
        simp [List.filter_cons, hk, podsGet]
      · simp [List.filter_cons, hk, podsGet, hq, ih]

/-- the pod an op names -/
def opPod : Op → Option Nat
  | .add p _ => some p
  | .remove p _ => some p
  | .refresh _ => none

/-- an accepted add records exactly the allocation it carries (one entry per minor: `recOf`) -/
theorem add_records_allocation (s : TState) (p : Nat) (al : List (Nat × RL)) (h : hasPod s p = false) :
    podsGet (addT s p al).pods p = some (recOf al) := by
  have hn : podsGet s.pods p = none := by
    have := hasPod_iff_get s p
    rw [h] at this
    cases hg : podsGet s.pods p with
    | none => rfl
    | some x => simp [hg] at this
  simp only [addT, h, Bool.false_eq_true, if_false]
  show podsGet (s.pods ++ [(p, recOf al)]) p = _
  rw [podsGet_append_single, hn]; simp

/-- no op changes the record of a pod it does not name: adds, removals (whatever they carry), duplicates, refreshes -/
theorem record_stable (s : TState) (op : Op) (q : Nat) (h : opPod op ≠ some q) :
    podsGet (step s op).pods q = podsGet s.pods q := by
  cases op with
  | add p al =>
    have hpq : p ≠ q := fun h2 => h (by simp [opPod, h2])
    simp only [step, addT]
    split
    · rfl
    · show podsGet (s.pods ++ [(p, recOf al)]) q = _
      rw [podsGet_append_single]
      cases podsGet s.pods q <;> simp [hpq]
  | remove p al =>
    have hpq : q ≠ p := fun h2 => h (by simp [opPod, h2])
    simp only [step, removeT]
    split
    · rfl
    · show podsGet (s.pods.filter (fun e => e.1 != p)) q = _
      exact podsGet_filter_ne _ _ _ hpq
  | refresh nt => rfl

/-- … over any stretch of history that does not name the pod, with any read-only cycles in between (they are the
    identity: `readonly_steps_preserve_state`): the oracle clause C07:record-ne-live-allocation in Lean -/
theorem record_stable_run (ops : List Op) (q : Nat) (h : ∀ op ∈ ops, opPod op ≠ some q) :
    ∀ (s : TState), podsGet (run s ops).pods q = podsGet s.pods q := by
  induction ops with
  | nil => intro s; rfl
  | cons op rest ih =>
    intro s
    simp only [run, List.foldl_cons]
    have := ih (fun o ho => h o (by simp [ho])) (step s op)
    simp only [run] at this
    rw [this, record_stable s op q (h op (by simp))]

/-! ### Device informer events -/

/-- a Device delete in any well-formed shape installs the invalidated inventory: every total is what `inv` says (0 for an
    inventory of unhealthy devices), in-use amounts and allocateSet are untouched -/
theorem device_delete_wellformed_invalidates (s : TState) (sh : Shape) (inv : DevRes) (hw : sh.wellFormedDelete = true)
    (m k : Nat) :
    let s' := run s (devOps (.devDelete sh inv))
    drVal s'.total m k = drVal inv m k ∧ s'.used = s.used ∧ s'.pods = s.pods := by
  have hd : decodeDelete sh = true := by cases sh <;> simp_all [Shape.wellFormedDelete, decodeDelete]
  simp only [devOps, hd, if_true, run_single, step]
  exact ⟨(refresh_total s inv m k).2, rfl, rfl⟩

/-- shapes client-go never delivers leave the inventory alone -/
theorem device_garbage_noop (s : TState) (sh so sn : Shape) (nt : DevRes) :
    (sh.wellFormedDelete = false → run s (devOps (.devDelete sh nt)) = s) ∧
    (decodeObj sh = false → run s (devOps (.devAdd sh nt)) = s) ∧
    ((decodeObj so && decodeObj sn) = false → run s (devOps (.devUpdate so sn nt)) = s) := by
  refine ⟨?_, ?_, ?_⟩
  · intro h
    have hd : decodeDelete sh = false := by cases sh <;> simp_all [Shape.wellFormedDelete, decodeDelete]
    simp [devOps, hd, run]
  · intro h; simp [devOps, h, run]
  · intro h; simp only [devOps, h]; rfl

/-! ### the request-shape table -/

theorem floor_bounds (x n : Nat) (hn : 0 < n) : n * (x / n) ≤ x ∧ x < n * (x / n) + n := by
  have h1 := Nat.div_add_mod x n
  have h2 := Nat.mod_lt x hn
  constructor <;> omega

theorem ratioCount_pos (o : Option Nat) : 0 < ratioCount o := by
  cases o with
  | none => simp [ratioCount]
  | some x =>
    simp only [ratioCount]
    split
    · rename_i h
      simp only [Bool.and_eq_true, decide_eq_true_eq] at h
      omega
    · omega

theorem ratioCount_dvd (x : Nat) : x % ratioCount (some x) = 0 := by
  simp only [ratioCount]
  split
  · rename_i h
    simp only [Bool.and_eq_true, decide_eq_true_eq, beq_iff_eq] at h
    have h100 : x = 100 * (x / 100) := by have := Nat.div_add_mod x 100; omega
    conv => lhs; lhs; rw [h100]
    exact Nat.mul_mod_left 100 (x / 100)
  · exact Nat.mod_one x

theorem desiredCount_pos (d : DevReq) : 0 < desiredCount d := by
  unfold desiredCount
  cases d.sh with
  | none => exact ratioCount_pos _
  | some s =>
    simp only []
    split
    · assumption
    · exact ratioCount_pos _

/-- gpu-shared and a ratio reach the allocator together only if the validator found the ratio a multiple of the count -/
theorem convertNZ_shared_ratio (q : PodGPUReq) (d : DevReq) (s x : Nat) (hc : convertNZ q = .ok d)
    (hs : d.sh = some s) (hx : d.ra = some x) : x % s = 0 := by
  unfold convertNZ at hc
  split at hc <;> (try split at hc) <;> cases hc <;> simp_all [sharedOK, optAll]

/-- every accepted pod is asked at least one device -/
theorem shape_count_pos (r : PodGPUReq) (g : GPUShape) (h : podShape r = .ok g) : 1 ≤ g.count := by
  unfold podShape at h
  cases hc : convert r with
  | skip => simp [hc] at h
  | err => simp [hc] at h
  | ok d =>
    simp only [hc, ShapeRes.ok.injEq] at h
    subst h
    have := desiredCount_pos d
    unfold perGPU
    cases d.ra <;> cases d.me <;> simp <;> omega

/-- per-device amounts are the requested totals split by floor division: in every dimension the pod is asked
    `count × per-device ≤ requested` and loses less than `count` units -/
theorem shape_split_bounds (d : DevReq) :
    let g := perGPU d
    (∀ c p, d.co = some c → g.co = some p → g.count * p ≤ c ∧ c < g.count * p + g.count) ∧
    (∀ x p, d.ra = some x → g.ra = some p → g.count * p ≤ x ∧ x < g.count * p + g.count) ∧
    (∀ m p, d.me = some m → g.me = some p → g.count * p ≤ m ∧ m < g.count * p + g.count) := by
  have hn := desiredCount_pos d
  simp only []
  refine ⟨?_, ?_, ?_⟩
  · intro c p hc hp
    have : p = c / desiredCount d ∧ (perGPU d).count = desiredCount d := by
      unfold perGPU at hp ⊢
      cases hra : d.ra <;> cases hme : d.me <;> simp_all
    rw [this.1, this.2]; exact floor_bounds c _ hn
  · intro x p hx hp
    have : p = x / desiredCount d ∧ (perGPU d).count = desiredCount d := by
      unfold perGPU at hp ⊢
      simp_all
    rw [this.1, this.2]; exact floor_bounds x _ hn
  · intro m p hm hp
    have : p = m / desiredCount d ∧ (perGPU d).count = desiredCount d := by
      unfold perGPU at hp ⊢
      cases hra : d.ra <;> simp_all
    rw [this.1, this.2]; exact floor_bounds m _ hn

/-- whole GPUs by vendor resource: nvidia.com/gpu = n asks n devices, each whole -/
theorem shape_vendor (n : Nat) (hn : 0 < n) :
    podShape { nv := some n, kg := none, sh := none, co := none, me := none, ra := none }
      = .ok { count := n, shared := false, co := some 100, me := none, ra := some 100 } := by
  have hnz : nz (some n) = some n := by
    cases n with
    | zero => omega
    | succ k => rfl
  have hconv : convert { nv := some n, kg := none, sh := none, co := none, me := none, ra := none }
      = .ok { sh := none, co := some (n * 100), me := none, ra := some (n * 100) } := by
    have hnn : nz none = none := rfl
    simp only [convert, PodGPUReq.removeZeros, hnz, hnn]
    rfl
  simp only [podShape, hconv]
  by_cases h1 : n = 1
  · subst h1; decide
  · have hx : (n * 100 > 100 && n * 100 % 100 == 0) = true := by
      simp only [Bool.and_eq_true, decide_eq_true_eq, beq_iff_eq]
      exact ⟨by omega, Nat.mul_mod_left n 100⟩
    have hd : n * 100 / 100 = n := Nat.mul_div_cancel n (by omega)
    have hdn : n * 100 / n = 100 := by rw [Nat.mul_comm]; exact Nat.mul_div_cancel 100 hn
    have hcount : desiredCount { sh := none, co := some (n * 100), me := none, ra := some (n * 100) } = n := by
      simp only [desiredCount, ratioCount, hx, if_true, hd]
    simp only [perGPU, hcount, Option.map_some, hdn]
    simp

/-- the memory-ratio dimension is never rounded: count × per-device ratio = requested ratio for every accepted pod -/
theorem shape_ratio_exact (r : PodGPUReq) (d : DevReq) (x p : Nat) (hc : convert r = .ok d)
    (hx : d.ra = some x) (hp : (perGPU d).ra = some p) : (perGPU d).count * p = x := by
  have hpn : p = x / desiredCount d ∧ (perGPU d).count = desiredCount d := by
    unfold perGPU at hp ⊢
    simp_all
  rw [hpn.1, hpn.2]
  have hdiv : x % desiredCount d = 0 := by
    unfold desiredCount
    cases hs : d.sh with
    | none => simp only [hx]; exact ratioCount_dvd x
    | some s =>
      have hok : x % s = 0 := convertNZ_shared_ratio _ d s x hc hs hx
      simp only []
      split
      · exact hok
      · simp only [hx]; exact ratioCount_dvd x
  have := Nat.div_add_mod x (desiredCount d)
  omega

/-- … but gpu-core next to a multi-device ratio IS rounded down: gpu-core = 50, gpu-memory-ratio = 300 asks 3 devices
    with gpu-core 16 each (48 of the 50 requested) -/
theorem shape_core_floor_counterexample :
    ¬ (∀ (r : PodGPUReq) (g : GPUShape) (c p : Nat), podShape r = .ok g → r.co = some c → g.co = some p →
        g.count * p = c) := by
  intro h
  have := h { nv := none, kg := none, sh := none, co := some 50, me := none, ra := some 300 }
    { count := 3, shared := false, co := some 16, me := none, ra := some 100 } 50 16 (by decide) rfl rfl
  omega

/-- gpu-core without a memory dimension, vendor + koordinator names together, gpu-shared alone … are refused -/
example : podShape { nv := none, kg := none, sh := none, co := some 50, me := none, ra := none } = .err := by decide
example : podShape { nv := some 1, kg := none, sh := none, co := some 50, me := none, ra := some 50 } = .err := by decide
example : podShape { nv := none, kg := some 150, sh := none, co := none, me := none, ra := none } = .err := by decide
example : podShape { nv := none, kg := some 0, sh := none, co := none, me := none, ra := some 0 } = .skip := by decide
example : podShape { nv := none, kg := some 200, sh := none, co := none, me := none, ra := none }
    = .ok { count := 2, shared := false, co := some 100, me := none, ra := some 100 } := by decide
example : podShape { nv := none, kg := none, sh := some 2, co := some 100, me := none, ra := some 60 }
    = .ok { count := 2, shared := true, co := some 50, me := none, ra := some 30 } := by decide

/-! ### the dry-run arithmetic: plain subtraction, reprieve = inverse of removal, what a reservation has left -/

theorem qVal_sub (x y : Q) : qVal (qSub x y) = qVal x - qVal y := by
  cases x <;> cases y <;> simp [qSub, qVal]

theorem rlVal_sub (a b : RL) (k : Nat) : rlVal (rlSub a b) k = rlVal a k - rlVal b k := by
  simp only [rlVal, rlSub, rlAt_zipPad qSub rfl, qVal_sub]

theorem drSubtract_val (inp : DevRes) : ∀ (r : DevRes) (m k : Nat),
    drVal (drSubtract r inp false) m k = drVal r m k - alSum inp m k := by
  induction inp with
  | nil => intro r m k; simp [drSubtract, alSum]
  | cons e rest ih =>
    intro r m k
    obtain ⟨m', v⟩ := e
    have ih' := ih
    unfold drSubtract at ih' ⊢
    simp only [List.foldl_cons, Bool.false_eq_true, if_false] at ih' ⊢
    rw [ih']
    simp only [alSum]
    split
    · rename_i hz
      -- the entry became all-zero and is deleted: its value is 0 either way
      have h0 := rlVal_of_isZero _ k hz
      rw [rlVal_sub] at h0
      simp only [drVal, drGetD, drGet_drErase]
      by_cases h : m' = m
      · subst h; simp only [drVal, drGetD] at h0 ⊢; simp [rlVal_nil]; omega
      · have : ¬ m = m' := fun h2 => h h2.symm
        simp [h, this]
    · simp only [drVal, drGetD, drGet_drSet]
      by_cases h : m' = m
      · subst h; simp [rlVal_sub, drGetD]; omega
      · simp [h]

/-- reprieving a victim (AddPod) right after its removal (RemovePod) gives back the preemptible amounts there were:
    the dry-run's two halves are inverse at every device and dimension -/
theorem dry_reprieve_inverse (s : TState) (d : Dry) (p : Nat) (m k : Nat) :
    drVal (dryAddPod s (dryRemovePod s d p none).2 p none).2.pre m k = drVal d.pre m k := by
  unfold dryAddPod dryRemovePod
  simp only [dryTarget]
  by_cases he : (getUsed s p).isEmpty = true
  · simp [he]
  · simp only [he, Bool.false_eq_true, if_false]
    rw [drSubtract_val, drAppend_val]; omega

/-- what RestoreReservation finds left of a reservation: its record minus what the owner pods hold on its devices -/
theorem restore_remained_val (s : TState) (rsv : Nat) (owners : List Nat) (ru : Reusable)
    (h : restoreOne s rsv owners = some ru) (m k : Nat) :
    drVal ru.remained m k = drVal ru.allocatable m k - alSum ru.allocated m k ∧ ru.allocatable = getUsed s rsv := by
  unfold restoreOne at h
  simp only [] at h
  split at h
  · simp at h
  · simp only [Option.some.injEq] at h
    subst h
    exact ⟨drSubtract_val _ _ _ _, rfl⟩

/-! ## Extension 3 — the informer transformer and the allocation result in the cycle state (Model/C07Glue.lean) -/

/-- **transform_renames_every_entry**: whatever mixture of deprecated and current resource names the device-allocated
    annotation of a pod carries, in EVERY entry of EVERY device type, the handlers behind the informer's transformer
    read — under the current names, the only ones a Device exposes — exactly the amounts the annotation's writer meant
    (current name if present, else the deprecated one).  No entry is skipped, whether or not an earlier one was renamed. -/
theorem transform_renames_every_entry (a : NAnn) : annCur (transformPodAnn a) = annSem a := by
  rw [transformPodAnn_eq, annCur_transformAnn]

/-- the transformer is idempotent (an object that is transformed again on a re-list / resync does not change) -/
theorem transform_idempotent (a : NAnn) : transformPodAnn (transformPodAnn a) = transformPodAnn a := by
  simp only [transformPodAnn_eq, transformAnn_idem]

/-- an annotation in which no dimension carries both names leaves the transformer without any deprecated name -/
theorem transform_legacy_free (a : NAnn) (h : noConflictB a = true) : legacyFreeB (transformPodAnn a) = true := by
  rw [transformPodAnn_eq]
  simp only [noConflictB, List.all_eq_true] at h
  simp only [legacyFreeB, transformAnn, renameRL, List.all_eq_true, List.mem_map]
  intro g' hg'
  obtain ⟨g, hg, rfl⟩ := hg'
  intro e' he'
  simp only [List.mem_map] at he'
  obtain ⟨e, he, rfl⟩ := he'
  intro x' hx'
  simp only [List.mem_map] at hx'
  obtain ⟨x, hx, rfl⟩ := hx'
  have := h g hg e he x hx
  simp [renameQ_legacy_none x this]

/-- an annotation written with current names only passes unchanged -/
theorem transform_current_names_identity (a : NAnn) (h : legacyFreeB a = true) : transformPodAnn a = a := by
  unfold transformPodAnn
  have hc : annChanged a = false := by
    simp only [legacyFreeB, List.all_eq_true] at h
    cases hh : annChanged a with
    | false => rfl
    | true =>
      simp only [annChanged, List.any_eq_true] at hh
      obtain ⟨g, hg, e, he, x, hx, hxc⟩ := hh
      have := h g hg e he x hx
      simp only [renameChanged, Bool.and_eq_true] at hxc
      cases h1 : x.1 <;> simp_all
  simp [hc]

/-- a pod with deprecated names (any number of entries) that reaches onPodAdd through the transformer — the restart /
    re-list path of a running pod — is recorded with exactly the amounts its annotation means, entry by entry -/
theorem tx_add_records_semantic (s : TState) (p t : Nat) (a : NAnn) (al : List (Nat × RL))
    (hs : hasPod s p = false)
    (hal : ((annSem a).find? (fun g => g.1 == t)).map (·.2) = some al) :
    podsGet (run s (sevOps (.podAdd .obj p (txPodObj a t true false)))).pods p = some (recOf al) := by
  have h1 : (txPodObj a t true false).alloc = some al := by
    simp only [txPodObj, txAlloc, transform_renames_every_entry, hal]
  have h2 : sevOps (.podAdd .obj p (txPodObj a t true false)) = [Op.add p al] := by
    simp only [sevOps, decodeObj, if_true, updatePodOps, h1]
    simp [txPodObj]
  rw [h2, run_single]
  exact add_records_allocation s p al hs

example : annCur (transformPodAnn [(0, [(0, [(some 50, none), (none, none), (some 50, none)]),
                                         (1, [(some 50, none), (none, none), (none, some 50)])])])
    = [(0, [(0, [some 50, none, some 50]), (1, [some 50, none, some 50])])] := by decide

/-- **device_transform_renames_every_device**: a Device object whose DeviceInfos report amounts under deprecated names
    (an old koordlet), under current names, or mixed, reaches onDeviceAdd / onDeviceUpdate with, for EVERY device, the
    amounts it means under the current names — the inventory the ledger's totals are built from. -/
theorem device_transform_renames_every_device (inv : List NEntry) : invCur (transformInv inv) = invSem inv :=
  invCur_transformInv inv

/-- **filter_clears_trial_result**: between PreFilter and Reserve — Filter on any candidate nodes, ledger events on
    any node — the cycle state never holds an allocation result, and the designation is what PreFilter decided. -/
theorem filter_clears_trial_result (w : World) (ann : Option DevRes) (hint : Bool) (steps : List CStep) :
    (cycRun w (cycPreFilter ann hint) steps).2.result = none ∧
    (cycRun w (cycPreFilter ann hint) steps).2.designated = (if hint then ann else none) :=
  cycRun_inv steps w (cycPreFilter ann hint) rfl

/-- **reserve_allocates_at_commit_point**: whatever Filter calls (on whichever candidate nodes) and ledger events
    preceded it, Reserve on node `x` runs the allocator on the ledger node `x` has AT THAT MOMENT (restricted to the
    designated devices when PreFilter kept a designation) and commits exactly that result on node `x`; it fails, without
    touching the ledger, exactly when that allocation fails. -/
theorem reserve_allocates_at_commit_point (w : World) (ann : Option DevRes) (hint : Bool) (steps : List CStep)
    (x : Nat) (minors : List Nat) (a : AllocReq) (p : Nat) :
    let wc := cycRun w (cycPreFilter ann hint) steps
    let s := wGet wc.1 x
    cycReserve s minors a wc.2 p =
      match allocate (cycView s minors wc.2) a with
      | none => (s, wc.2, false)
      | some ms => (addT s p (allocList a ms), { wc.2 with result := some ms }, true) := by
  intro wc s
  have hr : wc.2.result = none := (filter_clears_trial_result w ann hint steps).1
  unfold cycReserve
  simp only [hr, cycAllocate]
  cases hal : allocate (cycView s minors wc.2) a with
  | none => simp
  | some ms => simp

/-- every device Reserve commits is, at the commit point and on the selected node, an entry of the free map the
    allocator saw that passes its three guards: permitted, non-zero, `LessThanOrEqual(request, free)` -/
theorem reserve_commits_free_devices (w : World) (ann : Option DevRes) (hint : Bool) (steps : List CStep)
    (x : Nat) (minors : List Nat) (a : AllocReq) (p : Nat) (s' : TState) (c' : PState) (ms : List Nat)
    (h : cycReserve (wGet (cycRun w (cycPreFilter ann hint) steps).1 x) minors a
          (cycRun w (cycPreFilter ann hint) steps).2 p = (s', c', true))
    (hres : c'.result = some ms) :
    let wc := cycRun w (cycPreFilter ann hint) steps
    let s := wGet wc.1 x
    s' = addT s p (allocList a ms) ∧
    ∀ m ∈ ms, ∃ f, (m, f) ∈ (cycView s minors wc.2).free ∧ qualifies a (m, f) = true := by
  intro wc s
  have h0 := reserve_allocates_at_commit_point w ann hint steps x minors a p
  simp only [] at h0
  rw [h0] at h
  cases hal : allocate (cycView s minors wc.2) a with
  | none =>
    have hal' : allocate (cycView (wGet (cycRun w (cycPreFilter ann hint) steps).1 x) minors
        (cycRun w (cycPreFilter ann hint) steps).2) a = none := hal
    simp [hal'] at h
  | some r =>
    have hal' : allocate (cycView (wGet (cycRun w (cycPreFilter ann hint) steps).1 x) minors
        (cycRun w (cycPreFilter ann hint) steps).2) a = some r := hal
    simp only [hal', Prod.mk.injEq] at h
    obtain ⟨h1, h2, _⟩ := h
    have hr : r = ms := by
      rw [← h2] at hres
      simpa using hres
    subst hr
    exact ⟨h1.symm, allocate_mem_free _ a r hal⟩

/-- **reserve_within_designation**: with a non-empty designation in force Reserve only commits designated devices -/
theorem reserve_within_designation (w : World) (ann : Option DevRes) (hint : Bool) (steps : List CStep)
    (x : Nat) (minors : List Nat) (a : AllocReq) (p : Nat) (s' : TState) (c' : PState) (ms : List Nat) (des : DevRes)
    (h : cycReserve (wGet (cycRun w (cycPreFilter ann hint) steps).1 x) minors a
          (cycRun w (cycPreFilter ann hint) steps).2 p = (s', c', true))
    (hres : c'.result = some ms) (hann : ann = some des) (hh : hint = true) (hne : des ≠ []) :
    ∀ m ∈ ms, drHas des m = true ∧ minors.contains m = true := by
  intro m hm
  obtain ⟨_, hfree⟩ := reserve_commits_free_devices w ann hint steps x minors a p s' c' ms h hres
  obtain ⟨f, hf, _⟩ := hfree m hm
  have hd : (cycRun w (cycPreFilter ann hint) steps).2.designated = some des := by
    rw [(filter_clears_trial_result w ann hint steps).2, hh, hann]; rfl
  simp only [cycView, hd] at hf
  obtain ⟨h1, e, h2⟩ := filterT_free_keys _ _ _ _ _ _ hf
  exact ⟨calcFree_required_keys _ des hne m e h2, h1⟩

/-- the hypotheses are satisfiable and the statement bites: two nodes with GPUs 0 and 1; on node 1 GPU 0 is in use.  A pod
    designated to GPU 0 passes Filter on node 0 and fails it on node 1; then another pod takes GPU 0 of node 0: Reserve
    on node 0 now fails (it allocates at the commit point) and leaves the ledger alone; a pod designated to GPU 1 is
    committed on GPU 1 of whichever node Reserve names. -/
example :
    let inv : TState := refreshT TState.empty [(0, [some 100]), (1, [some 100])]
    let w : World := [inv, addT inv 1 [(0, [some 100])]]
    let a : AllocReq := { req := [some 100], desired := 1, npcie := 0, required := [], preferred := [] }
    let steps := [CStep.filter 0 [0, 1] a, CStep.filter 1 [0, 1] a, CStep.event 0 (Op.add 7 [(0, [some 100])])]
    let wc := cycRun w (cycPreFilter (some [(0, [some 100])]) true) steps
    let wd := cycRun w (cycPreFilter (some [(1, [some 100])]) true) steps
    (cycFilter (wGet w 0) [0, 1] a (cycPreFilter (some [(0, [some 100])]) true)).2 = true ∧
    (cycFilter (wGet w 1) [0, 1] a (cycPreFilter (some [(0, [some 100])]) true)).2 = false ∧
    (cycReserve (wGet wc.1 0) [0, 1] a wc.2 9).2.2 = false ∧
    (cycReserve (wGet wc.1 0) [0, 1] a wc.2 9).1.used = (wGet wc.1 0).used ∧
    (cycReserve (wGet wd.1 1) [0, 1] a wd.2 9).2.1.result = some [1] ∧
    drVal (cycReserve (wGet wd.1 1) [0, 1] a wd.2 9).1.used 1 0 = 100 := by decide

/-- why the result must be cleared: a cycle state that still holds the trial result of ANOTHER node (minor 0 was free
    there) makes Reserve commit it unchecked on a node whose device 0 is fully in use — 200 in use of 100 -/
theorem stale_result_counterexample :
    let busy : TState := addT (refreshT TState.empty [(0, [some 100])]) 1 [(0, [some 100])]
    let a : AllocReq := { req := [some 100], desired := 1, npcie := 0, required := [], preferred := [] }
    let stale : PState := { designated := some [(0, [some 100])], result := some [0] }
    drVal (cycReserve busy [0] a stale 2).1.used 0 0 = 200 ∧ drVal busy.total 0 0 = 100 ∧
    (cycReserve busy [0] a { stale with result := none } 2).2.2 = false := by decide

/-! ## Extension 4 — a pod scheduled next to reservations it does NOT match (Model/C07Glue.lean (c)) -/


theorem keysNodup_drSubtract (inp : DevRes) (nn : Bool) : ∀ (r : DevRes), (keys r).Nodup → (keys (drSubtract r inp nn)).Nodup := by
  induction inp with
  | nil => intro r h; simpa [drSubtract] using h
  | cons e rest ih =>
    intro r h
    have ih' := ih
    unfold drSubtract at ih' ⊢
    simp only [List.foldl_cons]
    apply ih'
    split <;> split <;> first | exact keysNodup_drErase _ _ h | exact keysNodup_drSet _ _ _ h

/-- deviceResources.subtract with non-negative result, value-wise: max 0 (r − Σ inp) on a non-negative entry -/
theorem drSubtractNN_val (inp : DevRes) (hin : AlNonneg inp) : ∀ (r : DevRes) (m k : Nat), 0 ≤ drVal r m k →
    drVal (drSubtract r inp true) m k = max 0 (drVal r m k - alSum inp m k) := by
  induction inp with
  | nil => intro r m k h; simp only [drSubtract, List.foldl_nil, alSum]; omega
  | cons e rest ih =>
    intro r m k h
    obtain ⟨m', v⟩ := e
    have hrest : AlNonneg rest := fun p hp => hin p (List.mem_cons_of_mem _ hp)
    have hv : 0 ≤ rlVal v k := hin (m', v) (List.mem_cons_self) k
    have hS := alSum_nonneg rest hrest m k
    have ih' := ih hrest
    unfold drSubtract at ih' ⊢
    simp only [List.foldl_cons, if_true] at ih' ⊢
    simp only [alSum]
    split
    · rename_i hz
      have h0 := rlVal_of_isZero _ k hz
      rw [rlVal_subNN _ _ _ hv] at h0
      by_cases hm : m' = m
      · subst hm
        have hval : drVal (drErase r m') m' k = 0 := by simp [drVal, drGetD, drGet_drErase, rlVal_nil]
        rw [ih' _ m' k (by omega), hval]
        simp only [drVal, drGetD] at h0 h ⊢
        simp only [if_true]
        omega
      · have hval : drVal (drErase r m') m k = drVal r m k := by simp [drVal, drGetD, drGet_drErase, hm]
        rw [ih' _ m k (by omega), hval]
        simp [hm]
    · by_cases hm : m' = m
      · subst hm
        have hval : drVal (drSet r m' (rlSubNN (drGetD r m') v)) m' k = max 0 (drVal r m' k - rlVal v k) := by
          simp only [drVal, drGetD, drGet_drSet, if_true, Option.getD_some]
          exact rlVal_subNN _ _ _ hv
        rw [ih' _ m' k (by omega), hval]
        simp only [if_true]
        omega
      · have hval : drVal (drSet r m' (rlSubNN (drGetD r m') v)) m k = drVal r m k := by
          simp [drVal, drGetD, drGet_drSet, hm]
        rw [ih' _ m k (by omega), hval]
        simp [hm]

theorem rsvOK_parts (a : Reusable) (h : rsvOK a = true) :
    amountsOK a.allocatable = true ∧ (keys a.allocatable).Nodup ∧ amountsOK a.allocated = true ∧ amountsOK a.remained = true := by
  simp only [rsvOK, alOK, Bool.and_eq_true] at h
  exact ⟨h.1.1.1, (nodupB_iff _).mp h.1.1.2, h.1.2, h.2⟩

theorem restoreOne_remained_keys (s : TState) (rsv : Nat) (owners : List Nat) (ru : Reusable)
    (h : restoreOne s rsv owners = some ru) (hk : (keys ru.allocatable).Nodup) : (keys ru.remained).Nodup := by
  unfold restoreOne at h
  simp only [] at h
  split at h
  · simp at h
  · simp only [Option.some.injEq] at h
    subst h
    exact keysNodup_drSubtract _ _ _ hk

/-- **unmatched_discount_val**: the discount mergeReservationAllocations grants for a reservation the pod does not match
    is, at every device and dimension, EXACTLY what the reservation's owner pods took out of it on its devices —
    `allocatable − remained`; what the reservation still holds is no part of it. -/
theorem unmatched_discount_val (s : TState) (rsv : Nat) (owners : List Nat) (ru : Reusable)
    (h : restoreOne s rsv owners = some ru) (hok : rsvOK ru = true) (m k : Nat) :
    drVal (unmatchedDiscount ru) m k = alSum ru.allocated m k ∧
    drVal (unmatchedDiscount ru) m k + drVal ru.remained m k = drVal ru.allocatable m k ∧
    0 ≤ drVal ru.remained m k ∧ 0 ≤ drVal (unmatchedDiscount ru) m k := by
  obtain ⟨ha, hk, hb, hr⟩ := rsvOK_parts ru hok
  have hrem := (restore_remained_val s rsv owners ru h m k).1
  have hrk := restoreOne_remained_keys s rsv owners ru h hk
  have hS := alSum_nonneg ru.allocated (alNonneg_of _ hb) m k
  have hr0 := drVal_nonneg_of ru.remained hr m k
  have ha0 := drVal_nonneg_of ru.allocatable ha m k
  have hd : drVal (unmatchedDiscount ru) m k = max 0 (drVal ru.allocatable m k - drVal ru.remained m k) := by
    unfold unmatchedDiscount
    rw [drSubtractNN_val ru.remained (alNonneg_of _ hr) ru.allocatable m k ha0, alSum_eq_drVal ru.remained hrk]
  refine ⟨?_, ?_, hr0, ?_⟩ <;> omega

/-- calcFree_preempt with the sign hypothesis only where it is used -/
theorem calcFree_preempt_at (s : TState) (hinv : Inv1 s) (pre : DevRes) (hn : (pre.map (·.1)).Nodup)
    (m k : Nat) (hp : 0 ≤ drVal pre m k) :
    drVal (calcFree s pre []) m k =
      match drGet pre m with
      | some _ => max 0 (drVal s.total m k - max 0 (drVal s.used m k - drVal pre m k))
      | none => drVal s.free m k := by
  have hget := calcFree_preempt_get s pre hn m
  cases hg : drGet pre m with
  | none =>
    rw [hg] at hget
    simp only [drVal, drGetD, hget]
  | some P =>
    rw [hg] at hget
    simp only [] at hget
    have hPv : drVal pre m k = rlVal P k := by simp [drVal, drGetD, hg]
    have hP : 0 ≤ rlVal P k := by rw [← hPv]; exact hp
    have hrem : rlVal (remainingOf s m P) k = max 0 (drVal s.total m k - max 0 (drVal s.used m k - rlVal P k)) := by
      simp only [remainingOf]
      rw [rlVal_subNN _ _ _ (rlVal_subNN_nonneg _ _ k), rlVal_subNN _ _ _ hP]
      rfl
    rw [hPv]
    by_cases hz : rlIsZero (remainingOf s m P) = true
    · simp only [hz, if_true] at hget
      have h0 := rlVal_of_isZero _ k hz
      rw [hrem] at h0
      have hf := hinv.free m k
      have hu := hinv.upos m k
      have ht := hinv.tpos m k
      simp only [drVal, drGetD, hget] at *
      omega
    · simp only [hz, if_false] at hget
      simp only [drVal, drGetD, hget, Option.getD_some]
      simpa [drVal, drGetD] using hrem

/-- **unmatched_reservation_remainder_not_free**: on a ledger with the invariants, where the reservation's record is part
    of what is in use (`rec_le_used`), the free amount the allocator is shown under the discount of an unmatched
    reservation never reaches into what the reservation still holds: offered ≤ (total − remained)⁺ at every device and
    dimension — an unconsumed or partly consumed reservation keeps its remainder for its owners. -/
theorem unmatched_reservation_remainder_not_free (s : TState) (hinv : Inv1 s) (rsv : Nat) (owners : List Nat) (ru : Reusable)
    (h : restoreOne s rsv owners = some ru) (hok : rsvOK ru = true) (m k : Nat)
    (hu : drVal ru.allocatable m k ≤ drVal s.used m k) :
    drVal (calcFree s (unmatchedDiscount ru) []) m k ≤ max 0 (drVal s.total m k - drVal ru.remained m k) := by
  obtain ⟨_, hk, _, _⟩ := rsvOK_parts ru hok
  obtain ⟨_, h2, h3, h4⟩ := unmatched_discount_val s rsv owners ru h hok m k
  have hn : ((unmatchedDiscount ru).map (·.1)).Nodup := keysNodup_drSubtract _ _ _ hk
  rw [calcFree_preempt_at s hinv _ hn m k h4]
  have hf := hinv.free m k
  cases drGet (unmatchedDiscount ru) m with
  | none => simp only []; omega
  | some _ => simp only []; omega

/-- an UNCONSUMED reservation (no owner pod holds a device) earns no discount at all: its devices are offered with the
    ledger's own free amounts -/
theorem unmatched_unconsumed_no_discount (s : TState) (rsv : Nat) (owners : List Nat) (ru : Reusable)
    (h : restoreOne s rsv owners = some ru) (hok : rsvOK ru = true) (hnone : ru.allocated = []) (m k : Nat) :
    drVal (unmatchedDiscount ru) m k = 0 := by
  have := (unmatched_discount_val s rsv owners ru h hok m k).1
  rw [this, hnone]; rfl

/-- mergeReservationAllocations over the unmatched side = the discounts appended one after the other -/
theorem restore_unmatched_is_discounts (s : TState) (ms us : List (Nat × List Nat)) :
    (restore s ms us).2.mergedUnmatchedUsed =
      (us.filterMap (fun e => restoreOne s e.1 e.2)).foldl (fun acc a => drAppend acc (unmatchedDiscount a) []) [] := rfl

def discountSum : List Reusable → Nat → Nat → Int
  | [], _, _ => 0
  | a :: rest, m, k => alSum (unmatchedDiscount a) m k + discountSum rest m k

theorem foldl_discounts_val (l : List Reusable) : ∀ (acc : DevRes) (m k : Nat),
    drVal (l.foldl (fun acc a => drAppend acc (unmatchedDiscount a) []) acc) m k = drVal acc m k + discountSum l m k := by
  induction l with
  | nil => intro acc m k; simp [discountSum]
  | cons a rest ih =>
    intro acc m k
    simp only [List.foldl_cons, discountSum]
    rw [ih, drAppend_val]; omega

/-- with several unmatched reservations on a node the preemptible amount handed to Filter / Reserve is, per device and
    dimension, the SUM of the single discounts -/
theorem restore_unmatched_val (s : TState) (ms us : List (Nat × List Nat)) (m k : Nat) :
    drVal (restore s ms us).2.mergedUnmatchedUsed m k = discountSum (us.filterMap (fun e => restoreOne s e.1 e.2)) m k := by
  rw [restore_unmatched_is_discounts, foldl_discounts_val]
  simp [drVal, drGetD, drGet, rlVal_nil]

/-- the seeded change of round 4 (`allocatable − alloc.allocated` instead of `− alloc.remained`) on the smallest input:
    one GPU of 100 wholly held by an unconsumed reservation; the changed discount is the whole record, the view offers
    100 free on a GPU with nothing free, the real discount is empty and the view offers nothing. -/
theorem unmatched_remainder_free_counterexample :
    let s := addT (refreshT TState.empty [(0, [some 100])]) 101 [(0, [some 100])]
    let ru : Reusable := { rsv := 101, allocatable := [(0, [some 100])], allocated := [], remained := [(0, [some 100])] }
    (restoreOne s 101 []).map (fun r => [r.allocatable, r.allocated, r.remained]) = some [ru.allocatable, ru.allocated, ru.remained] ∧
    unmatchedDiscount ru = [] ∧ drVal (filterT s (some [0]) (unmatchedDiscount ru) []).free 0 0 = 0 ∧
    drVal (filterT s (some [0]) (drSubtract ru.allocatable ru.allocated true) []).free 0 0 = 100 := by decide

/-- Reserve next to unmatched reservations commits only devices that pass the allocator's guards on the view built
    with the discount (`cycViewR`), at the commit point -/
theorem reserve_next_to_unmatched_commits_view_free (s : TState) (minors : List Nat) (a : AllocReq) (c : PState)
    (pre : DevRes) (p : Nat) (s' : TState) (c' : PState) (ms : List Nat) (hc : c.result = none)
    (h : cycReserveR s minors a c pre p = (s', c', true)) (hres : c'.result = some ms) :
    s' = addT s p (allocList a ms) ∧
    ∀ m ∈ ms, ∃ f, (m, f) ∈ (cycViewR s minors c pre).free ∧ qualifies a (m, f) = true := by
  unfold cycReserveR at h
  rw [hc] at h
  simp only [] at h
  cases hal : allocate (cycViewR s minors c pre) a with
  | none => simp [hal] at h
  | some r =>
    simp only [hal, Prod.mk.injEq] at h
    obtain ⟨h1, h2, _⟩ := h
    have hr : r = ms := by
      rw [← h2] at hres
      simpa using hres
    subst hr
    exact ⟨h1.symm, allocate_mem_free _ a r hal⟩

/-- the hypotheses are satisfiable on a non-trivial input: GPU 0 of 100, reservation 101 holds 100 of it, owner 2 took 40 -/
example :
    let s := addT (addT (refreshT TState.empty [(0, [some 100])]) 101 [(0, [some 100])]) 2 [(0, [some 40])]
    ∃ ru, (restoreOne s 101 [2]).map (fun r => [r.allocatable, r.allocated, r.remained]) = some [ru.allocatable, ru.allocated, ru.remained] ∧ rsvOK ru = true ∧ drVal (unmatchedDiscount ru) 0 0 = 40 ∧
      drVal ru.remained 0 0 = 60 ∧ drVal (calcFree s (unmatchedDiscount ru) []) 0 0 = 0 := by
  refine ⟨{ rsv := 101, allocatable := [(0, [some 100])], allocated := [(0, [some 40])], remained := [(0, [some 60])] }, ?_⟩
  decide


/-- OPEN finding candidate (env-gated stream VERIF_C07_OVERCONSUME=1): owners that hold MORE than their reservation on a
    GPU.  GPU 0 of 100; reservation 101 holds 50; its owners 2 and 3 hold 20 and 60 (30 of it out of the node's free
    amount — Default / Aligned policy): 80 are really in use, 20 free.  `remained` = 50 − 80 = −30 (plain subtraction),
    the discount `allocatable − remained` = 80 exceeds the reservation's own record, the ledger's 130 in use shrink to
    50 and a pod that does not match the reservation is offered 50: the hypothesis `rsvOK` (remained ≥ 0) is necessary. -/
theorem owner_exceeds_reservation_counterexample :
    let s := addT (addT (addT (refreshT TState.empty [(0, [some 100])]) 101 [(0, [some 50])]) 2 [(0, [some 20])]) 3 [(0, [some 60])]
    let ru : Reusable := { rsv := 101, allocatable := [(0, [some 50])], allocated := [(0, [some 80])], remained := [(0, [some (-30)])] }
    (restoreOne s 101 [2, 3]).map (fun r => [r.allocatable, r.allocated, r.remained]) = some [ru.allocatable, ru.allocated, ru.remained] ∧
    rsvOK ru = false ∧ drVal (unmatchedDiscount ru) 0 0 = 80 ∧ drVal s.used 0 0 = 130 ∧
    drVal (filterT s (some [0]) (unmatchedDiscount ru) []).free 0 0 = 50 ∧
    ¬ (drVal (calcFree s (unmatchedDiscount ru) []) 0 0 ≤ max 0 (drVal s.total 0 0 - 80)) := by decide

/-! ### EXTENSION 6 — fillGPUTotalMem over a multi-GPU allocation on GPUs of DIFFERENT memory sizes (Model/C07Fill.lean)

The amounts Reserve commits for the memory dimension the pod did not request are now part of the model (driver op `fill`,
compared entry by entry with the implementation's filled allocation in the path and designated harnesses). -/

/-- fillGPUTotalMem converts EVERY entry with the memory size of the device the entry is on -/
theorem fill_entries_use_own_total (b2r : Int → Int → Int) (total : DevRes) (al out : List (Nat × RL))
    (h : fillGPU b2r total al = some out) :
    out = fillWith b2r (fun m => drVal total m 1) al := by
  induction al generalizing out with
  | nil => simp [fillGPU] at h; simp [fillWith, h]
  | cons e rest ih =>
    simp only [fillGPU] at h
    split at h
    · simp at h
    · rename_i t ht
      split at h
      · simp at h
      · split at h
        · simp at h
        · rename_i out' ho
          have := ih out' ho
          simp at h
          subst h
          simp [fillWith, drVal_of_get total e.1 1 t ht] at this ⊢
          exact this

/-- it fails exactly when some entry names a device that is unknown or zero (unhealthy) -/
theorem fill_fails_iff_bad_device (b2r : Int → Int → Int) (total : DevRes) (al : List (Nat × RL)) :
    fillGPU b2r total al = none ↔ ∃ e ∈ al, (drGet total e.1 = none ∨ rlIsZero (drGetD total e.1) = true) := by
  induction al with
  | nil => simp [fillGPU]
  | cons e rest ih =>
    simp only [fillGPU, List.mem_cons, exists_eq_or_imp]
    cases hg : drGet total e.1 with
    | none => simp
    | some t =>
      simp only [drGetD, hg, Option.getD_some]
      by_cases hz : rlIsZero t = true
      · simp [hz]
      · simp only [hz]
        cases hr : fillGPU b2r total rest with
        | none =>
          have := ih.mp hr
          simp only [drGetD] at this
          simp [this]
        | some out =>
          have : ¬ ∃ e ∈ rest, (drGet total e.1 = none ∨ rlIsZero (drGetD total e.1) = true) := by
            intro hh; have := ih.mpr hh; simp [hr] at this
          simp only [drGetD] at this
          simp [this]

/-- by ratio: the bytes charged are that share of THIS device's memory (whole bytes), the ratio is kept -/
theorem fill_by_ratio (b2r : Int → Int → Int) (T r : Int) (req : RL) (h1 : rlAt req 1 = none) (h2 : rlAt req 2 = some r) :
    rlVal (fillEntry b2r T req) 1 = r * T / 100 ∧ rlVal (fillEntry b2r T req) 2 = r ∧
      rlAt (fillEntry b2r T req) 0 = rlAt req 0 := by
  simp [fillEntry, h1, h2, rlVal, rlAt, qVal]

/-- by ratio: never more than the device has, never more than the share (floor), a whole GPU is charged all of it -/
theorem fill_by_ratio_bounds (T r : Int) (hT : 0 ≤ T) (hr0 : 0 ≤ r) (hr : r ≤ 100) :
    0 ≤ r * T / 100 ∧ r * T / 100 ≤ T ∧ 100 * (r * T / 100) ≤ r * T ∧ (r = 100 → r * T / 100 = T) := by
  have h0 : 0 ≤ r * T := Int.mul_nonneg hr0 hT
  have h1 : r * T ≤ 100 * T := Int.mul_le_mul_of_nonneg_right hr hT
  refine ⟨by omega, by omega, by omega, ?_⟩
  intro h; subst h; omega

/-- by bytes: the bytes are kept, the ratio is the conversion against THIS device's memory -/
theorem fill_by_bytes (b2r : Int → Int → Int) (T b : Int) (req : RL) (h1 : rlAt req 1 = some b) (h2 : rlAt req 2 = none) :
    rlVal (fillEntry b2r T req) 1 = b ∧ rlVal (fillEntry b2r T req) 2 = b2r b T ∧
      rlAt (fillEntry b2r T req) 0 = rlAt req 0 := by
  simp [fillEntry, h1, h2, rlVal, rlAt, qVal]

/-- with the floor reading of the conversion a byte request is never charged more ratio than the bytes are of THIS device -/
theorem fill_by_bytes_floor (T b : Int) (hT : 0 < T) :
    b2rFloor b T * T ≤ 100 * b ∧ 100 * b < (b2rFloor b T + 1) * T := by
  unfold b2rFloor
  have h1 := Int.ediv_mul_le (b * 100) (Int.ne_of_gt hT)
  have h2 := Int.lt_ediv_add_one_mul_self (b * 100) hT
  constructor <;> omega

/-- a requested dimension is never changed -/
theorem fill_keeps_requested (b2r : Int → Int → Int) (T : Int) (c m r : Q) (k : Nat) (v : Int)
    (h : rlAt [c, m, r] k = some v) : rlAt (fillEntry b2r T [c, m, r]) k = some v := by
  cases m <;> cases r <;> simp_all [fillEntry, rlAt] <;>
    (match k with
     | 0 => simp_all [rlAt]
     | 1 => simp_all [rlAt]
     | 2 => simp_all [rlAt]
     | _ + 3 => simp_all [rlAt])

/-- where all devices of the allocation have the same memory size, looking the size up once is the same -/
theorem fill_first_eq_on_equal_sizes (b2r : Int → Int → Int) (total : DevRes) (al : List (Nat × RL))
    (T : Int) (h : ∀ e ∈ al, drVal total e.1 1 = T) :
    fillFirst b2r total al = fillWith b2r (fun m => drVal total m 1) al := by
  cases al with
  | nil => simp [fillFirst, fillWith]
  | cons e0 rest =>
    simp only [fillFirst, fillWith]
    apply List.map_congr_left
    intro e he
    rw [h e0 (by simp), h e he]

/-- the fifth-round seeded change (memory size looked up once, from the first device) on GPUs of 16 and 32 units: a pod
takes both GPUs whole by ratio; GPU 1 is charged 16 of its 32, keeps 16 phantom free, a byte request of 16 lands there and
gpu-memory-ratio in use reaches 150 of 100.  As written (every entry against its own device) GPU 1 is charged 32 and the
byte request finds nothing. -/
theorem fill_first_device_total_counterexample :
    let total : DevRes := [(0, [some 100, some 16, some 100]), (1, [some 100, some 32, some 100])]
    let s0 := refreshT TState.empty total
    let al : List (Nat × RL) := [(0, [none, none, some 100]), (1, [none, none, some 100])]
    let byBytes : AllocReq := { req := [none, some 16, none], desired := 1, npcie := 0, required := [], preferred := [] }
    fillGPU b2rFloor total al = some [(0, [none, some 16, some 100]), (1, [none, some 32, some 100])] ∧
    fillFirst b2rFloor total al = [(0, [none, some 16, some 100]), (1, [none, some 16, some 100])] ∧
    allocate (addT s0 1 [(0, [none, some 16, some 100]), (1, [none, some 32, some 100])]) byBytes = none ∧
    (let s1 := addT s0 1 (fillFirst b2rFloor total al)
     drVal s1.free 1 1 = 16 ∧ allocate s1 byBytes = some [1] ∧
     (let s2 := addT s1 2 (fillFirst b2rFloor total [(1, [none, some 16, none])])
      drVal s2.used 1 2 = 150 ∧ drVal s2.total 1 2 = 100)) := by
  decide

end KoordVerif.C07
