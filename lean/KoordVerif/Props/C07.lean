import KoordVerif.Model.C07
namespace KoordVerif.C07
end KoordVerif.C07
