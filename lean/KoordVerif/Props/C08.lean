import KoordVerif.Model.C08
namespace KoordVerif.C08
end KoordVerif.C08
