import KoordVerif.Model.C08
import KoordVerif.Model.C08Ev
import KoordVerif.Proofs.C08ExtConcThm
import KoordVerif.Proofs.C08ExtGlue
import KoordVerif.Proofs.C08ExtAgg
import KoordVerif.Proofs.C08ExtFw2
/-
C08 — property theorems (DESIGN.md §4 C08).
 1. deletePod is the exact inverse of addPod (same metric in force)                  `delete_add_inverse`
 2. for EVERY history of events and every node the cached sums equal the from-scratch
    computation over the node's current report and its currently assigned pods      `cache_eq_rebuild`, `cache_eq_from_report`
    (order of the pods irrelevant: `scratch_perm`; closed form: `scratch_eq_sum`)
 3. Filter: pass only if every thresholded resource is within the rounded percentage `filter_pass_within`, `filter_pass_exact`,
    on the from-scratch estimate of the reached state                                `filter_pass_sound`
 4. missing / expired metrics behave as the switch table says                        `filter_no_metric`, `filter_expired_table`, `filter_expired_only_if`
 5. concurrency (small-step model Proofs/C08ExtConc.lean of one sync.Map entry, the nodeInfo lock, the `deleted`
    flag and the two-attempt retry; shape tied to the source by Ties/C08.lean): an add-type event racing with one
    other event is never lost and the outcome is a linearization, under EVERY interleaving     `conc_no_event_lost`,
    `conc_assign_vs_node_delete_keeps_pod`, `conc_metric_vs_pod_delete_keeps_metric`; the pre-repair statement order,
    a single attempt, a missing re-check under the lock, and two cleanups during one call each lose an event
    (`conc_*_counterexample`)
 8. the plugin as the SCHEDULER drives it (Model/C08Fw.lean: PreFilter status + the framework rule "Skip => the plugin's
    Filter is not run for any node of the cycle"): PreFilter never skips, so the framework's verdict for a node IS the
    Filter verdict and clause 3 holds for it (`prefilter_never_skips`, `framework_verdict_eq_filter`,
    `framework_pass_sound`); for ANY node-blind PreFilter: the framework is faithful iff every Skip is safe
    (`framework_faithful_iff_safe_skip`), and a safe Skip exists for DaemonSet pods only (`skip_safe_only_for_daemonset`,
    `daemonset_skip_is_safe`) - in particular "skip when the plugin-level profile has no non-zero threshold" is unsafe:
    a node's usage-thresholds annotation is merged in by Filter alone (`disabled_profile_skip_counterexample`)
 9. informer glue (Model/C08Ev.lean = the handler funcs NodeMetricHandler registers): an Update(old, new) puts the NEW object
    in force whatever `old` is, so after any history the sums are the from-scratch value on the CURRENT NodeMetric object,
    its spec (report interval) included (`metric_update_sums_from_new_object`, `spec_only_update_changes_interval`); a handler
    that drops updates with an unchanged status is refuted (`metric_status_filter_counterexample`: 30 instead of 46 CPUs);
    a status-only POD update is a no-op on the cache (`status_only_update_is_noop`) - the reason why the estimate must read
    the spec only (tie_estimate_reads_spec_only)
-/
namespace KoordVerif.C08

/-! ### vector algebra (no length side conditions: the operations keep the left shape) -/

theorem vadd_nil (a : Vec) : vadd a [] = a := by cases a <;> rfl
theorem vsub_nil (a : Vec) : vsub a [] = a := by cases a <;> rfl

theorem vsub_vadd_cancel (a b : Vec) : vsub (vadd a b) b = a := by
  induction a generalizing b with
  | nil => rfl
  | cons x xs ih =>
    cases b with
    | nil => rfl
    | cons y ys => simp only [vadd, vsub, ih]; congr 1; omega

theorem vadd_right_comm (a b c : Vec) : vadd (vadd a b) c = vadd (vadd a c) b := by
  induction a generalizing b c with
  | nil => rfl
  | cons x xs ih =>
    cases b with
    | nil => simp [vadd_nil]
    | cons y ys =>
      cases c with
      | nil => simp [vadd_nil]
      | cons z zs => simp only [vadd, ih ys zs]; congr 1; omega

def Sums.add (a b : Sums) : Sums :=
  ⟨vadd a.prodUsage b.prodUsage, vadd a.nodeDelta b.nodeDelta, vadd a.prodDelta b.prodDelta, vadd a.nodeEst b.nodeEst⟩

def Sums.sub (a b : Sums) : Sums :=
  ⟨vsub a.prodUsage b.prodUsage, vsub a.nodeDelta b.nodeDelta, vsub a.prodDelta b.prodDelta, vsub a.nodeEst b.nodeEst⟩

theorem Sums.sub_add_cancel (a b : Sums) : (a.add b).sub b = a := by
  cases a; simp [Sums.add, Sums.sub, vsub_vadd_cancel]

theorem Sums.add_right_comm (a b c : Sums) : (a.add b).add c = (a.add c).add b := by
  simp only [Sums.add]
  rw [vadd_right_comm a.prodUsage, vadd_right_comm a.nodeDelta, vadd_right_comm a.prodDelta, vadd_right_comm a.nodeEst]

/-- What one assigned pod contributes to the four sums under the report in force — the statement's
formula: its reported usage if it is prod on both sides; `max(0, estimate − usage)` when the report
does not yet reflect it (`shouldEstimate`); its full estimate; and for prod pods the same delta,
with the full estimate standing in when its usage is not counted as prod. -/
def contrib (ctx : Ctx) (p : PodInfo) : Sums :=
  let u := usageOf ctx p.key
  let activeProd := p.prod && ctx.prodPods.contains p.key
  let reset := !activeProd && u.isSome
  { prodUsage := if activeProd then u.getD [] else [],
    nodeDelta := match p.est with
      | none => []
      | some e => if shouldEstimate ctx u p then delta e u else [],
    nodeEst := match p.est with
      | none => []
      | some e => e,
    prodDelta := match p.est with
      | none => []
      | some e =>
        if !p.prod then [] else
          if (if reset then true else shouldEstimate ctx u p) then delta e (if reset then none else u) else [] }

theorem addPod_eq (ctx : Ctx) (s : Sums) (p : PodInfo) : addPod ctx s p = s.add (contrib ctx p) := by
  cases s
  unfold addPod contrib Sums.add
  cases p.est <;> simp only [] <;>
    split <;> (try split) <;> (try split) <;> (try split) <;> simp_all [vadd_nil]

theorem deletePod_eq (ctx : Ctx) (s : Sums) (p : PodInfo) : deletePod ctx s p = s.sub (contrib ctx p) := by
  cases s
  unfold deletePod contrib Sums.sub
  cases p.est <;> simp only [] <;>
    split <;> (try split) <;> (try split) <;> (try split) <;> simp_all [vsub_nil]

/-! ### 1. add and delete are exact inverses -/

theorem delete_add_inverse (ctx : Ctx) (s : Sums) (p : PodInfo) :
    deletePod ctx (addPod ctx s p) p = s := by
  rw [addPod_eq, deletePod_eq, Sums.sub_add_cancel]

/-- `updatePod` followed by the reverse update restores the sums. -/
theorem update_roundtrip (ctx : Ctx) (s : Sums) (o p : PodInfo) :
    addPod ctx (deletePod ctx (addPod ctx (deletePod ctx (addPod ctx s o) o) p) p) o = addPod ctx s o := by
  rw [delete_add_inverse, delete_add_inverse]

/-! ### 2. cache = rebuild -/

theorem foldl_addPod_add (ctx : Ctx) (ps : List PodInfo) (s c : Sums) :
    ps.foldl (addPod ctx) (s.add c) = (ps.foldl (addPod ctx) s).add c := by
  induction ps generalizing s with
  | nil => rfl
  | cons p ps ih =>
    simp only [List.foldl_cons, addPod_eq]
    rw [Sums.add_right_comm, ih]

theorem foldl_addPod_erase (ctx : Ctx) (q : PodInfo → Bool) (ps : List PodInfo) (b : Sums) (o : PodInfo)
    (h : ps.find? q = some o) :
    deletePod ctx (ps.foldl (addPod ctx) b) o = (ps.eraseP q).foldl (addPod ctx) b := by
  induction ps generalizing b with
  | nil => simp at h
  | cons p ps ih =>
    by_cases hq : q p = true
    · simp only [List.find?_cons, hq] at h
      cases h
      simp only [List.eraseP_cons, hq, List.foldl_cons, cond_true]
      rw [addPod_eq, foldl_addPod_add, deletePod_eq, Sums.sub_add_cancel]
    · simp only [List.find?_cons, hq] at h
      simp only [List.eraseP_cons, hq, List.foldl_cons, cond_false]
      exact ih _ h

theorem eraseP_of_find_none (q : PodInfo → Bool) (ps : List PodInfo) (h : ps.find? q = none) :
    ps.eraseP q = ps := by
  induction ps with
  | nil => rfl
  | cons p ps ih =>
    by_cases hq : q p = true
    · simp [hq] at h
    · simp only [List.find?_cons, hq] at h
      simp [hq, ih h]

/-- the closed form of the from-scratch computation: start values + Σ over the assigned pods. -/
theorem scratch_eq_sum (cfg : Cfg) (m : Metric) (ut : Option Int) (ps : List PodInfo) :
    scratch cfg m ut ps = ps.foldl (fun s p => s.add (contrib (ctxOf m ut) p)) (baseSums cfg m) := by
  unfold scratch
  congr 1
  funext s p
  exact addPod_eq _ s p

/-- the from-scratch value does not depend on the order in which the pods are visited
(Go iterates a map) — nor, therefore, on the order in which they were assigned. -/
theorem scratch_perm (cfg : Cfg) (m : Metric) (ut : Option Int) (ps qs : List PodInfo) (h : ps.Perm qs) :
    scratch cfg m ut ps = scratch cfg m ut qs := by
  unfold scratch
  generalize baseSums cfg m = b
  induction h generalizing b with
  | nil => rfl
  | cons x _ ih => simp only [List.foldl_cons]; exact ih _
  | swap x y l => simp only [List.foldl_cons, addPod_eq]; rw [Sums.add_right_comm]
  | trans _ _ ih1 ih2 => exact (ih1 b).trans (ih2 b)

/-- node-level invariant: whenever a report is in force, the sums are the from-scratch value, and the
node's `updateTime` is the report's whenever the report carries one. -/
def Inv (cfg : Cfg) (n : Node) : Prop :=
  ∀ m, n.metric = some m →
    n.sums = scratch cfg m n.updateTime n.pods ∧ n.updateTime = reportTime m

theorem inv_empty (cfg : Cfg) : Inv cfg emptyNode := by
  intro m h; simp [emptyNode] at h

theorem inv_cleanup (cfg : Cfg) (n : Node) (h : Inv cfg n) : Inv cfg n.cleanup := by
  unfold Node.cleanup; split
  · exact inv_empty cfg
  · exact h

theorem inv_addOrUpdatePod (cfg : Cfg) (n : Node) (p : PodInfo) (h : Inv cfg n) :
    Inv cfg (n.addOrUpdatePod p) := by
  intro m hm
  have hm' : n.metric = some m := by simpa [Node.addOrUpdatePod] using hm
  obtain ⟨hs, hu⟩ := h m hm'
  refine ⟨?_, by simpa [Node.addOrUpdatePod] using hu⟩
  simp only [Node.addOrUpdatePod, hm']
  unfold scratch at hs ⊢
  rw [List.foldl_append, List.foldl_cons, List.foldl_nil]
  cases hf : n.pods.find? (isUid p.uid) with
  | none => simp only []; rw [eraseP_of_find_none _ _ hf, hs]
  | some o => simp only []; rw [hs, foldl_addPod_erase _ _ _ _ _ hf]

theorem inv_deletePodByUid (cfg : Cfg) (n : Node) (uid : Nat) (h : Inv cfg n) :
    Inv cfg (n.deletePodByUid uid) := by
  unfold Node.deletePodByUid
  apply inv_cleanup
  intro m hm
  have hm' : n.metric = some m := hm
  obtain ⟨hs, hu⟩ := h m hm'
  refine ⟨?_, hu⟩
  simp only [hm']
  unfold scratch at hs ⊢
  cases hf : n.pods.find? (isUid uid) with
  | none => simp only []; rw [eraseP_of_find_none _ _ hf, hs]
  | some o => simp only []; rw [hs, foldl_addPod_erase _ _ _ _ _ hf]

theorem inv_setMetric (cfg : Cfg) (n : Node) (m : Metric) : Inv cfg (n.setMetric cfg m) := by
  intro m' hm'
  simp only [Node.setMetric, Option.some.injEq] at hm'
  subst hm'
  exact ⟨rfl, rfl⟩

theorem inv_deleteMetric (cfg : Cfg) (n : Node) : Inv cfg n.deleteMetric := by
  unfold Node.deleteMetric
  apply inv_cleanup
  intro m hm; simp at hm

theorem get_set (c : Cache) (k k' : Nat) (n : Node) :
    (c.set k n).get k' = if k' = k then n else c.get k' := by
  unfold Cache.set Cache.get
  by_cases h : k' = k
  · subst h; simp
  · have : (k == k') = false := by simp; omega
    simp [this, h]

def CInv (cfg : Cfg) (c : Cache) : Prop := ∀ k, Inv cfg (c.get k)

theorem cinv_set (cfg : Cfg) (c : Cache) (k : Nat) (n : Node) (hc : CInv cfg c) (hn : Inv cfg n) :
    CInv cfg (c.set k n) := by
  intro k'; rw [get_set]; split
  · exact hn
  · exact hc k'

theorem cinv_assign (cfg : Cfg) (c : Cache) (node : Nat) (p : PodDesc) (now : Int) (hc : CInv cfg c) :
    CInv cfg (assign cfg c node p now) := by
  unfold assign; split
  · exact hc
  · exact cinv_set _ _ _ _ hc (inv_addOrUpdatePod _ _ _ (hc node))

theorem cinv_unAssign (cfg : Cfg) (c : Cache) (node uid : Nat) (hc : CInv cfg c) :
    CInv cfg (unAssign c node uid) := by
  unfold unAssign; split
  · exact hc
  · exact cinv_set _ _ _ _ hc (inv_deletePodByUid _ _ _ (hc node))

theorem cinv_onUpdate (cfg : Cfg) (c : Cache) (o : Nat) (p : PodDesc) (now : Int) (hc : CInv cfg c) :
    CInv cfg (onUpdate cfg c o p now) := by
  unfold onUpdate
  have h1 : CInv cfg (if (o != 0 && o != p.specNode) = true then unAssign c o p.uid else c) := by
    split
    · exact cinv_unAssign _ _ _ _ hc
    · exact hc
  simp only []
  split
  · exact cinv_assign _ _ _ _ _ h1
  · split
    · exact cinv_unAssign _ _ _ _ h1
    · split
      · exact cinv_assign _ _ _ _ _ h1
      · exact h1

theorem cinv_step (cfg : Cfg) (c : Cache) (e : Ev) (hc : CInv cfg c) : CInv cfg (step cfg c e) := by
  cases e with
  | reserve node p now => exact cinv_assign _ _ _ _ _ hc
  | unreserve node uid => exact cinv_unAssign _ _ _ _ hc
  | add p now => exact cinv_assign _ _ _ _ _ hc
  | update o p now => exact cinv_onUpdate _ _ _ _ _ hc
  | delete sn uid => exact cinv_unAssign _ _ _ _ hc
  | metric node m => exact cinv_set _ _ _ _ hc (inv_setMetric _ _ _)
  | delMetric node => exact cinv_set _ _ _ _ hc (inv_deleteMetric _ _)

theorem cinv_run (cfg : Cfg) (evs : List Ev) : CInv cfg (run cfg evs) := by
  unfold run
  have : ∀ c, CInv cfg c → CInv cfg (evs.foldl (step cfg) c) := by
    induction evs with
    | nil => intro c h; exact h
    | cons e es ih => intro c h; exact ih _ (cinv_step _ _ _ h)
  apply this
  intro k m h
  simp [Cache.get, emptyNode] at h

/-- **cache = rebuild.** After ANY sequence of reserve / unreserve / pod add / update / delete /
node-metric add-or-update / delete events, on every node that has a report in force the cached sums
equal the from-scratch computation over that report and the pods currently assigned to the node. -/
theorem cache_eq_rebuild (cfg : Cfg) (evs : List Ev) (k : Nat) (m : Metric)
    (hm : ((run cfg evs).get k).metric = some m) :
    ((run cfg evs).get k).sums = scratch cfg m ((run cfg evs).get k).updateTime ((run cfg evs).get k).pods :=
  (cinv_run cfg evs k m hm).1

/-- **the estimate is a function of the current report and the assigned pods only** (the kept
`updateTime` is the report's; a report without Status.UpdateTime resets it to the zero time — this
is what the repair 13701f3 of AddOrUpdateNodeMetric established; before it the previous report's time
survived and this theorem was false, finding `C08:cache-drift:report-without-update-time`). -/
theorem cache_eq_from_report (cfg : Cfg) (evs : List Ev) (k : Nat) (m : Metric)
    (hm : ((run cfg evs).get k).metric = some m) :
    ((run cfg evs).get k).sums = scratch cfg m (reportTime m) ((run cfg evs).get k).pods := by
  have h := cinv_run cfg evs k m hm
  rw [← h.2]; exact h.1

/-- a FRESH cache fed the report and then any pods one by one arrives at the from-scratch value of
its pod set too; with `cache_eq_from_report` and `scratch_perm`: a long-lived cache and a fresh one
agree whenever they hold the same report and the same pods, in whatever order they came. -/
theorem fresh_cache_eq (cfg : Cfg) (m : Metric) (ps : List PodInfo) :
    (ps.foldl Node.addOrUpdatePod (emptyNode.setMetric cfg m)).sums =
      scratch cfg m (reportTime m) (ps.foldl Node.addOrUpdatePod (emptyNode.setMetric cfg m)).pods := by
  have hI : ∀ (n : Node), Inv cfg n → n.metric = some m →
      Inv cfg (ps.foldl Node.addOrUpdatePod n) ∧ (ps.foldl Node.addOrUpdatePod n).metric = some m := by
    induction ps with
    | nil => intro n h hm; exact ⟨h, hm⟩
    | cons p ps ih =>
      intro n h hm
      exact ih _ (inv_addOrUpdatePod cfg n p h) (by simpa [Node.addOrUpdatePod] using hm)
  obtain ⟨hi, hm⟩ := hI _ (inv_setMetric cfg emptyNode m) rfl
  obtain ⟨h1, h2⟩ := hi m hm
  rw [← h2]; exact h1

def exactFloat : FloatOps :=
  { scale := fun q f => (q * f + 50) / 100, roundPct := fun e a => (200 * e + a) / (2 * a) }

def cfgW : Cfg :=
  { d := 1, factors := [some 100], allowCustom := false, secSched := -1, secInit := -1, prodIncludeSys := false, fl := exactFloat }

def podW : PodDesc :=
  { uid := 1, key := 1, cls := 3, prioVariant := 0, term := false, rsv := false, specNode := 1,
    sched := some ⟨true, some 0⟩, init := none, customFactors := [], customSched := -1, customInit := -1, res := [(5280, 0)] }

def reportA : Metric :=
  { hasUpd := true, updT := 100, interval := 60, hasInfo := true, nodeUsage := [24], sysUsage := [0], aggs := [], pods := [] }

/-- no UpdateTime; reports 3050 for the pod. -/
def reportB : Metric :=
  { reportA with hasUpd := false, updT := 0, pods := [⟨1, false, 0, [3050]⟩] }

/-- the former failing history now yields the from-scratch value 5280 − 3050. -/
theorem report_without_update_time_regression :
    let n := (run cfgW [Ev.metric 1 reportA, Ev.metric 1 reportB, Ev.add podW 0]).get 1
    n.metric = some reportB ∧ n.sums.nodeDelta = [2230] := by
  decide

/-! ### 3. Filter -/

/-- per thresholded resource: `P threshold estimate allocatable`; resources with threshold 0 or
allocatable 0 are not checked. -/
def Within (P : Int → Int → Int → Prop) : Vec → Vec → Vec → Prop
  | t :: ts, e :: es, a :: as => (t = 0 ∨ a = 0 ∨ P t e a) ∧ Within P ts es as
  | _, _, _ => True

theorem Within.mono {P Q : Int → Int → Int → Prop} (h : ∀ t e a, P t e a → Q t e a) :
    ∀ (ts es as : Vec), Within P ts es as → Within Q ts es as
  | [], _, _, _ => by simp [Within]
  | _ :: _, [], _, _ => by simp [Within]
  | _ :: _, _ :: _, [], _ => by simp [Within]
  | t :: ts, e :: es, a :: as, hw => by
    simp only [Within] at hw ⊢
    refine ⟨?_, Within.mono h ts es as hw.2⟩
    rcases hw.1 with h1 | h1 | h1
    · exact Or.inl h1
    · exact Or.inr (Or.inl h1)
    · exact Or.inr (Or.inr (h _ _ _ h1))

/-- filterNodeUsage passes iff every thresholded resource's rounded percentage is at most its threshold. -/
theorem exceeds_false_iff (fl : FloatOps) : ∀ (ts es as : Vec),
    exceeds fl ts es as = false ↔ Within (fun t e a => fl.roundPct e a ≤ t) ts es as
  | [], _, _ => by simp [exceeds, Within]
  | _ :: _, [], _ => by simp [exceeds, Within]
  | _ :: _, _ :: _, [] => by simp [exceeds, Within]
  | t :: ts, e :: es, a :: as => by
    simp only [exceeds, Within, Bool.or_eq_false_iff, exceeds_false_iff fl ts es as]
    constructor
    · rintro ⟨h1, h2⟩
      refine ⟨?_, h2⟩
      by_cases ht : t = 0
      · exact Or.inl ht
      · by_cases ha : a = 0
        · exact Or.inr (Or.inl ha)
        · right; right
          simp [ht, ha] at h1
          omega
    · rintro ⟨h1, h2⟩
      refine ⟨?_, h2⟩
      by_cases ht : t = 0
      · simp [ht]
      · by_cases ha : a = 0
        · simp [ha]
        · rcases h1 with h | h | h
          · exact absurd h ht
          · exact absurd h ha
          · simp [ht, ha]; omega

/-- the float64 `round(est/total*100)`: between round-half-down and round-half-up of the exact quotient
(tested on every generated input by the harness; at exact .5 ties float64 may fall either way). -/
structure RoundOK (f : Int → Int → Int) : Prop where
  lo : ∀ e a, 0 < a → 0 ≤ e → 200 * e - a ≤ 2 * a * f e a
  hi : ∀ e a, 0 < a → 0 ≤ e → 2 * a * f e a ≤ 200 * e + a

/-- the estimate Filter reads for this query. -/
def existingFor (cfg : Cfg) (n : Node) (q : FilterQ) : Option (Metric × Vec) :=
  estimatedOfExisting cfg n (selProfile cfg q).1 (selTyp (selProfile cfg q).2.2) (selDur (selProfile cfg q).2.2)

theorem filter_unfold (cfg : Cfg) (c : Cache) (q : FilterQ) (hn : q.hasNode = true) (hd : q.daemon = false)
    (ht : vEmpty (selProfile cfg q).2.1 = false) :
    filter cfg c q =
      verdict cfg q (selProfile cfg q).2.1 (selProfile cfg q).2.2.isSome (existingFor cfg (c.get q.node) q) := by
  simp [filter, existingFor, hn, hd, ht]

theorem existing_none (cfg : Cfg) (n : Node) (p : Bool) (t d : Nat) (h : n.metric = none) :
    estimatedOfExisting cfg n p t d = none := by
  simp [estimatedOfExisting, h]

theorem existing_some (cfg : Cfg) (n : Node) (p : Bool) (t d : Nat) (m : Metric) (h : n.metric = some m) :
    ∃ est, estimatedOfExisting cfg n p t d = some (m, est) := by
  unfold estimatedOfExisting
  simp only [h]
  split
  · exact ⟨_, rfl⟩
  · split <;> exact ⟨_, rfl⟩

theorem filter_daemonset (cfg : Cfg) (c : Cache) (q : FilterQ) (hn : q.hasNode = true) (hd : q.daemon = true) :
    filter cfg c q = 0 := by
  simp [filter, hn, hd]

theorem filter_no_thresholds (cfg : Cfg) (c : Cache) (q : FilterQ) (hn : q.hasNode = true)
    (ht : vEmpty (selProfile cfg q).2.1 = true) : filter cfg c q = 0 := by
  simp [filter, hn, ht]

/-! ### 4. missing / expired reports: the configured switch table -/

/-- a node without a report is skipped (passes). -/
theorem filter_no_metric (cfg : Cfg) (c : Cache) (q : FilterQ) (hn : q.hasNode = true)
    (hm : (c.get q.node).metric = none) : filter cfg c q = 0 := by
  by_cases hd : q.daemon = true
  · exact filter_daemonset cfg c q hn hd
  · by_cases ht : vEmpty (selProfile cfg q).2.1 = true
    · exact filter_no_thresholds cfg c q hn ht
    · rw [filter_unfold cfg c q hn (by simpa using hd) (by simpa using ht)]
      simp [existingFor, existing_none _ _ _ _ _ hm, verdict]

/-- with thresholds configured and expiry filtering engaged, an expired (or time-less) report yields
"rejected: metric expired" exactly when EnableScheduleWhenNodeMetricsExpired is false, else the node is skipped. -/
theorem filter_expired_table (cfg : Cfg) (c : Cache) (q : FilterQ) (m : Metric)
    (hn : q.hasNode = true) (hd : q.daemon = false) (ht : vEmpty (selProfile cfg q).2.1 = false)
    (hm : (c.get q.node).metric = some m) (hx : expirySkip q m = true) :
    filter cfg c q = if q.enableWhenExpired == 0 then 3 else 0 := by
  rw [filter_unfold cfg c q hn hd ht]
  obtain ⟨est, he⟩ := existing_some cfg (c.get q.node) (selProfile cfg q).1 (selTyp (selProfile cfg q).2.2) (selDur (selProfile cfg q).2.2) m hm
  simp [existingFor, he, verdict, hx]

/-- "rejected: metric expired" is returned only under exactly those settings. -/
theorem filter_expired_only_if (cfg : Cfg) (c : Cache) (q : FilterQ) (h : filter cfg c q = 3) :
    ∃ m, (c.get q.node).metric = some m ∧ expirySkip q m = true ∧ q.enableWhenExpired = 0 := by
  by_cases hn : q.hasNode = true
  case neg => simp [filter, hn] at h
  by_cases hd : q.daemon = true
  · rw [filter_daemonset cfg c q hn hd] at h; cases h
  by_cases ht : vEmpty (selProfile cfg q).2.1 = true
  · rw [filter_no_thresholds cfg c q hn ht] at h; cases h
  rw [filter_unfold cfg c q hn (by simpa using hd) (by simpa using ht)] at h
  cases hm : (c.get q.node).metric with
  | none => simp [existingFor, existing_none _ _ _ _ _ hm, verdict] at h
  | some m =>
    obtain ⟨est, he⟩ := existing_some cfg (c.get q.node) (selProfile cfg q).1 (selTyp (selProfile cfg q).2.2) (selDur (selProfile cfg q).2.2) m hm
    refine ⟨m, rfl, ?_⟩
    simp only [existingFor, he, verdict] at h
    by_cases hx : expirySkip q m = true
    · simp only [hx, if_true] at h
      by_cases he0 : q.enableWhenExpired = 0
      · exact ⟨hx, he0⟩
      · simp [he0] at h
    · simp only [hx, Bool.false_eq_true, if_false] at h
      split at h
      · cases h
      · split at h
        · split at h <;> cases h
        · cases h

/-- **pass ⇒ within threshold.** If a non-daemon-set pod passes on a node that has a report with node
usage in force, thresholds configured and the expiry switch not engaged, then for every thresholded
resource with non-zero allocatable the rounded percentage of (estimate of existing + incoming pod's
estimate) is at most the threshold. -/
theorem filter_pass_within (cfg : Cfg) (c : Cache) (q : FilterQ) (m : Metric) (est : Vec)
    (hn : q.hasNode = true) (hd : q.daemon = false) (ht : vEmpty (selProfile cfg q).2.1 = false)
    (he : existingFor cfg (c.get q.node) q = some (m, est))
    (hx : expirySkip q m = false) (hi : m.hasInfo = true)
    (hpass : filter cfg c q = 0) :
    Within (fun t e a => cfg.fl.roundPct e a ≤ t) (selProfile cfg q).2.1 (vadd est (estimateVec cfg q.pod)) (allocOf q) := by
  rw [filter_unfold cfg c q hn hd ht, he] at hpass
  simp only [verdict, hx, hi, Bool.false_eq_true, if_false, Bool.not_true] at hpass
  apply (exceeds_false_iff _ _ _ _).mp
  by_cases hex : exceeds cfg.fl (selProfile cfg q).2.1 (vadd est (estimateVec cfg q.pod)) (allocOf q) = true
  · simp only [hex, if_true] at hpass
    split at hpass <;> cases hpass
  · simpa using hex

/-- … and conversely the pod is rejected for usage only if some thresholded resource is above. -/
theorem filter_reject_only_if_exceeds (cfg : Cfg) (c : Cache) (q : FilterQ)
    (h : filter cfg c q = 1 ∨ filter cfg c q = 2) :
    ∃ m est, existingFor cfg (c.get q.node) q = some (m, est) ∧
      ¬ Within (fun t e a => cfg.fl.roundPct e a ≤ t) (selProfile cfg q).2.1 (vadd est (estimateVec cfg q.pod)) (allocOf q) := by
  by_cases hn : q.hasNode = true
  case neg => simp [filter, hn] at h
  by_cases hd : q.daemon = true
  · rw [filter_daemonset cfg c q hn hd] at h; omega
  by_cases ht : vEmpty (selProfile cfg q).2.1 = true
  · rw [filter_no_thresholds cfg c q hn ht] at h; omega
  rw [filter_unfold cfg c q hn (by simpa using hd) (by simpa using ht)] at h
  cases he : existingFor cfg (c.get q.node) q with
  | none => simp [he, verdict] at h
  | some me =>
    obtain ⟨m, est⟩ := me
    refine ⟨m, est, rfl, ?_⟩
    simp only [he, verdict] at h
    intro hw
    have hex := (exceeds_false_iff _ _ _ _).mpr hw
    simp only [hex, Bool.false_eq_true, if_false] at h
    split at h
    · split at h <;> omega
    · split at h <;> omega

/-- the exact-integer reading of the rounded comparison ("rounding at the boundary"): passing means
`200·est ≤ (2·thr+1)·alloc`, i.e. est/alloc ≤ thr% + 0.5 point — never more. -/
theorem filter_pass_exact (f : Int → Int → Int) (hf : RoundOK f) (ts es as : Vec)
    (h : Within (fun t e a => f e a ≤ t) ts es as) :
    Within (fun t e a => 0 < a → 0 ≤ e → 200 * e ≤ (2 * t + 1) * a) ts es as := by
  refine Within.mono ?_ ts es as h
  intro t e a hle ha he
  have h1 := hf.lo e a ha he
  have h2 : 2 * a * f e a ≤ 2 * a * t := Int.mul_le_mul_of_nonneg_left hle (by omega)
  have h3 : (2 * t + 1) * a = 2 * a * t + a := by
    rw [Int.add_mul, Int.one_mul, Int.mul_assoc, Int.mul_comm t a, ← Int.mul_assoc]
  omega

/-- and a resource strictly below `thr% + 0.5 point` is never the reason for a rejection. -/
theorem below_boundary_within (f : Int → Int → Int) (hf : RoundOK f) (t e a : Int) (ha : 0 < a) (he : 0 ≤ e)
    (h : 200 * e < (2 * t + 1) * a) : f e a ≤ t := by
  have h2 := hf.hi e a ha he
  have h3 : (2 * t + 1) * a = 2 * a * t + a := by
    rw [Int.add_mul, Int.one_mul, Int.mul_assoc, Int.mul_comm t a, ← Int.mul_assoc]
  have h4 : 2 * a * f e a < 2 * a * (t + 1) := by
    have : 2 * a * (t + 1) = 2 * a * t + 2 * a := by rw [Int.mul_add, Int.mul_one]
    omega
  have h5 : f e a < t + 1 := Int.lt_of_mul_lt_mul_left h4 (by omega)
  omega

/-- **end to end.** For ANY history, a pass on the reached cache means: within the rounded threshold on
the FROM-SCRATCH estimate (the current report's usage + Σ contributions of the assigned pods, computed
by `scratch` from the report and the pods alone, + the incoming pod's estimate). -/
theorem filter_pass_sound (cfg : Cfg) (evs : List Ev) (q : FilterQ) (m : Metric)
    (hn : q.hasNode = true) (hd : q.daemon = false) (ht : vEmpty (selProfile cfg q).2.1 = false)
    (hm : ((run cfg evs).get q.node).metric = some m)
    (hx : expirySkip q m = false) (hi : m.hasInfo = true)
    (hpass : filter cfg (run cfg evs) q = 0) :
    ∃ est, existingFor cfg
        { (run cfg evs).get q.node with sums := scratch cfg m (reportTime m) ((run cfg evs).get q.node).pods } q
          = some (m, est) ∧
      Within (fun t e a => cfg.fl.roundPct e a ≤ t) (selProfile cfg q).2.1 (vadd est (estimateVec cfg q.pod)) (allocOf q) := by
  have hs := cache_eq_from_report cfg evs q.node m hm
  have hnode : ({ (run cfg evs).get q.node with
      sums := scratch cfg m (reportTime m) ((run cfg evs).get q.node).pods } : Node)
      = (run cfg evs).get q.node := by
    rw [← hs]
  rw [hnode]
  obtain ⟨est, he⟩ := existing_some cfg ((run cfg evs).get q.node) (selProfile cfg q).1 (selTyp (selProfile cfg q).2.2) (selDur (selProfile cfg q).2.2) m hm
  exact ⟨est, he, filter_pass_within cfg _ q m est hn hd ht he hx hi hpass⟩

/-! ### the estimator and the shape of the estimate -/

/-- a pod's estimate of a resource never exceeds its limit on that resource. -/
theorem estimate_le_limit (fl : FloatOps) (cls idx : Nat) (req lim f : Int) (hl : 0 < lim) :
    estimatedUsedByResource fl cls idx req lim f ≤ lim := by
  unfold estimatedUsedByResource
  by_cases hgt : lim > req
  · have h0 : (lim == 0) = false := by simp; omega
    simp only [hgt, if_true, h0, Bool.false_eq_true, if_false]
    split
    · omega
    · rename_i h; simp at h; have := h hl; omega
  · have h0 : (req == 0) = false := by simp; omega
    simp only [hgt, if_false, h0, Bool.false_eq_true]
    split
    · omega
    · rename_i h; simp at h; have := h hl; omega

/-- every entry a pod adds to a delta sum is non-negative: the estimate of existing pods is never
below the reported usage it starts from. -/
theorem delta_nonneg (x : Vec) (y : Option Vec) : ∀ v ∈ delta x y, 0 ≤ v := by
  intro v hv
  cases y <;> simp only [delta, List.mem_map] at hv <;> obtain ⟨w, _, rfl⟩ := hv <;> unfold pos <;> split <;> omega

/-! ### 5. concurrency: the `deleted`-flag retry protocol (model and proofs in Proofs/C08ExtConc*.lean) -/

open Conc in
/-- **no event is lost under any interleaving.**  For every state the node's map entry can be in between events
(`inits`: absent, or live and not empty) and every race of one add-type event (pod assign, NodeMetric add/update)
with one other event (`races`), in every reachable state in which both goroutines have returned the cache shows
the result of running the two events in SOME order one after the other, and neither call gave up. -/
theorem conc_no_event_lost (init : Option (Bool × Bool × Bool)) (hi : init ∈ inits) (pa pb : List Op) (hr : (pa, pb) ∈ races)
    (s : St) (h : Reach asWritten (start init pa pb) s) (hq : s.quiescent = true) :
    s.view ∈ seqResults (pa.length + pb.length) (viewOf init) pa pb ∧ ∀ t ∈ s.ts, t.dropped = 0 :=
  no_event_lost init hi pa pb hr s h hq

open Conc in
/-- node delete ∥ pod assign: the assigned pod is in the cache afterwards. -/
theorem conc_assign_vs_node_delete_keeps_pod (init : Option (Bool × Bool × Bool)) (hi : init ∈ inits)
    (s : St) (h : Reach asWritten (start init [.assign] [.delMetric]) s) (hq : s.quiescent = true) :
    s.view.2.2 = true :=
  assign_vs_node_delete_keeps_pod init hi s h hq

open Conc in
/-- last pod deleted ∥ NodeMetric added: the report is in force afterwards. -/
theorem conc_metric_vs_pod_delete_keeps_metric (init : Option (Bool × Bool × Bool)) (hi : init ∈ inits) (pb : List Op)
    (hb : pb = [.delOther] ∨ pb = [.delU])
    (s : St) (h : Reach asWritten (start init [.setMetric] pb) s) (hq : s.quiescent = true) :
    s.view.1 = true :=
  metric_vs_pod_delete_keeps_metric init hi pb hb s h hq

open Conc in
/-- the statement order before repair b9ed11f (`deleted = true`, then CompareAndDelete) loses the pod: both attempts
load the same dying entry (finding C08:conc:event-lost-in-cleanup-race; reproduced on the real code). -/
theorem conc_pre_repair_counterexample :
    ¬ (∀ s, Reach preRepair (start (some (true, false, false)) [.assign] [.delMetric]) s → s.quiescent = true →
        s.view.2.2 = true) :=
  pre_repair_counterexample

open Conc in
/-- … and the NodeMetric in the mirrored race. -/
theorem conc_pre_repair_counterexample_metric :
    ¬ (∀ s, Reach preRepair (start (some (false, true, false)) [.setMetric] [.delOther]) s → s.quiescent = true →
        s.view.1 = true) :=
  pre_repair_counterexample_metric

open Conc in
/-- the pre-repair order is fine if a critical section is taken to be indivisible — the reading of the design
comment in the source; the flag is read without the lock, so it is not. -/
theorem conc_pre_repair_sections_no_event_lost (init : Option (Bool × Bool × Bool)) (hi : init ∈ inits) (pa pb : List Op)
    (hr : (pa, pb) ∈ races) (s : St) (h : Reach preRepairSections (start init pa pb) s) (hq : s.quiescent = true) :
    s.view ∈ seqResults (pa.length + pb.length) (viewOf init) pa pb ∧ ∀ t ∈ s.ts, t.dropped = 0 :=
  pre_repair_sections_no_event_lost init hi pa pb hr s h hq

open Conc in
/-- the shape without the retry (one attempt) loses the pod. -/
theorem conc_no_retry_counterexample :
    ¬ (∀ s, Reach noRetry (start (some (true, false, false)) [.assign] [.delMetric]) s → s.quiescent = true →
        s.view.2.2 = true) :=
  no_retry_counterexample

open Conc in
/-- the shape without the second look at the flag under the lock loses the pod. -/
theorem conc_no_recheck_counterexample :
    ¬ (∀ s, Reach noRecheck (start (some (true, false, false)) [.assign] [.delMetric]) s → s.quiescent = true →
        s.view.2.2 = true) :=
  no_recheck_counterexample

open Conc in
/-- the documented limit of the source ("we only try 2 times"): two cleanups of the entry during ONE assign defeat
both attempts … -/
theorem conc_two_cleanups_counterexample :
    ¬ (∀ s, Reach asWritten (start (some (true, false, false)) [.assign] [.delMetric, .setMetric, .delMetric]) s →
        s.quiescent = true → s.view.2.2 = true) :=
  two_cleanups_counterexample

open Conc in
/-- … three attempts would survive them. -/
theorem conc_two_cleanups_three_attempts_ok (s : St)
    (h : Reach { asWritten with bound := 3 } (start (some (true, false, false)) [.assign] [.delMetric, .setMetric, .delMetric]) s)
    (hq : s.quiescent = true) : s.view.2.2 = true :=
  two_cleanups_three_attempts_ok s h hq

/-! ### 6. the glue from *corev1.Pod to the cache's projection (Model/C08Glue.lean; proofs in Proofs/C08ExtGlue.lean) -/

/-- the class of a pod is always prod / mid / batch / free -/
theorem glue_class_range (s : ClassShape) (hk : s.kubeQos = 1 ∨ s.kubeQos = 2 ∨ s.kubeQos = 3) :
    1 ≤ resolveClass s ∧ resolveClass s ≤ 4 := resolveClass_range s hk

/-- a known priority-class label decides the class -/
theorem glue_class_label (s : ClassShape) (h1 : 1 ≤ s.prioLabel) (h4 : s.prioLabel ≤ 4) : resolveClass s = s.prioLabel :=
  resolveClass_label s h1 h4

/-- a priority-class label with an unknown text hides Spec.Priority (written as it is in the source) -/
theorem glue_class_unknown_label (s : ClassShape) (h : 4 < s.prioLabel) : resolveClass s = classByQos (qosOf s) :=
  resolveClass_unknown_label s h

/-- without a label an in-band Spec.Priority decides -/
theorem glue_class_priority (s : ClassShape) (p : Int) (h0 : s.prioLabel = 0) (hp : s.prio = some p)
    (hb : classByPriority p ≠ 0) : resolveClass s = classByPriority p := resolveClass_priority s p h0 hp hb

/-- the effective request/limit of a pod covers the sum of its containers and every single init container -/
theorem glue_requests_cover (cs : List Int) (inits : List InitC) (hv : ∀ c ∈ inits, 0 ≤ c.v) :
    cs.foldl (· + ·) 0 ≤ aggregate cs inits ∧ ∀ c ∈ inits, c.v ≤ aggregate cs inits :=
  ⟨aggregate_ge_containers cs inits hv, fun c hc => aggregate_ge_init cs inits hv c hc⟩

/-- a scaling-factor annotation that encoding/json rejects leaves the configured factors in force -/
theorem glue_malformed_factors_ignored (cfg : Cfg) (p : PodDesc) (kind : Nat) (fs : List (Option Int)) (hk : kind ≠ 1) :
    factorsFor cfg { p with customFactors := parseFactors kind fs } = cfg.factors :=
  malformed_factors_ignored cfg p kind fs hk

/-- an init container larger than all containers together sets the request: 2 containers 100+200, init 500, sidecar 50
before it -> 550; overhead 10 on top; a zero limit gets no overhead -/
example : podRequest [100, 200] [⟨true, 50⟩, ⟨false, 500⟩] none 10 = 560 ∧ podLimit [0, 0] [] none 10 = 0 := by decide

/-! ### 7. aggregated profile: which usage is read (proofs in Proofs/C08ExtAgg.lean) -/

theorem agg_profile_cell_used (cfg : Cfg) (n : Node) (m : Metric) (typ dur : Nat) (u : Vec) (hm : n.metric = some m)
    (ht : typ ≠ 0) (hi : m.hasInfo = true) (hu : aggLookup m typ dur = some u) :
    estimatedOfExisting cfg n false typ dur = some (m, vadd (vadd (vzero cfg.d) u) n.sums.nodeDelta) :=
  agg_cell_used cfg n m typ dur u hm ht hi hu

theorem agg_profile_dur0_node_usage (cfg : Cfg) (n : Node) (m : Metric) (typ : Nat) (hm : n.metric = some m)
    (ht : typ ≠ 0) (hi : m.hasInfo = true) (hu : aggLookup m typ 0 = none) :
    estimatedOfExisting cfg n false typ 0 = some (m, vadd (vadd (vzero cfg.d) m.nodeUsage) n.sums.nodeDelta) :=
  agg_dur0_falls_back_to_node_usage cfg n m typ hm ht hi hu

/-- explicit duration, cell not reported: the sum of FULL estimates without any usage (as written in the source). -/
theorem agg_profile_missing_cell (cfg : Cfg) (n : Node) (m : Metric) (typ dur : Nat) (hm : n.metric = some m)
    (ht : typ ≠ 0) (hd : dur ≠ 0) (hu : aggLookup m typ dur = none) :
    estimatedOfExisting cfg n false typ dur = some (m, vadd (vzero cfg.d) n.sums.nodeEst) :=
  agg_missing_cell_full_estimates cfg n m typ dur hm ht hd hu

/-- vectors of any length: three thresholded resources, the third one is over -/
example : exceeds exactFloat [50, 50, 50] [10, 10, 60] [100, 100, 100] = true ∧
    exceeds exactFloat [50, 50, 0] [10, 10, 60] [100, 100, 100] = false := by decide

/-! ### 8. the plugin under the scheduler framework (Model/C08Fw.lean; proofs in Proofs/C08ExtFw*.lean) -/

/-- Plugin.PreFilter of the source answers Success for every pod and every configuration: it NEVER skips. -/
theorem prefilter_never_skips (q : FilterQ) : preFilter q = .success := rfl

/-- in particular not when a node's own thresholds may apply, i.e. for every pod that is not a DaemonSet pod
(for those pods some node rejects whatever the plugin-level thresholds are: `skip_safe_only_for_daemonset`). -/
theorem prefilter_never_skips_when_node_thresholds_may_apply (q : FilterQ) (_h : q.daemon = false) :
    preFilter q ≠ .skip := by
  rw [prefilter_never_skips]; exact fun h => PreStatus.noConfusion h

/-- hence the verdict of the framework for a node is the verdict of Plugin.Filter for that node -/
theorem framework_verdict_eq_filter (cfg : Cfg) (c : Cache) (q : FilterQ) : fwFilter cfg c q = filter cfg c q := rfl

/-- and clause 3 holds for the FRAMEWORK's verdict: a node that passes the cycle is within the rounded threshold on
the from-scratch estimate, for the thresholds in force ON THAT NODE (annotation merged in). -/
theorem framework_pass_sound (cfg : Cfg) (evs : List Ev) (q : FilterQ) (m : Metric)
    (hn : q.hasNode = true) (hd : q.daemon = false) (ht : vEmpty (selProfile cfg q).2.1 = false)
    (hm : ((run cfg evs).get q.node).metric = some m)
    (hx : expirySkip q m = false) (hi : m.hasInfo = true)
    (hpass : fwFilter cfg (run cfg evs) q = 0) :
    ∃ est, existingFor cfg
        { (run cfg evs).get q.node with sums := scratch cfg m (reportTime m) ((run cfg evs).get q.node).pods } q
          = some (m, est) ∧
      Within (fun t e a => cfg.fl.roundPct e a ≤ t) (selProfile cfg q).2.1 (vadd est (estimateVec cfg q.pod)) (allocOf q) :=
  filter_pass_sound cfg evs q m hn hd ht hm hx hi (by rw [← framework_verdict_eq_filter]; exact hpass)

/-- the general rule, for ANY PreFilter that never rejects: the framework answers as Filter does on every node
iff PreFilter skips only where Filter passes on every node. -/
theorem framework_faithful_iff_safe_skip (pf : FilterQ → PreStatus) (hr : ∀ q, pf q ≠ .reject) :
    FwFaithful pf ↔ SafeSkip pf :=
  ⟨safe_of_fwFaithful pf, fwFaithful_of_safe pf hr⟩

/-- a PreFilter that cannot see the node (it is called once per cycle, before any node) can safely skip for
DaemonSet pods ONLY: for every other pod, whatever the plugin-level thresholds, expiry switches and the pod are,
there is a node (annotation with thresholds, fresh report, high usage) that Filter rejects. -/
theorem skip_safe_only_for_daemonset (pf : FilterQ → PreStatus) (hb : NodeBlind pf) (hs : SafeSkip pf) (q : FilterQ)
    (h : pf q = .skip) : q.daemon = true :=
  skip_only_daemonset pf hb hs q h

/-- and that one is safe (a behaviour-preserving variant) -/
theorem daemonset_skip_is_safe : SafeSkip preFilterDaemonSkips ∧ NodeBlind preFilterDaemonSkips := by
  refine ⟨?_, fun _ _ => rfl⟩
  intro cfg c q hn h
  have hd : q.daemon = true := by
    cases hq : q.daemon with
    | true => rfl
    | false => simp [preFilterDaemonSkips, hq] at h
  exact filter_daemonset cfg c q hn hd

/-- the fourth-round seeded change (Skip also when the plugin-level profile has no non-zero threshold):
cluster-wide thresholds {cpu: 0}, node annotated cpu <= 50 %, node at 87 %: Filter rejects (1), the framework passes (0). -/
theorem disabled_profile_skip_counterexample :
    preFilterDisabledSkips 1 fwQ = .skip ∧ filter fwCfg fwCache fwQ = 1 ∧
      fwVerdict (preFilterDisabledSkips 1 fwQ) fwCfg fwCache fwQ = 0 ∧ ¬ SafeSkip (preFilterDisabledSkips 1) := by
  have h1 : preFilterDisabledSkips 1 fwQ = .skip := by decide
  have h2 : filter fwCfg fwCache fwQ = 1 := by decide
  refine ⟨h1, h2, by rw [h1]; rfl, ?_⟩
  intro hs
  have := hs fwCfg fwCache fwQ rfl h1
  rw [h2] at this
  exact absurd this (by decide)

/-! ### non-vacuity -/

/-- the hypotheses of `framework_pass_sound` are satisfiable with thresholds that come from the node annotation only -/
example : fwFilter fwCfg fwCache { fwQ with alloc := [20000] } = 0 ∧
    vEmpty (selProfile fwCfg { fwQ with alloc := [20000] }).2.1 = false ∧
    profileDisabled 1 fwQ.args = true := by decide


example : RoundOK exactFloat.roundPct := by
  refine ⟨?_, ?_⟩ <;> intro e a ha he <;> simp only [exactFloat]
  · have := Int.lt_ediv_add_one_mul_self (200 * e + a) (show 0 < 2 * a by omega)
    have h3 : ((200 * e + a) / (2 * a) + 1) * (2 * a) = 2 * a * ((200 * e + a) / (2 * a)) + 2 * a := by
      rw [Int.add_mul, Int.one_mul, Int.mul_comm]
    omega
  · have := Int.ediv_mul_le (200 * e + a) (show 2 * a ≠ 0 by omega)
    rw [Int.mul_comm] at this; exact this

/-- a pod whose usage is reported, scheduled long before the report: contributes usage-delta 0 once
the deadline passed, and its full estimate always. -/
example : (scratch cfgW reportA (some 100)
    [{ desc := podW, est := some [5280], ts := 0, deadline := none }]).nodeEst = [5280] := by decide

example : filter cfgW (run cfgW [Ev.metric 1 reportA, Ev.add podW 90])
    { node := 1, hasNode := true, daemon := false, args := ⟨[some 50], [], none⟩, customKind := 0, custom := ⟨[], [], none⟩,
      filterExpired := 0, hasExp := false, expSec := 0, enableWhenExpired := -1, alloc := [20000], rawKind := 0, raw := [],
      pod := podW } = 1 := by decide

example : filter cfgW (run cfgW [Ev.metric 1 reportA, Ev.add podW 90])
    { node := 1, hasNode := true, daemon := false, args := ⟨[some 50], [], none⟩, customKind := 0, custom := ⟨[], [], none⟩,
      filterExpired := 0, hasExp := false, expSec := 0, enableWhenExpired := -1, alloc := [21000], rawKind := 0, raw := [],
      pod := podW } = 0 := by decide


/-! ### 9. NodeMetric informer glue -/

/-- an Update event puts the NEW object in force, whatever the old object is. -/
theorem metric_update_puts_new_object_in_force (cfg : Cfg) (c : Cache) (k : Nat) (old : Option Metric) (m : Metric) :
    ((step cfg c (handle (.update k old m))).get k).metric = some m := by
  simp [handle, step, get_set, Node.setMetric]

/-- **from scratch on the CURRENT NodeMetric object (spec + status).**  After any history of pod events and NodeMetric
informer events (Add / Update(old, new) / Delete through the registered handler) that ends with an Update of node `k`
to the object `m` - spec-only, status-only or both, whatever `old` was - the cached sums of `k` are the from-scratch
computation with `m`'s OWN report interval (spec) and `m`'s report (status) over the pods assigned to `k`. -/
theorem metric_update_sums_from_new_object (cfg : Cfg) (evs : List Ev) (k : Nat) (old : Option Metric) (m : Metric) :
    let c := run cfg (evs ++ [handle (.update k old m)])
    (c.get k).sums = scratch cfg m (reportTime m) (c.get k).pods := by
  intro c
  apply cache_eq_from_report cfg (evs ++ [handle (.update k old m)]) k m
  show ((run cfg (evs ++ [handle (.update k old m)])).get k).metric = some m
  unfold run
  rw [List.foldl_append]
  exact metric_update_puts_new_object_in_force cfg _ k old m

/-- in particular the interval in force is the new object's. -/
theorem spec_only_update_changes_interval (cfg : Cfg) (c : Cache) (k : Nat) (old m : Metric) (_h : old.statusEq m = true) :
    ((step cfg c (handle (.update k (some old) m))).get k).metric.map intervalOf = some (intervalOf m) := by
  rw [metric_update_puts_new_object_in_force]; rfl

def evCfg : Cfg := { d := 1, factors := [some 100], allowCustom := false, secSched := -1, secInit := -1,
                     prodIncludeSys := false, fl := exactFloat }
def evPod : PodDesc := { uid := 1, key := 1, cls := 1, prioVariant := 0, term := false, rsv := false, specNode := 1,
                         sched := some ⟨true, some 100⟩, init := none, customFactors := [], customSched := -1, customInit := -1,
                         res := [(16000, 0)] }
def evMetric (interval : Int) : Metric :=
  { hasUpd := true, updT := 300, interval := interval, hasInfo := true, nodeUsage := [30000], sysUsage := [0], aggs := [],
    pods := [{ key := 1, prod := true, kind := 0, usage := [0] }] }
def evBefore : Cache := run evCfg [.add evPod 100, handle (.add 1 (evMetric 60))]

/-- the handler as written: the spec-only update 60 s -> 300 s is applied; the pod scheduled 200 s before the report is
now inside the report interval and its estimate of 16 CPUs counts (30 + 16 = 46 CPUs). -/
theorem metric_spec_only_update_applied :
    (evMetric 60).statusEq (evMetric 300) = true ∧
    ((evBefore.get 1).sums.nodeDelta = [0]) ∧
    ((step evCfg evBefore (handle (.update 1 (some (evMetric 60)) (evMetric 300)))).get 1).sums.nodeDelta = [16000] ∧
    (scratch evCfg (evMetric 300) (reportTime (evMetric 300)) (evBefore.get 1).pods).nodeDelta = [16000] := by decide

/-- a handler that drops updates with an unchanged status keeps the sums of the OLD interval: they differ from the
from-scratch value on the current object (30 instead of 46 CPUs). -/
theorem metric_status_filter_counterexample :
    ¬ (((handleStatusFiltered evCfg evBefore (.update 1 (some (evMetric 60)) (evMetric 300))).get 1).sums =
        scratch evCfg (evMetric 300) (reportTime (evMetric 300))
          ((handleStatusFiltered evCfg evBefore (.update 1 (some (evMetric 60)) (evMetric 300))).get 1).pods) := by decide

/-- **a status-only pod update is a no-op on the cache**: OnUpdate renews a cached pod only when the PodSpec or the
conditions differ from the cached object's (or the pod became terminal).  So the cached estimate is the estimate of the
CURRENT pod object only because the estimate reads nothing but spec, conditions-derived times and (by design, see
level_note) metadata: `estimatedPodUsed` must not read status.containerStatuses[].resources (Ties/C08.lean
`tie_estimate_reads_spec_only`; the harness generates such statuses and status-only updates). -/
theorem status_only_update_is_noop (cfg : Cfg) (c : Cache) (p : PodDesc) (now : Int) (o : PodInfo)
    (hn : p.specNode ≠ 0) (hc : (c.get p.specNode).pods.find? (isUid p.uid) = some o)
    (ht : p.term = false) (hs : specEq p o.desc = true) (hq : condEq p o.desc = true) :
    onUpdate cfg c p.specNode p now = c := by
  unfold onUpdate
  simp [hn, hc, ht, hs, hq]

/-- the hypotheses of `status_only_update_is_noop` are satisfiable: the pod of the example above, delivered again -/
example : ((evBefore.get 1).pods.find? (isUid 1)).map (fun o => specEq evPod o.desc && condEq evPod o.desc) = some true := by
  decide

end KoordVerif.C08
