import KoordVerif.Model.C09
import KoordVerif.Model.C09Plugin
import KoordVerif.Model.C09Reconcile
import KoordVerif.Model.C09Strategy
import KoordVerif.Proofs.C09Ext4
/-
C09 — property theorems (DESIGN.md §4 C09).  The float64 operations are a parameter `F`; the
theorems assume only the algebraic facts collected in `FloatOK` (the harness tests them on every
generated input).  All statements are universally quantified over strategies, nodes, pod lists,
metrics and amounts; no bound on list lengths or magnitudes.
-/
namespace KoordVerif.C09

/-- assumptions on the float64 helpers (`int64(float64(v)*(k/100))`, `int64(ceil(v/n))`). -/
structure FloatOK (F : FloatOps) : Prop where
  mul_nonneg : ∀ v k, 0 ≤ v → 0 ≤ k → 0 ≤ F.mulPct v k
  mul_le     : ∀ v k, 0 ≤ v → 0 ≤ k → k ≤ 100 → F.mulPct v k ≤ v
  mul_mono_k : ∀ v k k', 0 ≤ v → k ≤ k' → F.mulPct v k ≤ F.mulPct v k'
  div_nonneg : ∀ a n, 0 ≤ a → 0 < n → 0 ≤ F.divCeil a n
  div_mono   : ∀ a b n, a ≤ b → 0 < n → F.divCeil a n ≤ F.divCeil b n

/-- the exact-rational instance satisfies the assumptions (they are consistent). -/
def exactOps : FloatOps := { mulPct := fun v k => v * k / 100, divCeil := fun v n => (v + n - 1) / n }

/-- the amount the statement subtracts for the configured policy: "what high-priority pods use
    (or request, or the larger of both, per the configured policy)". -/
def literalHP (pol : Policy) (hpReq hpUsed hpMax : Int) : Int :=
  match pol with
  | .request => hpReq
  | .maxUR => hpMax
  | _ => hpUsed

/-! ### 1. never negative -/

theorem byPolicy_nonneg (d : Dim) (pol : Policy) (cl : Option Int) (cap margin reserved sys a b c : Int)
    (hcl : ∀ l, cl = some l → 0 ≤ l) : 0 ≤ byPolicy d pol cl cap margin reserved sys a b c := by
  unfold byPolicy pickPolicy
  cases cl with
  | none => cases d <;> cases pol <;> simp <;> omega
  | some l =>
    have := hcl l rfl
    cases d <;> cases pol <;> simp <;> split <;> omega

theorem batch_nonneg (F : FloatOps) (hF : FloatOK F) (k : PrioConsts) (s : Strategy) (n : NodeIn) (hs : List HostApp)
    (pods : List PodIn) (ms : List Metric) (d : Dim)
    (hcap : 0 ≤ n.cap d) (hpct : ∀ p, s.cap d = some p → 0 ≤ p) :
    0 ≤ nodeBatch F k s n hs pods ms d := by
  unfold nodeBatch nodeBatchR
  apply byPolicy_nonneg
  intro l hl
  unfold capLimit at hl
  cases hc : s.cap d with
  | none => simp [hc] at hl
  | some p =>
    simp [hc] at hl
    rw [← hl]; exact hF.mul_nonneg _ _ hcap (hpct p hc)

/-! ### 2. upper bound: out ≤ cap − margin − max(sys, reserved) − HP(policy), or 0 -/

/-- full-strength bound for every policy except `request`. -/
theorem byPolicy_upper (d : Dim) (pol : Policy) (cl : Option Int) (cap margin reserved sys hpReq hpUsed hpMax : Int)
    (hpol : pol ≠ .request) :
    byPolicy d pol cl cap margin reserved sys hpReq hpUsed hpMax ≤
      max (cap - margin - max sys reserved - literalHP pol hpReq hpUsed hpMax) 0 := by
  unfold byPolicy pickPolicy literalHP
  cases cl with
  | none => cases d <;> cases pol <;> simp at hpol ⊢ <;> omega
  | some l => cases d <;> cases pol <;> simp at hpol ⊢ <;> split <;> omega

/-
FULL STATEMENT (fails on the code as written, see the two counterexamples below):
  ∀ d pol …, byPolicy d pol cl cap margin reserved sys hpReq hpUsed hpMax
               ≤ max (cap − margin − max sys reserved − literalHP pol hpReq hpUsed hpMax) 0
For pol = request the code (a) for memory subtracts only `reserved`, not `max sys reserved`
(util.go batchAllocatableByRequest), (b) for CPU silently computes with the usage policy.
Proved parts:
-/
theorem batch_upper_request_partial (cl : Option Int) (cap margin reserved sys hpReq hpUsed hpMax : Int) :
    byPolicy .mem .request cl cap margin reserved sys hpReq hpUsed hpMax ≤ max (cap - margin - reserved - hpReq) 0 := by
  unfold byPolicy pickPolicy
  cases cl with
  | none => simp
  | some l => simp; split <;> omega

theorem batch_upper_cpu_request_partial (cl : Option Int) (cap margin reserved sys hpReq hpUsed hpMax : Int) :
    byPolicy .cpu .request cl cap margin reserved sys hpReq hpUsed hpMax ≤ max (cap - margin - max sys reserved - hpUsed) 0 := by
  unfold byPolicy pickPolicy
  cases cl with
  | none => simp
  | some l => simp; split <;> omega

/-- memory, policy=request: cap 100, margin 0, reserved 0, system usage 30, no pods ⇒ 100 > 70. -/
theorem batch_upper_request_counterexample :
    ¬ (byPolicy .mem .request none 100 0 0 30 0 0 0 ≤ max (100 - 0 - max 30 0 - literalHP .request 0 0 0) 0) := by decide

/-- cpu, policy=request: one HP pod requesting 40 and using 10 ⇒ 90 > 60. -/
theorem batch_upper_cpu_request_counterexample :
    ¬ (byPolicy .cpu .request none 100 0 0 0 40 10 40 ≤ max (100 - 0 - max 0 0 - literalHP .request 40 10 40) 0) := by decide

/-- node level, in the terms of the statement. -/
theorem batch_upper (F : FloatOps) (k : PrioConsts) (s : Strategy) (n : NodeIn) (hs : List HostApp)
    (pods : List PodIn) (ms : List Metric) (d : Dim) (hpol : s.pol d ≠ .request) :
    nodeBatch F k s n hs pods ms d ≤
      max (n.cap d - safetyMargin F s d (n.cap d) - max (n.sys d + hostHPUsed k .batch hs d) (nodeReserved n d)
            - literalHP (s.pol d) (hpReq d (resolvePods pods (metricMap ms)))
                (hpUsed d (resolvePods pods (metricMap ms)) (dangling pods (metricMap ms)))
                (hpMax d (resolvePods pods (metricMap ms)) (dangling pods (metricMap ms)))) 0 := by
  unfold nodeBatch nodeBatchR
  exact byPolicy_upper _ _ _ _ _ _ _ _ _ _ hpol

/-- what the statement calls the usage of a pod: its metric, or its request while it has none. -/
def literalUse (d : Dim) (p : RPod) : Int := if p.hasMetric then p.used d else p.req d

/-- an LSE pod runs on exclusive cores: its cpu usage does not exceed its request. -/
def LSEok (p : RPod) : Prop := p.lse = true → p.hasMetric = true → p.usedC ≤ p.reqC

theorem chargeUsed_ge_literal (d : Dim) (p : RPod) (h : LSEok p) : literalUse d p ≤ chargeUsed d p := by
  unfold literalUse chargeUsed
  cases hm : p.hasMetric <;> cases hl : p.lse <;> cases d <;> simp [RPod.req, RPod.used]
  exact h hl hm

theorem chargeMax_ge (d : Dim) (p : RPod) : literalUse d p ≤ chargeMax d p ∧ p.req d ≤ chargeMax d p := by
  unfold literalUse chargeMax
  cases hm : p.hasMetric <;> simp <;> omega

theorem sum_map_le {α} (f g : α → Int) (l : List α) (h : ∀ x ∈ l, f x ≤ g x) : (l.map f).sum ≤ (l.map g).sum := by
  induction l with
  | nil => simp
  | cons x xs ih =>
    simp only [List.map_cons, List.sum_cons]
    have := h x (by simp)
    have := ih (fun y hy => h y (by simp [hy]))
    omega

/-- usage policy, literal reading: the published amount stays below capacity − margin − max(system, reserved)
    − Σ (usage of every HP pod, request for pods without metrics) − Σ dangling HP usage. -/
theorem batch_upper_usage_literal (F : FloatOps) (k : PrioConsts) (s : Strategy) (n : NodeIn) (hs : List HostApp)
    (ps : List RPod) (dg : List Metric) (d : Dim) (hpol : s.pol d = .usage ∨ s.pol d = .unset)
    (hl : ∀ p ∈ ps, LSEok p) :
    nodeBatchR F k s n hs ps dg d ≤
      max (n.cap d - safetyMargin F s d (n.cap d) - max (n.sys d + hostHPUsed k .batch hs d) (nodeReserved n d)
            - ((ps.map (literalUse d)).sum + (dg.map (fun m => m.used d)).sum)) 0 := by
  have h1 := sum_map_le (literalUse d) (chargeUsed d) ps (fun p hp => chargeUsed_ge_literal d p (hl p hp))
  have h2 : nodeBatchR F k s n hs ps dg d ≤ _ :=
    byPolicy_upper d (s.pol d) (capLimit F s d (n.cap d)) (n.cap d) (safetyMargin F s d (n.cap d)) (nodeReserved n d)
      (n.sys d + hostHPUsed k .batch hs d) (hpReq d ps) (hpUsed d ps dg) (hpMax d ps dg)
      (by rcases hpol with h | h <;> simp [h])
  have h3 : literalHP (s.pol d) (hpReq d ps) (hpUsed d ps dg) (hpMax d ps dg) = hpUsed d ps dg := by
    rcases hpol with h | h <;> simp [h, literalHP]
  rw [h3] at h2
  unfold hpUsed at h2
  omega

/-! ### 3. percentage cap -/

theorem byPolicy_le_limit (d : Dim) (pol : Policy) (l cap margin reserved sys a b c : Int) :
    byPolicy d pol (some l) cap margin reserved sys a b c ≤ l := by
  unfold byPolicy; simp only; split <;> omega

theorem batch_pct_cap (F : FloatOps) (k : PrioConsts) (s : Strategy) (n : NodeIn) (hs : List HostApp)
    (pods : List PodIn) (ms : List Metric) (d : Dim) (pct : Int) (h : s.cap d = some pct) :
    nodeBatch F k s n hs pods ms d ≤ F.mulPct (n.cap d) pct := by
  unfold nodeBatch nodeBatchR capLimit
  rw [h]; exact byPolicy_le_limit _ _ _ _ _ _ _ _ _ _

/-- with a percentage ≤ 100 the published amount never exceeds the capacity itself. -/
theorem batch_le_capacity (F : FloatOps) (hF : FloatOK F) (k : PrioConsts) (s : Strategy) (n : NodeIn) (hs : List HostApp)
    (pods : List PodIn) (ms : List Metric) (d : Dim) (pct : Int) (h : s.cap d = some pct)
    (hcap : 0 ≤ n.cap d) (h0 : 0 ≤ pct) (h100 : pct ≤ 100) :
    nodeBatch F k s n hs pods ms d ≤ n.cap d :=
  Int.le_trans (batch_pct_cap F k s n hs pods ms d pct h) (hF.mul_le _ _ hcap h0 h100)

/-! ### 4. antitone in every consumption input -/

theorem byPolicy_antitone (d : Dim) (pol : Policy) (cl : Option Int)
    (cap margin margin' reserved reserved' sys sys' a a' b b' c c' : Int)
    (hm : margin ≤ margin') (hr : reserved ≤ reserved') (hs : sys ≤ sys') (ha : a ≤ a') (hb : b ≤ b') (hc : c ≤ c') :
    byPolicy d pol cl cap margin' reserved' sys' a' b' c' ≤ byPolicy d pol cl cap margin reserved sys a b c := by
  unfold byPolicy pickPolicy
  cases cl with
  | none => cases d <;> cases pol <;> simp <;> omega
  | some l => cases d <;> cases pol <;> simp <;> split <;> split <;> omega

/-- pointwise relation between two lists of the same length. -/
inductive All2 {α : Type} (R : α → α → Prop) : List α → List α → Prop
  | nil : All2 R [] []
  | cons {a b : α} {as bs : List α} : R a b → All2 R as bs → All2 R (a :: as) (b :: bs)

theorem sum_map_le2 {α : Type} (R : α → α → Prop) (f : α → Int) (hf : ∀ a b, R a b → f a ≤ f b)
    (l l' : List α) (h : All2 R l l') : (l.map f).sum ≤ (l'.map f).sum := by
  induction h with
  | nil => simp
  | cons hab _ ih => simp only [List.map_cons, List.sum_cons]; have := hf _ _ hab; omega

/-- pod `q` is pod `p` with request and/or usage raised (same flags, same NUMA placement). -/
def PodLe (p q : RPod) : Prop :=
  p.lse = q.lse ∧ p.hasMetric = q.hasMetric ∧ p.numa = q.numa ∧
  p.reqC ≤ q.reqC ∧ p.reqM ≤ q.reqM ∧ p.usedC ≤ q.usedC ∧ p.usedM ≤ q.usedM

def MetLe (m m' : Metric) : Prop := m.usedC ≤ m'.usedC ∧ m.usedM ≤ m'.usedM
def HostLe (h h' : HostApp) : Prop := h.prio = h'.prio ∧ h.usedC ≤ h'.usedC ∧ h.usedM ≤ h'.usedM

theorem PodLe.req_le {p q : RPod} (h : PodLe p q) (d : Dim) : p.req d ≤ q.req d := by
  obtain ⟨_, _, _, h1, h2, _, _⟩ := h; cases d <;> simp [RPod.req] <;> assumption

theorem PodLe.used_le {p q : RPod} (h : PodLe p q) (d : Dim) : p.used d ≤ q.used d := by
  obtain ⟨_, _, _, _, _, h1, h2⟩ := h; cases d <;> simp [RPod.used] <;> assumption

theorem chargeUsed_mono (d : Dim) (p q : RPod) (h : PodLe p q) : chargeUsed d p ≤ chargeUsed d q := by
  have hr := h.req_le d; have hu := h.used_le d
  obtain ⟨hl, hm, _⟩ := h
  unfold chargeUsed; rw [← hl, ← hm]
  cases p.hasMetric <;> cases p.lse <;> cases d <;> simp <;> assumption

theorem chargeMax_mono (d : Dim) (p q : RPod) (h : PodLe p q) : chargeMax d p ≤ chargeMax d q := by
  have hr := h.req_le d; have hu := h.used_le d
  obtain ⟨_, hm, _⟩ := h
  unfold chargeMax; rw [← hm]
  cases p.hasMetric <;> simp <;> omega

theorem hostHPUsed_mono (k : PrioConsts) (r : Prio) (d : Dim) (hs hs' : List HostApp) (h : All2 HostLe hs hs') :
    hostHPUsed k r hs d ≤ hostHPUsed k r hs' d := by
  unfold hostHPUsed
  induction h with
  | nil => simp
  | @cons a b as bs hab _ ih =>
    obtain ⟨hp, hc, hm⟩ := hab
    have hle : a.used d ≤ b.used d := by cases d <;> simp [HostApp.used] <;> assumption
    simp only [List.filter_cons, hp]
    split
    · simp only [List.map_cons, List.sum_cons]; omega
    · exact ih

/-- the node-level amount never rises when: the reclaim threshold is lowered (larger safety margin),
    system usage / annotation reservation rise, allocatable falls (larger kubelet reservation), HP host
    applications use more, any HP pod's request or usage rises, any dangling HP metric rises. -/
theorem batch_antitone (F : FloatOps) (hF : FloatOK F) (k : PrioConsts) (s s' : Strategy) (n n' : NodeIn)
    (hs hs' : List HostApp) (ps ps' : List RPod) (dg dg' : List Metric) (d : Dim)
    (hpol : s'.pol d = s.pol d) (hcl : s'.cap d = s.cap d) (hthr : s'.thr d ≤ s.thr d)
    (hcap : n'.cap d = n.cap d) (hcap0 : 0 ≤ n.cap d)
    (halloc : n'.alloc d ≤ n.alloc d) (hanno : n.anno d ≤ n'.anno d) (hsys : n.sys d ≤ n'.sys d)
    (hhost : All2 HostLe hs hs')
    (hpods : All2 PodLe ps ps') (hdg : All2 MetLe dg dg') :
    nodeBatchR F k s' n' hs' ps' dg' d ≤ nodeBatchR F k s n hs ps dg d := by
  unfold nodeBatchR capLimit safetyMargin
  rw [hpol, hcl, hcap]
  have hdgs : (dg.map (fun m => m.used d)).sum ≤ (dg'.map (fun m => m.used d)).sum :=
    sum_map_le2 MetLe _ (fun a b h => by cases d <;> simp [Metric.used] <;> first | exact h.1 | exact h.2) _ _ hdg
  apply byPolicy_antitone
  · exact hF.mul_mono_k _ _ _ hcap0 (by omega)
  · unfold nodeReserved kubeletReserved; rw [hcap]; omega
  · have := hostHPUsed_mono k .batch d hs hs' hhost; omega
  · exact sum_map_le2 PodLe _ (fun a b h => h.req_le d) _ _ hpods
  · unfold hpUsed
    have := sum_map_le2 PodLe _ (chargeUsed_mono d) _ _ hpods; omega
  · unfold hpMax
    have := sum_map_le2 PodLe _ (chargeMax_mono d) _ _ hpods; omega

/-- a further high-priority pod (with non-negative request and usage) never raises the amount. -/
theorem batch_antitone_new_pod (F : FloatOps) (k : PrioConsts) (s : Strategy) (n : NodeIn) (hs : List HostApp)
    (p : RPod) (ps : List RPod) (dg : List Metric) (d : Dim) (hr : 0 ≤ p.req d) (hu : 0 ≤ p.used d) :
    nodeBatchR F k s n hs (p :: ps) dg d ≤ nodeBatchR F k s n hs ps dg d := by
  unfold nodeBatchR
  apply byPolicy_antitone <;> try omega
  · simp [hpReq]; omega
  · have : 0 ≤ chargeUsed d p := by
      unfold chargeUsed; cases p.hasMetric <;> cases p.lse <;> cases d <;> simp <;> assumption
    simp [hpUsed]; omega
  · have : 0 ≤ chargeMax d p := by unfold chargeMax; cases p.hasMetric <;> simp <;> omega
    simp [hpMax]; omega

/-! ### 5. pods without metrics are charged at their request — for all three policies -/

theorem no_metric_charge (d : Dim) (p : RPod) (h : p.hasMetric = false) :
    chargeUsed d p = p.req d ∧ chargeMax d p = p.req d := by
  simp [chargeUsed, chargeMax, h]

/-- whatever the policy, the amount subtracted for HP pods grows by exactly the request of a pod that
    has not reported metrics yet (wherever it stands in the pod list). -/
theorem no_metric_charged_at_request (d : Dim) (pol : Policy) (pre post : List RPod) (p : RPod) (dg : List Metric)
    (h : p.hasMetric = false) :
    literalHP pol (hpReq d (pre ++ p :: post)) (hpUsed d (pre ++ p :: post) dg) (hpMax d (pre ++ p :: post) dg) =
      literalHP pol (hpReq d (pre ++ post)) (hpUsed d (pre ++ post) dg) (hpMax d (pre ++ post) dg) + p.req d := by
  obtain ⟨h1, h2⟩ := no_metric_charge d p h
  unfold literalHP hpReq hpUsed hpMax
  cases pol <;> simp [List.map_append, List.sum_append, h1, h2] <;> omega

/-- consequence for the published amount, all policies, in the code's own bound (which for
    usage/maxUsageRequest is the statement's bound, see `byPolicy_upper`). -/
theorem no_metric_lowers_batch (F : FloatOps) (k : PrioConsts) (s : Strategy) (n : NodeIn) (hs : List HostApp)
    (pre post : List RPod) (p : RPod) (dg : List Metric) (d : Dim) (h : p.hasMetric = false) :
    nodeBatchR F k s n hs (pre ++ p :: post) dg d =
      byPolicy d (s.pol d) (capLimit F s d (n.cap d)) (n.cap d) (safetyMargin F s d (n.cap d)) (nodeReserved n d)
        (n.sys d + hostHPUsed k .batch hs d)
        (hpReq d (pre ++ post) + p.req d) (hpUsed d (pre ++ post) dg + p.req d) (hpMax d (pre ++ post) dg + p.req d) := by
  obtain ⟨h1, h2⟩ := no_metric_charge d p h
  unfold nodeBatchR hpReq hpUsed hpMax
  simp only [List.map_append, List.sum_append, List.map_cons, List.sum_cons, h1, h2]
  congr 1 <;> omega

/-- raw level: a Running/Pending HP pod of the list whose key has no metric entry is resolved to a
    metric-less pod carrying its request (so the lemmas above apply to it). -/
theorem resolve_no_metric (pods : List PodIn) (mm : List Metric) (p : PodIn) (hp : p ∈ pods)
    (hact : p.active = true) (hhp : isHP p.prio = true) (hno : findMetric mm p.key = none) :
    ∃ rp ∈ resolvePods pods mm, rp.hasMetric = false ∧ rp.reqC = p.reqC ∧ rp.reqM = p.reqM := by
  unfold resolvePods
  refine ⟨_, List.mem_map.mpr ⟨p, List.mem_filter.mpr ⟨hp, by simp [hact, hhp]⟩, rfl⟩, ?_⟩
  simp [hno]

/-! ### 6. stale or missing node metrics withdraw the resource -/

theorem degrade_resets (F : FloatOps) (k : PrioConsts) (s : Strategy) (n : NodeIn) (hs : List HostApp)
    (pods : List PodIn) (ms : List Metric) (zs : List Zone) (hasUpd : Bool) (now upd : Int)
    (h : hasUpd = false ∨ now > upd + s.degradeMin * 60) :
    calculate F k s n hs pods ms zs hasUpd now upd = .degraded := by
  unfold calculate isDegradeNeeded
  rcases h with h | h
  · simp [h]
  · simp [h]

/-- and only then (fresh metrics are never degraded). -/
theorem fresh_not_degraded (F : FloatOps) (k : PrioConsts) (s : Strategy) (n : NodeIn) (hs : List HostApp)
    (pods : List PodIn) (ms : List Metric) (zs : List Zone) (now upd : Int) (h : now ≤ upd + s.degradeMin * 60) :
    calculate F k s n hs pods ms zs true now upd ≠ .degraded := by
  unfold calculate isDegradeNeeded
  have : ¬ (now > upd + s.degradeMin * 60) := by omega
  simp [this]

/-! ### 7. NUMA zones obey the same bounds per zone (amounts in milli units) -/

theorem zone_nonneg (F : FloatOps) (hF : FloatOK F) (k : PrioConsts) (s : Strategy) (n : NodeIn) (hs : List HostApp)
    (ps : List RPod) (dg : List Metric) (zn i : Nat) (z : Zone) (d : Dim)
    (hcap : 0 ≤ z.alloc d) (hpct : ∀ p, s.cap d = some p → 0 ≤ p) :
    0 ≤ zoneBatchR F k s n hs ps dg zn i z d := by
  unfold zoneBatchR
  apply byPolicy_nonneg
  intro l hl
  unfold capLimit at hl
  cases hc : s.cap d with
  | none => simp [hc] at hl
  | some p =>
    simp [hc] at hl
    have := hF.mul_nonneg _ _ hcap (hpct p hc)
    rw [← hl]; cases d <;> simp [milli] <;> omega

theorem zone_upper (F : FloatOps) (k : PrioConsts) (s : Strategy) (n : NodeIn) (hs : List HostApp)
    (ps : List RPod) (dg : List Metric) (zn i : Nat) (z : Zone) (d : Dim) (hpol : s.pol d ≠ .request) :
    zoneBatchR F k s n hs ps dg zn i z d ≤
      max (milli d (z.alloc d) - milli d (safetyMargin F s d (z.alloc d))
            - max (F.divCeil (milli d (n.sys d + hostHPUsed k .batch hs d)) zn) (F.divCeil (milli d (nodeReserved n d)) zn)
            - literalHP (s.pol d) ((ps.map (zReq F zn i d)).sum)
                ((ps.map (zChargeUsed F zn i d)).sum + zDangling F zn d dg)
                ((ps.map (zChargeMax F zn i d)).sum + zDangling F zn d dg)) 0 := by
  unfold zoneBatchR
  exact byPolicy_upper _ _ _ _ _ _ _ _ _ _ hpol

theorem zone_pct_cap (F : FloatOps) (k : PrioConsts) (s : Strategy) (n : NodeIn) (hs : List HostApp)
    (ps : List RPod) (dg : List Metric) (zn i : Nat) (z : Zone) (d : Dim) (pct : Int) (h : s.cap d = some pct) :
    zoneBatchR F k s n hs ps dg zn i z d ≤ milli d (F.mulPct (z.alloc d) pct) := by
  unfold zoneBatchR capLimit
  rw [h]; exact byPolicy_le_limit _ _ _ _ _ _ _ _ _ _

theorem milli_mono (d : Dim) (a b : Int) (h : a ≤ b) : milli d a ≤ milli d b := by
  cases d <;> simp [milli] <;> omega

theorem zoneShare_mono (F : FloatOps) (hF : FloatOK F) (zn : Nat) (numa : List Int) (i : Nat) (x y : Int)
    (hzn : 0 < zn) (h : x ≤ y) : zoneShare F zn numa i x ≤ zoneShare F zn numa i y := by
  unfold zoneShare
  simp only
  split
  · exact hF.div_mono _ _ _ h (by omega)
  · rename_i hv
    split
    · exact hF.div_mono _ _ _ h (by omega)
    · omega

theorem zone_charges_mono (F : FloatOps) (hF : FloatOK F) (zn i : Nat) (d : Dim) (hzn : 0 < zn) (p q : RPod) (h : PodLe p q) :
    zReq F zn i d p ≤ zReq F zn i d q ∧ zChargeUsed F zn i d p ≤ zChargeUsed F zn i d q ∧
    zChargeMax F zn i d p ≤ zChargeMax F zn i d q := by
  have hr := h.req_le d; have hu := h.used_le d
  obtain ⟨hl, hm, hn, _⟩ := h
  have hreq : zReq F zn i d p ≤ zReq F zn i d q := by
    unfold zReq; rw [← hn]; exact zoneShare_mono F hF zn _ i _ _ hzn (milli_mono d _ _ hr)
  have huse : zUse F zn i d p ≤ zUse F zn i d q := by
    unfold zUse; rw [← hn, ← hm]
    apply zoneShare_mono F hF zn _ i _ _ hzn
    apply milli_mono
    cases p.hasMetric <;> simp <;> assumption
  refine ⟨hreq, ?_, ?_⟩
  · unfold zChargeUsed; rw [← hl, ← hm]
    cases p.hasMetric <;> cases p.lse <;> cases d <;> simp <;> assumption
  · unfold zChargeMax; rw [← hm]
    cases p.hasMetric <;> simp <;> omega

/-- zone amounts are antitone in the same consumption inputs. -/
theorem zone_antitone (F : FloatOps) (hF : FloatOK F) (k : PrioConsts) (s s' : Strategy) (n n' : NodeIn)
    (hs hs' : List HostApp) (ps ps' : List RPod) (dg dg' : List Metric) (zn i : Nat) (z : Zone) (d : Dim)
    (hzn : 0 < zn) (hpol : s'.pol d = s.pol d) (hcl : s'.cap d = s.cap d) (hthr : s'.thr d ≤ s.thr d)
    (hcap : n'.cap d = n.cap d) (hz0 : 0 ≤ z.alloc d)
    (halloc : n'.alloc d ≤ n.alloc d) (hanno : n.anno d ≤ n'.anno d) (hsys : n.sys d ≤ n'.sys d)
    (hhost : All2 HostLe hs hs')
    (hpods : All2 PodLe ps ps') (hdg : All2 MetLe dg dg') :
    zoneBatchR F k s' n' hs' ps' dg' zn i z d ≤ zoneBatchR F k s n hs ps dg zn i z d := by
  unfold zoneBatchR capLimit safetyMargin
  rw [hpol, hcl]
  have hdgs : zDangling F zn d dg ≤ zDangling F zn d dg' := by
    unfold zDangling
    apply sum_map_le2 MetLe _ _ _ _ hdg
    intro a b h
    apply hF.div_mono _ _ _ _ (by omega)
    apply milli_mono
    cases d <;> simp [Metric.used] <;> first | exact h.1 | exact h.2
  apply byPolicy_antitone
  · exact milli_mono d _ _ (hF.mul_mono_k _ _ _ hz0 (by omega))
  · apply hF.div_mono _ _ _ _ (by omega)
    apply milli_mono
    unfold nodeReserved kubeletReserved; rw [hcap]; omega
  · apply hF.div_mono _ _ _ _ (by omega)
    apply milli_mono
    have := hostHPUsed_mono k .batch d hs hs' hhost; omega
  · exact sum_map_le2 PodLe _ (fun a b h => (zone_charges_mono F hF zn i d hzn a b h).1) _ _ hpods
  · have := sum_map_le2 PodLe _ (fun a b h => (zone_charges_mono F hF zn i d hzn a b h).2.1) _ _ hpods; omega
  · have := sum_map_le2 PodLe _ (fun a b h => (zone_charges_mono F hF zn i d hzn a b h).2.2) _ _ hpods; omega

/-- a pod without metrics is charged its (zone share of the) request in every zone, all policies. -/
theorem zone_no_metric_charged_at_request (F : FloatOps) (zn i : Nat) (d : Dim) (p : RPod) (h : p.hasMetric = false) :
    zChargeUsed F zn i d p = zReq F zn i d p ∧ zChargeMax F zn i d p = zReq F zn i d p := by
  simp [zChargeUsed, zChargeMax, h]

/-! ### 8. mid tier: within [0, threshold cap] -/

theorem mid_static_bounds (F : FloatOps) (hF : FloatOK F) (cap reservedPct thrPct : Int)
    (hcap : 0 ≤ cap) (hr : 0 ≤ reservedPct) (ht : 0 ≤ thrPct) :
    0 ≤ midStatic F cap reservedPct thrPct ∧ midStatic F cap reservedPct thrPct ≤ F.mulPct cap thrPct := by
  have h1 := hF.mul_nonneg cap reservedPct hcap hr
  have h2 := hF.mul_nonneg cap thrPct hcap ht
  unfold midStatic; simp only
  split <;> omega

theorem mid_policy_bounds (F : FloatOps) (hF : FloatOK F) (cap unallocated nodeUnused reclaimable unallocPct thrPct : Int)
    (hcap : 0 ≤ cap) (hu : 0 ≤ unallocated) (hp : 0 ≤ unallocPct) (ht : 0 ≤ thrPct) :
    0 ≤ midByPolicy F cap unallocated nodeUnused reclaimable unallocPct thrPct ∧
    midByPolicy F cap unallocated nodeUnused reclaimable unallocPct thrPct ≤ F.mulPct cap thrPct := by
  have h1 := hF.mul_nonneg unallocated unallocPct hu hp
  have h2 := hF.mul_nonneg cap thrPct hcap ht
  unfold midByPolicy; simp only
  split <;> split <;> split <;> omega

/-- with a threshold ≤ 100 % the mid amount never exceeds the capacity. -/
theorem mid_le_capacity (F : FloatOps) (hF : FloatOK F) (cap unallocated nodeUnused reclaimable unallocPct thrPct : Int)
    (hcap : 0 ≤ cap) (hu : 0 ≤ unallocated) (hp : 0 ≤ unallocPct) (ht : 0 ≤ thrPct) (ht' : thrPct ≤ 100) :
    midByPolicy F cap unallocated nodeUnused reclaimable unallocPct thrPct ≤ cap :=
  Int.le_trans (mid_policy_bounds F hF cap unallocated nodeUnused reclaimable unallocPct thrPct hcap hu hp ht).2
    (hF.mul_le _ _ hcap ht ht')

/-! ### 4b. antitone at the raw input level (before metric lookup / dangling detection) -/

theorem All2.refl {α : Type} {R : α → α → Prop} (hR : ∀ a, R a a) : ∀ l : List α, All2 R l l
  | [] => .nil
  | a :: as => .cons (hR a) (All2.refl hR as)

theorem All2.map_same {α β : Type} {R : β → β → Prop} (f g : α → β) (l : List α) (h : ∀ x ∈ l, R (f x) (g x)) :
    All2 R (l.map f) (l.map g) := by
  induction l with
  | nil => exact .nil
  | cons x xs ih => exact .cons (h x (by simp)) (ih (fun y hy => h y (by simp [hy])))

theorem All2.filter {α : Type} {R : α → α → Prop} (p : α → Bool) (l l' : List α) (h : All2 R l l')
    (hp : ∀ a b, R a b → p a = p b) : All2 R (l.filter p) (l'.filter p) := by
  induction h with
  | nil => exact .nil
  | @cons a b as bs hab _ ih =>
    simp only [List.filter_cons, ← hp a b hab]
    split
    · exact .cons hab ih
    · exact ih

/-- raw pod `q` is raw pod `p` with a raised request. -/
def PodInLe (p q : PodIn) : Prop :=
  p.key = q.key ∧ p.active = q.active ∧ p.prio = q.prio ∧ p.qos = q.qos ∧ p.numa = q.numa ∧ p.reqC ≤ q.reqC ∧ p.reqM ≤ q.reqM

/-- metric entry `m'` is entry `m` with raised usage. -/
def MetInLe (m m' : Metric) : Prop := m.key = m'.key ∧ m.prio = m'.prio ∧ m.usedC ≤ m'.usedC ∧ m.usedM ≤ m'.usedM

theorem resolvePods_mono_req (mm : List Metric) (pods pods' : List PodIn) (h : All2 PodInLe pods pods') :
    All2 PodLe (resolvePods pods mm) (resolvePods pods' mm) := by
  unfold resolvePods
  induction h with
  | nil => exact .nil
  | @cons a b as bs hab _ ih =>
    obtain ⟨hk, ha, hp, hq, hn, hc, hm⟩ := hab
    simp only [List.filter_cons, ← ha, ← hp]
    split
    · simp only [List.map_cons]
      refine .cons ?_ ih
      rw [← hk]
      cases findMetric mm a.key <;> simp [PodLe, hq, hn, hc, hm]
    · exact ih

theorem any_active_key_congr (pods pods' : List PodIn) (h : All2 PodInLe pods pods') (k : Nat) :
    pods.any (fun p => p.active && p.key == k) = pods'.any (fun p => p.active && p.key == k) := by
  induction h with
  | nil => rfl
  | @cons a b as bs hab _ ih =>
    obtain ⟨hk, ha, _⟩ := hab
    simp only [List.any_cons, ih, hk, ha]

theorem dangling_congr_req (mm : List Metric) (pods pods' : List PodIn) (h : All2 PodInLe pods pods') :
    dangling pods mm = dangling pods' mm := by
  unfold dangling
  congr 1; funext m
  rw [any_active_key_congr pods pods' h m.key]

/-- raising any listed pod's request (raw input, before metric lookup) never raises the node amount. -/
theorem batch_antitone_raw_request (F : FloatOps) (hF : FloatOK F) (k : PrioConsts) (s : Strategy) (n : NodeIn)
    (hs : List HostApp) (ms : List Metric) (pods pods' : List PodIn) (d : Dim) (hcap : 0 ≤ n.cap d)
    (h : All2 PodInLe pods pods') :
    nodeBatch F k s n hs pods' ms d ≤ nodeBatch F k s n hs pods ms d := by
  unfold nodeBatch
  simp only
  rw [← dangling_congr_req _ pods pods' h]
  exact batch_antitone F hF k s s n n hs hs _ _ _ _ d rfl rfl (Int.le_refl _) rfl hcap (Int.le_refl _) (Int.le_refl _)
    (Int.le_refl _) (All2.refl (fun a => ⟨rfl, Int.le_refl _, Int.le_refl _⟩) hs)
    (resolvePods_mono_req _ pods pods' h) (All2.refl (fun a => ⟨Int.le_refl _, Int.le_refl _⟩) _)

theorem any_key_congr (l l' : List Metric) (h : All2 MetInLe l l') (k : Nat) :
    l.any (fun x => x.key == k) = l'.any (fun x => x.key == k) := by
  induction h with
  | nil => rfl
  | @cons a b as bs hab _ ih => simp only [List.any_cons, ih, hab.1]

theorem metricMap_mono (ms ms' : List Metric) (h : All2 MetInLe ms ms') : All2 MetInLe (metricMap ms) (metricMap ms') := by
  unfold metricMap
  induction h with
  | nil => exact .nil
  | @cons a b as bs hab _ ih =>
    simp only [List.foldr_cons]
    rw [any_key_congr _ _ ih a.key, hab.1]
    split
    · exact ih
    · exact .cons hab ih

theorem findMetric_mono (mm mm' : List Metric) (h : All2 MetInLe mm mm') (k : Nat) :
    (findMetric mm k = none ∧ findMetric mm' k = none) ∨
    (∃ a b, findMetric mm k = some a ∧ findMetric mm' k = some b ∧ MetInLe a b) := by
  unfold findMetric
  induction h with
  | nil => left; simp
  | @cons a b as bs hab _ ih =>
    simp only [List.find?_cons, ← hab.1]
    cases hk : (a.key == k)
    · exact ih
    · right; exact ⟨a, b, rfl, rfl, hab⟩

theorem resolvePods_mono_met (pods : List PodIn) (mm mm' : List Metric) (h : All2 MetInLe mm mm') :
    All2 PodLe (resolvePods pods mm) (resolvePods pods mm') := by
  unfold resolvePods
  apply All2.map_same
  intro p _
  rcases findMetric_mono mm mm' h p.key with ⟨h1, h2⟩ | ⟨a, b, h1, h2, hab⟩
  · simp [h1, h2, PodLe]
  · obtain ⟨_, _, hc, hm⟩ := hab
    simp [h1, h2, PodLe, hc, hm]

theorem dangling_mono_met (pods : List PodIn) (mm mm' : List Metric) (h : All2 MetInLe mm mm') :
    All2 MetLe (dangling pods mm) (dangling pods mm') := by
  unfold dangling
  have := All2.filter (R := MetInLe) (fun m => !(pods.any (fun p => p.active && p.key == m.key)) && isHP m.prio) mm mm' h
    (fun a b hab => by simp only [hab.1, hab.2.1])
  clear h
  generalize List.filter _ mm = l at this
  generalize List.filter _ mm' = l' at this
  induction this with
  | nil => exact .nil
  | cons hab _ ih => exact .cons ⟨hab.2.2.1, hab.2.2.2⟩ ih

/-- raising the reported usage of any pod metric entry (listed, dangling or duplicate) never raises the node amount. -/
theorem batch_antitone_raw_usage (F : FloatOps) (hF : FloatOK F) (k : PrioConsts) (s : Strategy) (n : NodeIn)
    (hs : List HostApp) (pods : List PodIn) (ms ms' : List Metric) (d : Dim) (hcap : 0 ≤ n.cap d)
    (h : All2 MetInLe ms ms') :
    nodeBatch F k s n hs pods ms' d ≤ nodeBatch F k s n hs pods ms d := by
  unfold nodeBatch
  simp only
  have hm := metricMap_mono ms ms' h
  exact batch_antitone F hF k s s n n hs hs _ _ _ _ d rfl rfl (Int.le_refl _) rfl hcap (Int.le_refl _) (Int.le_refl _)
    (Int.le_refl _) (All2.refl (fun a => ⟨rfl, Int.le_refl _, Int.le_refl _⟩) hs)
    (resolvePods_mono_met pods _ _ hm) (dangling_mono_met pods _ _ hm)

/-! ### 2b. the charged amounts versus the literal reading of the statement -/

/-- maxUsageRequest charges exactly "the larger of both" in the statement's sense. -/
theorem chargeMax_eq_literal (d : Dim) (p : RPod) : chargeMax d p = max (p.req d) (literalUse d p) := by
  unfold chargeMax literalUse
  cases p.hasMetric <;> simp

/-- zone level: the charged usage share is at least the share of the literal usage. -/
theorem zChargeUsed_ge_literal (F : FloatOps) (hF : FloatOK F) (zn i : Nat) (d : Dim) (hzn : 0 < zn) (p : RPod) (h : LSEok p) :
    zoneShare F zn p.numa i (milli d (literalUse d p)) ≤ zChargeUsed F zn i d p := by
  unfold zChargeUsed literalUse zReq zUse
  cases hm : p.hasMetric <;> cases hl : p.lse <;> cases d <;> simp [RPod.req, RPod.used]
  exact zoneShare_mono F hF zn _ i _ _ hzn (milli_mono .cpu _ _ (h hl hm))

/-! ### class resolution facts used by the statement ("high-priority" = neither batch nor free) -/

theorem hp_iff (p : Prio) : isHP p = true ↔ (p ≠ .batch ∧ p ≠ .free) := by
  cases p <;> simp [isHP]

/-- a pod whose priority label says batch/free is never charged, whatever else it carries. -/
theorem label_wins (k : PrioConsts) (l : Prio) (pv : Option Int) (q : QoS) (kq : KubeQoS) (h : l ≠ .none) :
    prioDefault k (some l) pv q kq = l := by
  simp [prioDefault, prioRaw, h]

/-! ### non-vacuity: the hypotheses are satisfiable on non-trivial inputs -/

/-- exact rational arithmetic satisfies `FloatOK`. -/
theorem exactOps_ok : FloatOK exactOps where
  mul_nonneg v k hv hk := by
    show 0 ≤ v * k / 100
    exact Int.ediv_nonneg (Int.mul_nonneg hv hk) (by omega)
  mul_le v k hv hk h100 := by
    show v * k / 100 ≤ v
    have : v * k ≤ v * 100 := Int.mul_le_mul_of_nonneg_left h100 hv
    omega
  mul_mono_k v k k' hv h := by
    show v * k / 100 ≤ v * k' / 100
    have : v * k ≤ v * k' := Int.mul_le_mul_of_nonneg_left h hv
    omega
  div_nonneg a n ha hn := by
    show 0 ≤ (a + n - 1) / n
    exact Int.ediv_nonneg (by omega) (by omega)
  div_mono a b n h hn := by
    show (a + n - 1) / n ≤ (b + n - 1) / n
    exact Int.ediv_le_ediv hn (by omega)

def exStrategy : Strategy :=
  { cpuThr := 65, memThr := 65, cpuPol := .maxUR, memPol := .request, cpuCap := some 50, memCap := none, degradeMin := 15 }
def exNode : NodeIn := { capC := 100000, capM := 1000, allocC := 98000, allocM := 1000, annoC := 4000, annoM := 0, sysC := 7000, sysM := 100 }
def exPods : List PodIn :=
  [ { key := 1, active := true, prio := .prod, qos := .ls, reqC := 40000, reqM := 300, numa := [] },
    { key := 2, active := true, prio := .batch, qos := .be, reqC := 90000, reqM := 900, numa := [] },
    { key := 3, active := false, prio := .prod, qos := .ls, reqC := 5000, reqM := 50, numa := [] } ]
def exMetrics : List Metric :=
  [ { key := 3, prio := .prod, usedC := 1000, usedM := 10 }, { key := 9, prio := .mid, usedC := 2000, usedM := 20 } ]

/-- DESIGN §5 witness (after the repair): a prod pod requesting 40 CPUs without metrics under
    maxUsageRequest lowers batch-cpu; here 100 − 35 − 7 − (40 + 1 + 2) = 15 CPUs, memory by request. -/
example : nodeBatch exactOps stdPrio exStrategy exNode [] exPods exMetrics .cpu = 15000 := by decide
example : nodeBatch exactOps stdPrio exStrategy exNode [] exPods exMetrics .mem = 350 := by decide
example : ∃ rp ∈ resolvePods exPods (metricMap exMetrics), rp.hasMetric = false ∧ rp.reqC = 40000 :=
  ⟨_, List.mem_cons_self, rfl, rfl⟩
example : calculate exactOps stdPrio exStrategy exNode [] exPods exMetrics [] true 1000 0 = .degraded := by decide
example : All2 PodLe [({ lse := false, hasMetric := true, reqC := 1, reqM := 1, usedC := 1, usedM := 1, numa := [] } : RPod)]
    [{ lse := false, hasMetric := true, reqC := 2, reqM := 1, usedC := 5, usedM := 1, numa := [] }] :=
  .cons ⟨rfl, rfl, rfl, by decide, by decide, by decide, by decide⟩ .nil


/-! ## EXTENSION 1 — policy = request: the exact guarantees -/

/-- memory, policy=request — EXACT value: min(cap limit, max(capacity − margin − reservation − Σ HP requests, 0));
    system usage does not enter at all. -/
theorem batch_mem_request_exact (cl : Option Int) (cap margin reserved sys hpReq hpUsed hpMax : Int) :
    byPolicy .mem .request cl cap margin reserved sys hpReq hpUsed hpMax =
      match cl with
      | none => max (cap - margin - reserved - hpReq) 0
      | some l => min l (max (cap - margin - reserved - hpReq) 0) := by
  unfold byPolicy pickPolicy
  cases cl with
  | none => simp
  | some l => simp; split <;> omega

/-- cpu, policy=request — EXACT value: the one of policy=usage (the request policy does not exist for cpu). -/
theorem batch_cpu_request_exact (cl : Option Int) (cap margin reserved sys hpReq hpUsed hpMax : Int) :
    byPolicy .cpu .request cl cap margin reserved sys hpReq hpUsed hpMax =
      byPolicy .cpu .usage cl cap margin reserved sys hpReq hpUsed hpMax := by
  unfold byPolicy pickPolicy; rfl

/-- memory, policy=request: the amount exceeds the statement's bound by at most the part of the system usage
    that is not covered by the reservation, (sys − reserved)⁺ … -/
theorem batch_upper_mem_request_slack (cl : Option Int) (cap margin reserved sys hpReq hpUsed hpMax : Int) :
    byPolicy .mem .request cl cap margin reserved sys hpReq hpUsed hpMax ≤
      max (cap - margin - max sys reserved - literalHP .request hpReq hpUsed hpMax) 0 + max (sys - reserved) 0 := by
  unfold byPolicy pickPolicy literalHP
  cases cl with
  | none => simp; omega
  | some l => simp; split <;> omega

/-- … hence the statement's bound holds as soon as the reservation covers the system usage (decidable; the harness
    evaluates the literal bound on every run and classifies an excess by exactly this slack). -/
theorem batch_upper_mem_request_covered (cl : Option Int) (cap margin reserved sys hpReq hpUsed hpMax : Int)
    (h : sys ≤ reserved) :
    byPolicy .mem .request cl cap margin reserved sys hpReq hpUsed hpMax ≤
      max (cap - margin - max sys reserved - literalHP .request hpReq hpUsed hpMax) 0 := by
  have := batch_upper_mem_request_slack cl cap margin reserved sys hpReq hpUsed hpMax
  omega

/-- the slack is attained: cap 100, system usage 30, nothing reserved ⇒ 100 = 70 + 30. -/
theorem batch_upper_mem_request_slack_tight :
    byPolicy .mem .request none 100 0 0 30 0 0 0 = max (100 - 0 - max 30 0 - literalHP .request 0 0 0) 0 + max (30 - 0) 0 := by decide

/-- cpu, policy=request: the amount exceeds the request-based bound by at most (Σ HP requests − Σ HP charged usage)⁺ … -/
theorem batch_upper_cpu_request_slack (cl : Option Int) (cap margin reserved sys hpReq hpUsed hpMax : Int) :
    byPolicy .cpu .request cl cap margin reserved sys hpReq hpUsed hpMax ≤
      max (cap - margin - max sys reserved - literalHP .request hpReq hpUsed hpMax) 0 + max (hpReq - hpUsed) 0 := by
  unfold byPolicy pickPolicy literalHP
  cases cl with
  | none => simp; omega
  | some l => simp; split <;> omega

/-- … hence the request-based bound holds whenever the HP pods are charged at least their requests. -/
theorem batch_upper_cpu_request_covered (cl : Option Int) (cap margin reserved sys hpReq hpUsed hpMax : Int)
    (h : hpReq ≤ hpUsed) :
    byPolicy .cpu .request cl cap margin reserved sys hpReq hpUsed hpMax ≤
      max (cap - margin - max sys reserved - literalHP .request hpReq hpUsed hpMax) 0 := by
  have := batch_upper_cpu_request_slack cl cap margin reserved sys hpReq hpUsed hpMax
  omega

/-- the slack is attained: one HP pod requesting 40 and using 10 ⇒ 90 = 60 + 30. -/
theorem batch_upper_cpu_request_slack_tight :
    byPolicy .cpu .request none 100 0 0 0 40 10 40 = max (100 - 0 - max 0 0 - literalHP .request 40 10 40) 0 + max (40 - 10) 0 := by decide

/-- node level, policy=request, both dimensions, in the terms of the statement: the bound of the statement plus
    the exact slack of the dimension. -/
def requestSlack (k : PrioConsts) (n : NodeIn) (hs : List HostApp) (ps : List RPod) (dg : List Metric) : Dim → Int
  | .mem => max (n.sys .mem + hostHPUsed k .batch hs .mem - nodeReserved n .mem) 0
  | .cpu => max (hpReq .cpu ps - hpUsed .cpu ps dg) 0

theorem batch_upper_request (F : FloatOps) (k : PrioConsts) (s : Strategy) (n : NodeIn) (hs : List HostApp)
    (pods : List PodIn) (ms : List Metric) (d : Dim) (hpol : s.pol d = .request) :
    nodeBatch F k s n hs pods ms d ≤
      max (n.cap d - safetyMargin F s d (n.cap d) - max (n.sys d + hostHPUsed k .batch hs d) (nodeReserved n d)
            - hpReq d (resolvePods pods (metricMap ms))) 0
        + requestSlack k n hs (resolvePods pods (metricMap ms)) (dangling pods (metricMap ms)) d := by
  unfold nodeBatch nodeBatchR requestSlack
  rw [hpol]
  cases d
  · exact batch_upper_cpu_request_slack _ _ _ _ _ _ _ _
  · exact batch_upper_mem_request_slack _ _ _ _ _ _ _ _

/-- under every policy (request included) the amount never exceeds capacity − margin − reservation (clamped):
    the weakest consumption term is always subtracted. -/
theorem batch_upper_any_policy (d : Dim) (pol : Policy) (cl : Option Int) (cap margin reserved sys hpReq hpUsed hpMax : Int)
    (h1 : 0 ≤ hpReq) (h2 : 0 ≤ hpUsed) (h3 : 0 ≤ hpMax) :
    byPolicy d pol cl cap margin reserved sys hpReq hpUsed hpMax ≤ max (cap - margin - reserved) 0 := by
  unfold byPolicy pickPolicy
  cases cl with
  | none => cases d <;> cases pol <;> simp <;> omega
  | some l => cases d <;> cases pol <;> simp <;> split <;> omega

/-! ## EXTENSION 2 — mid plugin glue (Calculate / getUnallocated / degrade / Prepare) -/

/-- percentages are non-negative after defaulting when the set ones and the defaults are. -/
def MidPctOK (df : MidDefaults) (ms : MidStrategy) : Prop :=
  0 ≤ ms.thr df .cpu ∧ 0 ≤ ms.thr df .mem ∧ 0 ≤ ms.res df .cpu ∧ 0 ≤ ms.res df .mem ∧ 0 ≤ ms.una df

theorem MidPctOK.thr_nonneg {df : MidDefaults} {ms : MidStrategy} (h : MidPctOK df ms) (d : Dim) : 0 ≤ ms.thr df d := by
  cases d
  · exact h.1
  · exact h.2.1

theorem MidPctOK.res_nonneg {df : MidDefaults} {ms : MidStrategy} (h : MidPctOK df ms) (d : Dim) : 0 ≤ ms.res df d := by
  cases d
  · exact h.2.2.1
  · exact h.2.2.2.1

/-- the defaults apply exactly to the nil pointers (getPercentFromStrategy). -/
theorem mid_defaulting (df : MidDefaults) (ms : MidStrategy) :
    (ms.cpuThr = none → ms.thr df .cpu = df.cpuThr) ∧ (∀ v, ms.cpuThr = some v → ms.thr df .cpu = v) ∧
    (ms.memThr = none → ms.thr df .mem = df.memThr) ∧ (∀ v, ms.memThr = some v → ms.thr df .mem = v) ∧
    (ms.unalloc = none → ms.una df = df.unalloc) ∧ (∀ v, ms.unalloc = some v → ms.una df = v) := by
  refine ⟨?_, ?_, ?_, ?_, ?_, ?_⟩ <;> intros <;> simp_all [MidStrategy.thr, MidStrategy.una]

theorem midUnallocated_nonneg (k : PrioConsts) (n : NodeIn) (hs : List HostApp) (pods : List PodIn) (d : Dim) :
    0 ≤ midUnallocated k n hs pods d := by
  unfold midUnallocated; omega

/-- Unallocated[Mid] never exceeds capacity − max(reservation, system usage + prod host apps) − Σ prod requests
    (clamped at 0): the documented `max(NodeCapacity − NodeReserved − Allocated[Prod], 0)`. -/
theorem midUnallocated_eq (k : PrioConsts) (n : NodeIn) (hs : List HostApp) (pods : List PodIn) (d : Dim) :
    midUnallocated k n hs pods d =
      max (n.cap d - max (max (kubeletReserved n d) (n.anno d)) (n.sys d + hostHPUsed k .mid hs d) - midProdAllocated pods d) 0 := by
  unfold midUnallocated midReserved nodeReserved; rfl

/-- published mid amount ≥ 0 -/
theorem mid_amount_nonneg (F : FloatOps) (hF : FloatOK F) (k : PrioConsts) (df : MidDefaults) (ms : MidStrategy) (n : NodeIn)
    (hs : List HostApp) (pods : List PodIn) (mm : MidMetric) (d : Dim) (hcap : 0 ≤ n.cap d) (hp : MidPctOK df ms) :
    0 ≤ midAmount F k df ms n hs pods mm d := by
  unfold midAmount
  split
  · exact (mid_static_bounds F hF _ _ _ hcap (hp.res_nonneg d) (hp.thr_nonneg d)).1
  · exact (mid_policy_bounds F hF _ _ _ _ _ _ hcap (midUnallocated_nonneg k n hs pods d) hp.2.2.2.2 (hp.thr_nonneg d)).1

/-- published mid amount ≤ capacity · MidThresholdPercent (both modes) -/
theorem mid_amount_le_threshold (F : FloatOps) (hF : FloatOK F) (k : PrioConsts) (df : MidDefaults) (ms : MidStrategy) (n : NodeIn)
    (hs : List HostApp) (pods : List PodIn) (mm : MidMetric) (d : Dim) (hcap : 0 ≤ n.cap d) (hp : MidPctOK df ms) :
    midAmount F k df ms n hs pods mm d ≤ F.mulPct (n.cap d) (ms.thr df d) := by
  unfold midAmount
  split
  · exact (mid_static_bounds F hF _ _ _ hcap (hp.res_nonneg d) (hp.thr_nonneg d)).2
  · exact (mid_policy_bounds F hF _ _ _ _ _ _ hcap (midUnallocated_nonneg k n hs pods d) hp.2.2.2.2 (hp.thr_nonneg d)).2

/-- and hence ≤ capacity for a threshold ≤ 100 % (what IsColocationStrategyValid enforces). -/
theorem mid_amount_le_capacity (F : FloatOps) (hF : FloatOK F) (k : PrioConsts) (df : MidDefaults) (ms : MidStrategy) (n : NodeIn)
    (hs : List HostApp) (pods : List PodIn) (mm : MidMetric) (d : Dim) (hcap : 0 ≤ n.cap d) (hp : MidPctOK df ms)
    (h100 : ms.thr df d ≤ 100) : midAmount F k df ms n hs pods mm d ≤ n.cap d :=
  Int.le_trans (mid_amount_le_threshold F hF k df ms n hs pods mm d hcap hp) (hF.mul_le _ _ hcap (hp.thr_nonneg d) h100)

theorem midByPolicy_le_sum (F : FloatOps) (cap unallocated nodeUnused reclaimable unallocPct thrPct : Int) :
    midByPolicy F cap unallocated nodeUnused reclaimable unallocPct thrPct ≤
      max (min reclaimable nodeUnused) 0 + F.mulPct unallocated unallocPct := by
  unfold midByPolicy; simp only
  split <;> split <;> split <;> omega

/-- policy mode: ≤ max(min(prodReclaimable, capacity − nodeUsage), 0) + Unallocated[Mid] · MidUnallocatedPercent -/
theorem mid_amount_policy_le (F : FloatOps) (k : PrioConsts) (df : MidDefaults) (ms : MidStrategy) (n : NodeIn)
    (hs : List HostApp) (pods : List PodIn) (mm : MidMetric) (d : Dim) (hmode : ms.static = false) :
    midAmount F k df ms n hs pods mm d ≤
      max (min (midReclaimable mm d) (midNodeUnused n mm d)) 0 + F.mulPct (midUnallocated k n hs pods d) (ms.una df) := by
  unfold midAmount; simp only [hmode]
  exact midByPolicy_le_sum F _ _ _ _ _ _

/-- policy mode without a valid node usage or without a prod-reclaimable metric: only the unallocated share is published. -/
theorem mid_amount_policy_no_metric (F : FloatOps) (k : PrioConsts) (df : MidDefaults) (ms : MidStrategy) (n : NodeIn)
    (hs : List HostApp) (pods : List PodIn) (mm : MidMetric) (d : Dim) (hmode : ms.static = false)
    (h : mm.usageValid = false ∨ mm.hasReclaim = false) :
    midAmount F k df ms n hs pods mm d ≤ F.mulPct (midUnallocated k n hs pods d) (ms.una df) := by
  have h1 := mid_amount_policy_le F k df ms n hs pods mm d hmode
  have h2 : max (min (midReclaimable mm d) (midNodeUnused n mm d)) 0 = 0 := by
    rcases h with h | h
    · simp [midNodeUnused, h]; omega
    · simp [midReclaimable, h]; omega
  omega

theorem midStatic_le_reserve (F : FloatOps) (cap reservedPct thrPct : Int) :
    midStatic F cap reservedPct thrPct ≤ F.mulPct cap reservedPct := by
  unfold midStatic; simp only; split <;> omega

/-- static mode: ≤ capacity · MidStaticReservedPercent -/
theorem mid_amount_static_le (F : FloatOps) (k : PrioConsts) (df : MidDefaults) (ms : MidStrategy) (n : NodeIn)
    (hs : List HostApp) (pods : List PodIn) (mm : MidMetric) (d : Dim) (hmode : ms.static = true) :
    midAmount F k df ms n hs pods mm d ≤ F.mulPct (n.cap d) (ms.res df d) := by
  unfold midAmount; simp only [hmode]
  exact midStatic_le_reserve F _ _ _

/-- raising a prod pod's request, the reservation or the system usage never raises Unallocated[Mid]. -/
theorem midUnallocated_antitone (k : PrioConsts) (n n' : NodeIn) (hs : List HostApp) (pods pods' : List PodIn) (d : Dim)
    (hcap : n'.cap d = n.cap d) (halloc : n'.alloc d ≤ n.alloc d) (hanno : n.anno d ≤ n'.anno d) (hsys : n.sys d ≤ n'.sys d)
    (hp : midProdAllocated pods d ≤ midProdAllocated pods' d) :
    midUnallocated k n' hs pods' d ≤ midUnallocated k n hs pods d := by
  unfold midUnallocated midReserved nodeReserved kubeletReserved
  rw [hcap]; omega

/-- stale or missing NodeMetric ⇒ both mid items are Reset (and Prepare removes them from the node). -/
theorem mid_degrade_resets (F : FloatOps) (k : PrioConsts) (df : MidDefaults) (ms : MidStrategy) (degradeMin : Int) (n : NodeIn)
    (hs : List HostApp) (pods : List PodIn) (mm : MidMetric) (hasUpd : Bool) (now upd : Int)
    (h : hasUpd = false ∨ now > upd + degradeMin * 60) :
    midCalculate F k df ms degradeMin n false hs pods mm hasUpd now upd = .degraded ∧
    midPrepare (midCalculate F k df ms degradeMin n false hs pods mm hasUpd now upd) = (none, none) := by
  have hd : isDegradeNeeded hasUpd now upd degradeMin = true := by
    unfold isDegradeNeeded
    rcases h with h | h <;> simp [h]
  simp [midCalculate, hd, midPrepare]

/-- whatever the outcome, a stale metric leaves no mid amount on the node (also when Calculate refuses the node). -/
theorem mid_stale_withdrawn (F : FloatOps) (k : PrioConsts) (df : MidDefaults) (ms : MidStrategy) (degradeMin : Int) (n : NodeIn)
    (allocNil : Bool) (hs : List HostApp) (pods : List PodIn) (mm : MidMetric) (hasUpd : Bool) (now upd : Int)
    (h : hasUpd = false ∨ now > upd + degradeMin * 60) :
    midPrepare (midCalculate F k df ms degradeMin n allocNil hs pods mm hasUpd now upd) = (none, none) := by
  cases allocNil
  · exact (mid_degrade_resets F k df ms degradeMin n hs pods mm hasUpd now upd h).2
  · simp [midCalculate, midPrepare]

/-- fresh metrics on a well-formed node: Prepare publishes exactly the calculated amounts. -/
theorem mid_fresh_published (F : FloatOps) (k : PrioConsts) (df : MidDefaults) (ms : MidStrategy) (degradeMin : Int) (n : NodeIn)
    (hs : List HostApp) (pods : List PodIn) (mm : MidMetric) (now upd : Int) (h : now ≤ upd + degradeMin * 60) :
    midPrepare (midCalculate F k df ms degradeMin n false hs pods mm true now upd) =
      (some (midAmount F k df ms n hs pods mm .cpu), some (midAmount F k df ms n hs pods mm .mem)) := by
  have hd : isDegradeNeeded true now upd degradeMin = false := by
    unfold isDegradeNeeded
    have : ¬ (now > upd + degradeMin * 60) := by omega
    simp [this]
  simp [midCalculate, hd, midPrepare]

/-- non-vacuity: a 100-core node, 20 reserved by the kubelet, a prod pod requesting 30, system usage 10,
    prod-reclaimable 25 with 40 unused, 50 % of the unallocated: min(25,40) + (100−20−30)·50 % = 50, capped by 45 %. -/
def exMidNode : NodeIn := { capC := 100, capM := 100, allocC := 80, allocM := 100, annoC := 0, annoM := 0, sysC := 10, sysM := 0 }
def exMidStrategy : MidStrategy := { static := false, cpuThr := some 45, memThr := none, cpuRes := none, memRes := none, unalloc := some 50 }
def exMidPods : List PodIn := [{ key := 1, active := true, prio := .prod, qos := .ls, reqC := 30, reqM := 0, numa := [] },
                               { key := 2, active := true, prio := .mid, qos := .ls, reqC := 50, reqM := 0, numa := [] }]
def exMidMetric : MidMetric := { hasReclaim := true, recC := 25, recM := 0, usageValid := true, useC := 60, useM := 0 }

example : midUnallocated stdPrio exMidNode [] exMidPods .cpu = 50 := by decide
example : midAmount exactOps stdPrio stdMidDefaults exMidStrategy exMidNode [] exMidPods exMidMetric .cpu = 45 := by decide
example : midAmount exactOps stdPrio stdMidDefaults { exMidStrategy with cpuThr := none } exMidNode [] exMidPods exMidMetric .cpu = 50 := by decide
example : MidPctOK stdMidDefaults exMidStrategy := by unfold MidPctOK; decide

/-! ## EXTENSION 3 — Prepare / NeedSync / reconcile / histories -/

/-- assumptions on the float64 comparison of IsQuantityDiff (`|new−old| > old·(k/1000)` on milli values):
    it agrees with the exact comparison except possibly on the exact boundary, and equal non-negative amounts
    never differ.  Checked by the harness on every generated (old, new, threshold). -/
structure DiffOK (D : DiffOps) : Prop where
  gt_sound    : ∀ o n k, 0 ≤ o → 0 ≤ k → D.diffGt o n k = true → o * k ≤ 1000 * ((n - o).natAbs : Int) ∧ n ≠ o
  gt_complete : ∀ o n k, D.diffGt o n k = false → 1000 * ((n - o).natAbs : Int) ≤ o * k

/-- the exact comparison satisfies them. -/
def exactDiff : DiffOps := { diffGt := fun o n k => decide (o * k < 1000 * ((n - o).natAbs : Int)) }

theorem exactDiff_ok : DiffOK exactDiff where
  gt_sound o n k ho hk h := by
    simp only [exactDiff, decide_eq_true_eq] at h
    refine ⟨by omega, ?_⟩
    intro hn; subst hn
    have : 0 ≤ n * k := Int.mul_nonneg ho hk
    simp at h; omega
  gt_complete o n k h := by
    simp only [exactDiff, decide_eq_false_iff_not] at h; omega

/-! ### NeedSync is exactly "presence differs, or the relative difference exceeds the threshold" -/

/-- two amounts of one extended resource are close: both absent, or both present and within the threshold
    (`|new − old| ≤ old · k/1000`). -/
def CloseRes (k : Int) (old new : Ext) : Prop :=
  match old, new with
  | none, none => True
  | some o, some n => 1000 * ((n - o).natAbs : Int) ≤ o * k
  | _, _ => False

/-- they are far: presence differs, or both present and at least the threshold apart and different. -/
def FarRes (k : Int) (old new : Ext) : Prop :=
  match old, new with
  | none, none => False
  | some o, some n => o * k ≤ 1000 * ((n - o).natAbs : Int) ∧ n ≠ o
  | _, _ => True

theorem milli_scale (o n k : Int) :
    ((1000 * n - 1000 * o).natAbs : Int) = 1000 * ((n - o).natAbs : Int) ∧ (1000 * o) * k = 1000 * (o * k) := by
  refine ⟨by omega, ?_⟩
  rw [Int.mul_assoc]

theorem resDiff_false_close (D : DiffOps) (hD : DiffOK D) (k : Int) (old new : Ext) (h : resDiff D k old new = false) :
    CloseRes k old new := by
  cases old <;> cases new <;> simp [resDiff] at h <;> simp [CloseRes]
  rename_i o n
  have := hD.gt_complete _ _ _ h
  obtain ⟨e1, e2⟩ := milli_scale o n k
  rw [e1, e2] at this
  omega

theorem resDiff_true_far (D : DiffOps) (hD : DiffOK D) (k : Int) (hk : 0 ≤ k) (old new : Ext)
    (hold : ∀ o, old = some o → 0 ≤ o) (h : resDiff D k old new = true) : FarRes k old new := by
  cases old <;> cases new <;> simp [resDiff] at h <;> simp [FarRes]
  rename_i o n
  have ho := hold o rfl
  have := hD.gt_sound _ _ _ (by omega) hk h
  obtain ⟨e1, e2⟩ := milli_scale o n k
  rw [e1, e2] at this
  omega

/-- an amount never differs from itself. -/
theorem resDiff_self (D : DiffOps) (hD : DiffOK D) (k : Int) (hk : 0 ≤ k) (e : Ext) (he : ∀ o, e = some o → 0 ≤ o) :
    resDiff D k e e = false := by
  cases e with
  | none => rfl
  | some o =>
    simp only [resDiff]
    cases h : D.diffGt (1000 * o) (1000 * o) k
    · rfl
    · exact absurd rfl (hD.gt_sound _ _ _ (by have := he o rfl; omega) hk h).2

def ClosePub (k : Int) (old new : Pub) : Prop :=
  CloseRes k old.bc new.bc ∧ CloseRes k old.bm new.bm ∧ CloseRes k old.mc new.mc ∧ CloseRes k old.mm new.mm

theorem CloseRes.refl (k : Int) (hk : 0 ≤ k) (e : Ext) (he : ∀ o, e = some o → 0 ≤ o) : CloseRes k e e := by
  cases e with
  | none => trivial
  | some o =>
    simp only [CloseRes]
    have := he o rfl
    have : 0 ≤ o * k := Int.mul_nonneg this hk
    simp; omega

def PubNonneg (p : Pub) : Prop :=
  (∀ o, p.bc = some o → 0 ≤ o) ∧ (∀ o, p.bm = some o → 0 ≤ o) ∧ (∀ o, p.mc = some o → 0 ≤ o) ∧ (∀ o, p.mm = some o → 0 ≤ o)

theorem ClosePub.refl (k : Int) (hk : 0 ≤ k) (p : Pub) (hp : PubNonneg p) : ClosePub k p p :=
  ⟨CloseRes.refl k hk _ hp.1, CloseRes.refl k hk _ hp.2.1, CloseRes.refl k hk _ hp.2.2.1, CloseRes.refl k hk _ hp.2.2.2⟩

/-- no plugin asks for a sync ⇒ all four resources are close. -/
theorem plugins_quiet_close (D : DiffOps) (hD : DiffOK D) (k : Int) (old new : Pub)
    (h : pluginsNeedSync D k old new = false) : ClosePub k old new := by
  simp only [pluginsNeedSync, midNeedSync, batchNeedSync, Bool.or_eq_false_iff] at h
  obtain ⟨⟨h1, h2⟩, h3, h4⟩ := h
  exact ⟨resDiff_false_close D hD k _ _ h3, resDiff_false_close D hD k _ _ h4,
         resDiff_false_close D hD k _ _ h1, resDiff_false_close D hD k _ _ h2⟩

/-- a plugin asks for a sync ⇒ some resource is far. -/
theorem plugins_loud_far (D : DiffOps) (hD : DiffOK D) (k : Int) (hk : 0 ≤ k) (old new : Pub) (hold : PubNonneg old)
    (h : pluginsNeedSync D k old new = true) :
    FarRes k old.bc new.bc ∨ FarRes k old.bm new.bm ∨ FarRes k old.mc new.mc ∨ FarRes k old.mm new.mm := by
  simp only [pluginsNeedSync, midNeedSync, batchNeedSync, Bool.or_eq_true] at h
  rcases h with (h | h) | (h | h)
  · exact .inr (.inr (.inl (resDiff_true_far D hD k hk _ _ hold.2.2.1 h)))
  · exact .inr (.inr (.inr (resDiff_true_far D hD k hk _ _ hold.2.2.2 h)))
  · exact .inl (resDiff_true_far D hD k hk _ _ hold.1 h)
  · exact .inr (.inl (resDiff_true_far D hD k hk _ _ hold.2.1 h))

theorem resDiff_presence (D : DiffOps) (k : Int) (o n : Ext) (h : o.isSome ≠ n.isSome) : resDiff D k o n = true := by
  cases o <;> cases n <;> simp_all [resDiff]

/-- withdrawing (or first publishing) a resource always triggers a sync, whatever the threshold. -/
theorem presence_change_syncs (D : DiffOps) (k : Int) (old new : Pub)
    (h : old.bc.isSome ≠ new.bc.isSome ∨ old.bm.isSome ≠ new.bm.isSome ∨ old.mc.isSome ≠ new.mc.isSome ∨ old.mm.isSome ≠ new.mm.isSome) :
    pluginsNeedSync D k old new = true := by
  simp only [pluginsNeedSync, midNeedSync, batchNeedSync, Bool.or_eq_true]
  rcases h with h | h | h | h
  · exact .inr (.inl (resDiff_presence D k _ _ h))
  · exact .inr (.inr (resDiff_presence D k _ _ h))
  · exact .inl (.inl (resDiff_presence D k _ _ h))
  · exact .inl (.inr (resDiff_presence D k _ _ h))

/-! ### one reconcile -/

/-- the node is written iff the last sync is missing or older than the interval, or some plugin sees a difference
    (isNodeResourceSyncNeeded); otherwise the state is untouched. -/
theorem reconcile_sync_iff (D : DiffOps) (thr interval now : Int) (st : RState) (c : Pub) :
    (reconcileStep D thr interval now st c = { pub := c, lastSync := some now } ↔
        (commonNeedSync st.lastSync now interval = true ∨ pluginsNeedSync D thr st.pub c = true) ∨ st = { pub := c, lastSync := some now }) ∧
    (commonNeedSync st.lastSync now interval = false → pluginsNeedSync D thr st.pub c = false → reconcileStep D thr interval now st c = st) := by
  unfold reconcileStep
  constructor
  · constructor
    · intro h
      split at h
      · left; simp_all
      · right; exact h
    · rintro (h | h)
      · simp [h]
      · split
        · rfl
        · exact h
  · intro h1 h2; simp [h1, h2]

theorem commonNeedSync_iff (last : Option Int) (now interval : Int) :
    commonNeedSync last now interval = true ↔ (last = none ∨ ∃ t, last = some t ∧ now - t > interval) := by
  cases last <;> simp [commonNeedSync]

/-- after EVERY reconcile (whatever the state before): either the node carries exactly the computed amounts, or
    it was synced at most `interval` seconds ago and every amount is within the threshold of the computed one. -/
theorem reconcile_close (D : DiffOps) (hD : DiffOK D) (thr interval now : Int) (st : RState) (c : Pub) :
    let st' := reconcileStep D thr interval now st c
    (st'.pub = c ∧ st'.lastSync = some now) ∨
    (st' = st ∧ ClosePub thr st.pub c ∧ ∃ t, st.lastSync = some t ∧ now - t ≤ interval) := by
  simp only [reconcileStep]
  split
  · left; exact ⟨rfl, rfl⟩
  · rename_i h
    simp only [Bool.or_eq_true, not_or, Bool.not_eq_true] at h
    right
    refine ⟨rfl, plugins_quiet_close D hD thr _ _ h.2, ?_⟩
    cases hl : st.lastSync with
    | none => simp [commonNeedSync, hl] at h
    | some t =>
      refine ⟨t, rfl, ?_⟩
      have := h.1
      simp [commonNeedSync, hl] at this
      omega

/-- a deviation that is tolerated (within the threshold) is removed by the first reconcile later than
    `interval` after the last sync. -/
theorem reconcile_expired_syncs (D : DiffOps) (thr interval now : Int) (st : RState) (c : Pub)
    (h : st.lastSync = none ∨ ∃ t, st.lastSync = some t ∧ now - t > interval) :
    (reconcileStep D thr interval now st c).pub = c := by
  have := (commonNeedSync_iff st.lastSync now interval).mpr h
  simp [reconcileStep, this]

/-- stale metrics / disabled colocation (the plugins compute "absent" for every resource): after the reconcile
    the node carries none of the four resources — from ANY previous state, regardless of thresholds. -/
theorem reconcile_withdraws (D : DiffOps) (thr interval now : Int) (st : RState) :
    (reconcileStep D thr interval now st Pub.empty).pub = Pub.empty := by
  simp only [reconcileStep]
  split
  · rfl
  · rename_i h
    simp only [Bool.or_eq_true, not_or, Bool.not_eq_true] at h
    have h2 := h.2
    simp only [pluginsNeedSync, midNeedSync, batchNeedSync, Bool.or_eq_false_iff, Pub.empty] at h2
    obtain ⟨⟨h1, h2⟩, h3, h4⟩ := h2
    have key : ∀ e : Ext, resDiff D thr e none = false → e = none := by
      intro e he; cases e <;> simp_all [resDiff]
    cases hp : st.pub with
    | mk bc bm mc mm =>
      simp only [hp] at h1 h2 h3 h4
      simp [Pub.empty, key _ h1, key _ h2, key _ h3, key _ h4]

/-! ### histories of reconciles -/

theorem runHist_append (D : DiffOps) (st : RState) (a b : List Round) :
    runHist D st (a ++ b) = runHist D (runHist D st a) b := by
  induction a generalizing st with
  | nil => rfl
  | cons r rs ih => simp [runHist, ih]

/-- over any history of reconciles (metric updates, pod changes, strategy changes, node updates all enter through
    `computed`, `thr`, `interval`), after every round `r` of the history: the node's amounts are the computed ones,
    or they are within r's threshold of them and the node was written at most r.interval seconds before. -/
theorem hist_close_after_every_round (D : DiffOps) (hD : DiffOK D) (st : RState) (pre : List Round) (r : Round) :
    let st' := runHist D st (pre ++ [r])
    st'.pub = r.computed ∨ (ClosePub r.thr st'.pub r.computed ∧ ∃ t, st'.lastSync = some t ∧ r.now - t ≤ r.interval) := by
  simp only [runHist_append, runHist]
  rcases reconcile_close D hD r.thr r.interval r.now (runHist D st pre) r.computed with h | ⟨h1, h2, h3⟩
  · left; exact h.1
  · right; rw [h1]; exact ⟨h2, h3⟩

/-- a stale metric anywhere in a history withdraws all four resources at that round … -/
theorem hist_degrade (D : DiffOps) (st : RState) (pre : List Round) (r : Round) (h : r.computed = Pub.empty) :
    (runHist D st (pre ++ [r])).pub = Pub.empty := by
  simp only [runHist_append, runHist, h]
  exact reconcile_withdraws D r.thr r.interval r.now _

/-- … and the first round with fresh metrics after it publishes exactly the computed amounts again, provided it
    computes some resource (presence changes always sync). -/
theorem hist_recover (D : DiffOps) (st : RState) (pre : List Round) (r r' : Round) (h : r.computed = Pub.empty)
    (h' : r'.computed.bc.isSome ∨ r'.computed.bm.isSome ∨ r'.computed.mc.isSome ∨ r'.computed.mm.isSome) :
    (runHist D st (pre ++ [r, r'])).pub = r'.computed := by
  have e : pre ++ [r, r'] = (pre ++ [r]) ++ [r'] := by simp
  rw [e, runHist_append]
  have hp := hist_degrade D st pre r h
  simp only [runHist, reconcileStep]
  have : pluginsNeedSync D r'.thr (runHist D st (pre ++ [r])).pub r'.computed = true := by
    apply presence_change_syncs
    rw [hp]
    simp only [Pub.empty, Option.isSome_none]
    rcases h' with h' | h' | h' | h'
    · left; simp [h']
    · right; left; simp [h']
    · right; right; left; simp [h']
    · right; right; right; simp [h']
  simp [this]

/-! ### what Reconcile computes -/

/-- stale or missing NodeMetric ⇒ all four resources are computed absent (mid and batch, cpu and memory). -/
theorem computed_stale_empty (F : FloatOps) (k : PrioConsts) (df : MidDefaults) (en : Bool) (s : Strategy) (ms : MidStrategy)
    (n : NodeIn) (allocNil : Bool) (hs : List HostApp) (pods : List PodIn) (mets : List Metric) (mm : MidMetric)
    (hasUpd : Bool) (now upd : Int) (h : hasUpd = false ∨ now > upd + s.degradeMin * 60) :
    computedPub F k df en s ms n allocNil hs pods mets mm hasUpd now upd = Pub.empty := by
  unfold computedPub
  cases en
  · rfl
  · have h1 := mid_stale_withdrawn F k df ms s.degradeMin n allocNil hs pods mm hasUpd now upd h
    have h2 := degrade_resets F k s n hs pods mets [] hasUpd now upd h
    simp [h1, h2, batchOutQuantities, batchPrepare, prepareBatchCPU, prepareRes, Pub.empty]

theorem computed_disabled_empty (F : FloatOps) (k : PrioConsts) (df : MidDefaults) (s : Strategy) (ms : MidStrategy)
    (n : NodeIn) (allocNil : Bool) (hs : List HostApp) (pods : List PodIn) (mets : List Metric) (mm : MidMetric)
    (hasUpd : Bool) (now upd : Int) :
    computedPub F k df false s ms n allocNil hs pods mets mm hasUpd now upd = Pub.empty := by
  simp [computedPub]

/-- fresh metrics, colocation enabled, well-formed node: Reconcile computes exactly the calculators' amounts, so every
    bound proved for `nodeBatch` / `midAmount` is a bound on what can ever be written to the node. -/
theorem computed_fresh (F : FloatOps) (k : PrioConsts) (df : MidDefaults) (s : Strategy) (ms : MidStrategy)
    (n : NodeIn) (hs : List HostApp) (pods : List PodIn) (mets : List Metric) (mm : MidMetric)
    (now upd : Int) (h : now ≤ upd + s.degradeMin * 60)
    (hc : 0 ≤ nodeBatch F k s n hs pods mets .cpu) (hm : 0 ≤ nodeBatch F k s n hs pods mets .mem) :
    computedPub F k df true s ms n false hs pods mets mm true now upd =
      { bc := some (nodeBatch F k s n hs pods mets .cpu), bm := some (nodeBatch F k s n hs pods mets .mem),
        mc := some (midAmount F k df ms n hs pods mm .cpu), mm := some (midAmount F k df ms n hs pods mm .mem) } := by
  have hd : isDegradeNeeded true now upd s.degradeMin = false := by
    unfold isDegradeNeeded
    have : ¬ (now > upd + s.degradeMin * 60) := by omega
    simp [this]
  have h1 := mid_fresh_published F k df ms s.degradeMin n hs pods mm now upd h
  have hc' : ¬ (nodeBatch F k s n hs pods mets .cpu < 0) := by omega
  have hm' : ¬ (nodeBatch F k s n hs pods mets .mem < 0) := by omega
  simp [computedPub, h1, calculate, hd, batchOutQuantities, batchPrepare, prepareBatchCPU, prepareRes, amplify, hc', hm']

/-- whatever a history feeds in, a node amount is always one that some earlier (or the current) round computed:
    the controller never invents a value. -/
theorem hist_pub_from_rounds (D : DiffOps) (st : RState) (rs : List Round) :
    (runHist D st rs).pub = st.pub ∨ ∃ r ∈ rs, (runHist D st rs).pub = r.computed := by
  induction rs generalizing st with
  | nil => left; rfl
  | cons r rest ih =>
    simp only [runHist]
    rcases ih (reconcileStep D r.thr r.interval r.now st r.computed) with h | ⟨r', hr', h⟩
    · rw [h]
      simp only [reconcileStep]
      split
      · right; exact ⟨r, by simp, rfl⟩
      · left; rfl
    · right; exact ⟨r', by simp [hr'], h⟩

/-! ### batch Prepare -/

theorem milliToValue_nonneg (m : Int) (h : 0 ≤ m) : 0 ≤ milliToValue m := by
  unfold milliToValue; omega

theorem amplify_nonneg (F : FloatOps) (hF : FloatOK F) (r : Option Int) (v : Int) (hv : 0 ≤ v) : 0 ≤ amplify F r v := by
  unfold amplify
  cases r with
  | none => exact hv
  | some r =>
    simp only
    split
    · exact milliToValue_nonneg _ (hF.mul_nonneg _ _ (by omega) (by omega))
    · exact hv

/-- Reset (degrade / disabled) ⇒ Prepare removes both batch resources, whatever the annotations say. -/
theorem batchPrepare_reset (F : FloatOps) (r : Option Int) (an : Bool) (tp : ThirdParty) (qc qm : Option Int) :
    (batchPrepare F r an tp qc qm true).cpu = none ∧ (batchPrepare F r an tp qc qm true).mem = none := by
  cases qc <;> cases qm <;> simp [batchPrepare, prepareBatchCPU, prepareRes]

/-- what Prepare writes is non-negative and never above the (amplified) calculated amount; third-party
    allocations only lower it. -/
theorem batchPrepare_bounds (F : FloatOps) (hF : FloatOK F) (r : Option Int) (an : Bool) (tp : ThirdParty) (qc qm : Int)
    (hc : 0 ≤ qc) (hm : 0 ≤ qm)
    (htp : ∀ a b, tp = .some a b → 0 ≤ a.getD 0 ∧ 0 ≤ b.getD 0) :
    ∃ c m, (batchPrepare F r an tp (some qc) (some qm) false).cpu = some c ∧
           (batchPrepare F r an tp (some qc) (some qm) false).mem = some m ∧
           0 ≤ c ∧ c ≤ amplify F r qc ∧ 0 ≤ m ∧ m ≤ qm := by
  have ha := amplify_nonneg F hF r qc hc
  have h1 : ¬ (amplify F r qc < 0) := by omega
  have h2 : ¬ (qm < 0) := by omega
  cases tp with
  | absent => exact ⟨amplify F r qc, qm, by simp [batchPrepare, prepareBatchCPU, prepareRes, h1, h2], by simp [batchPrepare, prepareBatchCPU, prepareRes, h1, h2], ha, Int.le_refl _, hm, Int.le_refl _⟩
  | bad => exact ⟨amplify F r qc, qm, by simp [batchPrepare, prepareBatchCPU, prepareRes, h1, h2], by simp [batchPrepare, prepareBatchCPU, prepareRes, h1, h2], ha, Int.le_refl _, hm, Int.le_refl _⟩
  | some a b =>
    obtain ⟨h3, h4⟩ := htp a b rfl
    refine ⟨max (max (amplify F r qc) 0 - a.getD 0) 0, max (max qm 0 - b.getD 0) 0, ?_, ?_, ?_, ?_, ?_, ?_⟩
    · simp [batchPrepare, prepareBatchCPU, prepareRes, h1, h2]
    · simp [batchPrepare, prepareBatchCPU, prepareRes, h1, h2]
    all_goals omega

/-- non-vacuity: a history in which the published batch-cpu follows 100 → (98 tolerated) → 80 → withdrawn → 90. -/
def exRounds : List Round :=
  [ { thr := 100, interval := 300, now := 0,   computed := { Pub.empty with bc := some 100 } },
    { thr := 100, interval := 300, now := 60,  computed := { Pub.empty with bc := some 98 } },
    { thr := 100, interval := 300, now := 120, computed := { Pub.empty with bc := some 80 } },
    { thr := 100, interval := 300, now := 180, computed := Pub.empty },
    { thr := 100, interval := 300, now := 240, computed := { Pub.empty with bc := some 90 } } ]

example : (runHist exactDiff RState.init (exRounds.take 2)).pub.bc = some 100 := by decide
example : (runHist exactDiff RState.init (exRounds.take 3)).pub.bc = some 80 := by decide
example : (runHist exactDiff RState.init (exRounds.take 4)).pub = Pub.empty := by decide
example : (runHist exactDiff RState.init exRounds).pub.bc = some 90 := by decide

/-! ## EXTENSION 4 — NUMA zone amounts versus the node amount -/

/-
FULL STATEMENT asked for ("per-zone amounts sum ≤ node amount"):
  ∀ …, (Σ_i zoneBatchR … i z_i d) ≤ milli d (nodeBatchR … d)
It is FALSE for the code as written, for three independent reasons: every zone is clamped at 0 on its own (a zone
whose pods over-use it publishes 0, the others keep their full amount), the zone allocatables come from the
NodeResourceTopology object and need not add up to the node capacity, and the safety margin is rounded per zone.
Counterexample below; what holds per zone is `zone_le_alloc_margin_partial` (plus zone_nonneg / zone_upper / zone_pct_cap).
-/

/-- 2 zones of 50 on a 100-unit node, one prod pod bound to zone 0 using 80 (policy usage, threshold 100 %):
    node amount 20, zone amounts 0 and 50: the zones add up to 2.5 × the node amount. -/
def exZonePods : List RPod := [{ lse := false, hasMetric := true, reqC := 10, reqM := 0, usedC := 80, usedM := 0, numa := [0] }]
def exZoneStrategy : Strategy := { cpuThr := 100, memThr := 100, cpuPol := .usage, memPol := .usage, cpuCap := none, memCap := none, degradeMin := 15 }
def exZoneNode : NodeIn := { capC := 100, capM := 0, allocC := 100, allocM := 0, annoC := 0, annoM := 0, sysC := 0, sysM := 0 }
def exZone : Zone := { hasC := true, hasM := false, allocC := 50, allocM := 0 }

theorem zone_sum_le_node_counterexample :
    ¬ (zoneBatchR exactOps stdPrio exZoneStrategy exZoneNode [] exZonePods [] 2 0 exZone .cpu
        + zoneBatchR exactOps stdPrio exZoneStrategy exZoneNode [] exZonePods [] 2 1 exZone .cpu
       ≤ milli .cpu (nodeBatchR exactOps stdPrio exZoneStrategy exZoneNode [] exZonePods [] .cpu)) := by decide

/-- per zone, every policy (request included): the zone amount never exceeds the zone's allocatable minus its safety
    margin minus its share of the node reservation (clamped at 0), provided the charged sums are non-negative. -/
theorem zone_le_alloc_margin_partial (F : FloatOps) (k : PrioConsts) (s : Strategy) (n : NodeIn) (hs : List HostApp)
    (ps : List RPod) (dg : List Metric) (zn i : Nat) (z : Zone) (d : Dim)
    (h1 : 0 ≤ (ps.map (zReq F zn i d)).sum)
    (h2 : 0 ≤ (ps.map (zChargeUsed F zn i d)).sum + zDangling F zn d dg)
    (h3 : 0 ≤ (ps.map (zChargeMax F zn i d)).sum + zDangling F zn d dg) :
    zoneBatchR F k s n hs ps dg zn i z d ≤
      max (milli d (z.alloc d) - milli d (safetyMargin F s d (z.alloc d)) - F.divCeil (milli d (nodeReserved n d)) zn) 0 := by
  unfold zoneBatchR
  exact batch_upper_any_policy _ _ _ _ _ _ _ _ _ _ h1 h2 h3

/-- the charged sums are non-negative when requests and usages are (so the hypotheses above are satisfiable and
    hold on every generated input). -/
theorem zoneShare_nonneg (F : FloatOps) (hF : FloatOK F) (zn : Nat) (numa : List Int) (i : Nat) (x : Int)
    (hzn : 0 < zn) (hx : 0 ≤ x) : 0 ≤ zoneShare F zn numa i x := by
  unfold zoneShare
  simp only
  split
  · exact hF.div_nonneg _ _ hx (by omega)
  · split
    · exact hF.div_nonneg _ _ hx (by omega)
    · omega

theorem sum_map_nonneg {α : Type} (f : α → Int) (l : List α) (h : ∀ x ∈ l, 0 ≤ f x) : 0 ≤ (l.map f).sum := by
  induction l with
  | nil => simp
  | cons x xs ih =>
    simp only [List.map_cons, List.sum_cons]
    have := h x (by simp)
    have := ih (fun y hy => h y (by simp [hy]))
    omega

theorem zReq_sum_nonneg (F : FloatOps) (hF : FloatOK F) (zn i : Nat) (d : Dim) (hzn : 0 < zn) (ps : List RPod)
    (h : ∀ p ∈ ps, 0 ≤ p.req d) : 0 ≤ (ps.map (zReq F zn i d)).sum := by
  apply sum_map_nonneg
  intro p hp
  unfold zReq
  apply zoneShare_nonneg F hF zn _ i _ hzn
  have := h p hp
  cases d <;> simp [milli] <;> omega

/-! ## EXTENSION 5 — Prepare is idempotent on the NodeResource; one reconcile prepares 2–3 times -/

theorem milliToValue_storeInt (v : Int) : milliToValue (storeInt v) = v := by
  unfold milliToValue storeInt; omega

theorem milliToValue_roundMilli (m : Int) : milliToValue (roundMilli m) = milliToValue m := by
  unfold roundMilli milliToValue; omega

theorem roundMilli_idem (m : Int) : roundMilli (roundMilli m) = roundMilli m := by
  unfold roundMilli milliToValue; omega

theorem roundMilli_storeInt (v : Int) : roundMilli (storeInt v) = storeInt v := by
  unfold roundMilli milliToValue storeInt; omega

/-- PrepareNodeForResource, one resource: running it again on the NodeResource it left behind gives the same node
    amount and leaves the same NodeResource (the only write through the stored pointer is the idempotent rounding). -/
theorem prepareStored_idempotent (F : FloatOps) (amp : Option Int) (q : Option Int) (reset : Bool) :
    prepareStored F amp (prepareStored F amp q reset).2 reset = prepareStored F amp q reset := by
  cases q with
  | none => rfl
  | some m =>
    cases reset with
    | true => simp [prepareStored]
    | false =>
      cases amp with
      | none => simp [prepareStored, milliToValue_roundMilli, roundMilli_idem]
      | some r =>
        by_cases h : r > 100
        · simp [prepareStored, h]
        · simp [prepareStored, h, milliToValue_roundMilli, roundMilli_idem]

/-- the amplified quantity never reaches the NodeResource: after PrepareNodeForResource the stored batch-cpu is the
    calculated one (rounded), whatever the ratio. -/
theorem prepareStored_keeps_stored (F : FloatOps) (amp : Option Int) (m : Int) (reset : Bool) :
    (prepareStored F amp (some m) reset).2 = some m ∨ (prepareStored F amp (some m) reset).2 = some (roundMilli m) := by
  cases reset with
  | true => left; simp [prepareStored]
  | false =>
    cases amp with
    | none => right; simp [prepareStored]
    | some r =>
      by_cases h : r > 100
      · left; simp [prepareStored, h]
      · right; simp [prepareStored, h]

theorem batchPrepareNR_idempotent (F : FloatOps) (an : Bool) (tp : ThirdParty) (nr : NRes) :
    batchPrepareNR F an tp (batchPrepareNR F an tp nr).2 = batchPrepareNR F an tp nr := by
  simp only [batchPrepareNR, prepareStored_idempotent]

/-- `prepare_idempotent`: the whole prepare chain (cpunormalization, mid, batch) run a second time on the NodeResource
    it left behind writes the same node amounts and leaves the same NodeResource. -/
theorem prepare_idempotent (F : FloatOps) (nr : NRes) : prepareAll F (prepareAll F nr).2 = prepareAll F nr := by
  simp only [prepareAll, batchPrepareNR, prepareStored_idempotent]

/-- the prepare chain never touches Resets / the ratio annotation of the NodeResource. -/
theorem prepareAll_keeps_flags (F : FloatOps) (nr : NRes) :
    (prepareAll F nr).2.resetB = nr.resetB ∧ (prepareAll F nr).2.resetM = nr.resetM ∧ (prepareAll F nr).2.ratio = nr.ratio := by
  simp [prepareAll, batchPrepareNR]

/-- k+1 runs of the prepare chain on one NodeResource. -/
def prepareIter (F : FloatOps) : Nat → NRes → Pub × NRes
  | 0, nr => prepareAll F nr
  | k + 1, nr => prepareIter F k (prepareAll F nr).2

/-- however often a reconcile prepares (the code: 1 + status + meta times), the node amounts are those of ONE run. -/
theorem prepareIter_eq (F : FloatOps) (k : Nat) (nr : NRes) : prepareIter F k nr = prepareAll F nr := by
  induction k generalizing nr with
  | zero => rfl
  | succ k ih => simp only [prepareIter, ih, prepare_idempotent]

/-- one reconcile, NodeResource threaded through all prepare call sites = `reconcileStep` on the amounts of ONE
    prepare: every theorem about `reconcileStep` / `runHist` holds for the threaded reconcile. -/
theorem reconcileNR_eq_step (F : FloatOps) (D : DiffOps) (thr interval now : Int) (st : NState) (nr : NRes) :
    (reconcileNR F D thr interval now st nr).1.r = reconcileStep D thr interval now st.r (prepareAll F nr).1 := by
  simp only [reconcileNR, reconcileStep, prepare_idempotent]
  split <;> rfl

/-- the NodeResource a reconcile leaves behind is the one a single prepare leaves (nothing accumulates in it). -/
theorem reconcileNR_nr (F : FloatOps) (D : DiffOps) (thr interval now : Int) (st : NState) (nr : NRes) :
    (reconcileNR F D thr interval now st nr).2 = (prepareAll F nr).2 := by
  have h2 : (prepareAll F (prepareAll F nr).2).2 = (prepareAll F nr).2 := by rw [prepare_idempotent]
  simp only [reconcileNR]
  split <;> split <;> simp [h2]

/-- histories: the threaded reconcile publishes exactly what `runHist` publishes for the once-prepared amounts. -/
theorem runHistNR_eq_runHist (F : FloatOps) (D : DiffOps) (st : NState) (rs : List RoundNR) :
    (runHistNR F D st rs).r =
      runHist D st.r (rs.map (fun r => { thr := r.thr, interval := r.interval, now := r.now, computed := (prepareAll F r.nr).1 })) := by
  induction rs generalizing st with
  | nil => rfl
  | cons r rest ih =>
    simp only [runHistNR, List.map_cons, runHist]
    rw [ih, reconcileNR_eq_step]

/-! ### histories of threaded reconciles: the statement-level corollaries -/

/-- the `Round` a threaded round amounts to. -/
def RoundNR.once (F : FloatOps) (r : RoundNR) : Round :=
  { thr := r.thr, interval := r.interval, now := r.now, computed := (prepareAll F r.nr).1 }

/-- after EVERY round of ANY history of threaded reconciles (each preparing 1–3 times): the node carries the amounts of
    ONE prepare of that round's NodeResource, or amounts within the round's threshold of them written at most
    `interval` seconds before. -/
theorem histNR_close_after_every_round (F : FloatOps) (D : DiffOps) (hD : DiffOK D) (st : NState) (pre : List RoundNR) (r : RoundNR) :
    let st' := runHistNR F D st (pre ++ [r])
    st'.r.pub = (prepareAll F r.nr).1 ∨
      (ClosePub r.thr st'.r.pub (prepareAll F r.nr).1 ∧ ∃ t, st'.r.lastSync = some t ∧ r.now - t ≤ r.interval) := by
  have h := hist_close_after_every_round D hD st.r (pre.map (RoundNR.once F)) (r.once F)
  simp only [runHistNR_eq_runHist, List.map_append, List.map_cons, List.map_nil]
  exact h

/-- the node never carries an amount that is not the ONCE-prepared amount of some round (no r², no accumulation across
    the prepares of a round or across rounds). -/
theorem histNR_pub_from_rounds (F : FloatOps) (D : DiffOps) (st : NState) (rs : List RoundNR) :
    (runHistNR F D st rs).r.pub = st.r.pub ∨ ∃ r ∈ rs, (runHistNR F D st rs).r.pub = (prepareAll F r.nr).1 := by
  rw [runHistNR_eq_runHist]
  rcases hist_pub_from_rounds D st.r (rs.map (fun r => ({ thr := r.thr, interval := r.interval, now := r.now, computed := (prepareAll F r.nr).1 } : Round))) with h | ⟨r', hr', h⟩
  · left; exact h
  · right
    obtain ⟨r, hr, rfl⟩ := List.mem_map.mp hr'
    exact ⟨r, hr, h⟩

/-- a round whose NodeResource is all Reset / nil (stale or missing NodeMetric, disabled config) withdraws everything,
    whatever the ratio annotation says and however often it prepares. -/
theorem histNR_degrade (F : FloatOps) (D : DiffOps) (st : NState) (pre : List RoundNR) (r : RoundNR)
    (h : (prepareAll F r.nr).1 = Pub.empty) :
    (runHistNR F D st (pre ++ [r])).r.pub = Pub.empty := by
  have := hist_degrade D st.r (pre.map (RoundNR.once F)) (r.once F) h
  simp only [runHistNR_eq_runHist, List.map_append, List.map_cons, List.map_nil]
  exact this

/-! ### the NodeResource of a round and what one prepare makes of it -/

theorem prepareStored_storeInt (F : FloatOps) (amp : Option Int) (q : Option Int) (reset : Bool) :
    (prepareStored F amp (q.map storeInt) reset).1 = (prepareRes q reset).map (amplify F amp) := by
  cases q with
  | none => rfl
  | some v =>
    cases reset with
    | true => simp [prepareStored, prepareRes]
    | false =>
      cases amp with
      | none => simp [prepareStored, prepareRes, amplify, milliToValue_storeInt]
      | some r =>
        by_cases h : r > 100
        · simp [prepareStored, prepareRes, amplify, h, storeInt]
        · simp [prepareStored, prepareRes, amplify, h, milliToValue_storeInt]

theorem amplify_none (F : FloatOps) (v : Int) : amplify F none v = v := rfl

theorem batchFinish_eq (F : FloatOps) (r : Option Int) (an : Bool) (tp : ThirdParty) (qc qm : Option Int) (reset : Bool) :
    batchFinish an tp (prepareBatchCPU F r qc reset) (prepareRes qm reset) = batchPrepare F r an tp qc qm reset := rfl

/-- Prepare on the NodeResource object agrees with the value-level `batchPrepare` for the integer quantities the
    plugins store. -/
theorem batchPrepareNR_storeInt (F : FloatOps) (an : Bool) (tp : ThirdParty) (nr : NRes) (qc qm : Option Int)
    (hc : nr.bc = qc.map storeInt) (hm : nr.bm = qm.map storeInt) :
    (batchPrepareNR F an tp nr).1 = batchPrepare F nr.ratio.amp an tp qc qm nr.resetB := by
  have h2 : (prepareStored F none (qm.map storeInt) nr.resetB).1 = prepareRes qm nr.resetB := by
    rw [prepareStored_storeInt]
    cases prepareRes qm nr.resetB <;> simp [amplify]
  simp only [batchPrepareNR, hc, hm, prepareStored_storeInt, h2]
  rfl

/-- what ONE prepare writes for the NodeResource of a round = `computedPubR` (ratio applied once). -/
theorem prepareAll_nresOf (F : FloatOps) (k : PrioConsts) (df : MidDefaults) (en : Bool) (s : Strategy) (ms : MidStrategy)
    (n : NodeIn) (allocNil : Bool) (hs : List HostApp) (pods : List PodIn) (mets : List Metric) (mm : MidMetric)
    (hasUpd : Bool) (now upd : Int) (ratio : RatioAnno) :
    (prepareAll F (nresOf F k df en s ms n allocNil hs pods mets mm hasUpd now upd ratio)).1 =
      computedPubR F k df en s ms n allocNil hs pods mets mm hasUpd now upd ratio := by
  cases en with
  | false => simp [nresOf, computedPubR, prepareAll, batchPrepareNR, prepareStored, batchFinish, Pub.empty]
  | true =>
    simp only [nresOf, computedPubR, Bool.not_true, Bool.false_eq_true, if_false]
    generalize midCalculate F k df ms s.degradeMin n allocNil hs pods mm hasUpd now upd = mo
    generalize calculate F k s n hs pods mets [] hasUpd now upd = bo
    cases bo with
    | degraded =>
      cases mo <;>
        simp [prepareAll, batchPrepareNR, prepareStored, batchFinish, batchOutQuantities, midPrepare, batchPrepare,
          prepareBatchCPU, prepareRes, milliToValue_storeInt]
    | batch c m zs =>
      have hb := fun (nr : NRes) (h1 : nr.bc = (some c).map storeInt) (h2 : nr.bm = (some m).map storeInt) =>
        batchPrepareNR_storeInt F false .absent nr (some c) (some m) h1 h2
      cases mo with
      | error =>
        simp only [prepareAll, batchOutQuantities, midPrepare, prepareStored]
        rw [hb _ rfl rfl]
      | degraded =>
        simp only [prepareAll, batchOutQuantities, midPrepare, prepareStored]
        rw [hb _ rfl rfl]
      | mid mc mmem =>
        simp only [prepareAll, batchOutQuantities, midPrepare, prepareStored, Bool.false_eq_true, if_false,
          milliToValue_storeInt]
        rw [hb _ rfl rfl]

theorem computedPubR_absent (F : FloatOps) (k : PrioConsts) (df : MidDefaults) (en : Bool) (s : Strategy) (ms : MidStrategy)
    (n : NodeIn) (allocNil : Bool) (hs : List HostApp) (pods : List PodIn) (mets : List Metric) (mm : MidMetric)
    (hasUpd : Bool) (now upd : Int) :
    computedPubR F k df en s ms n allocNil hs pods mets mm hasUpd now upd .absent =
      computedPub F k df en s ms n allocNil hs pods mets mm hasUpd now upd := rfl

/-- stale / missing NodeMetric or a disabled config withdraws all four resources whatever the ratio says. -/
theorem computedR_stale_empty (F : FloatOps) (k : PrioConsts) (df : MidDefaults) (en : Bool) (s : Strategy) (ms : MidStrategy)
    (n : NodeIn) (allocNil : Bool) (hs : List HostApp) (pods : List PodIn) (mets : List Metric) (mm : MidMetric)
    (hasUpd : Bool) (now upd : Int) (ratio : RatioAnno) (h : en = false ∨ hasUpd = false ∨ now > upd + s.degradeMin * 60) :
    computedPubR F k df en s ms n allocNil hs pods mets mm hasUpd now upd ratio = Pub.empty := by
  unfold computedPubR
  cases en
  · rfl
  · have h' : hasUpd = false ∨ now > upd + s.degradeMin * 60 := by
      rcases h with h | h
      · cases h
      · exact h
    have h1 := mid_stale_withdrawn F k df ms s.degradeMin n allocNil hs pods mm hasUpd now upd h'
    have h2 := degrade_resets F k s n hs pods mets [] hasUpd now upd h'
    simp [h1, h2, batchOutQuantities, batchPrepare, prepareBatchCPU, prepareRes, Pub.empty]

/-- fresh metrics: batch-cpu on the node is the calculated amount amplified ONCE, batch-memory and the mid amounts are
    the calculated ones. -/
theorem computedR_fresh (F : FloatOps) (hF : FloatOK F) (k : PrioConsts) (df : MidDefaults) (s : Strategy) (ms : MidStrategy)
    (n : NodeIn) (hs : List HostApp) (pods : List PodIn) (mets : List Metric) (mm : MidMetric)
    (now upd : Int) (ratio : RatioAnno) (h : now ≤ upd + s.degradeMin * 60)
    (hc : 0 ≤ nodeBatch F k s n hs pods mets .cpu) (hm : 0 ≤ nodeBatch F k s n hs pods mets .mem) :
    computedPubR F k df true s ms n false hs pods mets mm true now upd ratio =
      { bc := some (amplify F ratio.amp (nodeBatch F k s n hs pods mets .cpu)), bm := some (nodeBatch F k s n hs pods mets .mem),
        mc := some (midAmount F k df ms n hs pods mm .cpu), mm := some (midAmount F k df ms n hs pods mm .mem) } := by
  have hd : isDegradeNeeded true now upd s.degradeMin = false := by
    unfold isDegradeNeeded
    have : ¬ (now > upd + s.degradeMin * 60) := by omega
    simp [this]
  have h1 := mid_fresh_published F k df ms s.degradeMin n hs pods mm now upd h
  have ha := amplify_nonneg F hF ratio.amp _ hc
  have hc' : ¬ (amplify F ratio.amp (nodeBatch F k s n hs pods mets .cpu) < 0) := by omega
  have hm' : ¬ (nodeBatch F k s n hs pods mets .mem < 0) := by omega
  simp [computedPubR, h1, calculate, hd, batchOutQuantities, batchPrepare, prepareBatchCPU, prepareRes, hc', hm']

/-! ### "× ratio exactly once" as an inequality -/

/-- further assumptions on float64 `int64(float64(v) * (k/100))`, needed only for ratios above 100 %:
    monotone in v and never above the exact product (checked by the prepare harness on every generated input). -/
structure AmpOK (F : FloatOps) : Prop where
  mul_mono_v : ∀ a b k, a ≤ b → 0 ≤ k → F.mulPct a k ≤ F.mulPct b k
  mul_le_exact : ∀ v k, 0 ≤ v → 0 ≤ k → 100 * F.mulPct v k ≤ v * k

theorem exactOps_ampOK : AmpOK exactOps where
  mul_mono_v a b k h hk := by
    show a * k / 100 ≤ b * k / 100
    have : a * k ≤ b * k := Int.mul_le_mul_of_nonneg_right h hk
    omega
  mul_le_exact v k _ _ := by
    show 100 * (v * k / 100) ≤ v * k
    omega

/-- an unparsable, absent or ≤ 1.0 ratio never amplifies. -/
theorem amplify_inactive (F : FloatOps) (a : RatioAnno) (v : Int) (h : ∀ r, a = .pct r → r ≤ 100) :
    amplify F a.amp v = v := by
  cases a with
  | absent => rfl
  | bad => rfl
  | pct r =>
    have := h r rfl
    have h' : ¬ (r > 100) := by omega
    simp [RatioAnno.amp, amplify, h']

/-- ratio r/100 > 1: the node amount is below `bound · r/100 + 1` for EVERY bound on the calculated amount —
    the documented formula times the ratio, rounded up, applied once (r² / 100² is impossible). -/
theorem amplify_once_le (F : FloatOps) (hA : AmpOK F) (r v bound : Int) (hv : 0 ≤ v) (hr : 100 < r) (hb : v ≤ bound) :
    100 * amplify F (some r) v < bound * r + 100 := by
  have h1 : ¬ (r ≤ 100) := by omega
  have h2 := hA.mul_le_exact (1000 * v) r (by omega) (by omega)
  have h3 : v * r ≤ bound * r := Int.mul_le_mul_of_nonneg_right hb (by omega)
  have h4 : 1000 * v * r = 1000 * (v * r) := by rw [Int.mul_assoc]
  simp only [amplify, gt_iff_lt, hr, if_true]
  unfold milliToValue
  omega

/-- amplification is monotone in the calculated amount, so every antitone law of `nodeBatch` carries over to the node. -/
theorem amplify_mono (F : FloatOps) (hA : AmpOK F) (r : Option Int) (v w : Int) (h : v ≤ w)
    (hr : ∀ x, r = some x → 0 ≤ x) : amplify F r v ≤ amplify F r w := by
  cases r with
  | none => exact h
  | some x =>
    simp only [amplify]
    split
    · have := hA.mul_mono_v (1000 * v) (1000 * w) x (by omega) (hr x rfl)
      unfold milliToValue
      omega
    · exact h

/-- the statement's bound on the node's batch-cpu under cpu normalization (policies usage / maxUsageRequest):
    100 · published < (capacity − margin − max(system usage + HP host apps, reservation) − HP(policy)) · r + 100. -/
theorem batch_cpu_ratio_once (F : FloatOps) (hF : FloatOK F) (hA : AmpOK F) (k : PrioConsts) (s : Strategy) (n : NodeIn)
    (hs : List HostApp) (pods : List PodIn) (ms : List Metric) (r : Int) (hr : 100 < r)
    (hpol : s.pol .cpu ≠ .request)
    (hpos : 0 ≤ n.cap .cpu - safetyMargin F s .cpu (n.cap .cpu) - max (n.sys .cpu + hostHPUsed k .batch hs .cpu) (nodeReserved n .cpu)
              - literalHP (s.pol .cpu) (hpReq .cpu (resolvePods pods (metricMap ms))) (hpUsed .cpu (resolvePods pods (metricMap ms)) (dangling pods (metricMap ms)))
                  (hpMax .cpu (resolvePods pods (metricMap ms)) (dangling pods (metricMap ms))))
    (hcap : ∀ c, s.cap .cpu = some c → 0 ≤ c) (hcapC : 0 ≤ n.cap .cpu) :
    100 * amplify F (some r) (nodeBatch F k s n hs pods ms .cpu) <
      (n.cap .cpu - safetyMargin F s .cpu (n.cap .cpu) - max (n.sys .cpu + hostHPUsed k .batch hs .cpu) (nodeReserved n .cpu)
        - literalHP (s.pol .cpu) (hpReq .cpu (resolvePods pods (metricMap ms))) (hpUsed .cpu (resolvePods pods (metricMap ms)) (dangling pods (metricMap ms)))
            (hpMax .cpu (resolvePods pods (metricMap ms)) (dangling pods (metricMap ms)))) * r + 100 := by
  have hnn := batch_nonneg F hF k s n hs pods ms .cpu hcapC hcap
  have hub := batch_upper F k s n hs pods ms .cpu hpol
  rw [Int.max_eq_left hpos] at hub
  exact amplify_once_le F hA r _ _ hnn hr hub

/-! ### the ratio annotation on the node (meta path) -/

/-- a well-formed annotation compared with itself never asks for a meta patch. -/
theorem needSyncMeta_self (a : RatioAnno) (h : a.nodeErr = false) : needSyncMeta a a = false := by
  cases a with
  | absent => rfl
  | bad => simp [RatioAnno.nodeErr] at h
  | pct r =>
    simp only [needSyncMeta, h, Bool.false_eq_true, if_false, ratioDiff]
    have h1 : ¬ (r > r + 1) := by omega
    have h2 : ¬ (r < r - 1) := by omega
    simp [h1, h2]

/-- when the meta patch runs, the node carries the NodeResource's ratio afterwards (or keeps its own when the
    NodeResource has none); otherwise the annotation is untouched. -/
theorem reconcileNR_ratio (F : FloatOps) (D : DiffOps) (thr interval now : Int) (st : NState) (nr : NRes) :
    (reconcileNR F D thr interval now st nr).1.ratio =
      if needSyncMeta st.ratio (prepareRatio nr st.ratio) then prepareRatio nr st.ratio else st.ratio := by
  have hk := prepareAll_keeps_flags F nr
  have hk2 := prepareAll_keeps_flags F (prepareAll F nr).2
  simp only [reconcileNR]
  split
  · split
    · simp [prepareRatio, hk2.2.2, hk.2.2]
    · simp [prepareRatio, hk.2.2]
  · rfl

/-- a valid, different ratio in the NodeResource is installed by that very reconcile, and the next reconcile with the
    same NodeResource ratio does not patch again. -/
theorem reconcileNR_ratio_converges (F : FloatOps) (D : DiffOps) (thr interval now : Int) (st : NState) (nr : NRes) (r : Int)
    (hr : nr.ratio = .pct r) (hpos : 0 < r) (hold : st.ratio.nodeErr = false)
    (hdiff : ∀ o, st.ratio = .pct o → ratioDiff o r = true) :
    (reconcileNR F D thr interval now st nr).1.ratio = .pct r := by
  rw [reconcileNR_ratio]
  have hp : prepareRatio nr st.ratio = .pct r := by simp [prepareRatio, hr]
  have hne : (RatioAnno.pct r).nodeErr = false := by
    have : ¬ (r ≤ 0) := by omega
    simp [RatioAnno.nodeErr, this]
  rw [hp]
  cases hs : st.ratio with
  | absent =>
    have : ¬ (r ≤ 0) := by omega
    simp [needSyncMeta, RatioAnno.nodeErr, this]
  | bad => rw [hs] at hold; simp [RatioAnno.nodeErr] at hold
  | pct o =>
    rw [hs] at hold
    simp [needSyncMeta, hold, hne, hdiff o hs]

/-- the origin annotation travels with the meta patch only; when it is patched it is the origin of ONE prepare —
    max(amount, 0) of the once-prepared batch amounts — although it is computed by the third prepare of the round. -/
theorem reconcileNR_origin (F : FloatOps) (D : DiffOps) (thr interval now : Int) (st : NState) (nr : NRes) :
    (reconcileNR F D thr interval now st nr).1.origin =
      if needSyncMeta st.ratio (prepareRatio nr st.ratio) then prepareOrigin F nr else st.origin := by
  have h1 : prepareOrigin F (prepareAll F nr).2 = prepareOrigin F nr := by
    simp only [prepareOrigin, prepareAll, batchPrepareNR, prepareStored_idempotent]
  have h2 : prepareOrigin F (prepareAll F (prepareAll F nr).2).2 = prepareOrigin F nr := by
    rw [prepare_idempotent, h1]
  simp only [reconcileNR]
  split
  · split
    · simp [h2]
    · simp [h1]
  · rfl

/-- the origin annotation of a prepare is (max batch-cpu 0, max batch-memory 0) of the amounts that prepare writes. -/
theorem prepareOrigin_eq (F : FloatOps) (nr : NRes) :
    prepareOrigin F nr = some (max ((prepareAll F nr).1.bc.getD (-1)) 0, max ((prepareAll F nr).1.bm.getD (-1)) 0) := by
  simp only [prepareOrigin, prepareAll, batchPrepareNR, batchFinish]
  split <;> simp

/-! ### NUMA-zone amounts on the NodeResourceTopology object are withdrawn with the node-level amounts -/

/-- a round whose batch items are Reset (stale / missing NodeMetric, disabled config) leaves every zone of the
    NodeResourceTopology object with batch-cpu = batch-memory = 0, whatever was published before and whatever the
    merge rule of fresh rounds is. -/
theorem zones_withdrawn_on_reset (upd : List (Int × Int) → List (Int × Int) → List (Int × Int)) (old : List (Int × Int)) :
    ∀ z ∈ preUpdateZones upd true none old, z = (0, 0) := by
  intro z hz
  simp only [preUpdateZones, if_true, List.mem_map] at hz
  obtain ⟨_, _, h⟩ := hz
  exact h.symm

/-- no calculated zone amounts and no Reset (zone resources not reported): the stored zone amounts are left alone. -/
theorem zones_kept_without_calc (upd : List (Int × Int) → List (Int × Int) → List (Int × Int)) (old : List (Int × Int)) :
    preUpdateZones upd false none old = old := rfl

/-- the NodeResource of a stale / missing-metric / disabled round has the batch items Reset — the condition under which
    `preUpdateZones` zeroes the zones (`allocNil`: the mid plugin's error path does not matter here). -/
theorem nresOf_stale_reset (F : FloatOps) (k : PrioConsts) (df : MidDefaults) (en : Bool) (s : Strategy) (ms : MidStrategy)
    (n : NodeIn) (allocNil : Bool) (hs : List HostApp) (pods : List PodIn) (mets : List Metric) (mm : MidMetric)
    (hasUpd : Bool) (now upd : Int) (ratio : RatioAnno) (h : en = false ∨ hasUpd = false ∨ now > upd + s.degradeMin * 60) :
    (nresOf F k df en s ms n allocNil hs pods mets mm hasUpd now upd ratio).resetB = true := by
  cases en with
  | false => simp [nresOf]
  | true =>
    have h' : hasUpd = false ∨ now > upd + s.degradeMin * 60 := by
      rcases h with h | h
      · cases h
      · exact h
    have h2 := degrade_resets F k s n hs pods mets [] hasUpd now upd h'
    simp only [nresOf, Bool.not_true, Bool.false_eq_true, if_false, h2, batchOutQuantities]

/-- stale / missing metric or disabled config ⇒ after that round every zone carries zero batch amounts. -/
theorem zones_withdrawn_when_stale (F : FloatOps) (k : PrioConsts) (df : MidDefaults) (en : Bool) (s : Strategy) (ms : MidStrategy)
    (n : NodeIn) (allocNil : Bool) (hs : List HostApp) (pods : List PodIn) (mets : List Metric) (mm : MidMetric)
    (hasUpd : Bool) (now upd : Int) (ratio : RatioAnno) (h : en = false ∨ hasUpd = false ∨ now > upd + s.degradeMin * 60)
    (updf : List (Int × Int) → List (Int × Int) → List (Int × Int)) (old : List (Int × Int)) :
    ∀ z ∈ preUpdateZones updf (nresOf F k df en s ms n allocNil hs pods mets mm hasUpd now upd ratio).resetB none old, z = (0, 0) := by
  rw [nresOf_stale_reset F k df en s ms n allocNil hs pods mets mm hasUpd now upd ratio h]
  exact zones_withdrawn_on_reset updf old

example : preUpdateZones (fun _ n => n) true none [(205, 4), (190, 3)] = [(0, 0), (0, 0)] := by decide

/-! ### why the threading matters: the seeded in-place variant is NOT idempotent -/

/-- `*q = MultiplyMilliQuant(*q, ratio)` (amplification written through the stored pointer): calculated 40000, ratio
    1.20 — the first prepare puts 48000 on the node, the second 57600, the third 69120. -/
theorem inplace_scaling_not_idempotent :
    ¬ (∀ (amp q : Option Int), prepareStoredInPlace exactOps amp (prepareStoredInPlace exactOps amp q false).2 false
        = prepareStoredInPlace exactOps amp q false) := by
  intro h
  have := h (some 120) (some 40000000)
  revert this
  decide

example : (prepareStoredInPlace exactOps (some 120) (some 40000000) false).1 = some 48000 := by decide
example : (prepareStoredInPlace exactOps (some 120) (prepareStoredInPlace exactOps (some 120) (some 40000000) false).2 false).1
    = some 57600 := by decide
example : (prepareStored exactOps (some 120) (prepareStored exactOps (some 120) (some 40000000) false).2 false).1
    = some 48000 := by decide

/-- non-vacuity: a reconcile that prepares three times (first sync + new ratio) publishes the once-amplified amount. -/
def exNR : NRes := { bc := some 40000000, bm := some 5000, mc := some 1000, mm := some 2000, resetB := false, resetM := false, ratio := .pct 120 }
example : (reconcileNR exactOps exactDiff 100 300 0 NState.init exNR).1 =
    { r := { pub := { bc := some 48000, bm := some 5, mc := some 1, mm := some 2 }, lastSync := some 0 }, ratio := .pct 120,
      origin := some (48000, 5) } := by decide


/-! ### 20. which strategy ONE node gets (extension 4; Model/C09Strategy.lean) -/

/-- The strategies (and enabled flags) node `k`'s reconciles compute over ANY multi-node history of ConfigMap events,
    metadata changes and reconciles depend only on the ConfigMap events and on node `k`'s own events: dropping every
    event of every other node (their annotation / label changes, their reconciles, in any order and number) changes nothing. -/
theorem node_strategy_independent_of_other_nodes (k : Nat) (st : CState) (es es' : List CEvent)
    (h : es.filter (fun e => e.concerns k) = es'.filter (fun e => e.concerns k)) :
    stratLog k st es = stratLog k st es' := by
  rw [stratLog_filter k es st, stratLog_filter k es' st, h]

/-- a reconcile never changes the shared cache (the aliasing check C09:config-cache-mutated observes this on the real one) -/
theorem reconcile_keeps_cache (st : CState) (k : Nat) : (cfgStep st (.reconcile k)).1.cache = st.cache := rfl

/-- the documented layering, field by field: node annotation, else the first matching nodeConfigs entry, else the cluster
    strategy (fields 1, 2 — the reclaim thresholds — are additionally overridden by the ratio labels). -/
theorem resolve_field_layering (c : CfgCache) (m : NodeMeta) (i : Nat) (hl1 : m.lblCpu = none) (hl2 : m.lblMem = none)
    (hlen : ∀ e ∈ c.nodes, e.2.length ≤ c.cluster.length)
    (hanno : ∀ a, m.anno = some a → a.length ≤ c.cluster.length) :
    fld (resolve c m) i =
      match (m.anno.bind (fun a => fld a i)) with
      | some v => some v
      | none =>
        match (firstMatch m.pool c.nodes).bind (fun n => fld n i) with
        | some v => some v
        | none => fld c.cluster i := by
  unfold resolve
  simp only [hl1, hl2]
  have hs1 : ∀ n, firstMatch m.pool c.nodes = some n → n.length ≤ c.cluster.length := by
    intro n hn
    obtain ⟨sel, hin, _⟩ := firstMatch_mem _ _ _ hn
    exact hlen _ hin
  cases hfm : firstMatch m.pool c.nodes with
  | none =>
    cases ha : m.anno with
    | none => simp
    | some a =>
      simp only [Option.bind]
      rw [fld_mergeV _ _ _ (hanno a ha)]
      cases fld a i <;> simp
  | some n =>
    have hn := hs1 n hfm
    cases ha : m.anno with
    | none =>
      simp only [Option.bind]
      rw [fld_mergeV _ _ _ hn]
      cases fld n i <;> simp
    | some a =>
      simp only [Option.bind]
      have hlen2 : a.length ≤ (mergeV c.cluster n).length := by
        rw [mergeV_length _ _ hn]; exact hanno a ha
      rw [fld_mergeV _ _ _ hlen2, fld_mergeV _ _ _ hn]
      cases fld a i <;> cases fld n i <;> simp

/-- a node without a matching entry, annotation and ratio labels gets exactly the cluster strategy — in particular the
    cluster's caps, whatever other nodes override. -/
theorem resolve_no_override (c : CfgCache) (m : NodeMeta) (h1 : ∀ e ∈ c.nodes, e.1.matchesPool m.pool = false)
    (h2 : m.anno = none) (h3 : m.lblCpu = none) (h4 : m.lblMem = none) : resolve c m = c.cluster := by
  unfold resolve
  simp [firstMatch_none _ _ h1, h2, h3, h4]

/-- the loaded cluster strategy: the declared field, else the default -/
theorem load_cluster_field (dc : StratV) (dn : List (Sel × StratV)) (c : CfgCache) (i : Nat) (hl : dc.length ≤ nStratFields)
    (h : loadCfg (some (dc, dn)) = some c) :
    fld c.cluster i = match fld dc i with | some v => some v | none => fld defaultV i := by
  unfold loadCfg at h
  simp only at h
  split at h
  · simp at h
  · simp at h; subst h
    exact fld_mergeV defaultV dc i (by simpa [defaultV, nStratFields] using hl)

/-- whatever is loaded is valid: the cluster strategy and every entry (an invalid merged entry falls back to the cluster's) -/
theorem load_valid (d : Declared) (c : CfgCache) (h : loadCfg d = some c) :
    validV c.cluster = true ∧ ∀ e ∈ c.nodes, validV e.2 = true := by
  unfold loadCfg at h
  cases d with
  | none => simp at h; subst h; exact ⟨by decide, by simp [defaultCache]⟩
  | some p =>
    obtain ⟨dc, dn⟩ := p
    simp only at h
    split at h
    · simp at h
    · rename_i hv
      simp at h; subst h
      have hv' : validV (mergeV defaultV dc) = true := by simpa using hv
      refine ⟨hv', ?_⟩
      intro e he
      simp only [List.mem_map] at he
      obtain ⟨x, _, rfl⟩ := he
      simp only
      split
      · assumption
      · exact hv'

/-- the percentage cap of the statement for a node WITHOUT overrides is the cluster's declared cap: the published batch
    amount is at most `capacity * pct` for the pct the ConfigMap declares at cluster level. -/
theorem node_cap_bound_no_override (F : FloatOps) (k : PrioConsts) (c : CfgCache) (m : NodeMeta) (n : NodeIn) (hs : List HostApp)
    (pods : List PodIn) (ms : List Metric) (d : Dim) (pct : Int)
    (h1 : ∀ e ∈ c.nodes, e.1.matchesPool m.pool = false) (h2 : m.anno = none) (h3 : m.lblCpu = none) (h4 : m.lblMem = none)
    (hcap : fld c.cluster (match d with | .cpu => 3 | .mem => 4) = some pct) :
    nodeBatch F k (stratOfV (resolve c m)) n hs pods ms d ≤ F.mulPct (n.cap d) pct := by
  apply batch_pct_cap
  rw [resolve_no_override c m h1 h2 h3 h4]
  cases d <;> simpa [stratOfV, Strategy.cap] using hcap

/-- … and for ANY node: the cap is the one the layering gives (`resolve_field_layering` says which). -/
theorem node_cap_bound (F : FloatOps) (k : PrioConsts) (c : CfgCache) (m : NodeMeta) (n : NodeIn) (hs : List HostApp)
    (pods : List PodIn) (ms : List Metric) (d : Dim) (pct : Int)
    (hcap : fld (resolve c m) (match d with | .cpu => 3 | .mem => 4) = some pct) :
    nodeBatch F k (stratOfV (resolve c m)) n hs pods ms d ≤ F.mulPct (n.cap d) pct := by
  apply batch_pct_cap
  cases d <;> simpa [stratOfV, Strategy.cap] using hcap

/-! #### why the cache must be copied deeply: the seeded shared-cell variant is NOT independent

`resolveShared` is GetNodeColocationStrategy when the "copy" of the cluster strategy shares the cell of field `i` with the
cache (a DeepCopyInto that does not clone that pointer): the merge writes the node's override through to the cache. -/
def resolveShared (i : Nat) (c : CfgCache) (m : NodeMeta) : CfgCache × StratV :=
  let s := resolve c m
  (match fld s i with
   | some v => if (fld c.cluster i).isSome then { c with cluster := setFld c.cluster i (some v) } else c
   | none => c, s)

def exCache : CfgCache := { cluster := mergeV defaultV [some 1, none, none, some 20, some 30], nodes := [] }
def exNodeA : NodeMeta := { anno := some [none, none, none, some 80] }
def exNodeB : NodeMeta := {}

/-- cluster cap 20 %, node A overrides it to 80 % by annotation, node B has no override: after A's strategy was computed
    with the shared cell, B gets 80 % instead of the declared 20 %. -/
theorem shared_cell_breaks_independence :
    fld (resolve (resolveShared 3 exCache exNodeA).1 exNodeB) 3 = some 80 ∧ fld (resolve exCache exNodeB) 3 = some 20 := by
  decide

example : fld (resolve exCache exNodeA) 3 = some 80 := by decide
example : nodeEnabled exCache exNodeA = true := by decide
/-- non-vacuity of `node_strategy_independent_of_other_nodes`: node 1's override and reconciles do not show in node 0's log -/
example : stratLog 0 { cache := exCache, metas := fun _ => {} } [.nodeMeta 1 exNodeA, .reconcile 1, .reconcile 0] =
    stratLog 0 { cache := exCache, metas := fun _ => {} } [.reconcile 0] := by decide
example : (loadCfg (some ([some 1, none, none, some (-5)], []))).isNone = true := by decide
example : ((loadCfg (some ([some 1, none, none, some 20], [(.pool 0, [none, none, none, some (-5)])]))).map
    (fun c => c.nodes.map (fun e => fld e.2 3))) = some [some 20] := by decide

end KoordVerif.C09
