import KoordVerif.Model.C09
namespace KoordVerif.C09

theorem wip_placeholder : isHP .prod = true := by decide

end KoordVerif.C09
