import KoordVerif.Model.C11
import KoordVerif.Proofs.C11Loop
import KoordVerif.Proofs.C11Order
import KoordVerif.Proofs.C11Sort
import KoordVerif.Proofs.C11SortBE
/-
C11 — property theorems (DESIGN.md §4 C11).

Part A speaks about the executor trace of `killAndEvict` (= KillAndEvictPods):
`(killAndEvict isEv script tasks).logRev` lists, newest first, every `Evict` call (`ok`/`fail`)
and every pod found already evicted and credited as pending release (`pending`).  A split
`logRev = newer ++ ev :: older` singles out one event `ev` and everything that happened before it.
All statements hold for every task list, every `IsPodEvicted` answer and every script of
`Evict` results (all failure patterns).
-/
namespace KoordVerif.C11

/-- the aggregated release function KillAndEvictPods builds for a task list. -/
abbrev aggOf (tasks : List Task) : Entry → Rel := aggWith (collectFns [] tasks)

/-! ### A.3 stop_when_met — no `Evict` call (and no further scan) once the target is covered by the
    releases credited so far (successful victims and still-terminating pods, across tasks). -/
theorem stop_when_met (isEv : Nat → Bool) (script : List Bool) (tasks : List Task)
    (newer : List Ev) (ev : Ev) (older : List Ev)
    (h : (killAndEvict isEv script tasks).logRev = newer ++ ev :: older) :
    ∃ t, tasks[ev.task]? = some t ∧ ¬ Met (aggOf tasks) t older := by
  have := (HistOK_split (kill_inv isEv script tasks).hist newer ev older h).task_ok
  obtain ⟨t, h1, _, h3⟩ := this
  exact ⟨t, h1, h3⟩

/-! ### A.4 no_double — a pod successfully evicted or counted as terminating is never handed to the
    executor again, in this or a later task; and a pod that is already evicted is never evicted again. -/
theorem no_double (isEv : Nat → Bool) (script : List Bool) (tasks : List Task)
    (newer : List Ev) (ev : Ev) (older : List Ev)
    (h : (killAndEvict isEv script tasks).logRev = newer ++ ev :: older) :
    ev.e.pod ∉ creditedPods older :=
  (HistOK_split (kill_inv isEv script tasks).hist newer ev older h).fresh

theorem evict_only_not_yet_evicted (isEv : Nat → Bool) (script : List Bool) (tasks : List Task)
    (newer : List Ev) (ev : Ev) (older : List Ev)
    (h : (killAndEvict isEv script tasks).logRev = newer ++ ev :: older) :
    (ev.kind = .pending ↔ isEv ev.e.pod = true) :=
  (HistOK_split (kill_inv isEv script tasks).hist newer ev older h).kind_ok

/-! ### A.1 (loop level) every victim is a member of the list published for the task that evicts it -/
theorem victims_are_candidates (isEv : Nat → Bool) (script : List Bool) (tasks : List Task)
    (newer : List Ev) (ev : Ev) (older : List Ev)
    (h : (killAndEvict isEv script tasks).logRev = newer ++ ev :: older) :
    ∃ t, tasks[ev.task]? = some t ∧ ev.e ∈ t.pods := by
  obtain ⟨t, h1, h2, _⟩ := (HistOK_split (kill_inv isEv script tasks).hist newer ev older h).task_ok
  exact ⟨t, h1, h2⟩

/-! ### A.2 victims_in_order — the chronological trace is the concatenation, task after task, of
    sub-sequences of the tasks' published (sorted) victim lists. -/
theorem victims_in_order (isEv : Nat → Bool) (script : List Bool) (tasks : List Task) :
    ∃ segs : List (List Ev),
      (killAndEvict isEv script tasks).logRev.reverse = segs.flatten ∧ SegsOK 0 tasks segs := by
  obtain ⟨segs, h1, h2⟩ := loopTasks_segments (aggOf tasks) isEv tasks 0 (St.init script)
  exact ⟨segs, by simpa [killAndEvict, St.init] using h1, h2⟩

/-! ### A.5 terminating_counted — the returned release list is exactly what the trace credits: every
    successful victim and every still-terminating pod once, failed calls nothing. -/
theorem terminating_counted (isEv : Nat → Bool) (script : List Bool) (tasks : List Task) (k : Key) :
    get (killAndEvict isEv script tasks).released k
      = credit (aggOf tasks) (killAndEvict isEv script tasks).logRev k :=
  (kill_inv isEv script tasks).rel k

theorem newly_iff_some_success (isEv : Nat → Bool) (script : List Bool) (tasks : List Task) :
    (killAndEvict isEv script tasks).newly = true
      ↔ ∃ ev ∈ (killAndEvict isEv script tasks).logRev, ev.kind = .ok :=
  (kill_inv isEv script tasks).newly

/-! ### A.6 frees_something — FAILS on the unchanged tree (open known finding
    `C11:victim-frees-nothing-short`: the helper `isZeroResourceList` is unused).

  Full statement (not provable, refuted below):
    ∀ isEv script tasks newer ev older,
      (killAndEvict isEv script tasks).logRev = newer ++ ev :: older → ev.kind ≠ .pending →
      ∃ t, tasks[ev.task]? = some t ∧ Frees (aggOf tasks) t older ev -/

/-- the victim releases a positive amount of some resource the task is still short of. -/
def Frees (agg : Entry → Rel) (t : Task) (older : List Ev) (ev : Ev) : Prop :=
  ∃ ra ∈ t.toRelease, ra.2 > credit agg older (t.target, ra.1) ∧ 0 < get (agg ev.e) (t.target, ra.1)

/-- witness: memory target 5; pod 0 uses 0 bytes and is first in the list, pod 1 uses 5. -/
def cexTask : Task :=
  { target := 0, toRelease := [(1, 5)], fn := [(1, 0)], pods := [⟨0, [0]⟩, ⟨1, [5]⟩] }

theorem frees_something_counterexample :
    ∃ (ev : Ev) (newer older : List Ev),
      (killAndEvict (fun _ => false) [] [cexTask]).logRev = newer ++ ev :: older ∧ ev.kind = .ok ∧
      [cexTask][ev.task]? = some cexTask ∧ ¬ Frees (aggOf [cexTask]) cexTask older ev :=
  ⟨⟨0, ⟨0, [0]⟩, .ok⟩, [⟨0, ⟨1, [5]⟩, .ok⟩], [], by decide, by decide, by decide, by unfold Frees; decide⟩

/-- proved part: when every listed pod releases a positive amount of every resource its task
    names, every event (in particular every `Evict` call) frees something still short. -/
theorem frees_something_partial (isEv : Nat → Bool) (script : List Bool) (tasks : List Task)
    (hpos : ∀ t ∈ tasks, ∀ e ∈ t.pods, ∀ ra ∈ t.toRelease, 0 < get (aggOf tasks e) (t.target, ra.1))
    (newer : List Ev) (ev : Ev) (older : List Ev)
    (h : (killAndEvict isEv script tasks).logRev = newer ++ ev :: older) :
    ∃ t, tasks[ev.task]? = some t ∧ Frees (aggOf tasks) t older ev := by
  obtain ⟨t, h1, h2, h3⟩ := (HistOK_split (kill_inv isEv script tasks).hist newer ev older h).task_ok
  refine ⟨t, h1, ?_⟩
  have ht : t ∈ tasks := List.mem_of_getElem? h1
  unfold Met at h3
  have : ∃ ra ∈ t.toRelease, ¬ ra.2 ≤ credit (aggOf tasks) older (t.target, ra.1) := by
    apply Classical.byContradiction
    intro hn
    apply h3
    intro ra hra
    apply Classical.byContradiction
    intro hle
    exact hn ⟨ra, hra, hle⟩
  obtain ⟨ra, hra, hlt⟩ := this
  exact ⟨ra, hra, by omega, hpos t ht ev.e h2 ra hra⟩

/-- non-vacuity: a two-task run with a failing call and a terminating pod; the second task sees the
    9 units already credited by the first (cross-task accounting), skips pod 2 and needs pod 3. -/
example :
    let tasks : List Task :=
      [{ target := 0, toRelease := [(1, 10)], fn := [(1, 0)], pods := [⟨0, [4]⟩, ⟨1, [3]⟩, ⟨2, [6]⟩] },
       { target := 1, toRelease := [(0, 12)], fn := [(0, 0)], pods := [⟨2, [6]⟩, ⟨3, [9]⟩] }]
    ((killAndEvict (fun p => p = 1) [false, true, true] tasks).logRev.reverse.map (fun ev => (ev.task, ev.e.pod, ev.kind)))
      = [(0, 0, .fail), (0, 1, .pending), (0, 2, .ok), (1, 3, .ok)] := by decide

/-! ## Part B — who may be a victim, and in which order (memoryevict / cpuevict selection) -/

/-- eligibility of the priority-based policies as the property states it (plus the two
    implementation filters: active phase and a usage metric). -/
def PrioEligible (threshold : Int) (p : Pod) (pr : Int) : Prop :=
  p.effPrio = some pr ∧ pr ≤ threshold ∧ p.evictLbl = true ∧ policyAllowed p.policy = true ∧
  p.active = true ∧ p.hasMetric = true

theorem prioInfo_some_iff (threshold : Int) (p : Pod) (i : Info) :
    prioInfo? threshold p = some i ↔
      (∃ pr, PrioEligible threshold p pr ∧
        i = { pod := p, prio := pr, labelPrio := p.labelPrio.getD pr, evictPrio := p.evictPrio,
              used := p.used, request := p.request, usageKey := 0 }) := by
  unfold prioInfo? PrioEligible
  cases hp : p.effPrio with
  | none => simp
  | some pr =>
    by_cases h1 : p.active = true <;> by_cases h2 : policyAllowed p.policy = true <;>
      by_cases h3 : pr > threshold <;> by_cases h4 : p.evictLbl = true <;>
      by_cases h5 : p.hasMetric = true <;> simp [h1, h2, h3, h4, h5, eq_comm] <;> first | omega | exact ⟨fun h => ⟨pr, ⟨rfl, by omega⟩, h⟩, fun ⟨_, ⟨e, _⟩, h⟩ => e ▸ h⟩

/-! ### B.1 victims_eligible — every pod of a priority-based victim list has priority not above the
    threshold, eviction enabled, and has not opted out of the evaluated policy; and conversely every
    such (active, measured) pod is listed. -/
theorem prio_victims_eligible (threshold : Int) (byReq : Bool) (pods : List Pod) (i : Info) :
    i ∈ selectPrio threshold byReq pods ↔
      ∃ p ∈ pods, ∃ pr, PrioEligible threshold p pr ∧
        i = { pod := p, prio := pr, labelPrio := p.labelPrio.getD pr, evictPrio := p.evictPrio,
              used := p.used, request := p.request, usageKey := 0 } := by
  unfold selectPrio
  rw [mem_isort, List.mem_filterMap]
  constructor
  · rintro ⟨p, hp, h⟩; exact ⟨p, hp, (prioInfo_some_iff threshold p i).mp h⟩
  · rintro ⟨p, hp, h⟩; exact ⟨p, hp, (prioInfo_some_iff threshold p i).mpr h⟩

/-- every pod of a best-effort victim list (memory or CPU) is QoS BE and has not opted out. -/
theorem be_victims_eligible (usage : Int → Int → Int) (pods : List Pod) (i : Info)
    (h : i ∈ selectBEMem pods ∨ i ∈ selectBECpu usage pods) :
    i.pod ∈ pods ∧ i.pod.qosBE = true ∧ policyAllowed i.pod.policy = true := by
  have key : ∀ (u : Int → Int → Int) (d : Int) (c : Bool) (p : Pod), beInfo? u d c p = some i →
      i.pod = p ∧ p.qosBE = true ∧ policyAllowed p.policy = true := by
    intro u d c p hp
    unfold beInfo? at hp
    by_cases h1 : p.qosBE = true <;> by_cases h2 : policyAllowed p.policy = true <;> simp [h1, h2] at hp
    subst hp; exact ⟨rfl, h1, h2⟩
  rcases h with h | h
  · unfold selectBEMem at h
    rw [mem_isort, List.mem_filterMap] at h
    obtain ⟨p, hp, hi⟩ := h
    obtain ⟨e1, e2, e3⟩ := key _ _ _ p hi
    exact ⟨e1 ▸ hp, e1 ▸ e2, e1 ▸ e3⟩
  · unfold selectBECpu at h
    rw [mem_isort, List.mem_filterMap] at h
    obtain ⟨p, hp, hi⟩ := h
    obtain ⟨e1, e2, e3⟩ := key _ _ _ p hi
    exact ⟨e1 ▸ hp, e1 ▸ e2, e1 ▸ e3⟩

/-! ### B.2 published order — in a priority-based victim list an earlier pod never comes after a later
    one in (eviction priority ↑, priority ↑, priority label ↑, usage or request ↓). -/
theorem prio_list_in_published_order (threshold : Int) (byReq : Bool) (pods : List Pod) :
    (selectPrio threshold byReq pods).Pairwise fun a b =>
      a.evictPrio < b.evictPrio ∨ (a.evictPrio = b.evictPrio ∧
        (a.prio < b.prio ∨ (a.prio = b.prio ∧
          (a.labelPrio < b.labelPrio ∨ (a.labelPrio = b.labelPrio ∧ subKey byReq b ≤ subKey byReq a))))) := by
  unfold selectPrio
  refine List.Pairwise.imp ?_ (isort_sorted (prioLess_swo byReq) _)
  intro a b hba
  have h : ¬ _ := fun h => by rw [(prioLess_iff byReq b a).mpr h] at hba; cases hba
  omega

/-! ### B.2 (BE lists) — when every pod carries a spec.priority, the BE victim lists are sorted by
    (spec.priority ↑, then usage: memory = non-zero usage first, larger first, zero-usage pods by name ↓;
    CPU = usage/request ratio ↓).  On lists mixing nil and non-nil priorities the Go comparators are not
    transitive and no order is claimed (the harness keeps such lists out, see assumptions). -/
theorem be_mem_list_in_published_order (pods : List Pod) (hall : ∀ p ∈ pods, ∃ v, p.specPrio = some v) :
    (selectBEMem pods).Pairwise fun a b => beMemLess b a = false := by
  unfold selectBEMem
  apply isort_sorted_on beMemLess_swo
  intro i hi
  obtain ⟨p, hp, h⟩ := List.mem_filterMap.mp hi
  rw [HasPrio, beInfo_pod _ _ _ p i h]; exact hall p hp

theorem be_cpu_list_in_published_order (usage : Int → Int → Int) (pods : List Pod)
    (hall : ∀ p ∈ pods, ∃ v, p.specPrio = some v) :
    (selectBECpu usage pods).Pairwise fun a b => beCpuLess b a = false := by
  unfold selectBECpu
  apply isort_sorted_on beCpuLess_swo
  intro i hi
  obtain ⟨p, hp, h⟩ := List.mem_filterMap.mp hi
  rw [HasPrio, beInfo_pod _ _ _ p i h]; exact hall p hp

/-- what `beCpuLess b a = false` / `beMemLess b a = false` mean for pods with priorities `pa`, `pb`:
    `a` (earlier) has the lower priority, or the same priority and is not after `b` in usage order. -/
theorem be_order_meaning (a b : Info) (pa pb : Int) (ha : a.pod.specPrio = some pa) (hb : b.pod.specPrio = some pb) :
    (beCpuLess b a = false ↔ (pa < pb ∨ (pa = pb ∧ b.usageKey ≤ a.usageKey))) ∧
    (beMemLess b a = false ↔ (pa < pb ∨ (pa = pb ∧ ¬ memBefore b a))) := by
  constructor
  · have := beCpuLess_iff b a pb pa hb ha
    cases h : beCpuLess b a <;> simp [h] at this ⊢ <;> omega
  · have := beMemLess_iff b a pb pa hb ha
    by_cases hm : memBefore b a <;> cases h : beMemLess b a <;> simp [h, hm] at this ⊢ <;> omega

/-- sorting only permutes the filtered pods. -/
theorem be_list_is_permutation (usage : Int → Int → Int) (pods : List Pod) (i : Info) :
    (i ∈ selectBEMem pods ↔ i ∈ pods.filterMap (beInfo? (fun _ _ => 0) 1000 false)) ∧
    (i ∈ selectBECpu usage pods ↔ i ∈ pods.filterMap (beInfo? usage 1 true)) := by
  unfold selectBEMem selectBECpu
  exact ⟨mem_isort _ _ _, mem_isort _ _ _⟩

/-! ### B.7 release target by used-threshold (integer part) -/
theorem target_none_iff_below_threshold (capacity used threshold : Int) (lower : Option Int) (buffer : Int) :
    usedThresholdTarget capacity used threshold lower buffer = none ↔
      Int.tdiv (used * 100) capacity < threshold := by
  unfold usedThresholdTarget
  by_cases h : Int.tdiv (used * 100) capacity < threshold <;> simp [h]

theorem target_formula (capacity used threshold : Int) (lower : Option Int) (buffer v : Int)
    (h : usedThresholdTarget capacity used threshold lower buffer = some v) :
    v = Int.tdiv (capacity * (Int.tdiv (used * 100) capacity - lower.getD (threshold - buffer))) 100 := by
  unfold usedThresholdTarget at h
  by_cases h1 : Int.tdiv (used * 100) capacity < threshold <;> simp [h1] at h
  exact h.symm

/-- non-vacuity of Part B: two eligible pods ordered by eviction priority, one pod above the
    threshold and one opted out are dropped. -/
example :
    let mk (id : Nat) (pr ep : Int) (pol : PolicyAnno) : Pod :=
      { id := id, name := id, qosBE := false, active := true, policy := pol, specPrio := some pr,
        effPrio := some pr, evictLbl := true, evictPrio := ep, labelPrio := none, hasMetric := true,
        used := 1000, request := 1, batchReq := 0 }
    (selectPrio 5999 false [mk 0 5500 1 .absent, mk 1 9500 0 .absent, mk 2 5500 0 .others, mk 3 5600 (-1) .lists]).map (·.pod.id)
      = [3, 0] := by decide

end KoordVerif.C11
