import KoordVerif.Model.C11
import KoordVerif.Model.C11Decode
import KoordVerif.Model.C11E2E
import KoordVerif.Proofs.C11Loop
import KoordVerif.Proofs.C11Order
import KoordVerif.Proofs.C11Sort
import KoordVerif.Proofs.C11SortBE
import KoordVerif.Proofs.C11ExtScan
import KoordVerif.Proofs.C11ExtRounds
import KoordVerif.Model.C11Metric
import KoordVerif.Proofs.C11ExtMetric
import KoordVerif.Model.C11Containers
import KoordVerif.Proofs.C11ExtContainers
import KoordVerif.Model.C11Passes
import KoordVerif.Proofs.C11ExtPasses
/-
C11 — property theorems (DESIGN.md §4 C11).

Part A speaks about the executor trace of `killAndEvict` (= KillAndEvictPods):
`(killAndEvict isEv script tasks).logRev` lists, newest first, every `Evict` call (`ok`/`fail`)
and every pod found already evicted and credited as pending release (`pending`).  A split
`logRev = newer ++ ev :: older` singles out one event `ev` and everything that happened before it.
All statements hold for every task list, every `IsPodEvicted` answer and every script of
`Evict` results (all failure patterns).

Part B: victim selection and order.  Part D: decoding of labels / annotations.  Part C: several rounds against
the real executor (Evictor TTL cache + DefaultEvictionExecutor).  Part E: memoryEvict() / cpuEvict() end to end.
Part F: the metric glue (CollectPodMetricLast on the metric cache) that decides whether a pod is "measured".
Part G: the container loops behind a pod's mid / batch request.
Part H: several memoryEvict() / cpuEvict() passes while earlier victims are still terminating.
-/
namespace KoordVerif.C11

/-- the aggregated release function KillAndEvictPods builds for a task list. -/
abbrev aggOf (tasks : List Task) : Entry → Rel := aggWith (collectFns [] tasks)

/-! ### A.3 stop_when_met — no `Evict` call (and no further scan) once the target is covered by the
    releases credited so far (successful victims and still-terminating pods, across tasks). -/
theorem stop_when_met (isEv : Nat → Bool) (script : List Bool) (tasks : List Task)
    (newer : List Ev) (ev : Ev) (older : List Ev)
    (h : (killAndEvict isEv script tasks).logRev = newer ++ ev :: older) :
    ∃ t, tasks[ev.task]? = some t ∧ ¬ Met (aggOf tasks) t older := by
  have := (HistOK_split (kill_inv isEv script tasks).hist newer ev older h).task_ok
  obtain ⟨t, h1, _, h3⟩ := this
  exact ⟨t, h1, h3⟩

/-! ### A.4 no_double — a pod successfully evicted or counted as terminating is never handed to the
    executor again, in this or a later task; and a pod that is already evicted is never evicted again. -/
theorem no_double (isEv : Nat → Bool) (script : List Bool) (tasks : List Task)
    (newer : List Ev) (ev : Ev) (older : List Ev)
    (h : (killAndEvict isEv script tasks).logRev = newer ++ ev :: older) :
    ev.e.pod ∉ creditedPods older :=
  (HistOK_split (kill_inv isEv script tasks).hist newer ev older h).fresh

theorem evict_only_not_yet_evicted (isEv : Nat → Bool) (script : List Bool) (tasks : List Task)
    (newer : List Ev) (ev : Ev) (older : List Ev)
    (h : (killAndEvict isEv script tasks).logRev = newer ++ ev :: older) :
    (ev.kind = .pending ↔ isEv ev.e.pod = true) :=
  (HistOK_split (kill_inv isEv script tasks).hist newer ev older h).kind_ok

/-! ### A.1 (loop level) every victim is a member of the list published for the task that evicts it -/
theorem victims_are_candidates (isEv : Nat → Bool) (script : List Bool) (tasks : List Task)
    (newer : List Ev) (ev : Ev) (older : List Ev)
    (h : (killAndEvict isEv script tasks).logRev = newer ++ ev :: older) :
    ∃ t, tasks[ev.task]? = some t ∧ ev.e ∈ t.pods := by
  obtain ⟨t, h1, h2, _⟩ := (HistOK_split (kill_inv isEv script tasks).hist newer ev older h).task_ok
  exact ⟨t, h1, h2⟩

/-! ### A.2 victims_in_order — the chronological trace is the concatenation, task after task, of
    sub-sequences of the tasks' published (sorted) victim lists. -/
theorem victims_in_order (isEv : Nat → Bool) (script : List Bool) (tasks : List Task) :
    ∃ segs : List (List Ev),
      (killAndEvict isEv script tasks).logRev.reverse = segs.flatten ∧ SegsOK 0 tasks segs := by
  obtain ⟨segs, h1, h2⟩ := loopTasks_segments (aggOf tasks) isEv tasks 0 (St.init script)
  exact ⟨segs, by simpa [killAndEvict, St.init] using h1, h2⟩

/-! ### A.5 terminating_counted — the returned release list is exactly what the trace credits: every
    successful victim and every still-terminating pod once, failed calls nothing. -/
theorem terminating_counted (isEv : Nat → Bool) (script : List Bool) (tasks : List Task) (k : Key) :
    get (killAndEvict isEv script tasks).released k
      = credit (aggOf tasks) (killAndEvict isEv script tasks).logRev k :=
  (kill_inv isEv script tasks).rel k

theorem newly_iff_some_success (isEv : Nat → Bool) (script : List Bool) (tasks : List Task) :
    (killAndEvict isEv script tasks).newly = true
      ↔ ∃ ev ∈ (killAndEvict isEv script tasks).logRev, ev.kind = .ok :=
  (kill_inv isEv script tasks).newly

/-! ### A.6 frees_something — FAILS on the unchanged tree (open known finding
    `C11:victim-frees-nothing-short`: the helper `isZeroResourceList` is unused).

  Full statement (not provable, refuted below):
    ∀ isEv script tasks newer ev older,
      (killAndEvict isEv script tasks).logRev = newer ++ ev :: older → ev.kind ≠ .pending →
      ∃ t, tasks[ev.task]? = some t ∧ Frees (aggOf tasks) t older ev -/

/-- the victim releases a positive amount of some resource the task is still short of. -/
def Frees (agg : Entry → Rel) (t : Task) (older : List Ev) (ev : Ev) : Prop :=
  ∃ ra ∈ t.toRelease, ra.2 > credit agg older (t.target, ra.1) ∧ 0 < get (agg ev.e) (t.target, ra.1)

/-- witness: memory target 5; pod 0 uses 0 bytes and is first in the list, pod 1 uses 5. -/
def cexTask : Task :=
  { target := 0, toRelease := [(1, 5)], fn := [(1, 0)], pods := [⟨0, [0]⟩, ⟨1, [5]⟩] }

theorem frees_something_counterexample :
    ∃ (ev : Ev) (newer older : List Ev),
      (killAndEvict (fun _ => false) [] [cexTask]).logRev = newer ++ ev :: older ∧ ev.kind = .ok ∧
      [cexTask][ev.task]? = some cexTask ∧ ¬ Frees (aggOf [cexTask]) cexTask older ev :=
  ⟨⟨0, ⟨0, [0]⟩, .ok⟩, [⟨0, ⟨1, [5]⟩, .ok⟩], [], by decide, by decide, by decide, by unfold Frees; decide⟩

/-- proved part: when every listed pod releases a positive amount of every resource its task
    names, every event (in particular every `Evict` call) frees something still short. -/
theorem frees_something_partial (isEv : Nat → Bool) (script : List Bool) (tasks : List Task)
    (hpos : ∀ t ∈ tasks, ∀ e ∈ t.pods, ∀ ra ∈ t.toRelease, 0 < get (aggOf tasks e) (t.target, ra.1))
    (newer : List Ev) (ev : Ev) (older : List Ev)
    (h : (killAndEvict isEv script tasks).logRev = newer ++ ev :: older) :
    ∃ t, tasks[ev.task]? = some t ∧ Frees (aggOf tasks) t older ev := by
  obtain ⟨t, h1, h2, h3⟩ := (HistOK_split (kill_inv isEv script tasks).hist newer ev older h).task_ok
  refine ⟨t, h1, ?_⟩
  have ht : t ∈ tasks := List.mem_of_getElem? h1
  unfold Met at h3
  have : ∃ ra ∈ t.toRelease, ¬ ra.2 ≤ credit (aggOf tasks) older (t.target, ra.1) := by
    apply Classical.byContradiction
    intro hn
    apply h3
    intro ra hra
    apply Classical.byContradiction
    intro hle
    exact hn ⟨ra, hra, hle⟩
  obtain ⟨ra, hra, hlt⟩ := this
  exact ⟨ra, hra, by omega, hpos t ht ev.e h2 ra hra⟩

/-- non-vacuity: a two-task run with a failing call and a terminating pod; the second task sees the
    9 units already credited by the first (cross-task accounting), skips pod 2 and needs pod 3. -/
example :
    let tasks : List Task :=
      [{ target := 0, toRelease := [(1, 10)], fn := [(1, 0)], pods := [⟨0, [4]⟩, ⟨1, [3]⟩, ⟨2, [6]⟩] },
       { target := 1, toRelease := [(0, 12)], fn := [(0, 0)], pods := [⟨2, [6]⟩, ⟨3, [9]⟩] }]
    ((killAndEvict (fun p => p = 1) [false, true, true] tasks).logRev.reverse.map (fun ev => (ev.task, ev.e.pod, ev.kind)))
      = [(0, 0, .fail), (0, 1, .pending), (0, 2, .ok), (1, 3, .ok)] := by decide

/-! ### A.7 no_candidate_skipped — when a task's turn is over, its target is covered by the credited
    releases, or every pod of its published list has been credited (evicted now / still terminating) or was
    handed to `Evict` by this task and the call failed.  Together with A.2 (order) and A.3 (stop): the scan
    takes the candidates one by one in published order until the target is covered. -/
theorem no_candidate_skipped (isEv : Nat → Bool) (script : List Bool) (tasks : List Task) (ti : Nat) (t : Task)
    (ht : tasks[ti]? = some t) :
    ∃ newer older, (killAndEvict isEv script tasks).logRev = newer ++ older ∧
      (Met (aggOf tasks) t older ∨
        ∀ e ∈ t.pods, e.pod ∈ creditedPods older ∨ (⟨ti, e, .fail⟩ : Ev) ∈ older) :=
  kill_turns isEv script tasks ti t ht

/-! ### A.8 the two readings of "including pods already evicted but still terminating"

  * when-reached (the code comment in KillAndEvictPods: "count its resource as pending release so that
    extra victims are not picked"): a still-terminating pod is credited when the scan reaches it in the
    task's list.  This is `Met` over the trace so far, and it is the reading A.3 `stop_when_met` proves.
  * up-front: every still-terminating pod of the task's list counts before any victim is picked, i.e. no
    `Evict` while `MetUpFront` holds.

  The code implements the FIRST reading and not the second: `upfront_reading_refuted` is a run in which a
  running pod is evicted although a terminating pod later in the same list would cover the target.  With
  non-negative releases the up-front reading is the stricter one (`met_imp_metUpFront`), so the code may
  evict more than the up-front reading allows, never less.  The oracle stays on the when-reached reading
  and tags the cases where the two differ (`note:terminating-later-in-list-would-cover`). -/

/-- release of the still-terminating pods of the list that the trace has not credited yet. -/
def pendingLater (agg : Entry → Rel) (isEv : Nat → Bool) (older : List Ev) (k : Key) : List Entry → Int
  | [] => 0
  | e :: es =>
    (if isEv e.pod && !(creditedPods older).contains e.pod then getSum (agg e) k else 0)
      + pendingLater agg isEv older k es

def MetUpFront (agg : Entry → Rel) (isEv : Nat → Bool) (t : Task) (older : List Ev) : Prop :=
  ∀ ra ∈ t.toRelease,
    ra.2 ≤ credit agg older (t.target, ra.1) + pendingLater agg isEv older (t.target, ra.1) t.pods

/-- witness: target 5; pod 0 (running, releases 5) is listed before pod 1 (terminating, releases 5). -/
def upFrontTask : Task :=
  { target := 0, toRelease := [(1, 5)], fn := [(1, 0)], pods := [⟨0, [5]⟩, ⟨1, [5]⟩] }

theorem upfront_reading_refuted :
    ∃ (ev : Ev) (newer older : List Ev),
      (killAndEvict (fun p => p = 1) [] [upFrontTask]).logRev = newer ++ ev :: older ∧ ev.kind = .ok ∧
      [upFrontTask][ev.task]? = some upFrontTask ∧
      MetUpFront (aggOf [upFrontTask]) (fun p => p = 1) upFrontTask older ∧
      ¬ Met (aggOf [upFrontTask]) upFrontTask older :=
  ⟨⟨0, ⟨0, [5]⟩, .ok⟩, [], [], by decide, by decide, by decide,
    by unfold MetUpFront; decide, by unfold Met; decide⟩

theorem pendingLater_nonneg (agg : Entry → Rel) (isEv : Nat → Bool) (older : List Ev) (k : Key) (es : List Entry)
    (h : ∀ e ∈ es, 0 ≤ getSum (agg e) k) : 0 ≤ pendingLater agg isEv older k es := by
  induction es with
  | nil => simp [pendingLater]
  | cons e es ih =>
    unfold pendingLater
    have h1 := h e (List.mem_cons_self ..)
    have h2 := ih (fun e' he' => h e' (List.mem_cons_of_mem _ he'))
    split <;> omega

/-- with non-negative releases the up-front reading is the stricter one. -/
theorem met_imp_metUpFront (agg : Entry → Rel) (isEv : Nat → Bool) (t : Task) (older : List Ev)
    (hnn : ∀ e ∈ t.pods, ∀ k, 0 ≤ getSum (agg e) k) (h : Met agg t older) : MetUpFront agg isEv t older := by
  intro ra hra
  have h1 := h ra hra
  have h2 := pendingLater_nonneg agg isEv older (t.target, ra.1) t.pods (fun e he => hnn e he _)
  omega

/-! ## Part B — who may be a victim, and in which order (memoryevict / cpuevict selection) -/

/-- eligibility of the priority-based policies as the property states it (plus the two
    implementation filters: active phase and a usage metric). -/
def PrioEligible (threshold : Int) (p : Pod) (pr : Int) : Prop :=
  p.effPrio = some pr ∧ pr ≤ threshold ∧ p.evictLbl = true ∧ policyAllowed p.policy = true ∧
  p.active = true ∧ p.hasMetric = true

theorem prioInfo_some_iff (threshold : Int) (p : Pod) (i : Info) :
    prioInfo? threshold p = some i ↔
      (∃ pr, PrioEligible threshold p pr ∧
        i = { pod := p, prio := pr, labelPrio := p.labelPrio.getD pr, evictPrio := p.evictPrio,
              used := p.used, request := p.request, usageKey := 0 }) := by
  unfold prioInfo? PrioEligible
  cases hp : p.effPrio with
  | none => simp
  | some pr =>
    by_cases h1 : p.active = true <;> by_cases h2 : policyAllowed p.policy = true <;>
      by_cases h3 : pr > threshold <;> by_cases h4 : p.evictLbl = true <;>
      by_cases h5 : p.hasMetric = true <;> simp [h1, h2, h3, h4, h5, eq_comm] <;> first | omega | exact ⟨fun h => ⟨pr, ⟨rfl, by omega⟩, h⟩, fun ⟨_, ⟨e, _⟩, h⟩ => e ▸ h⟩

/-! ### B.1 victims_eligible — every pod of a priority-based victim list has priority not above the
    threshold, eviction enabled, and has not opted out of the evaluated policy; and conversely every
    such (active, measured) pod is listed. -/
theorem prio_victims_eligible (threshold : Int) (byReq : Bool) (pods : List Pod) (i : Info) :
    i ∈ selectPrio threshold byReq pods ↔
      ∃ p ∈ pods, ∃ pr, PrioEligible threshold p pr ∧
        i = { pod := p, prio := pr, labelPrio := p.labelPrio.getD pr, evictPrio := p.evictPrio,
              used := p.used, request := p.request, usageKey := 0 } := by
  unfold selectPrio
  rw [mem_isort, List.mem_filterMap]
  constructor
  · rintro ⟨p, hp, h⟩; exact ⟨p, hp, (prioInfo_some_iff threshold p i).mp h⟩
  · rintro ⟨p, hp, h⟩; exact ⟨p, hp, (prioInfo_some_iff threshold p i).mpr h⟩

/-- every pod of a best-effort victim list (memory or CPU) is QoS BE and has not opted out. -/
theorem be_victims_eligible (usage : Int → Int → Int) (pods : List Pod) (i : Info)
    (h : i ∈ selectBEMem pods ∨ i ∈ selectBECpu usage pods) :
    i.pod ∈ pods ∧ i.pod.qosBE = true ∧ policyAllowed i.pod.policy = true := by
  have key : ∀ (u : Int → Int → Int) (d : Int) (c : Bool) (p : Pod), beInfo? u d c p = some i →
      i.pod = p ∧ p.qosBE = true ∧ policyAllowed p.policy = true := by
    intro u d c p hp
    unfold beInfo? at hp
    by_cases h1 : p.qosBE = true <;> by_cases h2 : policyAllowed p.policy = true <;> simp [h1, h2] at hp
    subst hp; exact ⟨rfl, h1, h2⟩
  rcases h with h | h
  · unfold selectBEMem at h
    rw [mem_isort, List.mem_filterMap] at h
    obtain ⟨p, hp, hi⟩ := h
    obtain ⟨e1, e2, e3⟩ := key _ _ _ p hi
    exact ⟨e1 ▸ hp, e1 ▸ e2, e1 ▸ e3⟩
  · unfold selectBECpu at h
    rw [mem_isort, List.mem_filterMap] at h
    obtain ⟨p, hp, hi⟩ := h
    obtain ⟨e1, e2, e3⟩ := key _ _ _ p hi
    exact ⟨e1 ▸ hp, e1 ▸ e2, e1 ▸ e3⟩

/-! ### B.2 published order — in a priority-based victim list an earlier pod never comes after a later
    one in (eviction priority ↑, priority ↑, priority label ↑, usage or request ↓). -/
theorem prio_list_in_published_order (threshold : Int) (byReq : Bool) (pods : List Pod) :
    (selectPrio threshold byReq pods).Pairwise fun a b =>
      a.evictPrio < b.evictPrio ∨ (a.evictPrio = b.evictPrio ∧
        (a.prio < b.prio ∨ (a.prio = b.prio ∧
          (a.labelPrio < b.labelPrio ∨ (a.labelPrio = b.labelPrio ∧ subKey byReq b ≤ subKey byReq a))))) := by
  unfold selectPrio
  refine List.Pairwise.imp ?_ (isort_sorted (prioLess_swo byReq) _)
  intro a b hba
  have h : ¬ _ := fun h => by rw [(prioLess_iff byReq b a).mpr h] at hba; cases hba
  omega

/-! ### B.2 (BE lists) — when every pod carries a spec.priority, the BE victim lists are sorted by
    (spec.priority ↑, then usage: memory = non-zero usage first, larger first, zero-usage pods by name ↓;
    CPU = usage/request ratio ↓).  On lists mixing nil and non-nil priorities the Go comparators are not
    transitive and no order is claimed (the harness keeps such lists out, see assumptions). -/
theorem be_mem_list_in_published_order (pods : List Pod) (hall : ∀ p ∈ pods, ∃ v, p.specPrio = some v) :
    (selectBEMem pods).Pairwise fun a b => beMemLess b a = false := by
  unfold selectBEMem
  apply isort_sorted_on beMemLess_swo
  intro i hi
  obtain ⟨p, hp, h⟩ := List.mem_filterMap.mp hi
  rw [HasPrio, beInfo_pod _ _ _ p i h]; exact hall p hp

theorem be_cpu_list_in_published_order (usage : Int → Int → Int) (pods : List Pod)
    (hall : ∀ p ∈ pods, ∃ v, p.specPrio = some v) :
    (selectBECpu usage pods).Pairwise fun a b => beCpuLess b a = false := by
  unfold selectBECpu
  apply isort_sorted_on beCpuLess_swo
  intro i hi
  obtain ⟨p, hp, h⟩ := List.mem_filterMap.mp hi
  rw [HasPrio, beInfo_pod _ _ _ p i h]; exact hall p hp

/-- what `beCpuLess b a = false` / `beMemLess b a = false` mean for pods with priorities `pa`, `pb`:
    `a` (earlier) has the lower priority, or the same priority and is not after `b` in usage order. -/
theorem be_order_meaning (a b : Info) (pa pb : Int) (ha : a.pod.specPrio = some pa) (hb : b.pod.specPrio = some pb) :
    (beCpuLess b a = false ↔ (pa < pb ∨ (pa = pb ∧ b.usageKey ≤ a.usageKey))) ∧
    (beMemLess b a = false ↔ (pa < pb ∨ (pa = pb ∧ ¬ memBefore b a))) := by
  constructor
  · have := beCpuLess_iff b a pb pa hb ha
    cases h : beCpuLess b a <;> simp [h] at this ⊢ <;> omega
  · have := beMemLess_iff b a pb pa hb ha
    by_cases hm : memBefore b a <;> cases h : beMemLess b a <;> simp [h, hm] at this ⊢ <;> omega

/-- sorting only permutes the filtered pods. -/
theorem be_list_is_permutation (usage : Int → Int → Int) (pods : List Pod) (i : Info) :
    (i ∈ selectBEMem pods ↔ i ∈ pods.filterMap (beInfo? (fun _ _ => 0) 1000 false)) ∧
    (i ∈ selectBECpu usage pods ↔ i ∈ pods.filterMap (beInfo? usage 1 true)) := by
  unfold selectBEMem selectBECpu
  exact ⟨mem_isort _ _ _, mem_isort _ _ _⟩

/-! ### B.7 release target by used-threshold (integer part) -/
theorem target_none_iff_below_threshold (capacity used threshold : Int) (lower : Option Int) (buffer : Int) :
    usedThresholdTarget capacity used threshold lower buffer = none ↔
      Int.tdiv (used * 100) capacity < threshold := by
  unfold usedThresholdTarget
  by_cases h : Int.tdiv (used * 100) capacity < threshold <;> simp [h]

theorem target_formula (capacity used threshold : Int) (lower : Option Int) (buffer v : Int)
    (h : usedThresholdTarget capacity used threshold lower buffer = some v) :
    v = Int.tdiv (capacity * (Int.tdiv (used * 100) capacity - lower.getD (threshold - buffer))) 100 := by
  unfold usedThresholdTarget at h
  by_cases h1 : Int.tdiv (used * 100) capacity < threshold <;> simp [h1] at h
  exact h.symm

/-- non-vacuity of Part B: two eligible pods ordered by eviction priority, one pod above the
    threshold and one opted out are dropped. -/
example :
    let mk (id : Nat) (pr ep : Int) (pol : PolicyAnno) : Pod :=
      { id := id, name := id, qosBE := false, active := true, policy := pol, specPrio := some pr,
        effPrio := some pr, evictLbl := true, evictPrio := ep, labelPrio := none, hasMetric := true,
        used := 1000, request := 1, batchReq := 0 }
    (selectPrio 5999 false [mk 0 5500 1 .absent, mk 1 9500 0 .absent, mk 2 5500 0 .others, mk 3 5600 (-1) .lists]).map (·.pod.id)
      = [3, 0] := by decide

/-! ## Part D — decoding of labels / annotations (Model/C11Decode.lean) -/

/-! ### D.1 eviction priority: `strconv.ParseInt(value, 10, 32)` — a decimal literal inside the int32 range
    reads as itself, everything else (missing, malformed, OUT OF RANGE) as the implicit priority 0; it never
    wraps around. -/
theorem eviction_priority_decoding (t : NumText) :
    evictionPriority t =
      match t with
      | .literal v => if -2147483648 ≤ v ∧ v ≤ 2147483647 then v else 0
      | _ => 0 := by
  cases t with
  | absent => rfl
  | malformed => rfl
  | literal v =>
    simp only [evictionPriority, parseBits]
    have : ((2 : Int) ^ (32 - 1)) = 2147483648 := by decide
    rw [this]
    by_cases h : -2147483648 ≤ v ∧ v < 2147483648
    · have h' : -2147483648 ≤ v ∧ v ≤ 2147483647 := ⟨h.1, by omega⟩
      simp [h, h']
    · have h' : ¬ (-2147483648 ≤ v ∧ v ≤ 2147483647) := fun hh => h ⟨hh.1, by omega⟩
      simp [h, h']

theorem eviction_priority_out_of_range_is_zero (v : Int) (h : v < -2147483648 ∨ 2147483647 < v) :
    evictionPriority (.literal v) = 0 := by
  rw [eviction_priority_decoding]
  have : ¬ (-2147483648 ≤ v ∧ v ≤ 2147483647) := by omega
  simp [this]

/-! ### D.2 priority with default: a non-zero spec.priority is used as is; nil AND the explicit 0 read as the
    default of the pod's koordinator priority class (label, else priority range, else QoS). -/
theorem priority_default_by_class (spec : Option Int) (cls : PCls) :
    priorityWithDefault spec cls =
      match spec with
      | some p => if p = 0 then defaultPrio cls else p
      | none => defaultPrio cls := by
  cases spec with
  | none => rfl
  | some p => by_cases h : p = 0 <;> simp [priorityWithDefault, h]

theorem explicit_zero_priority_reads_as_class_default (cls : PCls) :
    priorityWithDefault (some 0) cls = defaultPrio cls ∧ priorityWithDefault none cls = defaultPrio cls := by
  constructor <;> rfl

/-- a priority-class label that is present decides alone; without it the priority range, then the QoS
    (label, else the Kubernetes QoS) decides. -/
theorem class_resolution (clsLabel : Nat) (spec : Option Int) (qosLabel kubeQoS : Nat) :
    clsWithDefault clsLabel spec qosLabel kubeQoS =
      (let raw := if clsLabel ≠ 0 then clsByName clsLabel else (spec.map clsByPriority).getD .none
       if raw ≠ .none then raw
       else clsByQoS (if qosByLabel qosLabel ≠ .none then qosByLabel qosLabel else qosByKube kubeQoS)) := by
  unfold clsWithDefault clsRaw qosWithDefault
  cases spec <;> simp

/-! ### D.3 policy opt-out: the pod stays evictable by the evaluated policy iff the annotation is absent, or
    it is a JSON array of strings (nulls allowed) that names the policy.  `null`, `[]`, an array with any
    non-string element (even if it also names the policy), any other JSON value and any non-JSON text all
    opt the pod OUT. -/
theorem policy_allowed_iff_shape (top : Nat) (elems : List Nat) :
    policyAllowed (policyOf top elems) = true ↔
      (top = 0 ∨ (top = 3 ∧ (∀ x ∈ elems, x < 3) ∧ 0 ∈ elems)) := by
  unfold policyOf
  match top with
  | 0 => simp [policyAllowed]
  | 1 => simp [policyAllowed]
  | 2 => simp [policyAllowed]
  | 3 =>
    by_cases h1 : elems.any (fun x => decide (x ≥ 3)) = true
    · simp only [h1, if_true, policyAllowed]
      simp at h1
      obtain ⟨x, hx, hx3⟩ := h1
      constructor
      · intro h; cases h
      · rintro (h | ⟨_, h, _⟩)
        · cases h
        · have := h x hx; omega
    · have h1' : ∀ x ∈ elems, x < 3 := by
        intro x hx
        simp at h1
        exact h1 x hx
      by_cases h2 : elems.contains 0 = true
      · simp only [h1, h2, if_true, policyAllowed]
        simp at h2
        simp [h2]
        exact h1'
      · simp only [h1, h2, policyAllowed]
        simp at h2
        simp [h2]
  | n + 4 => simp [policyAllowed]

/-! ### D.4 victims_eligible on the raw pod: a pod is put on a priority-based victim list iff it is Pending or
    Running, has not opted out (D.3), its defaulted priority (D.2) is not above the threshold, its
    eviction-enabled label is exactly "true", and it has a usage metric. -/
theorem raw_prio_victim_iff (threshold : Int) (rp : RawPod) :
    (prioInfo? threshold (decodePod rp)).isSome = true ↔
      (rp.phase ≤ 1 ∧ (rp.policyTop = 0 ∨ (rp.policyTop = 3 ∧ (∀ x ∈ rp.policyElems, x < 3) ∧ 0 ∈ rp.policyElems)) ∧
       priorityWithDefault rp.specPrio rp.cls ≤ threshold ∧ rp.evictLabel = 1 ∧ rp.hasMetric = true) := by
  rw [← policy_allowed_iff_shape]
  unfold prioInfo? decodePod
  by_cases h1 : rp.phase ≤ 1 <;> by_cases h2 : policyAllowed (policyOf rp.policyTop rp.policyElems) = true <;>
    by_cases h3 : priorityWithDefault rp.specPrio rp.cls > threshold <;> by_cases h4 : rp.evictLabel = 1 <;>
    by_cases h5 : rp.hasMetric = true <;> simp [h1, h2, h3, h4, h5] <;> omega

/-- the sort keys of a listed raw pod are the decoded ones (D.1, D.2; label priority falls back to the
    defaulted priority when missing, malformed or outside int64). -/
theorem raw_prio_victim_keys (threshold : Int) (rp : RawPod) (i : Info)
    (h : prioInfo? threshold (decodePod rp) = some i) :
    i.evictPrio = evictionPriority rp.evictPrio ∧ i.prio = priorityWithDefault rp.specPrio rp.cls ∧
    i.labelPrio = (priorityLabel rp.prioLabel).getD (priorityWithDefault rp.specPrio rp.cls) := by
  obtain ⟨pr, ⟨he, _⟩, hi⟩ := (prioInfo_some_iff threshold (decodePod rp) i).mp h
  have : pr = priorityWithDefault rp.specPrio rp.cls := by
    simp [decodePod] at he; exact he.symm
  subst hi
  simp [decodePod, this]

/-- non-vacuity of Part D: the seeded shapes.  Pod 0: eviction priority "3000000000" (out of int32) ranks as 0,
    not as a wrapped negative; pod 1: explicit spec.priority 0 with class label koord-prod is 9500 > threshold
    and is NOT listed; pod 2: `["CPUEvict",1]` names the policy but is not a string list: opted out. -/
example :
    let mk (id : Nat) (spec : Option Int) (cls : Nat) (ep : NumText) (top : Nat) (el : List Nat) : RawPod :=
      { id := id, name := id, qosLabel := 0, kubeQoS := 1, phase := 1, specPrio := spec, clsLabel := cls,
        evictLabel := 1, evictPrio := ep, prioLabel := .absent, policyTop := top, policyElems := el,
        hasMetric := true, used := 1000, reqNative := 1, reqMid := 0, reqBatch := 0, batchReq := 0 }
    (selectPrio 5999 false ([mk 0 (some 5500) 0 (.literal 3000000000) 0 [], mk 1 (some 0) 1 .absent 0 [],
        mk 2 (some 5500) 0 .absent 3 [0, 3], mk 3 (some 5500) 0 (.literal (-1)) 3 [2, 0]].map decodePod)).map
      (fun i => (i.pod.id, i.evictPrio)) = [(3, -1), (0, 0)] := by decide

/-! ## Part C — several rounds against the real executor (Evictor + DefaultEvictionExecutor)

`runRound x r` is KillAndEvictPods with the stateful executor `x` (evicted-cache with TTL, OnlyEvictByAPI,
started or not) at time `r.now`; `execAfter x0 pre` is the executor after the rounds `pre`;
`traceOf x0 pre r` is the trace (newest first) of round `r` run after `pre`.  All statements hold for every
history of rounds, every API outcome script and both OnlyEvictByAPI settings. -/

/-! ### C.0 refinement — inside one round the real executor behaves like Part A's scripted executor with
    the `IsPodEvicted` answers frozen at the start of the round (a pod recorded during the round is already
    in `evictedPodsMp`, which is consulted first).  Hence every Part A theorem holds for every round. -/
theorem round_refines_frozen_executor (x : Exec) (r : Round) :
    (runRound x r).st = killAndEvict (fun p => x.isEvicted r.now p) (x.scriptFor r.script) r.tasks :=
  runRound_refines x r

theorem rounds_stop_when_met (x0 : Exec) (pre : List Round) (r : Round)
    (newer : List Ev) (ev : Ev) (older : List Ev) (h : traceOf x0 pre r = newer ++ ev :: older) :
    ∃ t, r.tasks[ev.task]? = some t ∧ ¬ Met (aggOf r.tasks) t older := by
  unfold traceOf at h; rw [runRound_refines] at h
  exact stop_when_met _ _ _ newer ev older h

theorem rounds_no_double_within (x0 : Exec) (pre : List Round) (r : Round)
    (newer : List Ev) (ev : Ev) (older : List Ev) (h : traceOf x0 pre r = newer ++ ev :: older) :
    ev.e.pod ∉ creditedPods older := by
  unfold traceOf at h; rw [runRound_refines] at h
  exact no_double _ _ _ newer ev older h

theorem rounds_release_is_credit (x0 : Exec) (pre : List Round) (r : Round) (k : Key) :
    get (runRound (execAfter x0 pre) r).st.released k = credit (aggOf r.tasks) (traceOf x0 pre r) k := by
  unfold traceOf; rw [runRound_refines]
  exact terminating_counted _ _ _ k

/-! ### C.1 a failed call leaves the executor state unchanged; only a successful API call is recorded,
    and it is reported as evicted exactly until the TTL has passed. -/
theorem failed_call_leaves_state (x : Exec) (now : Int) (p : Nat) : (x.evict now p false).2.2 = x := by
  unfold Exec.evict Exec.evictIfNot
  by_cases h1 : x.onlyAPI = true <;> by_cases h2 : cacheGet x.cache now p = true <;> simp [h1, h2]

theorem round_without_success_leaves_state (x : Exec) (r : Round)
    (h : ∀ ev ∈ (runRound x r).st.logRev, ev.kind ≠ .ok) : (runRound x r).x = x :=
  (runRound_inv x r).same (Or.inr (Or.inr h))

theorem kill_mode_or_unstarted_never_records (x : Exec) (r : Round) (h : x.onlyAPI = false ∨ x.started = false) :
    (runRound x r).x = x := by
  apply (runRound_inv x r).same
  rcases h with h | h
  · exact Or.inl h
  · exact Or.inr (Or.inl h)

theorem success_recorded_until_ttl (x : Exec) (now now' : Int) (p : Nat)
    (hapi : x.onlyAPI = true) (hst : x.started = true) (hmiss : x.isEvicted now p = false) :
    (x.evict now p true).1 = true ∧
    ((x.evict now p true).2.2.isEvicted now' p = true ↔ now' ≤ now + x.ttl) := by
  unfold Exec.isEvicted at hmiss
  have : x.evict now p true = (true, true, x.record now p) := by
    simp [Exec.evict, Exec.evictIfNot, hapi, hmiss]
  rw [this]
  refine ⟨rfl, ?_⟩
  simp only [Exec.isEvicted, Exec.record, hst, if_true, cacheGet, cacheLookup_set]
  simp <;> omega

/-! ### C.2 failed-eviction-credited — a pod is credited as pending release only if an eviction API call
    for it SUCCEEDED in an earlier round not longer ago than the TTL (never after a failed call). -/
theorem pending_only_after_success (x0 : Exec) (h0 : x0.cache = []) (pre : List Round) (r : Round)
    (ev : Ev) (hev : ev ∈ traceOf x0 pre r) (hk : ev.kind = .pending) :
    ∃ pre1 r1 post1, pre = pre1 ++ r1 :: post1 ∧ okIn (traceOf x0 pre1 r1) ev.e.pod ∧
      r.now ≤ r1.now + x0.ttl := by
  obtain ⟨newer, older, hsplit⟩ := List.append_of_mem hev
  have hsplit' := hsplit
  unfold traceOf at hsplit'; rw [runRound_refines] at hsplit'
  have hc := (evict_only_not_yet_evicted _ _ _ newer ev older hsplit').mp hk
  -- the pod is in the cache and not expired
  unfold cacheGet at hc
  cases hl : cacheLookup (execAfter x0 pre).cache ev.e.pod with
  | none => simp [hl] at hc
  | some exp =>
    simp [hl] at hc
    obtain ⟨pre1, r1, post1, e1, e2, e3⟩ := cache_sound x0 h0 pre ev.e.pod exp hl
    exact ⟨pre1, r1, post1, e1, e2, by omega⟩

/-! ### C.3 evicted-twice-across-rounds — with the executor started and OnlyEvictByAPI, a pod whose
    eviction succeeded in round `r1` is not handed to `Evict` again in any later round within the TTL
    (rounds in between not running before `r1`): every later event for it is a pending credit. -/
theorem no_double_across_rounds (x0 : Exec) (hapi : x0.onlyAPI = true) (hst : x0.started = true)
    (pre1 : List Round) (r1 : Round) (post1 : List Round) (r : Round) (p : Nat)
    (hok : okIn (traceOf x0 pre1 r1) p)
    (hmono : ∀ r' ∈ post1, r1.now ≤ r'.now) (httl : r.now ≤ r1.now + x0.ttl)
    (ev : Ev) (hev : ev ∈ traceOf x0 (pre1 ++ r1 :: post1) r) (hp : ev.e.pod = p) :
    ev.kind = .pending := by
  obtain ⟨newer, older, hsplit⟩ := List.append_of_mem hev
  unfold traceOf at hsplit; rw [runRound_refines] at hsplit
  apply (evict_only_not_yet_evicted _ _ _ newer ev older hsplit).mpr
  -- the cache still holds the pod with an expiration ≥ r1.now + ttl
  have hcfg := execAfter_cfg x0 pre1
  have inv := runRound_inv (execAfter x0 pre1) r1
  have e0 : execAfter x0 (pre1 ++ r1 :: post1) = execAfter (runRound (execAfter x0 pre1) r1).x post1 := by
    have : pre1 ++ r1 :: post1 = (pre1 ++ [r1]) ++ post1 := by simp
    rw [this, execAfter_append, execAfter_snoc]
  have hkeep := cache_keeps (runRound (execAfter x0 pre1) r1).x p (r1.now + x0.ttl) post1
    (by intro r' hr'; rw [inv.ttl, hcfg.2.2]; have := hmono r' hr'; omega)
    (by
      refine ⟨r1.now + x0.ttl, ?_, Int.le_refl _⟩
      rw [inv.look p, hcfg.1, hcfg.2.1, hcfg.2.2]
      have : okIn (runRound (execAfter x0 pre1) r1).st.logRev p := hok
      simp [hapi, hst, this])
  obtain ⟨exp, h1, h2⟩ := hkeep
  rw [hp, e0]
  unfold cacheGet
  rw [h1]
  simp
  omega

/-! ### C.4 failed-eviction-not-retried — a pod for which no eviction call has succeeded so far (in
    particular one whose calls all FAILED) is never skipped: in every round and for every task that lists
    it, when the task's turn is over the target is covered, or the pod has been handed to `Evict` in this
    round (a successful call by this or an earlier task, or a failed call by this task). -/
theorem failed_pod_is_retried (x0 : Exec) (h0 : x0.cache = []) (pre : List Round) (r : Round) (p : Nat)
    (hnever : ∀ pre1 r1 post1, pre = pre1 ++ r1 :: post1 → ¬ okIn (traceOf x0 pre1 r1) p)
    (ti : Nat) (t : Task) (ht : r.tasks[ti]? = some t) (e : Entry) (he : e ∈ t.pods) (hp : e.pod = p) :
    ∃ newer older, traceOf x0 pre r = newer ++ older ∧
      (Met (aggOf r.tasks) t older ∨ ∃ ev ∈ older, ev.e.pod = p ∧ (ev.kind = .ok ∨ (ev.kind = .fail ∧ ev.task = ti))) := by
  unfold traceOf; rw [runRound_refines]
  obtain ⟨newer, older, hsplit, hdone⟩ := kill_turns (fun q => cacheGet (execAfter x0 pre).cache r.now q)
    ((execAfter x0 pre).scriptFor r.script) r.tasks ti t ht
  refine ⟨newer, older, hsplit, ?_⟩
  rcases hdone with h | h
  · exact Or.inl h
  · right
    rcases h e he with h' | h'
    · -- credited: by a successful call (a pending credit is impossible: the pod is not in the cache)
      have : ∀ l : List Ev, (∀ ev ∈ l, ev.e.pod = p → ev.kind ≠ .pending) → p ∈ creditedPods l →
          ∃ ev ∈ l, ev.e.pod = p ∧ ev.kind = .ok := by
        intro l
        induction l with
        | nil => intro _ h; simp [creditedPods] at h
        | cons a l ih =>
          intro hnp hc
          unfold creditedPods at hc
          have hnp' : ∀ ev ∈ l, ev.e.pod = p → ev.kind ≠ .pending := fun ev h => hnp ev (List.mem_cons_of_mem _ h)
          by_cases hf : a.kind = .fail
          · rw [if_pos hf] at hc
            obtain ⟨ev, h1, h2⟩ := ih hnp' hc
            exact ⟨ev, List.mem_cons_of_mem _ h1, h2⟩
          · rw [if_neg hf] at hc
            rcases List.mem_cons.mp hc with h1 | h1
            · refine ⟨a, List.mem_cons_self .., h1.symm, ?_⟩
              have := hnp a (List.mem_cons_self ..) h1.symm
              cases hk : a.kind <;> simp_all
            · obtain ⟨ev, h2, h3⟩ := ih hnp' h1
              exact ⟨ev, List.mem_cons_of_mem _ h2, h3⟩
      have hnopend : ∀ ev ∈ older, ev.e.pod = p → ev.kind ≠ .pending := by
        intro ev hm hpp hk
        have hm' : ev ∈ traceOf x0 pre r := by
          unfold traceOf; rw [runRound_refines, hsplit]; exact List.mem_append_right _ hm
        obtain ⟨pre1, r1, post1, e1, e2, _⟩ := pending_only_after_success x0 h0 pre r ev hm' hk
        exact hnever pre1 r1 post1 e1 (hpp ▸ e2)
      obtain ⟨ev, h1, h2, h3⟩ := this older hnopend (hp ▸ h')
      exact ⟨ev, h1, h2, Or.inl h3⟩
    · exact ⟨_, h', hp, Or.inr ⟨rfl, rfl⟩⟩

/-- non-vacuity of Part C: three rounds over pods 0,1 with target 5; round 1: the call for pod 0 FAILS
    (429), pod 1 is evicted; round 2: pod 0 is retried first (not skipped, nothing credited for it), it
    succeeds, pod 1 is credited as pending; round 3 (within the TTL): both are pending, no call at all;
    in a fourth round pod 1's entry (time 0 + 120) has expired, pod 0's (10 + 120) has not. -/
example :
    let t : Task := { target := 0, toRelease := [(1, 5)], fn := [(1, 0)], pods := [⟨0, [4]⟩, ⟨1, [3]⟩] }
    let x0 : Exec := { onlyAPI := true, started := true, ttl := 120, cache := [] }
    let r1 : Round := { now := 0, script := [false, true], tasks := [t] }
    let r2 : Round := { now := 10, script := [true], tasks := [t] }
    let r3 : Round := { now := 20, script := [], tasks := [t] }
    let r4 : Round := { now := 125, script := [true], tasks := [t] }
    let show' := fun (l : List Ev) => l.reverse.map (fun ev => (ev.e.pod, ev.kind))
    show' (traceOf x0 [] r1) = [(0, .fail), (1, .ok)] ∧
    show' (traceOf x0 [r1] r2) = [(0, .ok), (1, .pending)] ∧
    show' (traceOf x0 [r1, r2] r3) = [(0, .pending), (1, .pending)] ∧
    show' (traceOf x0 [r1, r2, r3] r4) = [(0, .pending), (1, .ok)] := by decide

/-! ## Part E — memoryEvict() / cpuEvict() end to end (Model/C11E2E.lean)

The end-to-end run is KillAndEvictPods over the tasks the feature loop builds, so every Part A theorem
(stop_when_met, no_double, victims_in_order, terminating_counted, no_candidate_skipped) holds for its trace
verbatim.  What is added here: the composition with Part B / Part D — every pod handed to the executor by an
end-to-end run is eligible under the policy of the FEATURE whose task evicts it. -/

/-- eligibility of raw pod `rp` for a priority-based feature with policy code `code` and threshold `pt`. -/
def RawPrioEligible (code : Nat) (pt : Int) (rp : RawPod) : Prop :=
  ∃ pr, PrioEligible pt (decodePodFor code rp) pr

/-- eligibility for a best-effort feature with policy code `code`. -/
def RawBEEligible (code : Nat) (rp : RawPod) : Prop :=
  (decodePodFor code rp).qosBE = true ∧ policyAllowed (decodePodFor code rp).policy = true

theorem decodePodFor_id (code : Nat) (rp : RawPod) : (decodePodFor code rp).id = rp.id := rfl

theorem prioEligible_used (pt : Int) (p : Pod) (u : Int) (pr : Int) :
    PrioEligible pt { p with used := u } pr ↔ PrioEligible pt p pr := Iff.rfl

/-- members of a priority-based list built from raw pods. -/
theorem mem_selectPrio_raw (code : Nat) (pt : Int) (byReq : Bool) (pods : List RawPod) (i : Info)
    (h : i ∈ selectPrio pt byReq (pods.map (decodePodFor code)) ∨
         i ∈ selectPrioMem pt byReq (pods.map (decodePodFor code))) :
    ∃ rp ∈ pods, i.pod.id = rp.id ∧ RawPrioEligible code pt rp := by
  rcases h with h | h
  · obtain ⟨p, hp, pr, he, hi⟩ := (prio_victims_eligible pt byReq _ i).mp h
    obtain ⟨rp, hrp, rfl⟩ := List.mem_map.mp hp
    exact ⟨rp, hrp, by rw [hi]; rfl, pr, he⟩
  · unfold selectPrioMem at h
    obtain ⟨p, hp, pr, he, hi⟩ := (prio_victims_eligible pt byReq _ i).mp h
    obtain ⟨p0, hp0, rfl⟩ := List.mem_map.mp hp
    obtain ⟨rp, hrp, rfl⟩ := List.mem_map.mp hp0
    exact ⟨rp, hrp, by rw [hi]; rfl, pr, (prioEligible_used pt _ _ pr).mp he⟩

theorem mem_selectBE_raw (code : Nat) (usage : Int → Int → Int) (pods : List RawPod) (i : Info)
    (h : i ∈ selectBEMem (pods.map (decodePodFor code)) ∨ i ∈ selectBECpu usage (pods.map (decodePodFor code))) :
    ∃ rp ∈ pods, i.pod.id = rp.id ∧ RawBEEligible code rp := by
  obtain ⟨h1, h2, h3⟩ := be_victims_eligible usage _ i h
  obtain ⟨rp, hrp, he⟩ := List.mem_map.mp h1
  exact ⟨rp, hrp, by rw [← he]; rfl, by rw [RawBEEligible, he]; exact ⟨h2, h3⟩⟩

/-- what "eligible under the feature" means for memoryEvict. -/
def MemEligible (c : MemCfg) : MemFeature → RawPod → Prop
  | .be, rp => RawBEEligible 10 rp
  | .alloc, rp => ∃ pt, c.aPrioThr = some pt ∧ pt ≤ 7999 ∧ RawPrioEligible 11 pt rp
  | .mem, rp => ∃ pt, c.prioThr = some pt ∧ RawPrioEligible 12 pt rp

theorem memTask_pods_eligible (allocF : Int → Int → Int → Int → Option Int) (c : MemCfg) (pods : List RawPod)
    (f : MemFeature) (t : Task) (h : memTask allocF c pods f = some t) (e : Entry) (he : e ∈ t.pods) :
    ∃ rp ∈ pods, e.pod = rp.id ∧ MemEligible c f rp := by
  cases f with
  | be =>
    unfold memTask at h
    by_cases hc : c.commonOK = true <;> simp [hc] at h
    obtain ⟨to, _, rfl⟩ := h
    obtain ⟨i, hi, rfl⟩ := List.mem_map.mp he
    obtain ⟨rp, hrp, h1, h2⟩ := mem_selectBE_raw 10 (fun _ _ => 0) pods i (Or.inl hi)
    exact ⟨rp, hrp, h1, h2⟩
  | mem =>
    unfold memTask at h
    by_cases hc : c.memOK = true <;> simp [hc] at h
    cases hu : c.usedTarget <;> cases hp : c.prioThr <;> simp [hu, hp] at h
    subst h
    obtain ⟨i, hi, rfl⟩ := List.mem_map.mp he
    obtain ⟨rp, hrp, h1, h2⟩ := mem_selectPrio_raw 12 _ false pods i (Or.inr hi)
    exact ⟨rp, hrp, h1, _, hp, h2⟩
  | alloc =>
    unfold memTask at h
    by_cases hc : c.allocOK = true <;> simp [hc] at h
    obtain ⟨_, h⟩ := h
    cases hp : c.aPrioThr with
    | none => simp [hp] at h
    | some pt =>
      simp [hp] at h
      subst h
      obtain ⟨i, hi, rfl⟩ := List.mem_map.mp he
      obtain ⟨rp, hrp, h1, h2⟩ := mem_selectPrio_raw 11 pt true pods i (Or.inr hi)
      refine ⟨rp, hrp, h1, pt, hp, ?_, h2⟩
      unfold MemCfg.allocOK at hc
      cases ha : c.aThr <;> cases hl : c.aLower <;> simp [ha, hl, hp] at hc
      exact hc.2

/-! ### E.1 memoryEvict end to end: every pod handed to the executor (evicted, failed, or credited as
    terminating) stands in the list of a task of a feature that is ON, and is eligible under THAT feature:
    BEMemoryEvict — QoS label BE and not opted out of "BEMemoryEvict"; MemoryAllocatableEvict — defaulted
    priority ≤ AllocatableEvictPriorityThreshold ≤ 7999 (never koord-prod), eviction enabled, not opted out
    of "MemoryAllocatableEvict", active, measured; MemoryEvict — likewise with EvictEnabledPriorityThreshold
    and "MemoryEvict".  (Part D turns these into label / annotation shapes.) -/
theorem mem_e2e_victims_eligible (allocF : Int → Int → Int → Int → Option Int) (c : MemCfg) (pods : List RawPod)
    (isEv : Nat → Bool) (script : List Bool) (st : St) (h : memoryEvict allocF c pods isEv script = some st)
    (ev : Ev) (hev : ev ∈ st.logRev) :
    ∃ f t, (f, t) ∈ memTasks allocF c pods ∧ c.on f = true ∧ ev.e ∈ t.pods ∧
      ∃ rp ∈ pods, ev.e.pod = rp.id ∧ MemEligible c f rp := by
  unfold memoryEvict at h
  by_cases hemp : (memTasks allocF c pods).isEmpty = true <;> simp [hemp] at h
  subst h
  obtain ⟨newer, older, hsplit⟩ := List.append_of_mem hev
  obtain ⟨t, ht, hin⟩ := victims_are_candidates isEv script _ newer ev older hsplit
  have hmem : t ∈ (memTasks allocF c pods).map (·.2) := List.mem_of_getElem? ht
  obtain ⟨⟨f, t'⟩, hft, rfl⟩ := List.mem_map.mp hmem
  have hft' := hft
  unfold memTasks at hft'
  by_cases hcap : c.capacity ≤ 0
  · simp [hcap] at hft'
  · simp only [hcap, if_false] at hft'
    obtain ⟨f0, _, hf0⟩ := List.mem_filterMap.mp hft'
    by_cases hon : c.on f0 = true
    · simp only [hon, if_true] at hf0
      cases hm : memTask allocF c pods f0 with
      | none => simp [hm] at hf0
      | some t0 =>
        simp [hm] at hf0
        obtain ⟨rfl, rfl⟩ := hf0
        exact ⟨f0, t0, hft, hon, hin, memTask_pods_eligible allocF c pods f0 t0 hm ev.e hin⟩
    · simp [hon] at hf0

/-- what "eligible under the feature" means for cpuEvict. -/
def CpuEligible (c : CpuCfg) : CpuFeature → RawPod → Prop
  | .be, rp => RawBEEligible 13 rp
  | .alloc, rp => ∃ pt, c.aPrioThr = some pt ∧ pt ≤ 7999 ∧ RawPrioEligible 14 pt rp
  | .cpu, rp => ∃ pt, c.prioThr = some pt ∧ RawPrioEligible 15 pt rp

theorem cpuTask_pods_eligible (usage : Int → Int → Int) (allocF : Int → Int → Int → Int → Option Int) (c : CpuCfg)
    (pods : List RawPod) (f : CpuFeature) (t : Task) (h : cpuTask usage allocF c pods f = some t)
    (e : Entry) (he : e ∈ t.pods) :
    ∃ rp ∈ pods, e.pod = rp.id ∧ CpuEligible c f rp := by
  cases f with
  | be =>
    unfold cpuTask at h
    by_cases hc : c.satOK = true <;> simp [hc] at h
    obtain ⟨to, _, rfl⟩ := h
    obtain ⟨i, hi, rfl⟩ := List.mem_map.mp he
    obtain ⟨rp, hrp, h1, h2⟩ := mem_selectBE_raw 13 usage pods i (Or.inr hi)
    exact ⟨rp, hrp, h1, h2⟩
  | cpu =>
    unfold cpuTask at h
    by_cases hc : c.usedOK = true <;> simp [hc] at h
    cases hu : c.usedTarget <;> cases hp : c.prioThr <;> simp [hu, hp] at h
    subst h
    obtain ⟨i, hi, rfl⟩ := List.mem_map.mp he
    obtain ⟨rp, hrp, h1, h2⟩ := mem_selectPrio_raw 15 _ false pods i (Or.inl hi)
    exact ⟨rp, hrp, h1, _, hp, h2⟩
  | alloc =>
    unfold cpuTask at h
    by_cases hc : c.allocOK = true <;> simp [hc] at h
    obtain ⟨_, h⟩ := h
    cases hp : c.aPrioThr with
    | none => simp [hp] at h
    | some pt =>
      simp [hp] at h
      subst h
      obtain ⟨i, hi, rfl⟩ := List.mem_map.mp he
      obtain ⟨rp, hrp, h1, h2⟩ := mem_selectPrio_raw 14 pt true pods i (Or.inl hi)
      refine ⟨rp, hrp, h1, pt, hp, ?_, h2⟩
      unfold CpuCfg.allocOK at hc
      cases ha : c.aThr <;> cases hl : c.aLower <;> simp [ha, hl, hp] at hc
      exact hc.2

/-! ### E.2 cpuEvict end to end: the same for BECPUEvict / CPUAllocatableEvict / CPUEvict. -/
theorem cpu_e2e_victims_eligible (usage : Int → Int → Int) (allocF : Int → Int → Int → Int → Option Int) (c : CpuCfg)
    (pods : List RawPod) (isEv : Nat → Bool) (script : List Bool) (st : St)
    (h : cpuEvict usage allocF c pods isEv script = some st) (ev : Ev) (hev : ev ∈ st.logRev) :
    ∃ f t, (f, t) ∈ cpuTasks usage allocF c pods ∧ c.on f = true ∧ ev.e ∈ t.pods ∧
      ∃ rp ∈ pods, ev.e.pod = rp.id ∧ CpuEligible c f rp := by
  unfold cpuEvict at h
  by_cases hemp : (cpuTasks usage allocF c pods).isEmpty = true <;> simp [hemp] at h
  subst h
  obtain ⟨newer, older, hsplit⟩ := List.append_of_mem hev
  obtain ⟨t, ht, hin⟩ := victims_are_candidates isEv script _ newer ev older hsplit
  have hmem : t ∈ (cpuTasks usage allocF c pods).map (·.2) := List.mem_of_getElem? ht
  obtain ⟨⟨f, t'⟩, hft, rfl⟩ := List.mem_map.mp hmem
  have hft' := hft
  unfold cpuTasks at hft'
  by_cases hcap : c.capacity ≤ 0
  · simp [hcap] at hft'
  · simp only [hcap, if_false] at hft'
    obtain ⟨f0, _, hf0⟩ := List.mem_filterMap.mp hft'
    by_cases hon : c.on f0 = true
    · simp only [hon, if_true] at hf0
      cases hm : cpuTask usage allocF c pods f0 with
      | none => simp [hm] at hf0
      | some t0 =>
        simp [hm] at hf0
        obtain ⟨rfl, rfl⟩ := hf0
        exact ⟨f0, t0, hft, hon, hin, cpuTask_pods_eligible usage allocF c pods f0 t0 hm ev.e hin⟩
    · simp [hon] at hf0

/-! ### E.3 the used-threshold task exists only at or above the threshold, with the integer target of B.7 -/
theorem mem_used_task_target (allocF : Int → Int → Int → Int → Option Int) (c : MemCfg) (pods : List RawPod) (t : Task)
    (h : memTask allocF c pods .mem = some t ∨ memTask allocF c pods .be = some t) :
    ∃ u thr v, c.nodeUsed = some u ∧ c.thr = some thr ∧ t.toRelease = [(1, v)] ∧ t.target = 0 ∧
      ¬ Int.tdiv (u * 100) c.capacity < thr ∧
      v = Int.tdiv (c.capacity * (Int.tdiv (u * 100) c.capacity - c.lower.getD (thr - memBuffer))) 100 := by
  have key : ∀ to, c.usedTarget = some to → ∃ u thr v, c.nodeUsed = some u ∧ c.thr = some thr ∧ to = [(1, v)] ∧
      ¬ Int.tdiv (u * 100) c.capacity < thr ∧
      v = Int.tdiv (c.capacity * (Int.tdiv (u * 100) c.capacity - c.lower.getD (thr - memBuffer))) 100 := by
    intro to hto
    unfold MemCfg.usedTarget at hto
    cases hu : c.nodeUsed <;> cases ht : c.thr <;> simp [hu, ht] at hto
    rename_i u thr
    obtain ⟨v, hv, rfl⟩ := hto
    refine ⟨u, thr, v, rfl, rfl, rfl, ?_, target_formula _ _ _ _ _ _ hv⟩
    intro hlt
    rw [(target_none_iff_below_threshold c.capacity u thr c.lower memBuffer).mpr hlt] at hv
    cases hv
  rcases h with h | h
  · unfold memTask at h
    by_cases hc : c.memOK = true <;> simp [hc] at h
    cases hu : c.usedTarget <;> cases hp : c.prioThr <;> simp [hu, hp] at h
    subst h
    obtain ⟨u, thr, v, h1, h2, h3, h4, h5⟩ := key _ hu
    exact ⟨u, thr, v, h1, h2, h3, rfl, h4, h5⟩
  · unfold memTask at h
    by_cases hc : c.commonOK = true <;> simp [hc] at h
    obtain ⟨to, hto, rfl⟩ := h
    obtain ⟨u, thr, v, h1, h2, h3, h4, h5⟩ := key _ hto
    exact ⟨u, thr, v, h1, h2, h3, rfl, h4, h5⟩

/-! ### A.9 EvictTaskCheck — the per-task verdict reported after the run says "finished" exactly when the
    task's target is covered by what the whole trace credits. -/
theorem evict_task_check_iff_met (isEv : Nat → Bool) (script : List Bool) (tasks : List Task) (t : Task) :
    taskDone t (killAndEvict isEv script tasks).released = true ↔
      Met (aggOf tasks) t (killAndEvict isEv script tasks).logRev := by
  rw [← met_iff (kill_inv isEv script tasks) t]
  unfold taskDone
  constructor
  · intro h
    rcases Bool.or_eq_true_iff.mp h with h1 | h1
    · unfold remaining
      have : t.toRelease = [] := by simpa using h1
      simp [this]
    · exact h1
  · intro h; simp [h]

/-! ### E.4 no early stop, end to end (the Lean side of the oracle clause `C11:stops-before-target-covered`):
    for every task memoryEvict / cpuEvict runs, when its turn is over its target is covered by the credited
    releases, or every pod of its list has been credited or has had a failed eviction call of this task. -/
theorem mem_e2e_no_early_stop (allocF : Int → Int → Int → Int → Option Int) (c : MemCfg) (pods : List RawPod)
    (isEv : Nat → Bool) (script : List Bool) (st : St) (h : memoryEvict allocF c pods isEv script = some st)
    (f : MemFeature) (t : Task) (hft : (f, t) ∈ memTasks allocF c pods) :
    ∃ ti newer older, st.logRev = newer ++ older ∧
      (Met (aggOf ((memTasks allocF c pods).map (·.2))) t older ∨
        ∀ e ∈ t.pods, e.pod ∈ creditedPods older ∨ (⟨ti, e, .fail⟩ : Ev) ∈ older) := by
  unfold memoryEvict at h
  by_cases hemp : (memTasks allocF c pods).isEmpty = true <;> simp [hemp] at h
  subst h
  have hmem : t ∈ (memTasks allocF c pods).map (·.2) := List.mem_map.mpr ⟨(f, t), hft, rfl⟩
  obtain ⟨ti, hti⟩ := List.getElem?_of_mem hmem
  obtain ⟨newer, older, h1, h2⟩ := no_candidate_skipped isEv script _ ti t hti
  exact ⟨ti, newer, older, h1, h2⟩

theorem cpu_e2e_no_early_stop (usage : Int → Int → Int) (allocF : Int → Int → Int → Int → Option Int) (c : CpuCfg)
    (pods : List RawPod) (isEv : Nat → Bool) (script : List Bool) (st : St)
    (h : cpuEvict usage allocF c pods isEv script = some st)
    (f : CpuFeature) (t : Task) (hft : (f, t) ∈ cpuTasks usage allocF c pods) :
    ∃ ti newer older, st.logRev = newer ++ older ∧
      (Met (aggOf ((cpuTasks usage allocF c pods).map (·.2))) t older ∨
        ∀ e ∈ t.pods, e.pod ∈ creditedPods older ∨ (⟨ti, e, .fail⟩ : Ev) ∈ older) := by
  unfold cpuEvict at h
  by_cases hemp : (cpuTasks usage allocF c pods).isEmpty = true <;> simp [hemp] at h
  subst h
  have hmem : t ∈ (cpuTasks usage allocF c pods).map (·.2) := List.mem_map.mpr ⟨(f, t), hft, rfl⟩
  obtain ⟨ti, hti⟩ := List.getElem?_of_mem hmem
  obtain ⟨newer, older, h1, h2⟩ := no_candidate_skipped isEv script _ ti t hti
  exact ⟨ti, newer, older, h1, h2⟩

/-- the usage a victim of a usage-based memory task is credited with is the `MemoryUsed` of its list entry,
    i.e. `int64(metric)` bytes on BOTH paths after the repair (was ×1000 on the priority path): the entry
    built for a listed info carries `i.used`, and the task's function reads exactly that field. -/
theorem mem_usage_credit_is_used (pods : List RawPod) (midIn batchIn : Bool) (i : Info) (to : List (Nat × Int))
    (es : List Entry) :
    fnOut { target := 0, toRelease := to, fn := [(1, 0)], pods := es } (memEntry pods midIn batchIn i)
      = [((0, 1), i.used)] := by
  simp [fnOut, memEntry]

/-- non-vacuity of Part E and the repaired conversion: node at 90 % of 200 bytes, threshold 80 / lower 70
    ⇒ target 40 bytes; MemoryEvict on; three eligible koord-batch pods using 30, 20, 10 bytes (metrics
    30000, 20000, 10000 = ×1000).  Two victims (30 + 20 ≥ 40) — with the ×1000 credit one would have sufficed. -/
example :
    let mk (id : Nat) (m : Int) : RawPod :=
      { id := id, name := id, qosLabel := 0, kubeQoS := 1, phase := 1, specPrio := some 5500, clsLabel := 0,
        evictLabel := 1, evictPrio := .absent, prioLabel := .absent, policyTop := 0, policyElems := [],
        hasMetric := true, used := m, reqNative := 1, reqMid := 0, reqBatch := 0, batchReq := 0 }
    let c : MemCfg := { beOn := false, allocOn := false, memOn := true, thr := some 80, lower := some 70,
                        prioThr := some 5999, aThr := none, aLower := none, aPrioThr := none, capacity := 200,
                        nodeUsed := some 180, allocMem := none, allocBatch := none, allocMid := none }
    ((memoryEvict (fun _ _ _ _ => none) c [mk 0 10000, mk 1 30000, mk 2 20000] (fun _ => false) []).map
      fun st => st.logRev.reverse.map (fun ev => (ev.e.pod, ev.kind))) = some [(1, .ok), (2, .ok)] := by decide

theorem cpu_used_task_target (usage : Int → Int → Int) (allocF : Int → Int → Int → Int → Option Int) (c : CpuCfg)
    (pods : List RawPod) (t : Task) (h : cpuTask usage allocF c pods .cpu = some t) :
    ∃ u thr v, c.nodeUsed = some u ∧ c.thr = some thr ∧ t.toRelease = [(0, v)] ∧ t.target = 0 ∧
      ¬ Int.tdiv (u * 100) c.capacity < thr ∧
      v = Int.tdiv (c.capacity * (Int.tdiv (u * 100) c.capacity - c.lower.getD (thr - cpuBuffer))) 100 := by
  unfold cpuTask at h
  by_cases hc : c.usedOK = true <;> simp [hc] at h
  cases hu : c.usedTarget <;> cases hp : c.prioThr <;> simp [hu, hp] at h
  subst h
  rename_i to pt
  unfold CpuCfg.usedTarget at hu
  cases hn : c.nodeUsed <;> cases ht : c.thr <;> simp [hn, ht] at hu
  rename_i u thr
  obtain ⟨v, hv, rfl⟩ := hu
  refine ⟨u, thr, v, rfl, rfl, rfl, rfl, ?_, target_formula _ _ _ _ _ _ hv⟩
  intro hlt
  rw [(target_none_iff_below_threshold c.capacity u thr c.lower cpuBuffer).mpr hlt] at hv
  cases hv

/-- the open finding `C11:victim-frees-nothing-short`, end to end: MemoryAllocatableEvict, one koord-free
    pod (priority 3500, native memory request 800) pushes requested/allocatable `memory` over the threshold,
    so the task's target is {memory: 400}; the task's function only reports mid-memory and batch-memory, so NOTHING
    is ever credited under `memory` and the whole candidate list — including the two koord-batch pods whose
    batch-memory is far below its threshold — is evicted.  (`allocF` stands for the float64 comparison.) -/
example :
    let mk (id : Nat) (pr : Int) (rn rb : Int) : RawPod :=
      { id := id, name := id, qosLabel := 0, kubeQoS := 1, phase := 1, specPrio := some pr, clsLabel := 0,
        evictLabel := 1, evictPrio := .absent, prioLabel := .absent, policyTop := 0, policyElems := [],
        hasMetric := true, used := 1000, reqNative := rn, reqMid := 0, reqBatch := rb, batchReq := 0 }
    let c : MemCfg := { beOn := false, allocOn := true, memOn := false, thr := none, lower := none,
                        prioThr := none, aThr := some 50, aLower := some 40, aPrioThr := some 5999, capacity := 1000,
                        nodeUsed := none, allocMem := some 1000, allocBatch := some 100000, allocMid := none }
    let allocF := fun (rq sum _ _ : Int) => if rq * 2 > sum then some (400 : Int) else none
    ((memoryEvict allocF c [mk 0 3500 800 0, mk 1 5500 100 300, mk 2 5600 100 200] (fun _ => false) []).map
      fun st => (st.logRev.reverse.map (fun ev => (ev.e.pod, ev.kind)), st.released)) =
      some ([(0, .ok), (1, .ok), (2, .ok)], []) := by decide

/-! ## Part F — the metric glue (Model/C11Metric.lean): where "measured" comes from -/

/-- F.1 `CollectPodMetricLast` returns an ERROR exactly when the querier fails or NO point of the pod's series
    lies inside the query window `[end − 2·collectInterval, end]` (never-sampled pod, stale points only, points
    later than the query end): an empty result is an error, not the value 0. -/
theorem collect_errs_iff_no_sample_in_window (queryErr : Bool) (window : Int) (series : List Sample) :
    podMetricLast queryErr window series = none ↔
      (queryErr = true ∨ ∀ s ∈ series, s.inWindow window = false) := by
  unfold podMetricLast
  by_cases hq : queryErr = true
  · simp [hq]
  · simp only [hq, if_false, Option.map_eq_none_iff, lastOf_none_iff, false_or, Bool.false_eq_true]
    rw [List.filter_eq_nil_iff]
    constructor
    · intro h s hs; simpa using h s hs
    · intro h s hs; simp [h s hs]

/-- F.2 otherwise it returns the value of the LATEST point inside the window. -/
theorem collect_is_latest_in_window (queryErr : Bool) (window : Int) (series : List Sample) (v : Int)
    (h : podMetricLast queryErr window series = some v) :
    queryErr = false ∧ ∃ s ∈ series, s.inWindow window = true ∧ s.milli = v ∧
      ∀ y ∈ series, y.inWindow window = true → s.age ≤ y.age := by
  unfold podMetricLast at h
  by_cases hq : queryErr = true
  · simp [hq] at h
  · simp only [hq, if_false, Option.map_eq_some_iff, Bool.false_eq_true] at h
    obtain ⟨s, hs, rfl⟩ := h
    obtain ⟨hmem, hmin⟩ := lastOf_some _ s hs
    obtain ⟨h1, h2⟩ := List.mem_filter.mp hmem
    refine ⟨by simpa using hq, s, h1, h2, rfl, fun y hy hw => hmin y (List.mem_filter.mpr ⟨hy, hw⟩)⟩

/-- F.3 the empty series in particular: an error, not usage 0 (what seeded change C11-e turned it into). -/
theorem collect_empty_series_is_error (window : Int) :
    podMetricLast false window [] = none ∧ podMetricLast false window [] ≠ some 0 := by
  constructor <;> simp [podMetricLast, lastOf]

/-- a pod together with the state of the metric cache for it. -/
structure PodSrc where
  raw      : RawPod
  queryErr : Bool
  series   : List Sample

/-- the pod as the list builders see it. -/
def PodSrc.pod (window : Int) (x : PodSrc) : RawPod := x.raw.withSeries x.queryErr window x.series

/-- the agent holds a usage sample of the pod inside the query window. -/
def PodSrc.HasSample (window : Int) (x : PodSrc) : Prop :=
  x.queryErr = false ∧ ∃ s ∈ x.series, s.inWindow window = true

theorem measured_iff_has_sample (window : Int) (x : PodSrc) :
    (x.pod window).hasMetric = true ↔ x.HasSample window := by
  unfold PodSrc.pod RawPod.withSeries RawPod.withMetric PodSrc.HasSample
  simp only []
  rw [← Option.ne_none_iff_isSome, Ne, collect_errs_iff_no_sample_in_window]
  cases x.queryErr <;> simp

theorem rawPrioEligible_measured (code : Nat) (pt : Int) (rp : RawPod) (h : RawPrioEligible code pt rp) :
    rp.hasMetric = true := by
  obtain ⟨pr, _, _, _, _, _, hm⟩ := h
  exact hm

/-- F.4 a pod WITHOUT a usage sample inside the window stands in no priority-based victim list
    (MemoryEvict, MemoryAllocatableEvict, CPUEvict, CPUAllocatableEvict), whatever its labels. -/
theorem prio_list_members_have_sample (code : Nat) (pt : Int) (byReq : Bool) (window : Int) (src : List PodSrc) (i : Info)
    (h : i ∈ selectPrio pt byReq ((src.map (PodSrc.pod window)).map (decodePodFor code)) ∨
         i ∈ selectPrioMem pt byReq ((src.map (PodSrc.pod window)).map (decodePodFor code))) :
    ∃ x ∈ src, i.pod.id = x.raw.id ∧ x.HasSample window := by
  obtain ⟨rp, hrp, hid, hel⟩ := mem_selectPrio_raw code pt byReq _ i h
  obtain ⟨x, hx, rfl⟩ := List.mem_map.mp hrp
  exact ⟨x, hx, hid, (measured_iff_has_sample window x).mp (rawPrioEligible_measured code pt _ hel)⟩

/-- the BE lists keep such a pod, with usage 0 (memory and cpu alike): the unchanged tree's behaviour. -/
theorem be_list_keeps_unmeasured_with_usage_zero (usage : Int → Int → Int) (usedDiv : Int) (cpu : Bool) (p : Pod)
    (hq : p.qosBE = true) (hp : policyAllowed p.policy = true) (hm : p.hasMetric = false) :
    ∃ i, beInfo? usage usedDiv cpu p = some i ∧ i.pod = p ∧ i.used = 0 := by
  unfold beInfo?
  simp [hq, hp, hm]

theorem memTasks_getElem (allocF : Int → Int → Int → Int → Option Int) (c : MemCfg) (pods : List RawPod)
    (f : MemFeature) (t : Task) (h : (f, t) ∈ memTasks allocF c pods) :
    c.on f = true ∧ memTask allocF c pods f = some t := by
  unfold memTasks at h
  by_cases hcap : c.capacity ≤ 0
  · simp [hcap] at h
  · simp only [hcap, if_false] at h
    obtain ⟨f0, _, hf0⟩ := List.mem_filterMap.mp h
    by_cases hon : c.on f0 = true
    · simp only [hon, if_true] at hf0
      cases hm : memTask allocF c pods f0 with
      | none => simp [hm] at hf0
      | some t0 =>
        simp [hm] at hf0
        obtain ⟨rfl, rfl⟩ := hf0
        exact ⟨hon, hm⟩
    · simp [hon] at hf0

theorem cpuTasks_getElem (usage : Int → Int → Int) (allocF : Int → Int → Int → Int → Option Int) (c : CpuCfg)
    (pods : List RawPod) (f : CpuFeature) (t : Task) (h : (f, t) ∈ cpuTasks usage allocF c pods) :
    c.on f = true ∧ cpuTask usage allocF c pods f = some t := by
  unfold cpuTasks at h
  by_cases hcap : c.capacity ≤ 0
  · simp [hcap] at h
  · simp only [hcap, if_false] at h
    obtain ⟨f0, _, hf0⟩ := List.mem_filterMap.mp h
    by_cases hon : c.on f0 = true
    · simp only [hon, if_true] at hf0
      cases hm : cpuTask usage allocF c pods f0 with
      | none => simp [hm] at hf0
      | some t0 =>
        simp [hm] at hf0
        obtain ⟨rfl, rfl⟩ := hf0
        exact ⟨hon, hm⟩
    · simp [hon] at hf0

/-- F.5 memoryEvict() end to end over pods whose metric fields come from the metric cache: the task that hands a
    pod to the executor (`ev.task` is its index in the task list of the run) belongs to a feature that is on, and
    unless that feature is BEMemoryEvict the agent holds a usage sample of the pod inside the query window —
    "a pod without a recent usage sample is never a victim on the priority paths". -/
theorem mem_e2e_prio_victims_have_sample (allocF : Int → Int → Int → Int → Option Int) (c : MemCfg) (window : Int)
    (src : List PodSrc) (isEv : Nat → Bool) (script : List Bool) (st : St)
    (h : memoryEvict allocF c (src.map (PodSrc.pod window)) isEv script = some st) (ev : Ev) (hev : ev ∈ st.logRev) :
    ∃ f t, (memTasks allocF c (src.map (PodSrc.pod window)))[ev.task]? = some (f, t) ∧ c.on f = true ∧ ev.e ∈ t.pods ∧
      ∃ x ∈ src, ev.e.pod = x.raw.id ∧ (f ≠ .be → x.HasSample window) := by
  unfold memoryEvict at h
  by_cases hemp : (memTasks allocF c (src.map (PodSrc.pod window))).isEmpty = true <;> simp [hemp] at h
  subst h
  obtain ⟨newer, older, hsplit⟩ := List.append_of_mem hev
  obtain ⟨t, ht, hin⟩ := victims_are_candidates isEv script _ newer ev older hsplit
  rw [List.getElem?_map] at ht
  obtain ⟨⟨f, t'⟩, hft, rfl⟩ := Option.map_eq_some_iff.mp ht
  obtain ⟨hon, hm⟩ := memTasks_getElem allocF c _ f t' (List.mem_of_getElem? hft)
  obtain ⟨rp, hrp, hid, hel⟩ := memTask_pods_eligible allocF c _ f t' hm ev.e hin
  obtain ⟨x, hx, rfl⟩ := List.mem_map.mp hrp
  refine ⟨f, t', hft, hon, hin, x, hx, hid, fun hne => (measured_iff_has_sample window x).mp ?_⟩
  cases f with
  | be => exact absurd rfl hne
  | alloc => obtain ⟨pt, _, _, h2⟩ := hel; exact rawPrioEligible_measured _ _ _ h2
  | mem => obtain ⟨pt, _, h2⟩ := hel; exact rawPrioEligible_measured _ _ _ h2

/-- F.6 the same for cpuEvict(): CPUAllocatableEvict and CPUEvict never take a pod without a usage sample. -/
theorem cpu_e2e_prio_victims_have_sample (usage : Int → Int → Int) (allocF : Int → Int → Int → Int → Option Int)
    (c : CpuCfg) (window : Int) (src : List PodSrc) (isEv : Nat → Bool) (script : List Bool) (st : St)
    (h : cpuEvict usage allocF c (src.map (PodSrc.pod window)) isEv script = some st) (ev : Ev) (hev : ev ∈ st.logRev) :
    ∃ f t, (cpuTasks usage allocF c (src.map (PodSrc.pod window)))[ev.task]? = some (f, t) ∧ c.on f = true ∧ ev.e ∈ t.pods ∧
      ∃ x ∈ src, ev.e.pod = x.raw.id ∧ (f ≠ .be → x.HasSample window) := by
  unfold cpuEvict at h
  by_cases hemp : (cpuTasks usage allocF c (src.map (PodSrc.pod window))).isEmpty = true <;> simp [hemp] at h
  subst h
  obtain ⟨newer, older, hsplit⟩ := List.append_of_mem hev
  obtain ⟨t, ht, hin⟩ := victims_are_candidates isEv script _ newer ev older hsplit
  rw [List.getElem?_map] at ht
  obtain ⟨⟨f, t'⟩, hft, rfl⟩ := Option.map_eq_some_iff.mp ht
  obtain ⟨hon, hm⟩ := cpuTasks_getElem usage allocF c _ f t' (List.mem_of_getElem? hft)
  obtain ⟨rp, hrp, hid, hel⟩ := cpuTask_pods_eligible usage allocF c _ f t' hm ev.e hin
  obtain ⟨x, hx, rfl⟩ := List.mem_map.mp hrp
  refine ⟨f, t', hft, hon, hin, x, hx, hid, fun hne => (measured_iff_has_sample window x).mp ?_⟩
  cases f with
  | be => exact absurd rfl hne
  | alloc => obtain ⟨pt, _, _, h2⟩ := hel; exact rawPrioEligible_measured _ _ _ h2
  | cpu => obtain ⟨pt, _, h2⟩ := hel; exact rawPrioEligible_measured _ _ _ h2

/-- the hypotheses are satisfiable with a victim and exclude a concrete pod: two koord-batch pods under MemoryEvict
    pressure (capacity 100, used 90, threshold 80/78 ⇒ target 12), pod 0 never sampled, pod 1 sampled 500 ms ago
    (plus a stale point): only pod 1 is handed to the executor. -/
example :
    let mk : Nat → RawPod := fun id =>
      { id := id, name := id, qosLabel := 1, kubeQoS := 1, phase := 1, specPrio := some 5500, clsLabel := 0, evictLabel := 1,
        evictPrio := .absent, prioLabel := .absent, policyTop := 0, policyElems := [], hasMetric := false, used := 0,
        reqNative := 1, reqMid := 0, reqBatch := 0, batchReq := 0 }
    let src : List PodSrc := [⟨mk 0, false, []⟩, ⟨mk 1, false, [⟨5000, 7000⟩, ⟨500, 20000⟩]⟩]
    let c : MemCfg := { beOn := false, allocOn := false, memOn := true, thr := some 80, lower := some 78, prioThr := some 5999,
                        aThr := none, aLower := none, aPrioThr := none, capacity := 100, nodeUsed := some 90,
                        allocMem := none, allocBatch := none, allocMid := none }
    ((memoryEvict (fun _ _ _ _ => none) c (src.map (PodSrc.pod 2000)) (fun _ => false) []).map
        fun st => st.logRev.map fun ev => (ev.e.pod, ev.kind)) = some [(1, .ok)] := by decide

/-! ## Part G — the container loops behind a pod's mid / batch request (Model/C11Containers.lean) -/

/-- G.1 the extended-resource request of a pod (what the allocatable features sum per class for their target, credit
    per victim and sort by; what BECPUEvict credits) is the sum over the containers that run side by side —
    regular containers and sidecar init containers — of the container's request, an absent or non-positive
    request counting 0. -/
theorem ext_request_is_sum_over_concurrent_containers (get : Ctr → Int) (cs : List Ctr) :
    ctrSum get cs = (cs.map (ctrShare get)).sum := by
  induction cs with
  | nil => simp [ctrSum_nil]
  | cons c cs ih => rw [ctrSum_cons, ih]; simp

/-- G.2 an init container that runs to completion (or any unknown kind) contributes nothing; a regular or sidecar
    container contributes exactly its clamped request. -/
theorem container_share (get : Ctr → Int) (c : Ctr) (cs : List Ctr) :
    ctrSum get (c :: cs) =
      (if c.kind = 0 ∨ c.kind = 2 then (if get c ≤ 0 then 0 else get c) else 0) + ctrSum get cs := by
  rw [ctrSum_cons]; rfl

/-- G.3 never negative, so a credited release never shrinks what was released before. -/
theorem ext_request_nonneg (get : Ctr → Int) (cs : List Ctr) : 0 ≤ ctrSum get cs := by
  induction cs with
  | nil => simp [ctrSum_nil]
  | cons c cs ih =>
    rw [ctrSum_cons]
    have : 0 ≤ ctrShare get c := by unfold ctrShare; split; exact clamp0_nonneg _; omega
    omega

example : ctrSum Ctr.batch [⟨0, -1, 300⟩, ⟨1, -1, 900⟩, ⟨2, -1, 200⟩, ⟨0, 50, -1⟩, ⟨0, -1, 0⟩] = 500 := by decide

/-! ## Part H — several passes while earlier victims are still terminating (Model/C11Passes.lean) -/

/-- converse of `mem_selectPrio_raw`: an eligible raw pod stands in the priority-based list. -/
theorem selectPrio_raw_complete (code : Nat) (pt : Int) (byReq : Bool) (pods : List RawPod) (rp : RawPod)
    (hrp : rp ∈ pods) (h : RawPrioEligible code pt rp) :
    (∃ i ∈ selectPrio pt byReq (pods.map (decodePodFor code)), i.pod.id = rp.id) ∧
    (∃ i ∈ selectPrioMem pt byReq (pods.map (decodePodFor code)), i.pod.id = rp.id) := by
  obtain ⟨pr, he⟩ := h
  constructor
  · exact ⟨_, (prio_victims_eligible pt byReq _ _).mpr
      ⟨decodePodFor code rp, List.mem_map.mpr ⟨rp, hrp, rfl⟩, pr, he, rfl⟩, rfl⟩
  · unfold selectPrioMem
    refine ⟨_, (prio_victims_eligible pt byReq _ _).mpr
      ⟨{ decodePodFor code rp with used := Int.tdiv (decodePodFor code rp).used 1000 },
       List.mem_map.mpr ⟨decodePodFor code rp, List.mem_map.mpr ⟨rp, hrp, rfl⟩, rfl⟩, pr,
       (prioEligible_used pt _ _ pr).mpr he, rfl⟩, rfl⟩

/-- converse of `mem_selectBE_raw`. -/
theorem selectBE_raw_complete (code : Nat) (usage : Int → Int → Int) (pods : List RawPod) (rp : RawPod)
    (hrp : rp ∈ pods) (h : RawBEEligible code rp) :
    (∃ i ∈ selectBEMem (pods.map (decodePodFor code)), i.pod.id = rp.id) ∧
    (∃ i ∈ selectBECpu usage (pods.map (decodePodFor code)), i.pod.id = rp.id) := by
  have key : ∀ (u : Int → Int → Int) (d : Int) (c : Bool), ∃ i, beInfo? u d c (decodePodFor code rp) = some i ∧ i.pod.id = rp.id := by
    intro u d c
    unfold beInfo?
    simp [h.1, h.2]
    rfl
  constructor
  · obtain ⟨i, hi, hid⟩ := key (fun _ _ => 0) 1000 false
    exact ⟨i, ((be_list_is_permutation usage _ i).1).mpr
      (List.mem_filterMap.mpr ⟨_, List.mem_map.mpr ⟨rp, hrp, rfl⟩, hi⟩), hid⟩
  · obtain ⟨i, hi, hid⟩ := key usage 1 true
    exact ⟨i, ((be_list_is_permutation usage _ i).2).mpr
      (List.mem_filterMap.mpr ⟨_, List.mem_map.mpr ⟨rp, hrp, rfl⟩, hi⟩), hid⟩

theorem memEntry_pod (pods : List RawPod) (a b : Bool) (i : Info) : (memEntry pods a b i).pod = i.pod.id := rfl
theorem cpuEntry_pod (pods : List RawPod) (a b : Bool) (i : Info) : (cpuEntry pods a b i).pod = i.pod.id := rfl

/-! ### H.1 terminating_victim_stays_candidate — the candidate list a memoryEvict() pass publishes for a feature holds
    EVERY pod of the pass that is eligible under the feature, whether or not the pod object carries a deletionTimestamp
    (`pp.terminating`): an earlier victim that is still terminating (Running, measured) stays a candidate, which is what
    lets KillAndEvictPods' pending-release branch credit it. -/
theorem terminating_victim_stays_candidate (allocF : Int → Int → Int → Int → Option Int) (c : MemCfg)
    (pps : List PassPod) (f : MemFeature) (t : Task) (h : memTask allocF c (passRaws pps) f = some t)
    (pp : PassPod) (hpp : pp ∈ pps) (hel : MemEligible c f pp.raw) :
    ∃ e ∈ t.pods, e.pod = pp.raw.id := by
  have hraw : pp.raw ∈ passRaws pps := List.mem_map.mpr ⟨pp, hpp, rfl⟩
  cases f with
  | be =>
    unfold memTask at h
    by_cases hc : c.commonOK = true <;> simp [hc] at h
    obtain ⟨to, _, rfl⟩ := h
    obtain ⟨i, hi, hid⟩ := (selectBE_raw_complete 10 (fun _ _ => 0) _ pp.raw hraw hel).1
    exact ⟨_, List.mem_map.mpr ⟨i, hi, rfl⟩, hid⟩
  | mem =>
    obtain ⟨pt, hpt, hel⟩ := hel
    unfold memTask at h
    by_cases hc : c.memOK = true <;> simp [hc] at h
    cases hu : c.usedTarget <;> simp [hu, hpt] at h
    subst h
    obtain ⟨i, hi, hid⟩ := (selectPrio_raw_complete 12 pt false _ pp.raw hraw hel).2
    exact ⟨_, List.mem_map.mpr ⟨i, hi, rfl⟩, hid⟩
  | alloc =>
    obtain ⟨pt, hpt, _, hel⟩ := hel
    unfold memTask at h
    by_cases hc : c.allocOK = true <;> simp [hc] at h
    obtain ⟨_, h⟩ := h
    simp [hpt] at h
    subst h
    obtain ⟨i, hi, hid⟩ := (selectPrio_raw_complete 11 pt true _ pp.raw hraw hel).2
    exact ⟨_, List.mem_map.mpr ⟨i, hi, rfl⟩, hid⟩

/-- the same for cpuEvict(). -/
theorem cpu_terminating_victim_stays_candidate (usage : Int → Int → Int) (allocF : Int → Int → Int → Int → Option Int)
    (c : CpuCfg) (pps : List PassPod) (f : CpuFeature) (t : Task)
    (h : cpuTask usage allocF c (passRaws pps) f = some t)
    (pp : PassPod) (hpp : pp ∈ pps) (hel : CpuEligible c f pp.raw) :
    ∃ e ∈ t.pods, e.pod = pp.raw.id := by
  have hraw : pp.raw ∈ passRaws pps := List.mem_map.mpr ⟨pp, hpp, rfl⟩
  cases f with
  | be =>
    unfold cpuTask at h
    by_cases hc : c.satOK = true <;> simp [hc] at h
    obtain ⟨to, _, rfl⟩ := h
    obtain ⟨i, hi, hid⟩ := (selectBE_raw_complete 13 usage _ pp.raw hraw hel).2
    exact ⟨_, List.mem_map.mpr ⟨i, hi, rfl⟩, hid⟩
  | cpu =>
    obtain ⟨pt, hpt, hel⟩ := hel
    unfold cpuTask at h
    by_cases hc : c.usedOK = true <;> simp [hc] at h
    cases hu : c.usedTarget <;> simp [hu, hpt] at h
    subst h
    obtain ⟨i, hi, hid⟩ := (selectPrio_raw_complete 15 pt false _ pp.raw hraw hel).1
    exact ⟨_, List.mem_map.mpr ⟨i, hi, rfl⟩, hid⟩
  | alloc =>
    obtain ⟨pt, hpt, _, hel⟩ := hel
    unfold cpuTask at h
    by_cases hc : c.allocOK = true <;> simp [hc] at h
    obtain ⟨_, h⟩ := h
    simp [hpt] at h
    subst h
    obtain ⟨i, hi, hid⟩ := (selectPrio_raw_complete 14 pt true _ pp.raw hraw hel).1
    exact ⟨_, List.mem_map.mpr ⟨i, hi, rfl⟩, hid⟩

/-- the task list of a pass does not depend on which pods are terminating. -/
theorem pass_tasks_ignore_deletion_timestamp (allocF : Int → Int → Int → Int → Option Int) (c : MemCfg)
    (pps : List PassPod) (flags : PassPod → Bool) :
    memPassTasks allocF c (pps.map fun pp => { pp with terminating := flags pp }) = memPassTasks allocF c pps := by
  unfold memPassTasks passRaws
  rw [List.map_map]; rfl

/-! ### H.2 repeat_pass_evicts_nobody — a pass that sees the pods, usages, pressure and configuration of the pass
    before it (only deletionTimestamps were added: `passRaws pps2 = passRaws pps1`), after a pass all of whose eviction
    API calls succeeded, with the executor in API mode and started, inside the TTL (and while the `IsPodEvicted = true`
    answers of the earlier pass are still valid), makes NO Evict call: every pod the earlier pass evicted or credited is
    credited as pending release, the credited release is the same, nothing is newly evicted.  So for one unchanged
    pressure the total number of evictions never exceeds what the first pass needed. -/
theorem mem_repeat_pass_evicts_nobody (allocF : Int → Int → Int → Int → Option Int) (c : MemCfg)
    (pps1 pps2 : List PassPod) (x : Exec) (hapi : x.onlyAPI = true) (hst : x.started = true)
    (now1 now2 : Int) (script1 script2 : List Bool) (hs : ∀ b ∈ script1, b = true)
    (hsame : passRaws pps2 = passRaws pps1) (httl : now2 ≤ now1 + x.ttl)
    (hkeep : ∀ p, x.isEvicted now1 p = true → x.isEvicted now2 p = true)
    (s1 : XSt) (h1 : memoryEvictPass allocF c pps1 x now1 script1 = some s1) :
    ∃ s2, memoryEvictPass allocF c pps2 s1.x now2 script2 = some s2 ∧
      (∀ ev ∈ s2.st.logRev, ev.kind = .pending) ∧ s2.st.released = s1.st.released ∧ s2.st.newly = false := by
  unfold memoryEvictPass memPassTasks at h1 ⊢
  rw [hsame]
  by_cases he : (memTasks allocF c (passRaws pps1)).isEmpty = true
  · simp [he] at h1
  · simp only [he] at h1 ⊢
    simp only [Bool.false_eq_true, if_false, Option.some.injEq] at h1 ⊢
    subst h1
    exact ⟨_, rfl, repeat_round_mirror x hapi hst
      { now := now1, script := script1, tasks := (memTasks allocF c (passRaws pps1)).map (·.2) }
      { now := now2, script := script2, tasks := (memTasks allocF c (passRaws pps1)).map (·.2) }
      hs rfl httl hkeep⟩

theorem cpu_repeat_pass_evicts_nobody (usage : Int → Int → Int) (allocF : Int → Int → Int → Int → Option Int)
    (c : CpuCfg) (pps1 pps2 : List PassPod) (x : Exec) (hapi : x.onlyAPI = true) (hst : x.started = true)
    (now1 now2 : Int) (script1 script2 : List Bool) (hs : ∀ b ∈ script1, b = true)
    (hsame : passRaws pps2 = passRaws pps1) (httl : now2 ≤ now1 + x.ttl)
    (hkeep : ∀ p, x.isEvicted now1 p = true → x.isEvicted now2 p = true)
    (s1 : XSt) (h1 : cpuEvictPass usage allocF c pps1 x now1 script1 = some s1) :
    ∃ s2, cpuEvictPass usage allocF c pps2 s1.x now2 script2 = some s2 ∧
      (∀ ev ∈ s2.st.logRev, ev.kind = .pending) ∧ s2.st.released = s1.st.released ∧ s2.st.newly = false := by
  unfold cpuEvictPass cpuPassTasks at h1 ⊢
  rw [hsame]
  by_cases he : (cpuTasks usage allocF c (passRaws pps1)).isEmpty = true
  · simp [he] at h1
  · simp only [he] at h1 ⊢
    simp only [Bool.false_eq_true, if_false, Option.some.injEq] at h1 ⊢
    subst h1
    exact ⟨_, rfl, repeat_round_mirror x hapi hst
      { now := now1, script := script1, tasks := (cpuTasks usage allocF c (passRaws pps1)).map (·.2) }
      { now := now2, script := script2, tasks := (cpuTasks usage allocF c (passRaws pps1)).map (·.2) }
      hs rfl httl hkeep⟩

/-! ### H.3 the excluded variant: list builders that SKIP a pod carrying a deletionTimestamp.  `memoryEvictPassSkipping`
    is `memoryEvictPass` with the terminating pods filtered out of what the builders see.  Witness: BE pods 0 (uses 34) and
    1 (uses 5), capacity 100, node usage 70, threshold 65, lower 60: target 10.  Pass 1 evicts pod 0 and stops.  In pass 2
    pod 0 is terminating: the model (= the code) credits it and evicts nobody; the skipping variant no longer sees it and
    evicts pod 1 as well — two evictions for a pressure that needed one. -/
def memoryEvictPassSkipping (allocF : Int → Int → Int → Int → Option Int) (c : MemCfg) (pps : List PassPod)
    (x : Exec) (now : Int) (script : List Bool) : Option XSt :=
  memoryEvictPass allocF c (pps.filter fun pp => !pp.terminating) x now script

def passWitnessPod (id : Nat) (used : Int) : RawPod :=
  { id := id, name := id, qosLabel := 1, kubeQoS := 1, phase := 1, specPrio := some 5500, clsLabel := 0,
    evictLabel := 1, evictPrio := .absent, prioLabel := .absent, policyTop := 0, policyElems := [],
    hasMetric := true, used := used, reqNative := 100, reqMid := 0, reqBatch := 0, batchReq := 0 }

def passWitnessCfg : MemCfg :=
  { beOn := true, allocOn := false, memOn := false, thr := some 65, lower := some 60, prioThr := none, aThr := none,
    aLower := none, aPrioThr := none, capacity := 100, nodeUsed := some 70, allocMem := none, allocBatch := none,
    allocMid := none }

def callsOf (s : Option XSt) : List (Nat × Kind) :=
  match s with
  | none => []
  | some s => s.st.logRev.reverse.map fun ev => (ev.e.pod, ev.kind)

theorem skipping_terminating_counterexample :
    let noAlloc : Int → Int → Int → Int → Option Int := fun _ _ _ _ => none
    let x0 : Exec := { onlyAPI := true, started := true, ttl := 120, cache := [] }
    let p1 : List PassPod := [⟨passWitnessPod 0 34000, false⟩, ⟨passWitnessPod 1 5000, false⟩]
    let p2 : List PassPod := [⟨passWitnessPod 0 34000, true⟩, ⟨passWitnessPod 1 5000, false⟩]
    let x1 := ((memoryEvictPass noAlloc passWitnessCfg p1 x0 0 []).map (·.x)).getD x0
    callsOf (memoryEvictPass noAlloc passWitnessCfg p1 x0 0 []) = [(0, .ok)] ∧
    callsOf (memoryEvictPass noAlloc passWitnessCfg p2 x1 1 []) = [(0, .pending)] ∧
    ¬ (∀ q ∈ callsOf (memoryEvictPassSkipping noAlloc passWitnessCfg p2 x1 1 []), q.2 = .pending) := by
  decide

end KoordVerif.C11
