import KoordVerif.Model.C19
namespace KoordVerif.C19
end KoordVerif.C19
