import KoordVerif.Model.C19
import KoordVerif.Proofs.C19Numa
import KoordVerif.Proofs.C19Cpuset
import KoordVerif.Proofs.C19Dev
import KoordVerif.Proofs.C19ExtDevVF
import KoordVerif.Proofs.C19Rsv
import KoordVerif.Proofs.C19ExtRsvCache
import KoordVerif.Proofs.C19ExtQuota
import KoordVerif.Proofs.C19ExtEvents
import KoordVerif.Proofs.C19ExtBoot
import KoordVerif.Proofs.C19ExtAdapter
import KoordVerif.Proofs.C19ExtPreBind
/-
C19 — scheduler allocation state survives a restart unchanged.  Property theorems.

Part N (this file, NUMA ledger of nodenumaresource): exactness of the ledger over every history,
live = rebuilt, order independence, duplicate add / same-allocation update are no-ops, nothing
taken is free, the exclusive-policy marker counterexample.
Part C (cpuset text codec) and the persist/restore round trip follow below.
-/
namespace KoordVerif.C19

/-! ## N. the NUMA ledger over all histories -/

/-- ledger-level events: `upd a` = Reserve / informer add / informer update carrying allocation `a`
    (`resourceManager.Update`), `rel uid` = Unreserve / delete / terminate (`Release`). -/
inductive Ev where
  | upd (a : PodAlloc)
  | rel (uid : Nat)

def stepEv (topo : List Nat) (s : St) : Ev → St
  | .upd a => update topo s a
  | .rel uid => release topo s uid

def run (topo : List Nat) (evs : List Ev) : St := evs.foldl (stepEv topo) St.init

/-- the surviving allocations of a history, defined without any ledger: the last allocation of
    every uid that was not released afterwards. -/
def survStep (ps : List PodAlloc) : Ev → List PodAlloc
  | .upd a => a :: erasePod a.uid ps
  | .rel uid => erasePod uid ps

def survivors (evs : List Ev) : List PodAlloc := evs.foldl survStep []

/-- a fresh cache fed the allocations `l` one after the other (informer replay). -/
def build (topo : List Nat) (l : List PodAlloc) : St := run topo (l.map Ev.upd)

def GoodEvs (evs : List Ev) : Prop := ∀ a, Ev.upd a ∈ evs → Good a

theorem run_inv_pods (topo : List Nat) (evs : List Ev) (h : GoodEvs evs) :
    Inv (run topo evs) ∧ (run topo evs).pods = survivors evs := by
  unfold run survivors
  suffices H : ∀ (s : St) (ps : List PodAlloc), Inv s → s.pods = ps →
      Inv (evs.foldl (stepEv topo) s) ∧ (evs.foldl (stepEv topo) s).pods = evs.foldl survStep ps from
    H St.init [] inv_init rfl
  induction evs with
  | nil => intro s ps hs hp; exact ⟨hs, hp⟩
  | cons e es ih =>
    intro s ps hs hp
    have hes : GoodEvs es := fun a ha => h a (by simp [ha])
    simp only [List.foldl_cons]
    cases e with
    | upd a =>
      have ha : Good a := h a (by simp)
      exact ih hes _ _ (inv_update topo s a hs ha) (by rw [← hp]; exact pods_update topo s a hs.nodup)
    | rel uid =>
      exact ih hes _ _ (inv_release topo s uid hs) (by rw [← hp]; exact pods_release topo s uid)

/-- **Ledger exactness over every history**: after any sequence of updates and releases (with
    non-negative amounts) the RefCount of every CPU and the amount on every NUMA node are exactly
    the from-scratch sums over the recorded allocations, whose uids are distinct. -/
theorem ledger_exact (topo : List Nat) (evs : List Ev) (h : GoodEvs evs) : Inv (run topo evs) :=
  (run_inv_pods topo evs h).1

/-- the recorded allocations after a history are exactly its survivors. -/
theorem pods_eq_survivors (topo : List Nat) (evs : List Ev) (h : GoodEvs evs) :
    (run topo evs).pods = survivors evs :=
  (run_inv_pods topo evs h).2

theorem survivors_build (l acc : List PodAlloc)
    (hl : (l.map (·.uid)).Nodup) (hd : ∀ a ∈ l, a.uid ∉ acc.map (·.uid)) :
    (l.map Ev.upd).foldl survStep acc = l.reverse ++ acc := by
  induction l generalizing acc with
  | nil => simp
  | cons a as ih =>
    simp only [List.map_cons, List.nodup_cons] at hl
    simp only [List.map_cons, List.foldl_cons, survStep]
    rw [erasePod_of_not_mem a.uid acc (hd a (by simp))]
    rw [ih (a :: acc) hl.2]
    · simp
    · intro b hb
      simp only [List.map_cons, List.mem_cons, not_or]
      refine ⟨fun e => hl.1 ?_, hd b (by simp [hb])⟩
      rw [← e]; exact List.mem_map.2 ⟨b, hb, rfl⟩

theorem good_build (l : List PodAlloc) (hg : ∀ a ∈ l, Good a) : GoodEvs (l.map Ev.upd) := by
  intro a ha
  simp only [List.mem_map] at ha
  obtain ⟨b, hb, e⟩ := ha
  have hba : b = a := by injection e
  subst hba
  exact hg b hb

theorem pods_build (topo : List Nat) (l : List PodAlloc)
    (hl : (l.map (·.uid)).Nodup) (hg : ∀ a ∈ l, Good a) : (build topo l).pods = l.reverse := by
  unfold build
  rw [pods_eq_survivors topo _ (good_build l hg)]
  unfold survivors
  rw [survivors_build l [] hl (by simp)]
  simp

/-- **T3 order independence**: fresh caches fed the same annotated objects (distinct uids) in two
    different informer delivery orders are observationally equal. -/
theorem ledger_order_independent (topo : List Nat) (maxRef : Nat) (l₁ l₂ : List PodAlloc)
    (hp : l₁.Perm l₂) (hl : (l₁.map (·.uid)).Nodup) (hg : ∀ a ∈ l₁, Good a) :
    ObsEq topo maxRef (build topo l₁) (build topo l₂) := by
  have hl2 : (l₂.map (·.uid)).Nodup := (hp.map _).nodup_iff.1 hl
  have hg2 : ∀ a ∈ l₂, Good a := fun a ha => hg a (hp.mem_iff.2 ha)
  refine obsEq_of_inv topo maxRef (ledger_exact topo _ (good_build l₁ hg)) (ledger_exact topo _ (good_build l₂ hg2)) ?_
  rw [pods_build topo l₁ hl hg, pods_build topo l₂ hl2 hg2]
  exact (List.reverse_perm l₁).trans (hp.trans (List.reverse_perm l₂).symm)

/-- **T4 live = rebuilt**: for EVERY history of the live scheduler (cut at any point), a fresh cache
    fed the surviving allocations in ANY order is observationally equal to the live cache: same
    RefCount for every CPU, same amounts on every NUMA node, same available CPUs, same records. -/
theorem live_eq_rebuilt (topo : List Nat) (maxRef : Nat) (evs : List Ev) (h : GoodEvs evs)
    (l : List PodAlloc) (hl : l.Perm (survivors evs)) :
    ObsEq topo maxRef (run topo evs) (build topo l) := by
  have hinv := ledger_exact topo evs h
  have hpods := pods_eq_survivors topo evs h
  have hnd : (l.map (·.uid)).Nodup := by
    have := hinv.nodup; rw [hpods] at this
    exact (hl.map _).nodup_iff.2 this
  have hg : ∀ a ∈ l, Good a := by
    intro a ha
    have : a ∈ (run topo evs).pods := by rw [hpods]; exact hl.mem_iff.1 ha
    exact hinv.good a this
  refine obsEq_of_inv topo maxRef hinv (ledger_exact topo _ (good_build l hg)) ?_
  rw [hpods, pods_build topo l hnd hg]
  exact hl.symm.trans (List.reverse_perm l).symm

/-- **duplicate add is a no-op**: delivering the same allocation twice = once. -/
theorem dup_add_noop (topo : List Nat) (maxRef : Nat) (s : St) (a : PodAlloc) (hs : Inv s) (ha : Good a) :
    ObsEq topo maxRef (update topo (update topo s a) a) (update topo s a) := by
  have h1 := inv_update topo s a hs ha
  have h2 := inv_update topo _ a h1 ha
  refine obsEq_of_inv topo maxRef h2 h1 ?_
  rw [pods_update topo _ a h1.nodup, pods_update topo s a hs.nodup]
  simp [erasePod]

theorem perm_cons_erasePod {uid : Nat} {ps : List PodAlloc} {a : PodAlloc} (h : findPod uid ps = some a) :
    (a :: erasePod uid ps).Perm ps := by
  induction ps with
  | nil => simp [findPod] at h
  | cons p ps ih =>
    simp only [findPod] at h
    simp only [erasePod]
    split at h
    · next hp => cases h; simp [hp]
    · next hp =>
      simp only [hp, if_false]
      exact (List.Perm.swap p a _).trans ((ih h).cons p)

theorem findPod_of_mem {ps : List PodAlloc} {a : PodAlloc} (hn : (ps.map (·.uid)).Nodup) (ha : a ∈ ps) :
    findPod a.uid ps = some a := by
  induction ps with
  | nil => simp at ha
  | cons p ps ih =>
    simp only [List.map_cons, List.nodup_cons] at hn
    simp only [findPod]
    simp only [List.mem_cons] at ha
    rcases ha with rfl | ha
    · simp
    · have : p.uid ≠ a.uid := fun e => hn.1 (by rw [e]; exact List.mem_map.2 ⟨a, ha, rfl⟩)
      simp [this, ih hn.2 ha]

/-- **same-allocation update is a no-op**: an update event carrying the allocation the cache already
    records for that uid leaves the ledger observationally unchanged. -/
theorem same_update_noop (topo : List Nat) (maxRef : Nat) (s : St) (a : PodAlloc) (hs : Inv s)
    (ha : a ∈ s.pods) : ObsEq topo maxRef (update topo s a) s := by
  have hg := hs.good a ha
  refine obsEq_of_inv topo maxRef (inv_update topo s a hs hg) hs ?_
  rw [pods_update topo s a hs.nodup]
  exact perm_cons_erasePod (findPod_of_mem hs.nodup ha)

theorem le_refSum_of_mem {ps : List PodAlloc} {a : PodAlloc} (ha : a ∈ ps) (c : Nat) :
    a.cpus.count c ≤ refSum ps c := by
  induction ps with
  | nil => simp at ha
  | cons p ps ih =>
    simp only [List.mem_cons] at ha
    simp only [refSum]
    rcases ha with rfl | ha
    · omega
    · have := ih ha; omega

theorem le_resSum_of_mem {ps : List PodAlloc} {a : PodAlloc} (hg : ∀ p ∈ ps, Good p) (ha : a ∈ ps) (n : Nat) :
    (numaAt a.numa n).1 ≤ (resSum ps n).1 ∧ (numaAt a.numa n).2 ≤ (resSum ps n).2 := by
  induction ps with
  | nil => simp at ha
  | cons p ps ih =>
    simp only [List.mem_cons] at ha
    simp only [resSum]
    have hrest := resSum_nonneg ps (fun x hx => hg x (by simp [hx])) n
    rcases ha with rfl | ha
    · omega
    · have := ih (fun x hx => hg x (by simp [hx])) ha
      have := numaAt_nonneg p.numa (hg p (by simp)) n
      omega

/-- **nothing taken before the restart is free after it** (CPU part): in the cache rebuilt from the
    survivors of any history, every CPU of every surviving allocation has RefCount ≥ its holders,
    and is not offered as available once `maxRef` survivors hold it. -/
theorem taken_cpu_not_free (topo : List Nat) (maxRef : Nat) (evs : List Ev) (h : GoodEvs evs)
    (l : List PodAlloc) (hl : l.Perm (survivors evs)) (a : PodAlloc) (ha : a ∈ l) (c : Nat) (hc : c ∈ a.cpus) :
    1 ≤ refCount (build topo l) c ∧
    refCount (build topo l) c = refSum (survivors evs) c ∧
    (maxRef ≤ refSum (survivors evs) c → c ∉ availCPUs topo maxRef (build topo l)) := by
  have heq := live_eq_rebuilt topo maxRef evs h l hl
  have hinv := ledger_exact topo evs h
  have hpods := pods_eq_survivors topo evs h
  have hsum : refCount (build topo l) c = refSum (survivors evs) c := by
    rw [← heq.ref c, refCount, hinv.ref c, hpods]
  have hmem : a ∈ survivors evs := hl.mem_iff.1 ha
  have hle := le_refSum_of_mem hmem c
  have hpos : 1 ≤ a.cpus.count c := List.count_pos_iff.2 hc
  refine ⟨by omega, hsum, ?_⟩
  intro hmax hav
  simp only [availCPUs, List.mem_filter, decide_eq_true_eq] at hav
  omega

/-- **nothing taken before the restart is free after it** (NUMA amounts): the rebuilt ledger charges
    every NUMA node with exactly the sum over the survivors, hence at least what each one holds. -/
theorem taken_numa_not_free (topo : List Nat) (maxRef : Nat) (evs : List Ev) (h : GoodEvs evs)
    (l : List PodAlloc) (hl : l.Perm (survivors evs)) (a : PodAlloc) (ha : a ∈ l) (n : Nat) :
    getRes (build topo l).res n = resSum (survivors evs) n ∧
    (numaAt a.numa n).1 ≤ (getRes (build topo l).res n).1 ∧
    (numaAt a.numa n).2 ≤ (getRes (build topo l).res n).2 := by
  have heq := live_eq_rebuilt topo maxRef evs h l hl
  have hinv := ledger_exact topo evs h
  have hpods := pods_eq_survivors topo evs h
  have hsum : getRes (build topo l).res n = resSum (survivors evs) n := by
    rw [← heq.res n, hinv.res n, hpods]
  have hmem : a ∈ survivors evs := hl.mem_iff.1 ha
  have hg : ∀ p ∈ survivors evs, Good p := by
    intro p hp; rw [← hpods] at hp; exact hinv.good p hp
  have := le_resSum_of_mem hg hmem n
  rw [hsum]
  exact ⟨rfl, this.1, this.2⟩

/-- the informer handlers only ever `update` / `release`, so they preserve exactness as well. -/
theorem onUpdate_inv (topo : List Nat) (s : St) (old : Option Obj) (o : Obj) (hs : Inv s)
    (hg : ∀ an, o.annot = some an → ∀ r ∈ an.numa, 0 ≤ r.cpu ∧ 0 ≤ r.mem) :
    Inv (onUpdate topo s old o) := by
  unfold onUpdate
  split
  · split
    · split
      · exact inv_release topo s _ hs
      · exact hs
    · exact hs
  · split
    · exact inv_release topo s _ hs
    · dsimp only
      split
      · exact hs
      · next a hr =>
        refine inv_update topo s a hs ?_
        unfold restore at hr
        split at hr
        · cases hr
        · split at hr
          · cases hr
          · cases hr
            intro r hrm
            cases ho : o.annot with
            | none => simp [ho] at hrm
            | some an => simp only [ho, Option.getD_some] at hrm; exact hg an ho r hrm

theorem onDelete_inv (topo : List Nat) (s : St) (o : Obj) (hs : Inv s) : Inv (onDelete topo s o) := by
  unfold onDelete
  split
  · exact hs
  · exact inv_release topo s _ hs

/-! ### non-vacuity and the exclusive-policy marker -/

def exA : PodAlloc := { uid := 1, cpus := [0, 1], excl := 3, numa := [⟨0, 2000, 5⟩] }
def exB : PodAlloc := { uid := 2, cpus := [0], excl := 2, numa := [⟨0, 1000, 0⟩, ⟨1, 0, 7⟩] }

/-- the hypotheses are satisfiable on a history with sharing, a release and a re-add. -/
example : GoodEvs [.upd exA, .upd exB, .rel 1, .upd exA] := by
  intro a ha
  simp only [List.mem_cons, List.mem_nil_iff, or_false, Ev.upd.injEq, reduceCtorEq, false_or] at ha
  rcases ha with rfl | rfl | rfl <;> (intro r hr; revert r; decide)

example : survivors [.upd exA, .upd exB, .rel 1, .upd exA] = [exA, exB] := by decide
example : refCount (run [0, 0] [.upd exA, .upd exB, .rel 1, .upd exA]) 0 = 2 := by decide
example : getRes (run [0, 0] [.upd exA, .upd exB, .rel 1, .upd exA]).res 0 = (3000, 5) := by decide

/-- FULL STATEMENT (does NOT hold for the code as written): the rebuilt ledger is identical to the
    live one *including* the per-CPU `ExclusivePolicy` marker, for every delivery order:
      `∀ topo l₁ l₂, l₁.Perm l₂ → Nodup uids → ∀ c, markOf (build topo l₁).mark c = markOf (build topo l₂).mark c`.
    `addPodAllocation` assigns `cpuInfo.ExclusivePolicy = request.CPUExclusivePolicy` (last writer
    wins), so two holders of one CPU with different policies make the marker order dependent.
    Known finding `C19:numa-excl-mark-last-writer`. -/
theorem excl_mark_order_counterexample :
    ¬ (∀ (topo : List Nat) (l₁ l₂ : List PodAlloc), l₁.Perm l₂ → (l₁.map (·.uid)).Nodup →
        ∀ c, markOf (build topo l₁).mark c = markOf (build topo l₂).mark c) := by
  intro h
  have := h [0, 0] [exA, exB] [exB, exA] (List.Perm.swap exB exA []) (by decide) 0
  revert this
  decide


/-- PROVED PART of the marker statement (`_partial`; the full statement is refuted above): in a cache
    rebuilt from annotated objects with distinct uids, whenever all holders of a CPU agree on the
    exclusive policy, the CPU's marker is that policy — hence independent of the delivery order.
    Missing for the full statement: holders that disagree (last writer wins), and live histories
    with releases (`release` never restores the marker of a CPU that stays held). -/
theorem excl_mark_build_partial (topo : List Nat) (l : List PodAlloc) (hl : (l.map (·.uid)).Nodup)
    (c e : Nat) (hheld : ∃ a ∈ l, c ∈ a.cpus) (hagree : ∀ a ∈ l, c ∈ a.cpus → a.excl = e) :
    markOf (build topo l).mark c = e := by
  have hfold : build topo l = l.foldl (update topo) St.init := by
    unfold build run
    rw [List.foldl_map]
    rfl
  have h := foldl_update_fresh topo l St.init hl (by simp [St.init])
    (by intro c e hex; simp [St.init] at hex)
  rw [hfold]
  apply h.1 c e
  · obtain ⟨a, ha, hc⟩ := hheld
    exact ⟨a, by rw [h.2]; simp [ha], hc⟩
  · intro p hp hc
    rw [h.2] at hp
    simp only [St.init, List.append_nil, List.mem_reverse] at hp
    exact hagree p hp hc

theorem excl_mark_order_independent_partial (topo : List Nat) (l₁ l₂ : List PodAlloc) (hp : l₁.Perm l₂)
    (hl : (l₁.map (·.uid)).Nodup) (c e : Nat) (hheld : ∃ a ∈ l₁, c ∈ a.cpus)
    (hagree : ∀ a ∈ l₁, c ∈ a.cpus → a.excl = e) :
    markOf (build topo l₁).mark c = markOf (build topo l₂).mark c := by
  rw [excl_mark_build_partial topo l₁ hl c e hheld hagree]
  rw [excl_mark_build_partial topo l₂ ((hp.map _).nodup_iff.1 hl) c e
    (by obtain ⟨a, ha, hc⟩ := hheld; exact ⟨a, hp.mem_iff.1 ha, hc⟩)
    (fun a ha => hagree a (hp.mem_iff.2 ha))]

/-! ### event shapes on the rebuild side (proofs: Proofs/C19ExtEvents.lean)

A restarting / second scheduler did not run Reserve itself; the first EFFECTIVE delivery of a bound pod can be an
update event whose old and new objects carry the same annotations (add(unbound, annotated) then the bind
update; or an add dropped because the node's topology was not known yet, then a no-change resync).  The handler
must record from the NEW object whatever the OLD one was. -/

/-- for a bound new object `podEventHandler.updatePod` never looks at the old object. -/
theorem update_records_regardless_of_old (topo : List Nat) (s : St) (old₁ old₂ : Option Obj) (o : Obj)
    (ha : o.assigned = true) : onUpdate topo s old₁ o = onUpdate topo s old₂ o :=
  Ev.update_records_regardless_of_old topo s old₁ old₂ o ha

/-- …it records (`update` = release + add) the allocation restored from the new object's annotations. -/
theorem update_records_restored (topo : List Nat) (s : St) (old : Option Obj) (o : Obj) (a : PodAlloc)
    (ha : o.assigned = true) (ht : o.term = false)
    (hr : restore o.uid o.excl (o.annot.getD { text := [], numa := [] }) = some a) :
    onUpdate topo s old o = update topo s a :=
  Ev.update_records_restored topo s old o a ha ht hr

/-- delivery shape add(unbound, annotated) → update(unbound → bound, same annotations) rebuilds exactly what
    the plain add(bound) rebuilds. -/
theorem unbound_then_bound_eq_add (topo : List Nat) (s : St) (o : Obj) (ha : o.assigned = true) :
    onUpdate topo (onUpdate topo s none o.unbound) (some o.unbound) o = onUpdate topo s none o :=
  Ev.unbound_then_bound_eq_add topo s o ha

/-- delivery shape add(bound) before the node's CPU topology is known (dropped by `resourceManager.Update`) →
    topology arrives → no-change resync update(old = new) rebuilds exactly what the plain add rebuilds. -/
theorem early_then_resync_eq_add (topo : List Nat) (s : St) (o : Obj) (ha : o.assigned = true) (ht : o.term = false) :
    onUpdateT true topo (onUpdateT false topo s none o) (some o) o = onUpdate topo s none o :=
  Ev.early_then_resync_eq_add topo s o ha ht

/-- non-vacuity: the bind update of a pod holding CPU 0 does change an empty ledger. -/
example : onUpdate [0, 0] St.init (some (Obj.unbound ⟨1, true, false, 0, some ⟨[48], []⟩⟩))
    ⟨1, true, false, 0, some ⟨[48], []⟩⟩ ≠ St.init := by
  decide

/-! ## C. the codec: CPU-set text and the persisted record -/

/-- **T1 cpuset_roundtrip**: for every finite CPU set within `[0, 4096]` (as a strictly ascending
    list) `cpuset.Parse(set.String())` succeeds and returns exactly the set — at the byte level
    (decimal digits, `-`, `,`; `strconv.Itoa`, `strings.Split`, `strconv.ParseInt(_, 10, 32)`). -/
theorem cpuset_roundtrip (s : List Nat) (hasc : s.Pairwise (· < ·)) (hmax : ∀ x ∈ s, x ≤ 4096) :
    parseText (formatText s) = some s :=
  parse_format s hasc hmax

/-- the bound of T1 is the code's own (`maxAvailableCPUCount`): a run that ends above 4096 is
    written as a range and rejected when read back, so a CPU id above 4096 would not survive. -/
theorem cpuset_roundtrip_bound_needed : parseText (formatText [4096, 4097]) = none := by
  have h1 : formatText [4096, 4097] = fmtRng ⟨4096, 4097⟩ := by
    simp [formatText, compress, compressGo, joinComma]
  have h2 : parsePiece (fmtRng ⟨4096, 4097⟩) = none := by
    unfold parsePiece
    rw [splitOn_fmtRng]
    simp only [show ¬ (4096 : Nat) = 4097 by omega, if_false]
    rw [parseInt32_itoa _ (by decide), parseInt32_itoa _ (by decide)]
    simp [maxCPU]
  unfold parseText
  rw [h1, if_neg (fmtRng_ne_nil _), splitOn_not_mem _ _ (fmtRng_no_comma _)]
  simp [parsePieces, h2]

/-- `Parse` also accepts what `String` never writes (unsorted, overlapping, signed, zero-padded). -/
example : parseText [51, 44, 49, 45, 50, 44, 50] = some [1, 2, 3] := by decide        -- "3,1-2,2"
example : parseText [43, 49, 44, 48, 48, 55] = some [1, 7] := by decide               -- "+1,007"
example : parseText [49, 45] = none := by decide                                     -- "1-"
example : parseText [48, 45, 53, 48, 48, 48] = none := by decide                     -- "0-5000"

/-- **T2 restore ∘ persist = id**: the allocation an informer event handler restores from the record
    written at PreBind is exactly the allocation that was reserved (CPU set within [0,4096],
    something allocated). -/
theorem restore_persist (a : PodAlloc) (hasc : a.cpus.Pairwise (· < ·)) (hmax : ∀ c ∈ a.cpus, c ≤ 4096)
    (hne : a.cpus ≠ [] ∨ a.numa ≠ []) : restore a.uid a.excl (persist a) = some a := by
  unfold restore persist
  simp only [cpuset_roundtrip a.cpus hasc hmax]
  rw [if_neg]
  intro h
  rcases hne with h1 | h1
  · exact h1 h.2
  · exact h1 (List.eq_nil_of_length_eq_zero h.1)

/-- an allocation that took nothing restores to "nothing to record" (the handler returns early). -/
theorem restore_persist_empty (a : PodAlloc) (h1 : a.cpus = []) (h2 : a.numa = []) :
    restore a.uid a.excl (persist a) = none := by
  unfold restore persist
  simp [h1, h2, formatText, compress, joinComma, parseText]

/-- the bound, running object the API server holds for allocation `a` after PreBind. -/
def objOf (a : PodAlloc) : Obj :=
  { uid := a.uid, assigned := true, term := false, excl := a.excl, annot := some (persist a) }

/-- **the informer add / update event of a persisted object is exactly `resourceManager.Update`
    with the allocation that was reserved** — this ties the handler-level replay to `build`. -/
theorem replay_event_eq_update (topo : List Nat) (s : St) (old : Option Obj) (a : PodAlloc)
    (hasc : a.cpus.Pairwise (· < ·)) (hmax : ∀ c ∈ a.cpus, c ≤ 4096) (hne : a.cpus ≠ [] ∨ a.numa ≠ []) :
    onUpdate topo s old (objOf a) = update topo s a := by
  unfold onUpdate objOf
  simp only [Bool.not_true, Bool.false_eq_true, if_false, Option.getD_some]
  rw [restore_persist a hasc hmax hne]

/-- a terminated or deleted object releases its allocation whatever its annotation says. -/
theorem terminated_releases (topo : List Nat) (s : St) (old : Option Obj) (o : Obj)
    (h1 : o.assigned = true) (h2 : o.term = true) : onUpdate topo s old o = release topo s o.uid := by
  unfold onUpdate
  simp [h1, h2]

example : restore exA.uid exA.excl (persist exA) = some exA :=
  restore_persist exA (by decide) (by decide) (by decide)

/-- the exclusive policy an allocation was made with can be read back from the persisted object,
    for pods and for Reservations carrying their resource spec on themselves or on `spec.template`
    (the last case was finding `C19:numa-reservation-excl-shadowed`, repaired by commit 50a5eb3;
    the harness still exercises all three kinds and keeps the fingerprint). -/
theorem persistedExcl_eq (kind : Nat) (a : PodAlloc) : persistedExcl kind a = a.excl := rfl

/-! ## D. deviceshare ledger (model and proofs: Model/C19Dev.lean, Proofs/C19Dev.lean; VF ledger: D-VF below) -/

/-- live = rebuilt for the device cache: after every well-formed history of add / delete /
    same-allocation update events, `deviceUsed`, `deviceFree` and `allocateSet` of a fresh cache fed
    one add per surviving allocation equal those of the live cache. -/
theorem dev_live_eq_rebuilt (total : Dev.Tab) (h : List Dev.Ev) (wf : Dev.WellFormed h) :
    let live := Dev.run (Dev.St.init total) h
    let fresh := Dev.build total (Dev.survivors h)
    (∀ k, Dev.usedAt live k = Dev.usedAt fresh k) ∧ (∀ k, Dev.freeAt live k = Dev.freeAt fresh k) ∧
    live.aset = fresh.aset ∧ ∀ un, Dev.render un live = Dev.render un fresh :=
  Dev.live_eq_rebuilt total h wf

/-- order independence of the device-cache replay (distinct (node, type, pod) keys, amounts ≥ 0). -/
theorem dev_order_independent (total : Dev.Tab) {l₁ l₂ : List Dev.Group} (hp : l₁.Perm l₂)
    (hnd : (l₁.map Dev.Group.key).Nodup) (hnn : ∀ g ∈ l₁, g.Nonneg) :
    (∀ k, Dev.usedAt (Dev.build total l₁) k = Dev.usedAt (Dev.build total l₂) k) ∧
    (∀ k, Dev.freeAt (Dev.build total l₁) k = Dev.freeAt (Dev.build total l₂) k) ∧
    (∀ key, Dev.recorded (Dev.build total l₁).aset key = Dev.recorded (Dev.build total l₂).aset key) :=
  Dev.build_perm total hp hnd hnn

/-- a duplicate add event is skipped by the `isValid` guard (any state, any allocation). -/
theorem dev_dup_add_noop (st : Dev.St) (g : Dev.Group) :
    Dev.addGroup (Dev.addGroup st g) g = Dev.addGroup st g :=
  Dev.dup_add_noop st g

/-- a same-allocation update of a surviving pod leaves used / free / membership unchanged. -/
theorem dev_same_update_noop (total : Dev.Tab) (h : List Dev.Ev) (g : Dev.Group)
    (wf : Dev.WellFormed (h ++ [Dev.Ev.upd g])) (hg : g ∈ Dev.survivors h) :
    let st := Dev.run (Dev.St.init total) h
    (∀ k, Dev.usedAt (Dev.step st (.upd g)) k = Dev.usedAt st k) ∧
    (∀ k, Dev.freeAt (Dev.step st (.upd g)) k = Dev.freeAt st k) ∧
    (∀ key, Dev.recorded (Dev.step st (.upd g)).aset key = Dev.recorded st.aset key) :=
  Dev.same_update_noop total h g wf hg

/-- no device share taken before the restart is free after it. -/
theorem dev_taken_not_free (total : Dev.Tab) (h : List Dev.Ev) (wf : Dev.WellFormed h) (k : Dev.Slot) :
    let fresh := Dev.build total (Dev.survivors h)
    (∀ g ∈ Dev.survivors h, Dev.gAmt g k ≤ Dev.usedAt fresh k) ∧
    Dev.usedAt fresh k = Dev.taken (Dev.survivors h) k ∧
    Dev.freeAt fresh k = max 0 (Dev.get total k - Dev.taken (Dev.survivors h) k) :=
  Dev.taken_not_free total h wf k

/-! ### D-VF. the VF ledger `nodeDevice.vfAllocations` (Model/C19DevVF.lean, paired with the device
    ledger under the same isValid guard; proofs: Proofs/C19ExtDevVF.lean).  `Dev.VWF h` (decidable):
    every event about a (node, type, pod) key carries the same allocation, and at every point of the
    history no VF is held by two present allocations. -/

/-- forgetting the VFs, the paired model is the device model above (so D applies to its `.st`). -/
theorem dev_vf_refines (s : Dev.StV) (h : List Dev.VEv) :
    (Dev.runV s h).st = Dev.run s.st (h.map Dev.VEv.ev) :=
  Dev.runV_st s h

/-- live = rebuilt for the VF ledger: same bus ids per (node, type, minor), same `vf` lines. -/
theorem dev_vf_live_eq_rebuilt (total : Dev.Tab) (h : List Dev.VEv) (wf : Dev.VWF h = true) :
    let live := Dev.runV (Dev.StV.init total) h
    let fresh := Dev.buildV total (Dev.vsurvivors h)
    (∀ k b, Dev.vfHas live.vf k b = Dev.vfHas fresh.vf k b) ∧
    (∀ un, Dev.vfRender un live.vf = Dev.vfRender un fresh.vf) :=
  Dev.vf_live_eq_rebuilt total h wf

/-- the rebuilt VF ledger does not depend on the delivery order (distinct (node, type, pod) keys). -/
theorem dev_vf_order_independent (total : Dev.Tab) {l₁ l₂ : List Dev.VGroup} (hp : l₁.Perm l₂)
    (hnd : (l₁.map Dev.VGroup.key).Nodup) :
    (∀ k b, Dev.vfHas (Dev.buildV total l₁).vf k b = Dev.vfHas (Dev.buildV total l₂).vf k b) ∧
    (∀ un, Dev.vfRender un (Dev.buildV total l₁).vf = Dev.vfRender un (Dev.buildV total l₂).vf) :=
  Dev.vf_order_independent total hp hnd

/-- a duplicate add is skipped, VF ledger included (any state, any allocation). -/
theorem dev_vf_dup_add_noop (s : Dev.StV) (v : Dev.VGroup) :
    Dev.addGroupV (Dev.addGroupV s v) v = Dev.addGroupV s v :=
  Dev.vf_dup_add_noop s v

/-- a same-allocation update of a surviving allocation leaves the VF ledger unchanged. -/
theorem dev_vf_same_update_noop (total : Dev.Tab) (h : List Dev.VEv) (v : Dev.VGroup)
    (wf : Dev.VWF (h ++ [Dev.VEv.upd v]) = true) (wf0 : Dev.VWF h = true) (hv : v ∈ Dev.vsurvivors h) :
    let s := Dev.runV (Dev.StV.init total) h
    ∀ k b, Dev.vfHas (Dev.stepV s (.upd v)).vf k b = Dev.vfHas s.vf k b :=
  Dev.vf_same_update_noop total h v wf wf0 hv

/-- no VF taken before the restart is offered after it: the rebuilt cache records exactly the VFs the
    survivors stand for, and every bus id of a persisted annotation whose VF-carrying
    DeviceAllocations have distinct minors (without that: `Dev.vf_taken_dup_minor_counterexample`). -/
theorem dev_vf_taken_not_free (total : Dev.Tab) (h : List Dev.VEv) (wf : Dev.VWF h = true) :
    let fresh := Dev.buildV total (Dev.vsurvivors h)
    (∀ v ∈ Dev.vsurvivors h, ∀ x ∈ v.ents, Dev.vfHas fresh.vf x.1 x.2 = true) ∧
    (∀ v ∈ Dev.vsurvivors h, v.MinorsDistinct → ∀ x ∈ v.rawEnts, Dev.vfHas fresh.vf x.1 x.2 = true) ∧
    (∀ k b, Dev.vfHas fresh.vf k b = true → ∃ v ∈ Dev.vsurvivors h, (k, b) ∈ v.ents) :=
  Dev.vf_taken_not_free total h wf

/-- the disjointness part of `VWF` is needed: the ledger records no owner, so with one VF held by
    two allocations a delete of one frees the other's VF (live ≠ rebuilt). -/
theorem dev_vf_shared_remove_counterexample :
    ¬ (∀ (h : List Dev.VEv), Dev.vfuncOK h = true →
        ∀ k b, Dev.vfHas (Dev.runV (Dev.StV.init []) h).vf k b
          = Dev.vfHas (Dev.buildV [] (Dev.vsurvivors h)).vf k b) :=
  Dev.vf_live_eq_rebuilt_needs_disjoint_counterexample

/-! ## R. reservation ledger (model and proofs: Model/C19Rsv.lean, Proofs/C19Rsv.lean) -/

/-- live = rebuilt for one ReservationInfo: after every history of assign / bound / same-assignment
    update / delete / reservation-update, Allocated and AssignedPods equal what a fresh scheduler
    rebuilds from the surviving assignments (reservation delivered before its pods). -/
theorem rsv_live_eq_rebuilt (rid node : Nat) (once : Bool) (decl : Rsv.Req) (h : List Rsv.LiveOp) :
    (∀ d, (Rsv.run (Rsv.newInfo rid node once decl, []) h).1.allocated d =
          (Rsv.build (Rsv.newInfo rid node once decl) (Rsv.run (Rsv.newInfo rid node once decl, []) h).2).allocated d) ∧
    (Rsv.run (Rsv.newInfo rid node once decl, []) h).1.pods.Perm
      (Rsv.build (Rsv.newInfo rid node once decl) (Rsv.run (Rsv.newInfo rid node once decl, []) h).2).pods :=
  Rsv.live_eq_rebuilt rid node once decl h

/-- order independence of the pod replay into a freshly created ReservationInfo. -/
theorem rsv_order_independent {l₁ l₂ : List (Nat × Rsv.Req)} (h : l₁.Perm l₂) (nd : (l₁.map Prod.fst).Nodup)
    (rid node : Nat) (once : Bool) (decl : Rsv.Req) :
    (∀ d, (Rsv.build (Rsv.newInfo rid node once decl) l₁).allocated d =
          (Rsv.build (Rsv.newInfo rid node once decl) l₂).allocated d) ∧
    (Rsv.build (Rsv.newInfo rid node once decl) l₁).pods.Perm (Rsv.build (Rsv.newInfo rid node once decl) l₂).pods :=
  Rsv.build_perm_fresh h nd rid node once decl

theorem rsv_dup_add_noop (ri : Rsv.Info) (pid : Nat) (q q' : Rsv.Req) :
    Rsv.addAssigned (Rsv.addAssigned ri pid q) pid q' = Rsv.addAssigned ri pid q :=
  Rsv.dup_add_noop ri pid q q'

theorem rsv_same_update_noop {ri : Rsv.Info} (w : Rsv.WF ri) {pid : Nat} {q : Rsv.Req}
    (h : ri.pods.lookup pid = some q) :
    (∀ d, (Rsv.addAssigned (Rsv.removeAssigned ri pid) pid q).allocated d = ri.allocated d) ∧
    (Rsv.addAssigned (Rsv.removeAssigned ri pid) pid q).pods.Perm ri.pods ∧
    Rsv.WF (Rsv.addAssigned (Rsv.removeAssigned ri pid) pid q) :=
  Rsv.same_update_noop w h

/-- no reserved amount taken before the restart is free after it: the rebuilt Allocated is the sum of
    the masked requests of the surviving assigned pods. -/
theorem rsv_allocated_eq_sum (rid node : Nat) (once : Bool) (decl : Rsv.Req) (h : List Rsv.LiveOp) (d : Nat) :
    (Rsv.run (Rsv.newInfo rid node once decl, []) h).1.allocated d =
      Rsv.sumMasked decl d (Rsv.run (Rsv.newInfo rid node once decl, []) h).2 :=
  Rsv.rebuilt_allocated_eq_sum rid node once decl h d

/-- PROVED PART (`_partial`) of "the rebuilt reservation cache equals the live one for every delivery
    order": it holds whenever every Reservation is delivered before the pods assigned to it (the
    ReservationInfo exists when its pods are replayed; the pods themselves in any order, by
    `rsv_order_independent`).  Missing for the full statement: a pod delivered before its Reservation
    is dropped (counterexample below). -/
theorem rsv_rebuilt_eq_live_partial (rid node : Nat) (once : Bool) (decl : Rsv.Req) (h : List Rsv.LiveOp)
    (l : List (Nat × Rsv.Req)) (hl : l.Perm (Rsv.run (Rsv.newInfo rid node once decl, []) h).2)
    (nd : (l.map Prod.fst).Nodup) :
    (∀ d, (Rsv.run (Rsv.newInfo rid node once decl, []) h).1.allocated d =
          (Rsv.build (Rsv.newInfo rid node once decl) l).allocated d) ∧
    (Rsv.run (Rsv.newInfo rid node once decl, []) h).1.pods.Perm (Rsv.build (Rsv.newInfo rid node once decl) l).pods := by
  have h1 := Rsv.live_eq_rebuilt rid node once decl h
  have h2 := Rsv.build_perm_fresh hl nd rid node once decl
  exact ⟨fun d => (h1.1 d).trans (h2.1 d).symm, h1.2.trans h2.2.symm⟩

/-- FULL STATEMENT (does NOT hold for the code as written): the reservation cache rebuilt from the
    surviving objects is independent of the relative delivery order of pods and reservations.
    `cache.updatePod` drops a pod whose reservation UID is not in the cache yet and nothing replays
    it when the Reservation arrives: pod-then-reservation leaves the reservation with nothing
    allocated.  Finding `C19:rsv-early-pod-lost`. -/
theorem rsv_early_pod_lost_counterexample :
    ((Rsv.handlerUpdate (({} : Rsv.Cache).updateReservation 1 1 false [8000, 64, 8]) none
        { pid := 1, rid := some 1, q := [1000, 5, -1], term := false }).get 1).map (fun i => i.allocated 0)
      = some 1000 ∧
    (((Rsv.handlerUpdate ({} : Rsv.Cache) none
        { pid := 1, rid := some 1, q := [1000, 5, -1], term := false }).updateReservation 1 1 false [8000, 64, 8]).get 1).map
        (fun i => i.allocated 0)
      = some 0 := by
  decide

/-! ### event shapes on the rebuild side (proofs: Proofs/C19ExtEvents.lean) -/

/-- for a running pod annotated for a reservation that is in the cache, an add / update whose old object is
    absent, un-annotated, or the same pod annotated for the SAME reservation (its unbound version; the identical
    object of a resync) always runs `AddAssignedPod(new)`: a same-reservation update is never skipped. -/
theorem rsv_update_records_regardless_of_old (c : Rsv.Cache) (old : Option Rsv.Pod) (new : Rsv.Pod) (r : Nat) (ri : Rsv.Info)
    (hterm : new.term = false) (hr : new.rid = some r) (hget : c.get r = some ri)
    (hold : Rsv.Ev.FirstDeliveryOld old new r) :
    (Rsv.handlerUpdate c old new).get r = some (Rsv.addAssigned (Rsv.Ev.baseInfo old ri new.pid) new.pid new.q) :=
  Rsv.Ev.rsv_update_records_regardless_of_old c old new r ri hterm hr hget hold

/-- hence afterwards the pod IS in AssignedPods of its reservation… -/
theorem rsv_update_assigns (c : Rsv.Cache) (old : Option Rsv.Pod) (new : Rsv.Pod) (r : Nat) (ri : Rsv.Info)
    (hterm : new.term = false) (hr : new.rid = some r) (hget : c.get r = some ri)
    (hold : Rsv.Ev.FirstDeliveryOld old new r) :
    ∃ ri', (Rsv.handlerUpdate c old new).get r = some ri' ∧ new.pid ∈ Rsv.keys ri' :=
  Rsv.Ev.rsv_update_assigns c old new r ri hterm hr hget hold

/-- …with its masked request allocated on top of what the other pods hold (first delivery, or old carried the
    same assignment and its record is replaced). -/
theorem rsv_update_allocates (c : Rsv.Cache) (old : Option Rsv.Pod) (new : Rsv.Pod) (r : Nat) (ri : Rsv.Info)
    (hterm : new.term = false) (hr : new.rid = some r) (hget : c.get r = some ri)
    (hold : Rsv.Ev.FirstDeliveryOld old new r)
    (hfirst : new.pid ∉ Rsv.keys ri ∨ ∃ o, old = some o ∧ o.rid = some r ∧ o.pid = new.pid) :
    ∃ ri', (Rsv.handlerUpdate c old new).get r = some ri' ∧
      ri'.pods.lookup new.pid = some new.q ∧
      ∀ d, ri'.allocated d = (Rsv.Ev.baseInfo old ri new.pid).allocated d + Rsv.masked ri.decl new.q d :=
  Rsv.Ev.rsv_update_allocates c old new r ri hterm hr hget hold hfirst

/-- non-vacuity: the bind update (old = the unbound version: same pod, same annotation) of the FIRST pod of a
    reservation allocates its request. -/
example :
    ((Rsv.handlerBind (({} : Rsv.Cache).updateReservation 1 1 false [8000, 64, 8])
        { pid := 1, rid := some 1, q := [1000, 5, -1], term := false }).get 1).map (fun i => i.allocated 0)
      = some 1000 := by
  decide

/-! ### R'. the WHOLE reservation cache (map of ReservationInfo + per-node indexes), Proofs/C19ExtRsvCache.lean -/

/-- **rebuilt = live for the whole reservation cache**: for every well-formed history of Reservation add /
    update events and pod add / update / re-assignment / un-assignment / terminate / delete events over any
    number of Reservations and nodes, the live cache and the cache a fresh scheduler rebuilds from the
    survivors (Reservations first, in any order; then the pods, in any order) have the same ReservationInfos
    (node, allocate-once, declared amounts, Allocated in every dimension, AssignedPods up to order) and the same
    per-node indexes.  `wfHist` is decidable: a Reservation update keeps its spec, an annotated pod names a
    Reservation already delivered (the opposite is C19:rsv-early-pod-lost), a terminating update keeps the
    annotation; each clause has a `…_needs_…_counterexample` in the proofs file. -/
theorem rsv_cache_rebuilt_eq_live (h : List Rsv.Ev) (wf : Rsv.wfHist h = true) (R : List Rsv.RObj) (P : List Rsv.Pod)
    (hR : R.Perm (Rsv.survivors h).1) (hP : P.Perm (Rsv.survivors h).2) :
    Rsv.CacheEq (Rsv.live h) (Rsv.rebuild R P) :=
  Rsv.cache_rebuilt_eq_live h wf R P hR hP

/-- the same for ANY interleaving of Reservation and pod deliveries in which every pod's Reservation is
    delivered earlier (`resvFirst`, the exact order hypothesis the code needs). -/
theorem rsv_cache_rebuilt_eq_live_interleaved (h : List Rsv.Ev) (wf : Rsv.wfHist h = true) (l : List Rsv.Dlv)
    (hR : (Rsv.resvsOf l).Perm (Rsv.survivors h).1) (hP : (Rsv.podsOf l).Perm (Rsv.survivors h).2)
    (ord : Rsv.resvFirst l = true) : Rsv.CacheEq (Rsv.live h) (Rsv.rebuildSeq l) :=
  Rsv.cache_rebuilt_eq_live_interleaved h wf l hR hP ord

/-- the whole rebuilt cache does not depend on the delivery order of Reservations / of pods. -/
theorem rsv_cache_rebuild_order_independent (h : List Rsv.Ev) (wf : Rsv.wfHist h = true) {R₁ R₂ : List Rsv.RObj}
    {P₁ P₂ : List Rsv.Pod} (hR₁ : R₁.Perm (Rsv.survivors h).1) (hP₁ : P₁.Perm (Rsv.survivors h).2)
    (hR₂ : R₂.Perm (Rsv.survivors h).1) (hP₂ : P₂.Perm (Rsv.survivors h).2) :
    Rsv.CacheEq (Rsv.rebuild R₁ P₁) (Rsv.rebuild R₂ P₂) :=
  Rsv.cache_rebuild_order_independent_hist h wf hR₁ hP₁ hR₂ hP₂


/-! ## Q. elasticquota: the quota a pod is charged to (model Model/C19Quota.lean + C19QuotaSpec.lean, proofs
Proofs/C19ExtQuota*.lean) -/

/-- **quota_rebuilt_eq_live**: for EVERY live history of the plugin (quota add / update / delete, ReplaceQuotas, pod
    add / update / delete, Reserve / Unreserve, migration ticks) that satisfies the decidable hypotheses `okHist`
    (props/C19.json assumptions; the driver evaluates them on every strict generated history) and EVERY delivery `d`
    of the final objects to a fresh scheduler with `isDelivery` (every final quota object reaches OnQuotaAdd or the
    store before ReplaceQuotas, ReplaceQuotas before the first pod, every alive pod delivered at least once -
    duplicates allowed - and when a pod is delivered its resolution is already the final one), the rebuilt ledger
    equals the live ledger after its next migration tick: same known quotas, same (quota, pod) charges, same
    assigned flags, same self request and self used of every quota. -/
theorem quota_rebuilt_eq_live (hist d : List Quota.Op) (h : Quota.okHist hist = true)
    (hd : Quota.isDelivery (Quota.run {} hist) (Quota.worldAfter hist) d = true) :
    Quota.LedgerEq (Quota.run {} (hist ++ [.migrate])) (Quota.run {} (d ++ [.migrate])) :=
  Quota.quota_rebuilt_eq_live hist d h hd

/-- the rebuilt ledger does not depend on the delivery order nor on duplicates. -/
theorem quota_rebuild_order_independent (hist d1 d2 : List Quota.Op) (h : Quota.okHist hist = true)
    (h1 : Quota.isDelivery (Quota.run {} hist) (Quota.worldAfter hist) d1 = true)
    (h2 : Quota.isDelivery (Quota.run {} hist) (Quota.worldAfter hist) d2 = true) :
    Quota.LedgerEq (Quota.run {} (d1 ++ [.migrate])) (Quota.run {} (d2 ++ [.migrate])) :=
  Quota.quota_rebuild_order_independent' hist d1 d2 h h1 h2

/-- nothing taken is free: after the tick the live ledger (hence the rebuilt one) is the from-scratch ledger of the
    objects - every alive pod is cached exactly by the group it resolves to, assigned iff bound, and self request /
    self used are the sums over those pods. -/
theorem quota_live_canon (hist : List Quota.Op) (h : Quota.okHist hist = true) :
    Quota.Canon (Quota.run {} (hist ++ [.migrate])) (Quota.worldAfter hist) :=
  Quota.quota_live_canon hist h

/-- open finding `C19:quota-double-charge-after-namespace-unclaim` on the model (which agrees with the code on
    this history): quota 3 claims namespace 9, the unlabelled bound pod 1 lives there, quota 3 gives the claim up,
    the pod's next update files it under the default group while quota 3 keeps it; a restart charges only the
    default group.  The history violates `okHist` (a quota update moved a cached pod between two groups). -/
theorem quota_double_charge_after_namespace_unclaim_counterexample :
    let q3 : Quota.QObj := { name := 3, own := false, nss := [9] }
    let q3' : Quota.QObj := { name := 3, own := false, nss := [] }
    let p : Quota.PodObj := { id := 1, label := 0, ns := 9, req := 1000, node := true, term := false, rv := 1 }
    let p' : Quota.PodObj := { p with rv := 2 }
    let hist : List Quota.Op := [.qput q3, .padd p, .qput q3', .pupd p p']
    let d : List Quota.Op := [.qput q3', .padd p']
    Quota.okHist hist = false ∧
    Quota.isDelivery (Quota.run {} hist) (Quota.worldAfter hist) d = true ∧
    Quota.hasE (Quota.run {} (hist ++ [.migrate])) 3 1 = true ∧ Quota.hasE (Quota.run {} (hist ++ [.migrate])) 1 1 = true ∧
    Quota.getC (Quota.run {} (hist ++ [.migrate])).used 3 = 1000 ∧
    Quota.hasE (Quota.run {} (d ++ [.migrate])) 3 1 = false ∧ Quota.hasE (Quota.run {} (d ++ [.migrate])) 1 1 = true := by
  decide

/-- finding `C19:quota-stale-cached-pod-migration`, REPAIRED in /repo by 7265fb2 (the cached object follows the
    updates): pod labelled 7 (missing) is held by the default group, its label changes to 8 (missing), quota 8
    appears; the migration tick now resolves the refreshed object and moves the pod to quota 8, exactly what a
    restart rebuilds (before the fix the pod stayed in the default group; the harness keeps the fingerprint armed). -/
theorem quota_stale_cached_pod_migration_repaired :
    let q8 : Quota.QObj := { name := 8, own := false, nss := [] }
    let p : Quota.PodObj := { id := 1, label := 7, ns := 9, req := 500, node := true, term := false, rv := 1 }
    let p' : Quota.PodObj := { p with label := 8, rv := 2 }
    let hist : List Quota.Op := [.padd p, .pupd p p', .qput q8]
    let d : List Quota.Op := [.qput q8, .padd p']
    Quota.isDelivery (Quota.run {} hist) (Quota.worldAfter hist) d = true ∧
    Quota.hasE (Quota.run {} (hist ++ [.migrate])) 8 1 = true ∧ Quota.hasE (Quota.run {} (hist ++ [.migrate])) 1 1 = false ∧
    Quota.getC (Quota.run {} (hist ++ [.migrate])).used 8 = 500 ∧ Quota.getC (Quota.run {} (hist ++ [.migrate])).used 1 = 0 ∧
    Quota.hasE (Quota.run {} (d ++ [.migrate])) 8 1 = true ∧ Quota.hasE (Quota.run {} (d ++ [.migrate])) 1 1 = false := by
  decide

/-- a bound pod that turns Succeeded keeps its used live and is not charged after a restart (excluded by `okHist`;
    koord-scheduler's pod informer filters terminal phases, so the handlers see a delete instead). -/
theorem quota_terminated_keeps_used_counterexample :
    let pt : Quota.PodObj := { id := 1, label := 0, ns := 9, req := 100, node := true, term := false, rv := 1 }
    let pt2 : Quota.PodObj := { pt with term := true, rv := 2 }
    let hist : List Quota.Op := [.padd pt, .pupd pt pt2]
    let d : List Quota.Op := [.padd pt2]
    Quota.okHist hist = false ∧ Quota.isDelivery (Quota.run {} hist) (Quota.worldAfter hist) d = true ∧
    Quota.getC (Quota.run {} (hist ++ [.migrate])).used 1 = 100 ∧ Quota.getC (Quota.run {} (d ++ [.migrate])).used 1 = 0 :=
  Quota.quota_terminated_keeps_used_counterexample

/-- the hypotheses are satisfiable on a non-trivial history (3 quotas, pod before its quota -> parked -> migrated,
    Reserve + bind, namespace-annotation and own-namespace pods, deletes, a quota delete) and two deliveries. -/
example : Quota.okHist Quota.Ex.hist = true := by decide
example : Quota.isDelivery (Quota.run {} Quota.Ex.hist) (Quota.worldAfter Quota.Ex.hist) Quota.Ex.deliv = true := by decide


/-! ## S. start-up glue (ext2; model Model/C19Boot.lean, proofs Proofs/C19ExtBoot.lean)

### S1. the reserve pod reads the Reservation object's own values
What a (re)started scheduler reads for a Reservation is the pod built by `NewReservePod` (every Reservation informer
handler goes through ReservationToPodEventHandler).  PreBindReservation persists resource-status / device-allocated on
the Reservation OBJECT (tie_prebind_reservation_target); spec.template may carry other values for the same keys (a
template copied from a running pod by the migration controller).  Key ids: Model/C19Boot.lean. -/

/-- for EVERY key the adapter does not write itself, the value the Reservation object declares is the value the
    reserve pod carries — whatever the template declares (unique keys: a Go map). -/
theorem reserve_pod_reads_own_allocation (i : Boot.RIn) (k v : Nat) (hn : (i.own.map (·.1)).Nodup)
    (hk : k ∉ Boot.fixedKeys) (h : (k, v) ∈ i.own) : Boot.getK (Boot.reservePodAnnots i) k = some v :=
  Boot.reserve_pod_reads_own i k v hn hk h

/-- hence the allocation decoded from the reserve pod is the allocation that was persisted: for any codec with
    `dec (enc a) = some a` (numa: restore_persist, device: the JSON codec exercised by the harness) -/
theorem reserve_pod_restores_persisted {α : Type} (enc : α → Nat) (dec : Nat → Option α) (a : α)
    (hcodec : dec (enc a) = some a) (i : Boot.RIn) (k : Nat) (hn : (i.own.map (·.1)).Nodup)
    (hk : k ∉ Boot.fixedKeys) (h : (k, enc a) ∈ i.own) :
    (Boot.getK (Boot.reservePodAnnots i) k).bind dec = some a := by
  rw [Boot.reserve_pod_reads_own i k (enc a) hn hk h]; exact hcodec

/-- the template does not matter for a key the object declares -/
theorem reserve_pod_independent_of_template (i : Boot.RIn) (t : Boot.AMap) (k v : Nat) (hn : (i.own.map (·.1)).Nodup)
    (hk : k ∉ Boot.fixedKeys) (h : (k, v) ∈ i.own) :
    Boot.getK (Boot.reservePodAnnots { i with tmpl := t }) k = Boot.getK (Boot.reservePodAnnots i) k := by
  rw [Boot.reserve_pod_reads_own i k v hn hk h, Boot.reserve_pod_reads_own { i with tmpl := t } k v hn hk h]

/-- a key only the template declares is kept (e.g. the resource spec of a Reservation declared on its template) -/
theorem reserve_pod_template_fallback (i : Boot.RIn) (k v : Nat) (hn : (i.tmpl.map (·.1)).Nodup)
    (hk : k ∉ Boot.fixedKeys) (ho : k ∉ i.own.map (·.1)) (h : (k, v) ∈ i.tmpl) :
    Boot.getK (Boot.reservePodAnnots i) k = some v :=
  Boot.reserve_pod_template_fallback i k v hn hk ho h

/-- the hypotheses are satisfiable on a non-trivial input: stale resource-status 7 on the template, live 8 on the object -/
example : Boot.getK (Boot.reservePodAnnots { tmpl := [(0, 7), (1, 5)], own := [(0, 8), (2, 9)] }) 0 = some 8 ∧
    Boot.getK (Boot.reservePodAnnots { tmpl := [(0, 7), (1, 5)], own := [(0, 8), (2, 9)] }) 1 = some 5 := by decide

/-- the merge ORDER matters: if a key of the scheduling domain (ids 0..4) that the template already declares kept the
    template's value, the reserve pod would read the stale allocation. -/
theorem reserve_pod_template_wins_counterexample :
    ¬ (∀ (tmpl own : Boot.AMap) (k v : Nat), (own.map (·.1)).Nodup → (k, v) ∈ own →
        Boot.getK (Boot.overwriteUnlessDeclared (fun k => decide (k ≤ 4)) (Boot.overwrite [] tmpl) own) k = some v) := by
  intro h
  have := h [(0, 7)] [(0, 8)] 0 8 (by decide) (by decide)
  revert this
  decide

/-! ### S2. the handlers-sync barrier covers the rebuild
Registrations R (one per informer handler that rebuilds allocation state), each with the initial list its listener
still has to deliver; any schedule of deliveries (a pinned listener cannot move while the gate is closed); the barrier
(`WaitForHandlersSync`) is open when every COLLECTED registration has delivered its whole list; the first scheduling
cycle runs when the barrier is open. -/

/-- S ⊇ R (every state-rebuilding registration is collected — tie_boot_registrations): in EVERY schedule, when the
    barrier is open the delivered events are exactly (a permutation of) all initial events: the rebuild is complete
    at the first cycle. -/
theorem barrier_covers_rebuild (regs : List Boot.RegInfo) {ε : Type} (init : List (List ε)) (sched : List Boot.Act)
    (hl : regs.length = init.length) (hall : ∀ r ∈ regs, r.inBarrier = true)
    (hopen : Boot.barrierOpen regs (Boot.run regs ({ queues := init } : Boot.Cfg ε) sched) = true) :
    ((Boot.run regs ({ queues := init } : Boot.Cfg ε) sched).log.map (·.2)).Perm init.flatten :=
  Boot.barrier_covers regs init sched hl hall hopen

/-- one registration outside S: there is a schedule in which the barrier is open while that registration's events
    are still missing (pod listener done, Reservation listener pinned and not collected). -/
theorem barrier_misses_uncollected_counterexample :
    ¬ (∀ (regs : List Boot.RegInfo) (init : List (List Nat)) (sched : List Boot.Act), regs.length = init.length →
        Boot.barrierOpen regs (Boot.run regs ({ queues := init } : Boot.Cfg Nat) sched) = true →
        ((Boot.run regs ({ queues := init } : Boot.Cfg Nat) sched).log.map (·.2)).Perm init.flatten) := by
  intro h
  have := h [{ inBarrier := true, gated := false }, { inBarrier := false, gated := true }] [[1], [2]]
    [.deliver 0, .deliver 1] rfl (by decide)
  have hl := this.length_eq
  revert hl
  decide

/-- deviceshare instance: with distinct (node, type, holder) keys and amounts ≥ 0, the ledger the first scheduling
    cycle reads (used, free, allocate-set membership) is the from-scratch ledger of ALL holders — pods and Reservations,
    in whatever order the listeners interleaved; with dev_taken_not_free nothing a holder holds is free. -/
theorem dev_first_cycle_complete (regs : List Boot.RegInfo) (total : Dev.Tab) (init : List (List Dev.Group))
    (sched : List Boot.Act) (hl : regs.length = init.length) (hall : ∀ r ∈ regs, r.inBarrier = true)
    (hnd : (init.flatten.map Dev.Group.key).Nodup) (hnn : ∀ g ∈ init.flatten, g.Nonneg)
    (hopen : Boot.barrierOpen regs (Boot.run regs ({ queues := init } : Boot.Cfg Dev.Group) sched) = true) :
    let seen := (Boot.run regs ({ queues := init } : Boot.Cfg Dev.Group) sched).log.map (·.2)
    (∀ k, Dev.usedAt (Dev.build total seen) k = Dev.usedAt (Dev.build total init.flatten) k) ∧
    (∀ k, Dev.freeAt (Dev.build total seen) k = Dev.freeAt (Dev.build total init.flatten) k) ∧
    (∀ key, Dev.recorded (Dev.build total seen).aset key = Dev.recorded (Dev.build total init.flatten).aset key) :=
  Boot.dev_boot_complete regs total init sched hl hall hnd hnn hopen

/-- the start-up order the harness drives (`bootSeen`, the function the driver runs for `dev boot`) is one of these
    schedules: whenever it reports that the barrier opened, the first cycle has seen every initial event. -/
theorem boot_order_complete (regs : List Boot.RegInfo) {ε : Type} (init : List (List ε))
    (hl : regs.length = init.length) (hall : ∀ r ∈ regs, r.inBarrier = true)
    (hopened : (Boot.bootSeen regs init).2.1 = true) : (Boot.bootSeen regs init).2.2.Perm init.flatten :=
  Boot.bootSeen_complete regs init hl hall hopened

/-- non-vacuous: with the Reservation listener pinned the barrier HOLDS, opens after the gate, and both lists are seen -/
example : Boot.bootSeen [{ inBarrier := true, gated := false }, { inBarrier := true, gated := true }] [[1, 2], [3]]
    = (true, true, [1, 2, 3]) := by decide

/-- … and with that registration not collected the first cycle runs without the Reservation's event -/
example : Boot.bootSeen [{ inBarrier := true, gated := false }, { inBarrier := false, gated := true }] [[1, 2], [3]]
    = (false, true, [1, 2]) := by decide

/-! ### S3. the Reservation → pod adapter (Model/C19Adapter.lean; harness `rflt`)
`NewReservationToPodEventHandler(podHandler, IsObjValidActiveReservation)`: which Reservation versions reach the pod
handler, and as what.  `passes` = ValidateReservation ∧ status.nodeName set ∧ phase ∈ {Available, Waiting}. -/

/-- live: after add(v0) and ANY chain of update events the pod handler holds the reserve pod iff the LAST version is a
    valid, scheduled, unfinished Reservation (Pending → Available adds, Available → Succeeded / Failed releases, a
    version that lost its node name or validity releases …). -/
theorem adapter_live_presence (v0 : Adapter.RV) (vs : List Adapter.RV) :
    Adapter.presentAfter (Adapter.calls v0 vs) = Adapter.passes (Adapter.lastV v0 vs) :=
  Adapter.live_presence v0 vs

/-- rebuilt = live: a restarted scheduler, which sees add(last version) only, holds the reserve pod exactly when the
    live scheduler does — for every version history. -/
theorem adapter_rebuilt_eq_live (v0 : Adapter.RV) (vs : List Adapter.RV) :
    Adapter.presentAfter (Adapter.onAdd (Adapter.lastV v0 vs)) = Adapter.presentAfter (Adapter.calls v0 vs) := by
  rw [Adapter.rebuilt_presence, Adapter.live_presence]

/-- a delete of the last version (plain object or tombstone: the filter unwraps it) leaves nothing behind. -/
theorem adapter_delete_releases (v0 : Adapter.RV) (vs : List Adapter.RV) :
    Adapter.presentAfter (Adapter.calls v0 vs ++ Adapter.onDelete (Adapter.lastV v0 vs)) = false :=
  Adapter.delete_releases v0 vs

/-- a Waiting Reservation (scheduled, not yet usable by owners) is ACTIVE: its CPUs / devices stay taken. -/
theorem adapter_waiting_holds (v : Adapter.RV) (hv : Adapter.valid v = true) (hn : v.node = true) (hp : v.phase = 2) :
    Adapter.presentAfter (Adapter.onAdd v) = true := by
  rw [Adapter.rebuilt_presence]; simp [Adapter.passes, Adapter.active, hv, hn, hp]

/-- non-vacuous: Pending(unscheduled) → Available → Succeeded gives add, delete -/
example : Adapter.calls ⟨true, true, true, false, 0⟩ [⟨true, true, true, true, 1⟩, ⟨true, true, true, true, 3⟩]
    = [.add, .del] := by decide

/-! ### S4. the WRITE side of PreBind (Model/C19PreBind.lean; numa stream `retry`, harness `devadapt`) -/

/-- the annotation PreBind writes depends only on the allocation of the CURRENT cycle, never on what the object
    already carried (a stale resource-status of an earlier attempt that failed to bind, a copied one …). -/
theorem prebind_writes_current_allocation (c c' : Option Annot) (a : PodAlloc) :
    preBind c a = preBind c' a ∧ preBind c a = some (persist a) := ⟨rfl, rfl⟩

/-- the events the live ledger sees for one object that is retried: Reserve, Unreserve per failed attempt, then the
    Reserve of the attempt that binds. -/
def retryEvs (failed : List PodAlloc) (last : PodAlloc) : List Ev :=
  failed.flatMap (fun a => [Ev.upd a, Ev.rel a.uid]) ++ [Ev.upd last]

theorem retry_ledger_is_history (topo : List Nat) (pre : List Ev) (c : Option Annot) (failed : List PodAlloc)
    (last : PodAlloc) :
    (retryHistory topo (run topo pre) c failed last).1 = run topo (pre ++ retryEvs failed last) := by
  rw [retry_fst]
  unfold run retryEvs
  rw [List.foldl_append, List.foldl_append]
  simp only [List.foldl_cons, List.foldl_nil, stepEv]
  congr 1
  generalize List.foldl (stepEv topo) St.init pre = s
  unfold failedLedger
  induction failed generalizing s with
  | nil => rfl
  | cons a rest ih =>
    simp only [List.foldl_cons, List.flatMap_cons, List.foldl_append, List.foldl_nil, stepEv]
    exact ih _

/-- **retry history, persisted value**: whatever the object carried and whatever the failed attempts allocated, the
    annotation the API server holds after the attempt that binds decodes to exactly that attempt's allocation. -/
theorem retry_persisted_restores_last (topo : List Nat) (s : St) (c : Option Annot) (failed : List PodAlloc)
    (last : PodAlloc) (hasc : last.cpus.Pairwise (· < ·)) (hmax : ∀ x ∈ last.cpus, x ≤ 4096)
    (hne : last.cpus ≠ [] ∨ last.numa ≠ []) :
    (retryHistory topo s c failed last).2.bind (restore last.uid last.excl) = some last := by
  rw [retry_snd]; exact restore_persist last hasc hmax hne

/-- **retry history, rebuilt = live**: after ANY live history `pre`, any number of failed attempts of one object (each
    with its own allocation, on any NUMA node / CPUs) and the attempt that binds, a fresh cache fed the survivors in
    any order is observationally equal to the live cache. -/
theorem retry_rebuilt_eq_live (topo : List Nat) (maxRef : Nat) (pre : List Ev) (c : Option Annot)
    (failed : List PodAlloc) (last : PodAlloc) (h : GoodEvs (pre ++ retryEvs failed last))
    (l : List PodAlloc) (hl : l.Perm (survivors (pre ++ retryEvs failed last))) :
    ObsEq topo maxRef (retryHistory topo (run topo pre) c failed last).1 (build topo l) := by
  rw [retry_ledger_is_history]; exact live_eq_rebuilt topo maxRef _ h l hl

/-- … and the survivors are the earlier survivors plus the LAST attempt's allocation: none of the failed attempts'. -/
theorem retry_survivor_is_last (pre : List Ev) (failed : List PodAlloc) (last : PodAlloc)
    (huid : ∀ a ∈ failed, a.uid = last.uid) (hnew : findPod last.uid (survivors pre) = none) :
    survivors (pre ++ retryEvs failed last) = last :: survivors pre := by
  unfold survivors retryEvs
  rw [List.foldl_append, List.foldl_append]
  generalize hps : List.foldl survStep [] pre = ps
  unfold survivors at hnew
  rw [hps] at hnew
  have hf : List.foldl survStep ps (failed.flatMap (fun a => [Ev.upd a, Ev.rel a.uid])) = ps := by
    clear hps
    induction failed with
    | nil => rfl
    | cons a rest ih =>
      have ha : a.uid = last.uid := huid a (List.mem_cons_self ..)
      simp only [List.flatMap_cons, List.foldl_append, List.foldl_cons, List.foldl_nil, survStep]
      have : erasePod a.uid (a :: erasePod a.uid ps) = ps := by
        rw [ha, erasePod_of_findPod_none hnew]
        unfold erasePod; simp [ha]
      rw [this]
      exact ih (fun b hb => huid b (List.mem_cons_of_mem _ hb))
  rw [hf]
  simp only [List.foldl_cons, List.foldl_nil, survStep]
  rw [erasePod_of_findPod_none hnew]

/-- independence from the carried annotation is NEEDED: a write that is skipped when the carried CPU-set text equals
    the new one keeps a stale NUMA record for an allocation without a CPU set (shared-pool pod placed by a NUMA
    topology policy: carried node 0, allocated node 1). -/
theorem prebind_keep_on_equal_cpuset_counterexample :
    ¬ (∀ (c : Option Annot) (a : PodAlloc), preBindKeepOnEqualCPUSet c a = some (persist a)) := by
  intro h
  have := h (some { text := [], numa := [⟨0, 6000, 0⟩] }) { uid := 1, cpus := [], excl := 0, numa := [⟨1, 6000, 0⟩] }
  revert this
  decide

/-- non-vacuous: one failed attempt on NUMA node 0, the retry lands on node 1 -/
example : (retryHistory [0, 0, 1, 1] St.init none [{ uid := 1, cpus := [], excl := 0, numa := [⟨0, 6000, 0⟩] }]
    { uid := 1, cpus := [], excl := 0, numa := [⟨1, 6000, 0⟩] }).2 = some { text := [], numa := [⟨1, 6000, 0⟩] } := by decide

/-- deviceshare: the device-allocated annotation PreBind leaves on the object is the allocation Reserve accounted
    (`state.allocationResult`), whatever the feature gate, whatever (read-only) adapter runs for the GPU vendor,
    whatever its verdict, and whatever the object carried (a retried object). -/
theorem dev_prebind_persists_reserved_allocation {π : Type} (gate : Bool) (adapt : List DevPB.GAlloc → Option π)
    (c c' : DevPB.Obj π) (al : List DevPB.GAlloc) :
    (DevPB.preBind gate adapt c al).1.allocated = some al ∧
    DevPB.preBind gate adapt c al = DevPB.preBind gate adapt c' al := ⟨DevPB.preBind_allocated gate adapt c al, rfl⟩

/-- the order (annotation first, adapters read-only) is NEEDED: an adapter that aligns gpu-memory to its unit before
    the annotation is written persists 768Mi for a reserved 1000Mi. -/
theorem dev_prebind_aligned_after_adapt_counterexample :
    DevPB.preBindAlignedAfterAdapt [⟨0, 50, 1000 * 1024 * 1024, 0⟩] = some [⟨0, 50, 768 * 1024 * 1024, 0⟩] ∧
    DevPB.preBindAlignedAfterAdapt [⟨0, 50, 1000 * 1024 * 1024, 0⟩] ≠ some [⟨0, 50, 1000 * 1024 * 1024, 0⟩] := by
  decide

/-- non-vacuous: cambricon profile of an un-aligned amount (1000Mi = 3 units); the persisted allocation is untouched -/
example : (DevPB.preBind true DevPB.cambriconAdapt ⟨none, none⟩ [⟨2, 50, 1000 * 1024 * 1024, 0⟩]).1.allocated
      = some [⟨2, 50, 1000 * 1024 * 1024, 0⟩] ∧
    DevPB.cambriconAdapt [⟨2, 50, 1000 * 1024 * 1024, 0⟩] = some (2, 50, 3) ∧
    (DevPB.preBind true DevPB.cambriconAdapt ⟨none, none⟩ [⟨2, 50, 100 * 1024 * 1024, 0⟩]).2 = false := by decide

end KoordVerif.C19
