import KoordVerif.Model.C16
import KoordVerif.Model.C16Arb
namespace KoordVerif.C16
end KoordVerif.C16
