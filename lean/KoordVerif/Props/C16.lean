import KoordVerif.Proofs.C16Evict
import KoordVerif.Model.C16Arb
import KoordVerif.Proofs.C16ExtArb
import KoordVerif.Proofs.C16Ext2Cycle
import KoordVerif.Proofs.C16Ext2Dim
import KoordVerif.Proofs.C16Ext3
import KoordVerif.Proofs.C16Ext5
import KoordVerif.Proofs.C16Ext5Seq
/-
C16 — descheduler disruption budgets are never exceeded, even with concurrent evictors.

Part 1 (M-evict): for every number of concurrent callers, every request set, every API failure script and
EVERY schedule of the atomic blocks, a caller whose check, call and count form one critical section keeps
`issued ≤ cap` and `counters = issued`; the shape that the repository had before c13dbd3/888c815/62f0c55
does not (witness schedule).  Ties/C16.lean shows that the shape extracted from today's source is the safe one.
Part 2 (M-arb): one iteration of the arbitration loop, on the state that already contains every earlier
admission of the same round, the whole round (round_inv), and the two-step duplicate lookup.
Part 3 (cycle): Reset ; Deschedule phase ; Balance phase of one deschedulerOnce keeps the caps for the whole cycle.
Part 4 (handler): the informer events routed through arbitrationHandler keep the passed mark of every live job, so the
bounds of a round hold with the arbitrator's own writes echoed back at any point.
Part 5 (config): the caps reach the limiter as the configuration file declares them (0 included).
-/
namespace KoordVerif.C16

/-! ### Part 1 — eviction caps -/

theorem run_good {refuse caps} (hR : RefuseOK refuse caps) (sched : List Nat) :
    ∀ s : CS, Good caps s.ctr s.issued → (∀ t ∈ s.ths, ThOK t) →
      Good caps (run refuse caps s sched).ctr (run refuse caps s sched).issued := by
  induction sched with
  | nil => intro s g _; exact g
  | cons i rest ih =>
    intro s g hall
    have h := stepAt_ok hR s.ths i s.ctr s.issued g hall
    simp only [run, List.foldl_cons]
    exact ih (step refuse caps s i) h.1 h.2

/-- **atomic_reserve_safe.**  If check, call and count of the caller form ONE locked section, then for any
    sound limit test, any N callers (pods, API answers) and ANY schedule: per real node, per namespace and
    in total the evictions issued are within the caps, and the counters equal the evictions issued. -/
theorem atomic_reserve_safe (refuse : Caps → Ctr → Pod → Bool) (caps : Caps) (hR : RefuseOK refuse caps)
    (prog : Prog) (h1 : oneSection prog = true) (pods : List (Pod × Bool)) (sched : List Nat) :
    let s := run refuse caps (initCS prog pods) sched
    (∀ n, n ≠ 0 → issuedBy (·.node) s.issued n = cget s.ctr.node n ∧ capLe caps.node (issuedBy (·.node) s.issued n)) ∧
    (∀ k, issuedBy (·.ns) s.issued k = cget s.ctr.ns k ∧ capLe caps.ns (issuedBy (·.ns) s.issued k)) ∧
    (s.issued.length = s.ctr.total ∧ capLe caps.total s.issued.length) := by
  have hp : prog = [theBlock] := by simpa [oneSection, theBlock] using h1
  subst hp
  have g := run_good hR sched (initCS [theBlock] pods) (good_init caps) (by
    intro t ht
    simp only [initCS, List.mem_map] at ht
    obtain ⟨a, _, rfl⟩ := ht
    right; simp [atomize, theBlock])
  refine ⟨fun n hn => ⟨g.node n hn, ?_⟩, fun k => ⟨g.ns k, ?_⟩, g.total, ?_⟩
  · rw [g.node n hn]; exact g.caps.node n hn
  · rw [g.ns k]; exact g.caps.ns k
  · rw [g.total]; exact g.caps.total

/-- PodEvictor (`==` test, node and namespace caps) -/
theorem atomic_reserve_safe_podevictor (capNode capNs : Option Nat) (prog : Prog) (h1 : oneSection prog = true)
    (pods : List (Pod × Bool)) (sched : List Nat) :
    let s := run peRefuse ⟨capNode, capNs, none⟩ (initCS prog pods) sched
    (∀ n, n ≠ 0 → issuedBy (·.node) s.issued n = cget s.ctr.node n ∧ capLe capNode (issuedBy (·.node) s.issued n)) ∧
    (∀ k, issuedBy (·.ns) s.issued k = cget s.ctr.ns k ∧ capLe capNs (issuedBy (·.ns) s.issued k)) ∧
    s.issued.length = s.ctr.total := by
  have h := atomic_reserve_safe peRefuse ⟨capNode, capNs, none⟩ (peRefuse_ok _ rfl) prog h1 pods sched
  exact ⟨h.1, h.2.1, h.2.2.1⟩

/-- evictorProxy + EvictionLimiter (`count+1 > max` test, node / namespace / total caps) -/
theorem atomic_reserve_safe_limiter (caps : Caps) (prog : Prog) (h1 : oneSection prog = true)
    (pods : List (Pod × Bool)) (sched : List Nat) :
    let s := run elRefuse caps (initCS prog pods) sched
    (∀ n, n ≠ 0 → issuedBy (·.node) s.issued n = cget s.ctr.node n ∧ capLe caps.node (issuedBy (·.node) s.issued n)) ∧
    (∀ k, issuedBy (·.ns) s.issued k = cget s.ctr.ns k ∧ capLe caps.ns (issuedBy (·.ns) s.issued k)) ∧
    (s.issued.length = s.ctr.total ∧ capLe caps.total s.issued.length) :=
  atomic_reserve_safe elRefuse caps (elRefuse_ok caps) prog h1 pods sched

/-- the shape PodEvictor.Evict had before c13dbd3: check and call with no lock, count under the lock. -/
def splitProg : Prog := [⟨false, [.check, .call]⟩, ⟨true, [.count]⟩]

/-- the shape evictorProxy.Evict has when its lock is not shared: AllowEvict | plugin call | Done. -/
def allowDoneProg : Prog := [⟨true, [.check]⟩, ⟨false, [.call]⟩, ⟨true, [.count]⟩]

/-- two callers, per-node cap 1: schedule check₁ check₂ call₁ call₂ count₁ count₂ issues 2 evictions. -/
theorem split_shape_unsafe_counterexample :
    ¬ (∀ sched, issuedBy (·.node)
        (run peRefuse ⟨some 1, none, none⟩ (initCS splitProg [(⟨1, 0⟩, true), (⟨1, 0⟩, true)]) sched).issued 1 ≤ 1) := by
  intro h
  exact absurd (h [0, 1, 0, 1, 0, 1]) (by decide)

theorem allow_done_shape_unsafe_counterexample :
    ¬ (∀ sched, (run elRefuse ⟨none, none, some 1⟩ (initCS allowDoneProg [(⟨1, 0⟩, true), (⟨2, 1⟩, true)]) sched).issued.length ≤ 1) := by
  intro h
  exact absurd (h [0, 1, 0, 1, 0, 1]) (by decide)

/-- the sequential model that is compared with the real PodEvictor is the one-section block -/
theorem peEvict_is_block (caps : Caps) (c : Ctr) (iss : List Pod) (p : Pod) (a : Bool) :
    (peEvict caps false c p a).1 = (runActs peRefuse caps p a theBlock.acts c iss).1 ∧
    ((peEvict caps false c p a).2.ok = true ↔ (runActs peRefuse caps p a theBlock.acts c iss).2.1 = p :: iss) := by
  simp only [peEvict, theBlock, runActs]
  cases hr : peRefuse caps c p <;> cases a <;> simp

/-- … and likewise evictorProxy.Evict with a limiter -/
theorem pxEvict_is_block (caps : Caps) (c : Ctr) (iss : List Pod) (p : Pod) (a : Bool) :
    (pxEvict (some caps) false c p a).1 = (runActs elRefuse caps p a theBlock.acts c iss).1 ∧
    ((pxEvict (some caps) false c p a).2.ok = true ↔ (runActs elRefuse caps p a theBlock.acts c iss).2.1 = p :: iss) := by
  simp only [pxEvict, theBlock, runActs]
  cases hr : elRefuse caps c p <;> cases a <;> simp

/-- **refused_no_effect**: an eviction that issues no call and fails leaves every counter as it was. -/
theorem refused_no_effect (caps : Caps) (lim : Option Caps) (dry : Bool) (s : Ctr) (p : Pod) (a : Bool) :
    ((peEvict caps dry s p a).2.ok = false → (peEvict caps dry s p a).1 = s) ∧
    ((pxEvict lim dry s p a).2.ok = false → (pxEvict lim dry s p a).1 = s) := by
  constructor
  · cases h : peRefuse caps s p <;> cases dry <;> cases a <;> simp [peEvict, h]
  · cases lim with
    | none => cases dry <;> cases a <;> simp [pxEvict]
    | some c => cases h : elRefuse c s p <;> cases dry <;> cases a <;> simp [pxEvict, h]

/-- **dry_run_no_call**: dry-run never issues an API / plugin call; PodEvictor does not even count. -/
theorem dry_run_no_call (caps : Caps) (lim : Option Caps) (s : Ctr) (p : Pod) (a : Bool) :
    (peEvict caps true s p a).2.called = false ∧ (peEvict caps true s p a).1 = s ∧
    (pxEvict lim true s p a).2.called = false := by
  refine ⟨?_, ?_, ?_⟩
  · cases h : peRefuse caps s p <;> simp [peEvict, h]
  · cases h : peRefuse caps s p <;> simp [peEvict, h]
  · cases lim with
    | none => simp [pxEvict]
    | some c => cases h : elRefuse c s p <;> simp [pxEvict, h]

/-- at most one call per eviction, and a successful non-dry-run eviction did call -/
theorem ok_iff_granted (caps : Caps) (s : Ctr) (p : Pod) (a : Bool) :
    (peEvict caps false s p a).2.ok = true → (peEvict caps false s p a).2.called = true ∧ a = true := by
  cases h : peRefuse caps s p <;> cases a <;> simp [peEvict, h]

example : (run peRefuse ⟨some 1, none, none⟩ (initCS [theBlock] [(⟨1, 0⟩, true), (⟨1, 0⟩, true), (⟨2, 0⟩, false)]) [2, 1, 0, 1]).issued
    = [⟨1, 0⟩] := by decide
example : oneSection (toProg [(true, [0, 1, 2])]) = true := by decide
example : oneSection splitProg = false ∧ oneSection allowDoneProg = false := by decide

/-! #### the scope of the lock (Proofs/C16Ext5.lean: callers with a framework, a proxy and a named lock object) -/

/-- **global_lock_safe_any_frameworks.**  With the package-level lock, for ANY number of callers spread over ANY number of
    frameworks (profiles) and proxies that share one EvictionLimiter, and any schedule of their single actions (Lock +
    AllowEvict | evict call | Done + Unlock): at every moment the evictions issued are within the caps per real node /
    namespace / in total, and whenever no caller is inside the section the limiter's counters equal the evictions issued. -/
theorem global_lock_safe_any_frameworks (caps : Caps) (n : Nat) (req : Nat → Req) (sched : List Nat) :
    let s := lrun elRefuse caps .global n req linit sched
    IssuedWithin caps s.issued ∧ ((∀ j, insidePc (s.pc j) = false) → Good caps s.ctr s.issued) :=
  shared_lock_safe elRefuse caps (elRefuse_ok caps) .global n req (sameLock_global n req) sched

/-- a lock per framework is enough exactly as long as all callers evict through ONE framework (the one-profile
    configuration; any number of proxies and goroutines) … -/
theorem per_framework_lock_safe_one_framework (caps : Caps) (n : Nat) (req : Nat → Req)
    (h1 : ∀ i j, i < n → j < n → (req i).fw = (req j).fw) (sched : List Nat) :
    let s := lrun elRefuse caps .perFramework n req linit sched
    IssuedWithin caps s.issued ∧ ((∀ j, insidePc (s.pc j) = false) → Good caps s.ctr s.issued) :=
  shared_lock_safe elRefuse caps (elRefuse_ok caps) .perFramework n req (fun i j hi hj => h1 i j hi hj) sched

/-- … and not with two: one caller per framework, schedule Lock₀ Lock₁ call₀ call₁ Done₀ Done₁ issues 2 evictions against a
    total / per-node / per-namespace cap of 1 (and the counter then reads 2). -/
theorem per_framework_lock_two_frameworks_counterexample :
    ¬ (∀ sched, (lrun elRefuse ⟨none, none, some 1⟩ .perFramework 2 twoFrameworks linit sched).issued.length ≤ 1) ∧
    ¬ (∀ sched, issuedBy (·.node) (lrun elRefuse ⟨some 1, none, none⟩ .perFramework 2 twoFrameworks linit sched).issued 1 ≤ 1) ∧
    ¬ (∀ sched, issuedBy (·.ns) (lrun elRefuse ⟨none, some 1, none⟩ .perFramework 2 twoFrameworks linit sched).issued 0 ≤ 1) ∧
    (lrun elRefuse ⟨none, none, some 1⟩ .perFramework 2 twoFrameworks linit [0, 1, 0, 1, 0, 1]).ctr.total = 2 := by
  refine ⟨fun h => absurd (h [0, 1, 0, 1, 0, 1]) (by decide), fun h => absurd (h [0, 1, 0, 1, 0, 1]) (by decide),
    fun h => absurd (h [0, 1, 0, 1, 0, 1]) (by decide), by decide⟩

/-- the shape repaired by 62f0c55: a lock per proxy, two callers of ONE framework with a fresh `handle.Evictor()` each -/
theorem per_proxy_lock_fresh_proxies_counterexample :
    ¬ (∀ sched, (lrun elRefuse ⟨none, none, some 1⟩ .perProxy 2 twoFreshProxies linit sched).issued.length ≤ 1) :=
  fun h => absurd (h [0, 1, 0, 1, 0, 1]) (by decide)

/-- **sequential_any_scope_safe.**  Callers that run one after the other (each its Lock+AllowEvict, evict call, Done+Unlock in
    a row, in any order of callers, through any frameworks / proxies) keep the caps and counters = issued WHATEVER the scope of
    the lock: sequential multi-profile use cannot tell the scopes apart — only concurrent callers of different lock objects can. -/
theorem sequential_any_scope_safe (caps : Caps) (sc : LockScope) (n : Nat) (req : Nat → Req) (order : List Nat) :
    let s := lrun elRefuse caps sc n req linit (seqSched order)
    IssuedWithin caps s.issued ∧ Good caps s.ctr s.issued := by
  have q := quiet_seq (sc := sc) (n := n) (req := req) (elRefuse_ok caps) order linit
    ⟨fun _ => by simp [linit, insidePc], good_init caps⟩
  exact ⟨good_within q.2, q.2⟩

/-- the same requests and schedule under the package-level lock / under one framework: the second Lock blocks, one eviction -/
example : (lrun elRefuse ⟨none, none, some 1⟩ .global 2 twoFrameworks linit [0, 1, 0, 1, 0, 1, 1, 1]).issued = [⟨1, 0⟩] := by decide
example : (lrun elRefuse ⟨none, none, some 1⟩ .perFramework 2 twoFreshProxies linit [0, 1, 0, 1, 0, 1, 1, 1]).issued = [⟨1, 0⟩] := by decide

/-! ### Part 2 — arbitration round

Full statement `round_inv` (DESIGN §4): after `round cfg uf st order`, per node / namespace / workload / globally
`#(running ∨ passed) ≤ max(limit, count before the round) + #(admissions the code exempts: pod gone or annotated)`,
provided no pod has two open jobs.  Both halves are proved: the per-iteration half (`round_inv_partial`, kept under
its old name): every non-exempt admission had headroom in ALL dimensions on the state containing every earlier
admission of the same round, and admits exactly that one job; and the counting half (`round_inv`, below, with the
development in Proofs/C16ExtArb.lean): `count after ≤ counted-excluding-p + 1` for each of the five counters and
the induction over the loop.  The hypothesis `WF` is decidable; the driver prints it before every round and the
harness evaluates it on the API state (observation `wf`). -/

theorem markPassed_effect (st : ArbSt) (jid : Nat) :
    (markPassed st false jid).1.arbitrated = jid :: st.arbitrated ∧
    (markPassed st false jid).1.pods = st.pods ∧ (markPassed st true jid).1 = st := by
  simp [markPassed]

/-- **round_inv_partial** -/
theorem round_inv_partial (cfg : ArbCfg) (uf : List Nat) (st : ArbSt) (jid : Nat) (j : JobA) (p : PodA)
    (hj : findJob st jid = some j) (hpod : j.pod ≠ 0) (hp : findPod st j.pod = some p) (hann : p.ann = false)
    (hv : (processJob cfg uf st jid).2 = .passed) :
    passGlobal cfg st true p = true ∧ passNode cfg st true p = true ∧ passNs cfg st true p = true ∧
      passWorkload cfg st true p = true ∧ nonRetryable cfg p = true ∧
      (processJob cfg uf st jid).1.arbitrated = jid :: st.arbitrated := by
  simp only [processJob, hj, hpod, if_false, hp] at hv ⊢
  by_cases hn : nonRetryable cfg p = true
  · by_cases hr : retryable cfg st true p = true
    · simp only [hn, hr, Bool.not_true] at hv ⊢
      by_cases hu : jid ∈ uf
      · simp [hu, markPassed] at hv
      · simp [retryable, hann, retryableChecks] at hr
        simp [hu, markPassed, hr]
    · have hr' : retryable cfg st true p = false := by simpa using hr
      simp [hn, hr'] at hv
  · have hn' : nonRetryable cfg p = false := by simpa using hn
    simp [hn'] at hv

/-- **refused_stays_waiting**: a job refused only by a retryable (headroom) check is left exactly as it was —
    same phase, still in the waiting collection, nothing marked. -/
theorem refused_stays_waiting (cfg : ArbCfg) (uf : List Nat) (st : ArbSt) (jid : Nat) (j : JobA) (p : PodA)
    (hj : findJob st jid = some j) (hpod : j.pod ≠ 0) (hp : findPod st j.pod = some p)
    (hn : nonRetryable cfg p = true) (hr : retryable cfg st true p = false) :
    processJob cfg uf st jid = (st, .waitingV) := by
  simp [processJob, hj, hpod, hp, hn, hr]

/-- a job is failed by the arbitrator only when the NON-retryable filter rejects its pod -/
theorem failed_only_nonretryable (cfg : ArbCfg) (uf : List Nat) (st : ArbSt) (jid : Nat)
    (hv : (processJob cfg uf st jid).2 = .failed) :
    ∃ j p, findJob st jid = some j ∧ findPod st j.pod = some p ∧ nonRetryable cfg p = false := by
  unfold processJob at hv
  cases hj : findJob st jid with
  | none => simp [hj] at hv
  | some j =>
    simp only [hj] at hv
    cases hp : (if j.pod = 0 then none else findPod st j.pod) with
    | none =>
      simp only [hp, markPassed] at hv
      by_cases hu : jid ∈ uf <;> simp [hu] at hv
    | some p =>
      simp only [hp] at hv
      by_cases hn : nonRetryable cfg p = true
      · by_cases hr : retryable cfg st true p = true
        · simp only [hn, hr, Bool.not_true, markPassed] at hv
          by_cases hu : jid ∈ uf <;> simp [hu] at hv
        · have : retryable cfg st true p = false := by simpa using hr
          simp [hn, this] at hv
      · refine ⟨j, p, rfl, ?_, by simpa using hn⟩
        by_cases h0 : j.pod = 0
        · simp [h0] at hp
        · simpa [h0] using hp

/-- a failed Update (API error) leaves the job waiting and unmarked, so later jobs of the round do not see it -/
theorem failed_update_no_effect (cfg : ArbCfg) (uf : List Nat) (st : ArbSt) (jid : Nat)
    (hv : (processJob cfg uf st jid).2 = .passFailedUpdate) : (processJob cfg uf st jid).1 = st := by
  unfold processJob at hv ⊢
  cases hj : findJob st jid with
  | none => simp
  | some j =>
    simp only [hj] at hv ⊢
    cases hp : (if j.pod = 0 then none else findPod st j.pod) with
    | none =>
      simp only [hp, markPassed] at hv ⊢
      by_cases hu : jid ∈ uf <;> simp [hu] at hv ⊢
    | some p =>
      simp only [hp] at hv ⊢
      by_cases hn : nonRetryable cfg p = true
      · by_cases hr : retryable cfg st true p = true
        · simp only [hn, hr, Bool.not_true, markPassed] at hv ⊢
          by_cases hu : jid ∈ uf <;> simp [hu] at hv ⊢
        · have : retryable cfg st true p = false := by simpa using hr
          simp [hn, this]
      · have : nonRetryable cfg p = false := by simpa using hn
        simp [this] at hv

/-- **no_second_job**: `arbitratorImpl.Filter` never accepts a pod that already has a pending or running job. -/
theorem no_second_job_ref (cfg : ArbCfg) (st : ArbSt) (p : PodA) (j : JobA)
    (hj : j ∈ st.jobs) (hpod : (j.pod ≠ 0 ∧ j.uid = p.id) ∨ j.pod = p.id) (hph : j.phase = 0 ∨ j.phase = 1 ∨ j.phase = 2) :
    arbFilter cfg st p = false := by
  have : hasJob st false p = true := by
    rw [hasJob_eq_any, List.any_eq_true]
    refine ⟨j, hj, ?_⟩
    have hm : jmatch j p = true := by
      rcases hpod with ⟨h0, hu⟩ | hn
      · simp [jmatch, h0, hu]
      · simp [jmatch, hn]
    rcases hph with h | h | h <;> simp [live, h, hm]
  simp [arbFilter, this]

/-- **no_second_job** in its original form: the job names the pod by namespace/name (whatever UID it carries) -/
theorem no_second_job (cfg : ArbCfg) (st : ArbSt) (p : PodA) (j : JobA)
    (hj : j ∈ st.jobs) (hpod : j.pod = p.id) (hph : j.phase = 0 ∨ j.phase = 1 ∨ j.phase = 2) :
    arbFilter cfg st p = false := no_second_job_ref cfg st p j hj (Or.inr hpod) hph

/-- **existing_lookup_iff**: the two-step lookup of existingPodMigrationJob (UID index first, namespace/name index
    only when the first found nothing) answers "true" exactly when some available job refers to the pod by UID
    OR by namespace/name — the fall-back makes the order of the two lookups irrelevant. -/
theorem existing_lookup_iff (st : ArbSt) (ca : Bool) (v : PodA) :
    hasJob st ca v = true ↔
      ∃ j ∈ st.jobs, live st.arbitrated ca j = true ∧ ((j.pod ≠ 0 ∧ j.uid = v.id) ∨ j.pod = v.id) := by
  rw [hasJob_eq_any, List.any_eq_true]
  constructor
  · rintro ⟨j, hj, h⟩
    simp only [jmatch, Bool.and_eq_true, Bool.or_eq_true, bne_iff_ne, ne_eq, beq_iff_eq] at h
    exact ⟨j, hj, h.1, h.2⟩
  · rintro ⟨j, hj, hl, h⟩
    refine ⟨j, hj, ?_⟩
    simp only [jmatch, Bool.and_eq_true, Bool.or_eq_true, bne_iff_ne, ne_eq, beq_iff_eq]
    exact ⟨hl, h⟩

/-- **ifelse_lookup_counterexample**: with the lookup written as an if/else on the pod's UID (`hasJobIfElse`: a pod
    that has a UID is looked up ONLY by UID) the rule is broken: pod 1 has a Running job whose PodRef carries only
    namespace/name (hand-written job, no UID); the two-step lookup finds it, the if/else one does not, so `Filter`
    would accept a second job for the pod and the per-node count would miss it. -/
theorem ifelse_lookup_counterexample :
    ¬ (∀ (st : ArbSt) (v : PodA), hasJob st false v = true → hasJobIfElse st false v = true) := by
  intro h
  have := h { pods := [⟨1, 1, 1, 1, true, false, false, 0⟩], jobs := [⟨1, 1, 1, 2, false, 0⟩] } ⟨1, 1, 1, 1, true, false, false, 0⟩ (by decide)
  revert this
  decide

/-- the counts of the other limits skip the jobs carrying the pod's own UID: under `WF` that is at most the pod's own
    job, so for every OTHER pod `v` a live job about `v` (by name) is always counted — stated for the global count -/
theorem global_counts_other_pods (st : ArbSt) (w : WF st) (p v : PodA) (hp : p ∈ st.pods) (hv : v ∈ st.pods)
    (hne : v.id ≠ p.id) (j : JobA) (hj : j ∈ st.jobs) (hl : live st.arbitrated true j = true) (h0 : j.pod ≠ 0)
    (hjv : j.pod = v.id) : j ∈ globalJobs st true p := by
  simp only [globalJobs, List.mem_filter, Bool.and_eq_true, bne_iff_ne, ne_eq]
  refine ⟨hj, ⟨hl, h0⟩, ?_⟩
  intro e
  rcases w.uidRef j hj p hp h0 e with e' | e'
  · exact hne (hjv.symm.trans e')
  · exact e' v hv hjv.symm

/-- **round_inv** (counting half; with `round_inv_partial` the full statement of DESIGN §4).  For every
    well-formed state (unique names, PodRefs resolve inside their namespace, no pod with two open jobs),
    every configuration, every Update-failure script and every job order: after the round the jobs that are
    running or passed — globally, per namespace, as pods per real node and as pods per workload — number at
    most max(limit, the count before the round) + the admissions the code exempts on purpose
    (`exemptAdm`: pod gone / PodRef nil, or pod carrying the evict annotation), and the same holds for the
    unavailable-or-migrating pods of every workload (`unavailable_inv`).  Each clause is conditional on its
    gate not being skipped and, for the three int32 limits, on a positive value — exactly when the code checks. -/
theorem round_inv (cfg : ArbCfg) (uf : List Nat) (st : ArbSt) (order : List Nat) (w : WF st) :
    let st' := round cfg uf st order
    let E := roundExempt cfg uf st order
    (gateSkipped cfg 5 = false → 0 < cfg.maxGlobal → cntGlobal st' ≤ max cfg.maxGlobal.toNat (cntGlobal st) + E) ∧
    (∀ n, n ≠ 0 → gateSkipped cfg 3 = false → 0 < cfg.maxNode → cntNode st' n ≤ max cfg.maxNode.toNat (cntNode st n) + E) ∧
    (∀ k, gateSkipped cfg 4 = false → 0 < cfg.maxNs → cntNs st' k ≤ max cfg.maxNs.toNat (cntNs st k) + E) ∧
    (∀ wl k, wl ≠ 0 → gateSkipped cfg 2 = false →
      cntMigr st' wl k ≤ max (max (wlLimit cfg wl cfg.mmKind cfg.maxMigr) 1) (cntMigr st wl k) + E) ∧
    (∀ wl k, wl ≠ 0 → gateSkipped cfg 1 = false →
      cntUnav st' wl k ≤ max (wlLimit cfg wl cfg.muKind cfg.maxUnav) (cntUnav st wl k) + E) := by
  refine ⟨fun hs hl => ?_, fun n hn hs hl => ?_, fun k hs hl => ?_, fun wl k hw hs => ?_, fun wl k hw hs => ?_⟩
  · exact fold_bound cfg uf cntGlobal _ (fun s j ws => step_global cfg uf s j ws hs hl) order st w
  · exact fold_bound cfg uf (cntNode · n) _ (fun s j ws => step_node cfg uf s j ws n hn hs hl) order st w
  · exact fold_bound cfg uf (cntNs · k) _ (fun s j ws => step_ns cfg uf s j ws k hs hl) order st w
  · exact fold_bound cfg uf (cntMigr · wl k) _ (fun s j ws => step_migr cfg uf s j ws wl k hw hs) order st w
  · exact fold_bound cfg uf (cntUnav · wl k) _ (fun s j ws => step_unav cfg uf s j ws wl k hw hs) order st w

/-- **unavailable_inv** for a whole round, stated on its own: unless the gate is skipped, the pods of a workload
    that are unavailable (terminating, Failed / Succeeded, or not Ready) or being migrated stay within
    max(maxUnavailable, what it was before the round) when the round made no exempt admission. -/
theorem unavailable_inv (cfg : ArbCfg) (uf : List Nat) (st : ArbSt) (order : List Nat) (w : WF st) (wl k : Nat)
    (hw : wl ≠ 0) (hs : gateSkipped cfg 1 = false) (hE : roundExempt cfg uf st order = 0) :
    cntUnav (round cfg uf st order) wl k ≤ max (wlLimit cfg wl cfg.muKind cfg.maxUnav) (cntUnav st wl k) := by
  have := (round_inv cfg uf st order w).2.2.2.2 wl k hw hs
  simp only [hE, Nat.add_zero] at this
  exact this

/-- the exemption, explicitly: an admission is exempt iff the job was pending, passed, and its pod is not
    found (deleted, or PodRef nil) or carries the evict annotation; every other admission went through all
    limit checks (`round_inv_partial`). -/
theorem exempt_iff (cfg : ArbCfg) (uf : List Nat) (st : ArbSt) (jid : Nat) :
    exemptAdm cfg uf st jid = true ↔
      ∃ j, findJob st jid = some j ∧ (processJob cfg uf st jid).2 = .passed ∧ j.phase ≤ 1 ∧
        (j.pod = 0 ∨ findPod st j.pod = none ∨ ∃ p, findPod st j.pod = some p ∧ p.ann = true) := by
  unfold exemptAdm
  cases hj : findJob st jid with
  | none => simp
  | some j =>
    by_cases h0 : j.pod = 0
    · simp [h0]
    · cases hp : findPod st j.pod with
      | none => simp [h0, hp]
      | some p => simp [h0, hp, and_assoc]

/-- **missing_pod_bypass_counterexample** (open finding C16:arb-missing-pod-bypasses-limits): without the exempt
    side the bound is false on the code as written — `filtering(nil)` passes a job whose pod is gone without
    consulting any limit.  MaxMigratingGlobally = 1, pod 1 has a Running job, job 2 waits for a deleted pod:
    after the round two jobs are running or passed although the limit was not exceeded before. -/
theorem missing_pod_bypass_counterexample :
    ¬ (∀ (cfg : ArbCfg) (st : ArbSt) (order : List Nat), WF st → gateSkipped cfg 5 = false → 0 < cfg.maxGlobal →
        cntGlobal (round cfg [] st order) ≤ max cfg.maxGlobal.toNat (cntGlobal st)) := by
  intro h
  have := h { maxGlobal := 1, maxNode := -1, maxNs := -1, maxMigr := -1, maxUnav := -1, replicas := [(1, 5)] }
    { pods := [⟨1, 1, 1, 1, true, false, false, 0⟩], jobs := [⟨1, 1, 1, 2, true, 1⟩, ⟨2, 9, 1, 0, false, 9⟩], waiting := [2] }
    [2] (by decide) (by decide) (by decide)
  revert this
  decide

/-- a round keeps the state well-formed, so `round_inv` applies to every round of a history -/
theorem round_keeps_wf (cfg : ArbCfg) (uf : List Nat) (st : ArbSt) (order : List Nat) (w : WF st) :
    WF (round cfg uf st order) := round_wf cfg uf order st w

/-- the counter used for the unavailable clause counts exactly: terminating, Failed / Succeeded, or not Ready -/
theorem podAvail_iff (q : PodA) :
    podAvail q = false ↔ (q.term = true ∨ q.phase = 2 ∨ q.phase = 3 ∨ q.ready = false) := by
  simp only [podAvail, podActive]
  cases q.term <;> cases q.ready <;> by_cases h2 : q.phase = 2 <;> by_cases h3 : q.phase = 3 <;> simp [h2, h3]

-- non-vacuity: a well-formed state where workload 1 (5 replicas, maxUnavailable 2) has one terminating-but-Ready
-- replica: the round admits exactly one of the two waiting jobs; no exempt admission; the bound is tight (2 ≤ 2)
example :
    let cfg : ArbCfg := { maxGlobal := -1, maxNode := -1, maxNs := -1, maxMigr := -1, maxUnav := 2, replicas := [(1, 5)] }
    let st : ArbSt := { pods := [⟨1, 1, 1, 1, true, false, true, 0⟩, ⟨2, 1, 1, 1, true, false, false, 0⟩,
                                 ⟨3, 2, 1, 1, true, false, false, 0⟩],
                        jobs := [⟨1, 2, 1, 0, false, 2⟩, ⟨2, 3, 1, 0, false, 3⟩], waiting := [1, 2] }
    WF st ∧ (round cfg [] st [1, 2]).arbitrated = [1] ∧ roundExempt cfg [] st [1, 2] = 0 ∧
      cntUnav st 1 1 = 1 ∧ cntUnav (round cfg [] st [1, 2]) 1 1 = 2 ∧ wlLimit cfg 1 cfg.muKind cfg.maxUnav = 2 := by decide

-- an annotated pod is admitted beyond the limit and counted as exempt
example :
    let cfg : ArbCfg := { maxGlobal := 1, maxNode := -1, maxNs := -1, maxMigr := -1, maxUnav := -1, replicas := [(1, 8)] }
    let st : ArbSt := { pods := [⟨1, 1, 1, 1, true, false, false, 0⟩, ⟨2, 1, 1, 1, true, true, false, 0⟩],
                        jobs := [⟨1, 1, 1, 0, false, 1⟩, ⟨2, 2, 1, 0, false, 2⟩], waiting := [1, 2] }
    WF st ∧ cntGlobal (round cfg [] st [1, 2]) = 2 ∧ roundExempt cfg [] st [1, 2] = 1 := by decide

-- non-vacuity: a round over two waiting jobs on one node with per-node limit 1 admits the first, keeps the second
example :
    let cfg : ArbCfg := { maxGlobal := -1, maxNode := 1, maxNs := -1, maxMigr := -1, maxUnav := 3, replicas := [(1, 5)] }
    let st : ArbSt := { pods := [⟨1, 1, 1, 1, true, false, false, 0⟩, ⟨2, 1, 1, 1, true, false, false, 0⟩],
                        jobs := [⟨1, 1, 1, 0, false, 1⟩, ⟨2, 2, 1, 0, false, 2⟩], waiting := [1, 2] }
    (round cfg [] st [1, 2]).arbitrated = [1] ∧ (round cfg [] st [1, 2]).waiting = [2] := by decide

/-- **round_inv_dim**: `round_inv` with the exempt admissions charged per dimension (what the Go oracle checks): after a
    round each counter is at most max(limit, its value before) + the number of exempt admissions of the round THAT LIE
    IN THE SAME DIMENSION — for namespace `k` those whose PodRef is in `k` (`exNs`), for node `n` those referring (by UID
    or namespace/name) to a pod on `n` (`exNode`), for workload `wl` in namespace `k` those naming a pod of `wl` through
    a PodRef in `k` (`exWl`).  An exempt admission elsewhere does not move the counter.  (The global clause of
    `round_inv` is already of this form.) -/
theorem round_inv_dim (cfg : ArbCfg) (uf : List Nat) (st : ArbSt) (order : List Nat) (w : WF st) :
    let st' := round cfg uf st order
    (∀ n, n ≠ 0 → gateSkipped cfg 3 = false → 0 < cfg.maxNode →
      cntNode st' n ≤ max cfg.maxNode.toNat (cntNode st n) + roundEx (exNode cfg uf n) cfg uf st order) ∧
    (∀ k, gateSkipped cfg 4 = false → 0 < cfg.maxNs →
      cntNs st' k ≤ max cfg.maxNs.toNat (cntNs st k) + roundEx (exNs cfg uf k) cfg uf st order) ∧
    (∀ wl k, wl ≠ 0 → gateSkipped cfg 2 = false →
      cntMigr st' wl k ≤ max (max (wlLimit cfg wl cfg.mmKind cfg.maxMigr) 1) (cntMigr st wl k) +
        roundEx (exWl cfg uf wl k) cfg uf st order) ∧
    (∀ wl k, wl ≠ 0 → gateSkipped cfg 1 = false →
      cntUnav st' wl k ≤ max (wlLimit cfg wl cfg.muKind cfg.maxUnav) (cntUnav st wl k) +
        roundEx (exWl cfg uf wl k) cfg uf st order) := by
  refine ⟨fun n hn hs hl => ?_, fun k hs hl => ?_, fun wl k hw hs => ?_, fun wl k hw hs => ?_⟩
  · exact fold_bound_ex cfg uf (cntNode · n) _ _ (fun s j ws => step_node_dim cfg uf s j ws n hn hs hl) order st w
  · exact fold_bound_ex cfg uf (cntNs · k) _ _ (fun s j ws => step_ns_dim cfg uf s j ws k hs hl) order st w
  · exact fold_bound_ex cfg uf (cntMigr · wl k) _ _ (fun s j ws => step_migr_dim cfg uf s j ws wl k hw hs) order st w
  · exact fold_bound_ex cfg uf (cntUnav · wl k) _ _ (fun s j ws => step_unav_dim cfg uf s j ws wl k hw hs) order st w

/-- the per-dimension exempt counts are at most the round's total (so `round_inv_dim` implies `round_inv`) -/
theorem round_exempt_dim_le (cfg : ArbCfg) (uf : List Nat) (st : ArbSt) (order : List Nat) (n k wl : Nat) :
    roundEx (exNode cfg uf n) cfg uf st order ≤ roundExempt cfg uf st order ∧
    roundEx (exNs cfg uf k) cfg uf st order ≤ roundExempt cfg uf st order ∧
    roundEx (exWl cfg uf wl k) cfg uf st order ≤ roundExempt cfg uf st order := by
  refine ⟨roundEx_le _ cfg uf ?_ order st, roundEx_le _ cfg uf ?_ order st, roundEx_le _ cfg uf ?_ order st⟩
  · intro s j h; simp only [exNode, Bool.and_eq_true] at h; exact h.1
  · intro s j h; simp only [exNs, Bool.and_eq_true] at h; exact h.1
  · intro s j h; simp only [exWl, Bool.and_eq_true] at h; exact h.1

-- non-vacuity: an annotated pod of namespace 2 is admitted beyond every limit; namespace 1 (limit 1, one job running)
-- is charged nothing for it, so its waiting job stays out: the per-dimension bound is 1 ≤ max 1 1 + 0
example :
    let cfg : ArbCfg := { maxGlobal := -1, maxNode := -1, maxNs := 1, maxMigr := -1, maxUnav := -1, replicas := [(1, 8)] }
    let st : ArbSt := { pods := [⟨1, 1, 1, 1, true, false, false, 0⟩, ⟨2, 2, 1, 1, true, false, false, 0⟩,
                                 ⟨3, 3, 2, 1, true, true, false, 0⟩],
                        jobs := [⟨1, 1, 1, 2, true, 1⟩, ⟨2, 2, 1, 0, false, 2⟩, ⟨3, 3, 2, 0, false, 3⟩], waiting := [2, 3] }
    WF st ∧ roundExempt cfg [] st [3, 2] = 1 ∧ roundEx (exNs cfg [] 1) cfg [] st [3, 2] = 0 ∧
      roundEx (exNs cfg [] 2) cfg [] st [3, 2] = 1 ∧ cntNs (round cfg [] st [3, 2]) 1 = 1 ∧
      cntNs (round cfg [] st [3, 2]) 2 = 1 := by decide

/-! ### Part 3 — one descheduling cycle (deschedulerOnce) -/

/-- **cycle_caps_hold.**  One cycle = Reset ; Deschedule phase ; Balance phase (the shape `cycleShape`, tied to the
    source by Ties/C16.lean).  Whatever counters the previous cycle left behind, whatever the two phases attempt and
    whatever the API answers: the evictions issued in the WHOLE cycle (both phases together) are within the caps per
    real node, per namespace and in total, and the limiter's counters after the cycle equal the evictions issued. -/
theorem cycle_caps_hold (caps : Caps) (s0 : Ctr) (ph1 ph2 : List (Pod × Bool)) :
    let r := cycle (some caps) false s0 ph1 ph2
    let iss := issuedOf (ph1 ++ ph2) r.2
    (∀ n, n ≠ 0 → issuedBy (·.node) iss n = cget r.1.node n ∧ capLe caps.node (issuedBy (·.node) iss n)) ∧
    (∀ k, issuedBy (·.ns) iss k = cget r.1.ns k ∧ capLe caps.ns (issuedBy (·.ns) iss k)) ∧
    (iss.length = r.1.total ∧ capLe caps.total iss.length) := by
  obtain ⟨i1, g1, h1, l1⟩ := pxSeq_good caps ph1 {} [] (good_init caps)
  obtain ⟨i2, g2, h2, l2⟩ := pxSeq_good caps ph2 _ i1 g1
  have hr1 : (cycle (some caps) false s0 ph1 ph2).1 = (pxSeq (some caps) false (pxSeq (some caps) false {} ph1).1 ph2).1 := by
    simp [cycle, cycleShape, runCycleEvents]
  have hr2 : (cycle (some caps) false s0 ph1 ph2).2 =
      (pxSeq (some caps) false {} ph1).2 ++ (pxSeq (some caps) false (pxSeq (some caps) false {} ph1).1 ph2).2 := by
    simp [cycle, cycleShape, runCycleEvents]
  have hiss : issuedOf (ph1 ++ ph2) (cycle (some caps) false s0 ph1 ph2).2 =
      issuedOf ph1 (pxSeq (some caps) false {} ph1).2 ++
        issuedOf ph2 (pxSeq (some caps) false (pxSeq (some caps) false {} ph1).1 ph2).2 := by
    rw [hr2]; exact issuedOf_append _ _ _ _ (pxSeq_length _ _ _ _).symm
  have hby : ∀ f k, issuedBy f (issuedOf (ph1 ++ ph2) (cycle (some caps) false s0 ph1 ph2).2) k = issuedBy f i2 k := by
    intro f k
    rw [hiss, issuedBy_append, h2 f k, h1 f k]
    simp [issuedBy]
  have hlen : (issuedOf (ph1 ++ ph2) (cycle (some caps) false s0 ph1 ph2).2).length = i2.length := by
    rw [hiss, List.length_append, l2, l1]; simp
  simp only []
  rw [hr1]
  refine ⟨fun n hn => ?_, fun k => ?_, ?_, ?_⟩
  · rw [hby]; exact ⟨g2.node n hn, by rw [g2.node n hn]; exact g2.caps.node n hn⟩
  · rw [hby]; exact ⟨g2.ns k, by rw [g2.ns k]; exact g2.caps.ns k⟩
  · rw [hlen]; exact g2.total
  · rw [hlen, g2.total]; exact g2.caps.total

/-- a cycle does not depend on what the previous cycle left in the counters (Reset comes first) -/
theorem cycle_forgets_previous (lim : Option Caps) (dry : Bool) (s0 s1 : Ctr) (ph1 ph2 : List (Pod × Bool)) :
    cycle lim dry s0 ph1 ph2 = cycle lim dry s1 ph1 ph2 := by
  simp [cycle, cycleShape, runCycleEvents]

/-- **reset_between_phases_counterexample**: with the Reset inside a helper that runs once per phase (events
    Reset ; Deschedule ; Reset ; Balance) the caps do not hold for the cycle although each phase alone respects them:
    total cap 3, per-node cap 2, both phases try two pods on node 1 and one on node 2: 6 evictions are issued, 4 of
    them on node 1, and the limiter reports 3. -/
theorem reset_between_phases_counterexample :
    ¬ (∀ (caps : Caps) (ph1 ph2 : List (Pod × Bool)),
        let r := runCycleEvents (some caps) false [1, 3, 1, 4] {} ph1 ph2
        capLe caps.total (issuedOf (ph1 ++ ph2) r.2).length ∧
          capLe caps.node (issuedBy (·.node) (issuedOf (ph1 ++ ph2) r.2) 1) ∧
          (issuedOf (ph1 ++ ph2) r.2).length = r.1.total) := by
  intro h
  have := h ⟨some 2, none, some 3⟩ [(⟨1, 0⟩, true), (⟨1, 0⟩, true), (⟨2, 0⟩, true)] [(⟨1, 0⟩, true), (⟨1, 0⟩, true), (⟨2, 0⟩, true)]
  simp only [capLe] at this
  revert this
  decide

/-- dry-run: a cycle issues no call at all -/
theorem cycle_dry_no_call (lim : Option Caps) (s0 : Ctr) (ph1 ph2 : List (Pod × Bool)) :
    ∀ o ∈ (cycle lim true s0 ph1 ph2).2, o.called = false := by
  have hseq : ∀ (ops : List (Pod × Bool)) (s : Ctr), ∀ o ∈ (pxSeq lim true s ops).2, o.called = false := by
    intro ops
    induction ops with
    | nil => intro s o h; simp [pxSeq] at h
    | cons a r ih =>
      intro s o h
      obtain ⟨p, ok⟩ := a
      simp only [pxSeq, List.mem_cons] at h
      rcases h with rfl | h
      · cases lim with
        | none => simp [pxEvict]
        | some c => cases h : elRefuse c s p <;> simp [pxEvict, h]
      · exact ih _ o h
  intro o h
  simp only [cycle, cycleShape, runCycleEvents] at h
  simp at h
  rcases h with h | h
  · exact hseq _ _ o h
  · exact hseq _ _ o h

-- non-vacuity: the caps bite across the phase boundary (total cap 3: phase 1 issues 2, phase 2 only 1 of its 2)
example :
    let r := cycle (some ⟨none, none, some 3⟩) false {} [(⟨1, 0⟩, true), (⟨2, 0⟩, true)] [(⟨1, 1⟩, true), (⟨3, 0⟩, true)]
    r.2.map (·.ok) = [true, true, true, false] ∧ r.1.total = 3 := by decide

/-! ### Part 4 — the events around the arbitrator (handler.go) -/

/-- **passed_mark_kept_while_live.**  An informer event routed through arbitrationHandler keeps the passed-arbitration
    mark of job `j`, unless it is the Delete event of `j` itself or an Update event of `j` whose new phase is
    Succeeded / Failed / Aborted.  In particular the echo of the arbitrator's own annotation write — phase "" (0),
    Pending or Running — keeps it, and so does an event of any other job. -/
theorem passed_mark_kept_while_live (st : ArbSt) (e : HEvent) (j : Nat)
    (h : match e with
         | .create _ _ => True
         | .update jid ph => jid = j → terminalPhase ph = false
         | .delete jid => jid ≠ j) :
    (handle st e).arbitrated.contains j = st.arbitrated.contains j := by
  cases e with
  | create jid ph => simp only [handle]; split <;> (try split) <;> rfl
  | update jid ph =>
    simp only [handle]
    split
    · rename_i ht
      have hne : j ≠ jid := fun hj => by rw [h hj.symm] at ht; cases ht
      have : (j != jid) = true := by simpa using hne
      rw [dropMark_contains, this, Bool.and_true]
    · rfl
  | delete jid =>
    have : (j != jid) = true := by simpa using (fun hj : j = jid => h hj.symm)
    simp only [handle]
    rw [dropMark_contains, this, Bool.and_true]

/-- **finished_job_not_taken_in**: a Create event for a job whose phase is Succeeded / Failed / Aborted changes nothing, so
    after a restart exactly the unfinished jobs wait for arbitration again (and no finished job can be failed or passed by a round) -/
theorem finished_job_not_taken_in (st : ArbSt) (jid ph : Nat) (h : terminalPhase ph = true) :
    handle st (.create jid ph) = st := by
  simp only [handle, h, if_true]

theorem handle_create_effect (s : ArbSt) (j ph x : Nat) :
    (handle s (.create j ph)).waiting.contains x = (s.waiting.contains x || (j == x && !terminalPhase ph)) ∧
      (handle s (.create j ph)).arbitrated = s.arbitrated := by
  simp only [handle]
  by_cases ht : terminalPhase ph = true
  · simp [ht]
  · have ht' : terminalPhase ph = false := by simpa using ht
    simp only [ht', Bool.false_eq_true, if_false, Bool.not_false, Bool.and_true]
    by_cases hc : s.waiting.contains j = true
    · simp only [hc, if_true, and_true]
      by_cases hj : j = x
      · subst hj; simpa using hc
      · have : (j == x) = false := by simpa using hj
        simp [this]
    · have hc' : s.waiting.contains j = false := by simpa using hc
      simp only [hc', Bool.false_eq_true, if_false, and_true, List.contains_cons]
      by_cases hj : j = x
      · subst hj; simp
      · have h1 : (j == x) = false := by simpa using hj
        have h2 : (x == j) = false := by simpa using (fun h : x = j => hj h.symm)
        simp [h1, h2]

theorem restart_fold (l : List JobA) (s0 : ArbSt) (jid : Nat) :
    (l.foldr (fun j s => handle s (.create j.id j.phase)) s0).waiting.contains jid =
        (l.any (fun j => j.id == jid && !terminalPhase j.phase) || s0.waiting.contains jid) ∧
      (l.foldr (fun j s => handle s (.create j.id j.phase)) s0).arbitrated = s0.arbitrated := by
  induction l with
  | nil => simp
  | cons j r ih =>
    simp only [List.foldr_cons, List.any_cons]
    obtain ⟨h1, h2⟩ := handle_create_effect (r.foldr (fun j s => handle s (.create j.id j.phase)) s0) j.id j.phase jid
    rw [h1, h2, ih.1, ih.2]
    refine ⟨?_, rfl⟩
    cases (j.id == jid && !terminalPhase j.phase) <;> cases (r.any fun j => j.id == jid && !terminalPhase j.phase) <;>
      cases s0.waiting.contains jid <;> rfl

/-- **restart_waiting**: after a restart exactly the unfinished jobs of the API wait for arbitration, and no job is marked passed -/
theorem restart_waiting (st : ArbSt) (jid : Nat) :
    (restart st).waiting.contains jid = st.jobs.any (fun j => j.id == jid && !terminalPhase j.phase) ∧ (restart st).arbitrated = [] := by
  have h := restart_fold st.jobs { st with arbitrated := [], waiting := [] } jid
  simp only [restart]
  refine ⟨?_, h.2⟩
  rw [h.1]; simp

/-- the phases that keep the mark are exactly those that are not Succeeded (3), Failed (4), Aborted (5): "" (0), Pending (1),
    Running (2) and any value the API does not define -/
theorem terminalPhase_iff (ph : Nat) : terminalPhase ph = false ↔ ph ≠ 3 ∧ ph ≠ 4 ∧ ph ≠ 5 := by
  simp only [terminalPhase, Bool.or_eq_false_iff, beq_eq_false_iff_ne, ne_eq]
  omega

/-- **handler_events_keep_live.**  With unique job names, the Update event the informer delivers for ANY job (ObjectNew =
    the object in the API) changes `live` of no job: every count of `round_inv` is the same before and after it, and
    every limit check of the filter answers the same for every pod. -/
theorem handler_events_keep_live (st : ArbSt) (w : WF st) (jid : Nat) :
    cntGlobal (echo st jid) = cntGlobal st ∧ (∀ n, cntNode (echo st jid) n = cntNode st n) ∧
    (∀ k, cntNs (echo st jid) k = cntNs st k) ∧ (∀ wl k, cntMigr (echo st jid) wl k = cntMigr st wl k) ∧
    (∀ wl k, cntUnav (echo st jid) wl k = cntUnav st wl k) ∧
    (∀ cfg ca p, retryable cfg (echo st jid) ca p = retryable cfg st ca p) := by
  have e := echo_liveEq st w.jobIds jid
  exact ⟨e.cntGlobal, e.cntNode, e.cntNs, e.cntMigr, e.cntUnav, e.retryable⟩

/-- **round_inv_eager**: `round_inv` for a round in which the informer echoes each of the arbitrator's own writes back
    through the handler before the next job is filtered (`roundEager`; the end-of-round echo is `round` followed by
    `echoAll`, covered by `handler_events_keep_live`). -/
theorem round_inv_eager (cfg : ArbCfg) (uf : List Nat) (st : ArbSt) (order : List Nat) (w : WF st) :
    let st' := roundEager cfg uf st order
    let E := roundExemptEager cfg uf st order
    (gateSkipped cfg 5 = false → 0 < cfg.maxGlobal → cntGlobal st' ≤ max cfg.maxGlobal.toNat (cntGlobal st) + E) ∧
    (∀ n, n ≠ 0 → gateSkipped cfg 3 = false → 0 < cfg.maxNode → cntNode st' n ≤ max cfg.maxNode.toNat (cntNode st n) + E) ∧
    (∀ k, gateSkipped cfg 4 = false → 0 < cfg.maxNs → cntNs st' k ≤ max cfg.maxNs.toNat (cntNs st k) + E) ∧
    (∀ wl k, wl ≠ 0 → gateSkipped cfg 2 = false →
      cntMigr st' wl k ≤ max (max (wlLimit cfg wl cfg.mmKind cfg.maxMigr) 1) (cntMigr st wl k) + E) ∧
    (∀ wl k, wl ≠ 0 → gateSkipped cfg 1 = false →
      cntUnav st' wl k ≤ max (wlLimit cfg wl cfg.muKind cfg.maxUnav) (cntUnav st wl k) + E) := by
  refine ⟨fun hs hl => ?_, fun n hn hs hl => ?_, fun k hs hl => ?_, fun wl k hw hs => ?_, fun wl k hw hs => ?_⟩
  · exact fold_bound_eager cfg uf cntGlobal _ (fun s j ws => step_global cfg uf s j ws hs hl) (fun _ _ e => e.cntGlobal) order st w
  · exact fold_bound_eager cfg uf (cntNode · n) _ (fun s j ws => step_node cfg uf s j ws n hn hs hl) (fun _ _ e => e.cntNode n) order st w
  · exact fold_bound_eager cfg uf (cntNs · k) _ (fun s j ws => step_ns cfg uf s j ws k hs hl) (fun _ _ e => e.cntNs k) order st w
  · exact fold_bound_eager cfg uf (cntMigr · wl k) _ (fun s j ws => step_migr cfg uf s j ws wl k hw hs) (fun _ _ e => e.cntMigr wl k) order st w
  · exact fold_bound_eager cfg uf (cntUnav · wl k) _ (fun s j ws => step_unav cfg uf s j ws wl k hw hs) (fun _ _ e => e.cntUnav wl k) order st w

/-- **observer_counts_code_counts**: as long as annotation and mark agree on the open jobs (`AnnMark`: they are written
    together, `processJob_annMark`, and no handler event separates them, `echo_annMark`), the eager round keeps that
    agreement and the global count of the code's own bookkeeping IS the count an observer of the API makes
    (Running, or ""/Pending with the passed annotation) — the count the Go oracle evaluates. -/
theorem observer_counts_code_counts (cfg : ArbCfg) (uf : List Nat) (st : ArbSt) (order : List Nat) (w : WF st) (h : AnnMark st) :
    let st' := roundEager cfg uf st order
    AnnMark st' ∧ cntGlobal st' = st'.jobs.countP fun j => annLive j && j.pod != 0 := by
  have h' := roundEager_annMark cfg uf order st w h
  exact ⟨h', h'.cntGlobal_eq⟩

/-- **literal_phase_handler_counterexample**: a handler that keeps the mark only for the literal phases Pending / Running
    (the shape `handleLiteral`) drops the mark of a job whose phase is still "" when its own annotation write comes back:
    MaxMigratingGlobally = 1, two waiting jobs of phase "" for two pods.  With the handler as written the second round
    leaves job 2 waiting (1 live job by the API's reading); with the literal handler it passes too (2 > 1). -/
theorem literal_phase_handler_counterexample :
    let cfg : ArbCfg := { maxGlobal := 1, maxNode := -1, maxNs := -1, maxMigr := 10, maxUnav := 10, replicas := [(2, 20)] }
    let st : ArbSt := { pods := [⟨1, 1, 1, 2, true, false, false, 0⟩, ⟨2, 1, 1, 2, true, false, false, 0⟩],
                        jobs := [⟨1, 1, 1, 0, false, 1⟩, ⟨2, 2, 1, 0, false, 2⟩], waiting := [1, 2] }
    let s1 := round cfg [] st [1]
    WF st ∧ (s1.jobs.countP fun j => annLive j && j.pod != 0) = 1 ∧
    ((round cfg [] (handle s1 (.update 1 0)) [2]).jobs.countP fun j => annLive j && j.pod != 0) = 1 ∧
    ((round cfg [] (handleLiteral s1 (.update 1 0)) [2]).jobs.countP fun j => annLive j && j.pod != 0) = 2 := by decide

-- non-vacuity of Part 4: an eager round that admits, echoes and refuses (global limit 1, two waiting jobs of phase "")
example :
    let cfg : ArbCfg := { maxGlobal := 1, maxNode := -1, maxNs := -1, maxMigr := 10, maxUnav := 10, replicas := [(2, 20)] }
    let st : ArbSt := { pods := [⟨1, 1, 1, 2, true, false, false, 0⟩, ⟨2, 1, 1, 2, true, false, false, 0⟩],
                        jobs := [⟨1, 1, 1, 0, false, 1⟩, ⟨2, 2, 1, 0, false, 2⟩], waiting := [1, 2] }
    WF st ∧ AnnMark st ∧ cntGlobal (roundEager cfg [] st [1, 2]) = 1 ∧ (roundEager cfg [] st [1, 2]).waiting = [2] ∧
      roundExemptEager cfg [] st [1, 2] = 0 := by
  refine ⟨by decide, ?_, by decide, by decide, by decide⟩
  intro j hj _
  simp only [List.mem_cons, List.mem_nil_iff, or_false] at hj
  rcases hj with rfl | rfl <;> decide

/-! ### Part 5 — from the configuration file to the limiter -/

/-- **caps_roundtrip_config.**  Decoding, defaulting and conversion of a v1alpha2 configuration hand each of the three caps
    to `NewEvictionLimiter` exactly as declared: an absent or null key is no cap, an integer n is the cap n — 0
    ("evict nothing") included. -/
theorem caps_roundtrip_config (node ns total : CapDecl) :
    configCaps node ns total = ⟨node.declared, ns.declared, total.declared⟩ := by
  cases node <;> cases ns <;> cases total <;> rfl

/-- **config_cycle_caps_hold**: `cycle_caps_hold` for the limiter the start-up path builds — in every cycle the evictions
    issued are within the caps the FILE declares; a declared 0 means nothing is issued. -/
theorem config_cycle_caps_hold (node ns total : CapDecl) (s0 : Ctr) (ph1 ph2 : List (Pod × Bool)) :
    let r := cycle (some (configCaps node ns total)) false s0 ph1 ph2
    let iss := issuedOf (ph1 ++ ph2) r.2
    (∀ n, n ≠ 0 → capLe node.declared (issuedBy (·.node) iss n)) ∧ (∀ k, capLe ns.declared (issuedBy (·.ns) iss k)) ∧
      capLe total.declared iss.length ∧ iss.length = r.1.total ∧ (total = .val 0 → iss = []) := by
  have h := cycle_caps_hold (configCaps node ns total) s0 ph1 ph2
  rw [caps_roundtrip_config] at h
  rw [caps_roundtrip_config]
  refine ⟨fun n hn => (h.1 n hn).2, fun k => (h.2.1 k).2, h.2.2.2, h.2.2.1, fun ht => ?_⟩
  subst ht
  exact List.eq_nil_of_length_eq_zero (by simpa [CapDecl.declared, capLe] using h.2.2.2)

/-- **zero_cap_defaulted_away_counterexample**: a defaulting function that turns an explicit 0 into nil
    (`defaultCapZeroNil`) breaks the round trip, and a cycle then evicts although the file says "evict nothing" -/
theorem zero_cap_defaulted_away_counterexample :
    convertCap (defaultCapZeroNil (decodeCap (.val 0))) ≠ (CapDecl.val 0).declared ∧
    (let caps : Caps := ⟨none, none, convertCap (defaultCapZeroNil (decodeCap (.val 0)))⟩
     (issuedOf [(⟨1, 0⟩, true)] (cycle (some caps) false {} [(⟨1, 0⟩, true)] []).2).length = 1) := by decide

-- non-vacuity of Part 5: total cap 0 in the file: both attempts of the cycle are refused without a call
example :
    (cycle (some (configCaps .absent .null (.val 0))) false {} [(⟨1, 0⟩, true)] [(⟨2, 1⟩, true)]).2 = [⟨false, false⟩, ⟨false, false⟩] ∧
      configLoads .absent .null (.val 0) = true ∧ configLoads .malformed .absent .absent = false := by decide

/-- **arb_limits_roundtrip_config.**  Decoding, defaulting and conversion of the MigrationController plugin config hand every
    arbitration limit to the filter as declared — an explicit value (0 = switched off included), the form of the per-workload
    limits, the skipped gates and SkipCheckExpectedReplicas are unchanged; the only default filled in is
    maxMigratingPerNode = 2 when the key is absent. -/
theorem arb_limits_roundtrip_config (cfg : ArbCfg) :
    let c := defaultArbCfg cfg
    c.maxGlobal = cfg.maxGlobal ∧ c.maxNs = cfg.maxNs ∧ c.maxMigr = cfg.maxMigr ∧ c.maxUnav = cfg.maxUnav ∧
    c.mmKind = cfg.mmKind ∧ c.muKind = cfg.muKind ∧ c.skip = cfg.skip ∧ c.skipCER = cfg.skipCER ∧ c.replicas = cfg.replicas ∧
    (0 ≤ cfg.maxNode → c.maxNode = cfg.maxNode) ∧ (cfg.maxNode < 0 → c.maxNode = 2) := by
  refine ⟨rfl, rfl, rfl, rfl, rfl, rfl, rfl, rfl, rfl, fun h => ?_, fun h => ?_⟩
  · simp only [defaultArbCfg]; rw [if_neg (by omega)]
  · simp only [defaultArbCfg]; rw [if_pos h]; rfl

/-- **per_node_default_counterexample**: the default matters — with maxMigratingPerNode absent, three waiting jobs for three pods
    of one node: the filter configured through the file admits two (the documented default), a filter given the bare nil
    admits all three -/
theorem per_node_default_counterexample :
    let cfg : ArbCfg := { maxGlobal := -1, maxNode := -1, maxNs := -1, maxMigr := 10, maxUnav := 10, replicas := [(2, 20)] }
    let st : ArbSt := { pods := [⟨1, 1, 1, 2, true, false, false, 0⟩, ⟨2, 1, 1, 2, true, false, false, 0⟩, ⟨3, 1, 1, 2, true, false, false, 0⟩],
                        jobs := [⟨1, 1, 1, 0, false, 1⟩, ⟨2, 2, 1, 0, false, 2⟩, ⟨3, 3, 1, 0, false, 3⟩], waiting := [1, 2, 3] }
    cntNode (round (defaultArbCfg cfg) [] st [1, 2, 3]) 1 = 2 ∧ cntNode (round cfg [] st [1, 2, 3]) 1 = 3 := by decide

end KoordVerif.C16
