import KoordVerif.Proofs.C03Ext
import KoordVerif.Proofs.C03Ext3
import KoordVerif.Proofs.C03Ext5
import KoordVerif.Props.C02
/-
C03 — property theorems (DESIGN.md §4 C03) over the model `Model/C03.lean`.

  1. `admit_iff`, `checkRec_step`, `checkRec_success_chain` — the admission decision stated outright,
     both switches, every dimension count, key presence included.
  2. `reject_sound` — a rejected pod really exceeds a limit (leaf limit, min for a non-preemptible pod,
     or an ancestor's limit when parent checking is on).
  3. `closed_loop_inv_partial` (atomic scheduling cycles), `used_never_above_max`, `np_used_never_above_min` — over
     every history of scheduling cycles and informer events that never lowers max/min, `used ≤ max` for every group
     without child groups, for *every* group when parent checking is on, and `npUsed ≤ min`.  The quota updates
     include allow-lent / is-parent flips (tree reset; `resetAll_inv` under `TreeConsistent`) and parent changes
     (`reparent_inv` under `ReparentOK`), see `MetaOK`.
  4. `runtime_le_max` — the hypothesis `RuntimeOK` (runtime ≤ max) follows from C02 `runtime_bounds`.
  5. `closed_loop_inv` (+ `used_never_above_max_interleaved`, `np_used_never_above_min_interleaved`) — the
     interleaved form: informer events between the admitting PreFilter and its Reserve;
     `interleaved_reparent_counterexample`, `interleaved_arrival_counterexample` — the interleavings that break it.
  7. `exclusive_unreserve_single_subtraction`, `shared_unreserve_counterexample` — Unreserve(p) ∥ OnPodDelete(p) at
     critical-section granularity: the exclusive lock gives a single subtraction under every interleaving.
  8. the `IsQuotaChange` gate of `OnQuotaUpdate` / `UpdateQuota` (model `isQuotaChange`, `quotaUpdate`; Proofs/C03Ext3:
     `isQuotaChange_false_iff`, `limits_follow_last_declared`, `removeZeros_gate_counterexample`): `closed_loop_inv_gated`,
     `used_never_above_max_gated`, `np_used_never_above_min_gated` — §5 with every quota object passing the gate and
     with max/min updates that add entries or lower values while the shown usage fits (`FitsUpdate`,
     `quotaMaxMin_inv_fits`); `used_within_last_declared` — used ≤ max and non-preemptible used ≤ min of the LAST
     DECLARED object of the group.
-/
namespace KoordVerif.C03

/-! ### 1. the decision, stated outright -/

/-- `used + request ≤ limit` on every key of the limit list (runtime or max). -/
def LeafOK (D : Nat) (cfg : Cfg) (q : Quota) (p : Pod) : Prop :=
  ∀ d, d < D → ∀ l, limitOf cfg q d = some l → mreq q p d + q.used d ≤ l

/-- a non-preemptible pod must also fit into min. -/
def NpOK (D : Nat) (q : Quota) (p : Pod) : Prop :=
  p.np = true → ∀ d, d < D → ∀ m, q.min d = some m → mreq q p d + q.npUsed d ≤ m

/-- the ancestor check: only the keys of the (masked) pod request are compared. -/
def AncOK (D : Nat) (cfg : Cfg) (leaf : Quota) (p : Pod) (a : Quota) : Prop :=
  ∀ d, d < D → ∀ l, limitOf cfg a d = some l → ancNewUsed leaf p a d ≤ l

theorem admit_iff (s : State) (cfg : Cfg) (p : Pod) :
    attempt s cfg p = .success ↔
      ∃ q, findQ s.quotas p.quota = some q ∧ LeafOK s.dims cfg q p ∧ NpOK s.dims q p ∧
        (cfg.cp = true → checkRec s.dims s.quotas cfg q p (fuelOf s) q.parent = .success) := by
  unfold attempt
  cases hq : findQ s.quotas p.quota with
  | none => simp
  | some q =>
    have h1 := leqB_iff s.dims (fun d => mreq q p d + q.used d) (limitOf cfg q)
    have h2 := leqB_iff s.dims (fun d => mreq q p d + q.npUsed d) q.min
    simp only [Option.some.injEq, exists_eq_left']
    unfold LeafOK NpOK
    cases hb1 : leqB s.dims (fun d => mreq q p d + q.used d) (limitOf cfg q) with
    | false =>
      rw [hb1] at h1
      simp only [Bool.not_false, if_true]
      constructor
      · intro h; cases h
      · rintro ⟨hL, _⟩
        have := h1.mpr hL
        cases this
    | true =>
      rw [hb1] at h1
      have hL := h1.mp rfl
      cases hnp : p.np with
      | false =>
        cases hcp : cfg.cp with
        | false => simp; exact hL
        | true => simp; intro _; exact hL
      | true =>
        cases hb2 : leqB s.dims (fun d => mreq q p d + q.npUsed d) q.min with
        | false =>
          rw [hb2] at h2
          simp only [Bool.not_true, Bool.false_eq_true, if_false, Bool.not_false, Bool.and_self, if_true]
          constructor
          · intro h; cases h
          · rintro ⟨_, hN, _⟩
            have := h2.mpr (hN trivial)
            cases this
        | true =>
          rw [hb2] at h2
          have hN := h2.mp rfl
          cases hcp : cfg.cp with
          | false => simp; exact ⟨hL, hN⟩
          | true =>
            simp
            constructor
            · intro h; exact ⟨hL, hN, h⟩
            · intro h; exact h.2.2

/-! #### known finding `C03:default-quota-unlimited-in-runtime-mode`
`refreshRuntimeNoLock` returns `GetMax()` for koordinator-default-quota / koordinator-system-quota without
storing it, so their `CalculateInfo.Runtime` stays the empty list (`Quota.runtime = RL.empty`, never
`setRuntime`).  In runtime mode the limit list is then empty and `LessThanOrEqual` is vacuous. -/

/-- the default quota (group 1 under the root) with max cpu = 4, runtime list never written. -/
def dqState : State := quotaSet (init 1) 1 rootName false true (fun d => if d = 0 then some 4 else none) RL.empty

/-- a pod of that quota asking for cpu = 8. -/
def dqPod : Pod :=
  { id := 1, quota := 1, label := 1, np := false, req := fun d => if d = 0 then some 8 else none, inCache := true, assigned := false }

/-- admitted in runtime mode although used + request = 8 > max = 4; rejected with the runtime switch off. -/
theorem default_quota_counterexample :
    attempt dqState ⟨true, false⟩ dqPod = .success ∧
    attempt dqState ⟨true, true⟩ dqPod = .success ∧
    attempt dqState ⟨false, false⟩ dqPod = .unschedulable ∧
    (findQ dqState.quotas 1).map (fun q => (q.max 0, q.runtime 0, mreq q dqPod 0 + q.used 0)) = some (some 4, none, 8) := by
  decide

/-- hence "admitted ⇒ within max" does NOT hold for every state of the model: the closed-loop theorems below
    need `RuntimeOK`, which fails for the default/system quota. -/
theorem admitted_within_max_counterexample :
    ¬ ∀ (s : State) (cfg : Cfg) (p : Pod), attempt s cfg p = .success →
        ∀ q, findQ s.quotas p.quota = some q → ∀ d, d < s.dims → ∀ m, q.max d = some m → mreq q p d + q.used d ≤ m := by
  intro h
  have hadm : attempt dqState ⟨true, false⟩ dqPod = .success := by decide
  have hfacts : (findQ dqState.quotas 1).map (fun q => (q.max 0, mreq q dqPod 0 + q.used 0)) = some (some 4, 8) := by decide
  cases hq : findQ dqState.quotas 1 with
  | none => rw [hq] at hfacts; cases hfacts
  | some q =>
    rw [hq] at hfacts
    simp only [Option.map_some, Option.some.injEq, Prod.mk.injEq] at hfacts
    have := h dqState ⟨true, false⟩ dqPod hadm q hq 0 (by decide) 4 hfacts.1
    omega

/-- one step of the ancestor walk. -/
theorem checkRec_step (D : Nat) (qs : List Quota) (cfg : Cfg) (leaf : Quota) (p : Pod) (fuel cur : Nat) :
    checkRec D qs cfg leaf p (fuel + 1) cur = .success ↔
      cur = rootName ∨ ∃ a, findQ qs cur = some a ∧ AncOK D cfg leaf p a ∧
        checkRec D qs cfg leaf p fuel a.parent = .success := by
  rw [checkRec]
  by_cases hr : cur = rootName
  · simp [hr]
  · simp only [hr, if_false, false_or]
    cases ha : findQ qs cur with
    | none => simp
    | some a =>
      simp only [Option.some.injEq, exists_eq_left']
      unfold AncOK
      cases hb : leqB D (ancNewUsed leaf p a) (limitOf cfg a) with
      | false =>
        have := leqB_iff D (ancNewUsed leaf p a) (limitOf cfg a)
        rw [hb] at this
        simp only [Bool.false_eq_true, if_false]
        constructor
        · intro h; cases h
        · rintro ⟨h, _⟩
          have := this.mpr h
          cases this
      | true =>
        have := (leqB_iff D (ancNewUsed leaf p a) (limitOf cfg a)).mp hb
        simp only [if_true]
        constructor
        · intro h; exact ⟨this, h⟩
        · intro h; exact h.2

/-- success of the walk ⇒ every non-root group on the parent chain passed its check. -/
theorem checkRec_success_chain (D : Nat) (qs : List Quota) (cfg : Cfg) (leaf : Quota) (p : Pod) :
    ∀ (fuel cur : Nat), checkRec D qs cfg leaf p fuel cur = .success →
      ∀ a ∈ chain qs fuel cur, a.name ≠ rootName → AncOK D cfg leaf p a := by
  intro fuel
  induction fuel with
  | zero => intro cur _ a ha; simp [chain] at ha
  | succ f ih =>
    intro cur h a ha hne
    rcases (checkRec_step D qs cfg leaf p f cur).mp h with hr | ⟨b, hb, hok, hrec⟩
    · subst hr
      unfold chain at ha
      cases hq : findQ qs rootName with
      | none => simp [hq] at ha
      | some q =>
        simp [hq] at ha
        subst ha
        exact absurd (findQ_some hq).2 hne
    · unfold chain at ha
      simp only [hb] at ha
      rcases List.mem_cons.mp ha with rfl | h'
      · exact hok
      · by_cases hr : cur = rootName
        · simp [hr] at h'
        · simp only [hr, if_false] at h'
          exact ih _ hrec a h' hne

/-! ### 2. rejections are sound -/

theorem checkRec_unsched_chain (D : Nat) (qs : List Quota) (cfg : Cfg) (leaf : Quota) (p : Pod) :
    ∀ (fuel cur : Nat), checkRec D qs cfg leaf p fuel cur = .unschedulable →
      ∃ a ∈ chain qs fuel cur, a.name ≠ rootName ∧
        ∃ d, d < D ∧ ∃ l, limitOf cfg a d = some l ∧ l < ancNewUsed leaf p a d := by
  intro fuel
  induction fuel with
  | zero => intro cur h; simp [checkRec] at h
  | succ f ih =>
    intro cur h
    unfold checkRec at h
    by_cases hr : cur = rootName
    · simp [hr] at h
    · simp only [hr, if_false] at h
      cases ha : findQ qs cur with
      | none => simp [ha] at h
      | some a =>
        simp only [ha] at h
        have hn := (findQ_some ha).2
        cases hb : leqB D (ancNewUsed leaf p a) (limitOf cfg a) with
        | false =>
          refine ⟨a, ?_, by rw [hn]; exact hr, (leqB_false_iff _ _ _).mp hb⟩
          unfold chain; simp [ha]
        | true =>
          simp only [hb, if_true] at h
          rcases ih _ h with ⟨b, hb', rest⟩
          refine ⟨b, ?_, rest⟩
          unfold chain; simp only [ha, hr, if_false]
          exact List.mem_cons_of_mem _ hb'

/-- every rejected pod really would have exceeded a limit. -/
theorem reject_sound (s : State) (cfg : Cfg) (p : Pod) (h : attempt s cfg p = .unschedulable) :
    ∃ q, findQ s.quotas p.quota = some q ∧
      ( (∃ d, d < s.dims ∧ ∃ l, limitOf cfg q d = some l ∧ l < mreq q p d + q.used d)
      ∨ (p.np = true ∧ ∃ d, d < s.dims ∧ ∃ m, q.min d = some m ∧ m < mreq q p d + q.npUsed d)
      ∨ (cfg.cp = true ∧ ∃ a ∈ chain s.quotas (fuelOf s) q.parent, a.name ≠ rootName ∧
            ∃ d, d < s.dims ∧ ∃ l, limitOf cfg a d = some l ∧ l < ancNewUsed q p a d) ) := by
  unfold attempt at h
  cases hq : findQ s.quotas p.quota with
  | none => simp [hq] at h
  | some q =>
    simp only [hq] at h
    refine ⟨q, rfl, ?_⟩
    cases hb1 : leqB s.dims (fun d => mreq q p d + q.used d) (limitOf cfg q) with
    | false => exact Or.inl ((leqB_false_iff _ _ _).mp hb1)
    | true =>
      simp only [hb1, Bool.not_true, Bool.false_eq_true, if_false] at h
      by_cases hnp : (p.np && !leqB s.dims (fun d => mreq q p d + q.npUsed d) q.min) = true
      · right; left
        simp only [Bool.and_eq_true, Bool.not_eq_true'] at hnp
        exact ⟨hnp.1, (leqB_false_iff _ _ _).mp hnp.2⟩
      · simp only [hnp, if_false] at h
        cases hcp : cfg.cp with
        | false => simp [hcp] at h
        | true =>
          simp only [hcp, if_true] at h
          right; right
          exact ⟨rfl, checkRec_unsched_chain _ _ _ _ _ _ _ h⟩

/-! ### 3. the closed loop -/

/-- what the closed loop needs from C02: on the pod's path every declared dimension of max has a
    runtime value, and it does not exceed max (tested by the harness on every attempt). -/
def RuntimeOK (s : State) (cfg : Cfg) (p : Pod) : Prop :=
  cfg.rt = true → ∀ g ∈ chain s.quotas (fuelOf s) p.quota,
    ∀ d m, g.max d = some m → ∃ r, g.runtime d = some r ∧ r ≤ m

theorem limit_le_max (cfg : Cfg) (g : Quota)
    (h : cfg.rt = true → ∀ d m, g.max d = some m → ∃ r, g.runtime d = some r ∧ r ≤ m) :
    ∀ d m, g.max d = some m → ∃ l, limitOf cfg g d = some l ∧ l ≤ m := by
  intro d m hm
  unfold limitOf
  cases hrt : cfg.rt with
  | false => exact ⟨m, by simpa using hm, Int.le_refl _⟩
  | true => simpa using h hrt d m hm

theorem findP_mem {ps : List Pod} {i : Nat} {p : Pod} (h : findP ps i = some p) : p ∈ ps := by
  unfold findP at h
  exact List.mem_of_find?_eq_some h

theorem mreq_nonneg (q : Quota) (p : Pod) (hp : ∀ d, 0 ≤ val p.req d) (d : Nat) : 0 ≤ mreq q p d := by
  unfold mreq; split
  · exact hp d
  · exact Int.le_refl _

theorem mreq_zero_of_not_mkey (q : Quota) (p : Pod) (d : Nat) (h : mkey q p d = false) : mreq q p d = 0 := by
  unfold mkey at h
  unfold mreq val
  cases hm : q.max d with
  | none => simp
  | some m =>
    cases hr : p.req d with
    | none => simp
    | some r => simp [hm, hr] at h

/-- a group named on the pod's path is (by uniqueness of names) an element of the chain. -/
theorem mem_chain_of_name_mem (s : State) (hn : (s.quotas.map (·.name)).Nodup) (g : Quota) (hg : g ∈ s.quotas)
    (n : Nat) (h : g.name ∈ pathNames s n) : g ∈ chain s.quotas (fuelOf s) n := by
  unfold pathNames at h
  rcases List.mem_map.mp h with ⟨x, hx, hxn⟩
  have hxq := chain_mem _ _ _ hx
  have h1 := findQ_of_mem hn hxq
  have h2 := findQ_of_mem hn hg
  rw [hxn, h2] at h1
  cases h1
  exact hx

/-- Reserve right after an admitting PreFilter keeps the invariant. -/
theorem reserve_admitted_inv (cfg : Cfg) (s : State) (id : Nat) (p : Pod) (hp : findP s.pods id = some p)
    (hI : Inv cfg.cp s) (hrt : RuntimeOK s cfg p) (hadm : attempt s cfg p = .success) :
    Inv cfg.cp (reserve s id) := by
  rcases (admit_iff s cfg p).mp hadm with ⟨q, hq, hL, hN, hrec⟩
  unfold reserve
  simp only [hp, hq]
  by_cases hc : (!p.inCache || p.assigned) = true
  · simp only [hc, if_true]; exact hI
  · simp only [hc, if_false]
    have hqm := findQ_some hq
    -- a leaf group on the path is the pod's own group
    have leafIsQ : ∀ g ∈ s.quotas, g ∈ chain s.quotas (fuelOf s) p.quota → IsLeafL s.quotas g.name → g = q := by
      intro g hg hgc hleaf
      have := chain_leaf g.name hleaf _ _ g hgc rfl
      have h1 := findQ_of_mem hI.nodup hg
      rw [← this, hq] at h1
      cases h1; rfl
    have hchain : chain s.quotas (fuelOf s) p.quota =
        q :: (if p.quota = rootName then [] else chain s.quotas s.quotas.length q.parent) := by
      unfold fuelOf; rw [chain]; simp only [hq]
    have hqc : q ∈ chain s.quotas (fuelOf s) p.quota := by rw [hchain]; exact List.mem_cons_self
    apply inv_applyDelta
    · exact setPod_req _ _ _ (fun _ => rfl) hI.reqNonneg
    · intro g hg hgn hcl d hd m hm
      have hgc := mem_chain_of_name_mem s hI.nodup g hg _ hgn
      by_cases hgq : g = q
      · subst hgq
        rcases limit_le_max cfg g (fun h => hrt h g hgc) d m hm with ⟨l, hl, hlm⟩
        have := hL d hd l hl
        omega
      · rcases hcl with hcp | hleaf
        · -- an ancestor, parent checking on
          have hgc' : g ∈ chain s.quotas (fuelOf s) q.parent := by
            rw [hchain] at hgc
            rcases List.mem_cons.mp hgc with h | h
            · exact absurd h hgq
            · by_cases hr : p.quota = rootName
              · simp [hr] at h
              · simp only [hr, if_false] at h
                exact chain_mono _ _ _ h
          have hne : g.name ≠ rootName := by
            intro e
            have := hI.rootMax g hg e d
            rw [this] at hm; cases hm
          have hA := checkRec_success_chain _ _ _ _ _ _ _ (hrec hcp) g hgc' hne
          rcases limit_le_max cfg g (fun h => hrt h g hgc) d m hm with ⟨l, hl, hlm⟩
          have h1 := hA d hd l hl
          unfold ancNewUsed at h1
          cases hk : mkey q p d with
          | true => simp only [hk, if_true] at h1; omega
          | false =>
            have h0 := mreq_zero_of_not_mkey q p d hk
            have := hI.usedLeMax g hg (Or.inl hcp) d hd m hm
            omega
        · exact absurd (leafIsQ g hg hgc hleaf) hgq
    · intro g hg hgn hleaf d hd m hm
      have hgc := mem_chain_of_name_mem s hI.nodup g hg _ hgn
      have hgq := leafIsQ g hg hgc hleaf
      subst hgq
      cases hnp : p.np with
      | false =>
        simp only [Bool.false_eq_true, if_false]
        have := hI.npLeMin g hg hleaf d hd m hm
        omega
      | true =>
        simp only [if_true]
        have := hN hnp d hd m hm
        omega
    · exact hI

/-- giving a request back never breaks the invariant. -/
theorem release_inv (cp : Bool) (s : State) (q : Quota) (p : Pod) (hp : p ∈ s.pods) (pods' : List Pod)
    (hpods : ∀ x ∈ pods', ∀ d, 0 ≤ val x.req d) (hI : Inv cp s) :
    Inv cp { s with
      quotas := applyDelta s (pathNames s p.quota) (some p.quota) (fun d => -(mreq q p d)) (fun d => if p.np then -(mreq q p d) else 0)
      pods := pods' } := by
  have hm0 := mreq_nonneg q p (hI.reqNonneg p hp)
  apply inv_applyDelta _ _ _ _ _ _ _ hpods _ _ hI
  · intro g hg _ hcl d hd m hm
    have := hI.usedLeMax g hg hcl d hd m hm
    have := hm0 d
    omega
  · intro g hg _ hleaf d hd m hm
    have := hI.npLeMin g hg hleaf d hd m hm
    have := hm0 d
    split <;> omega

theorem unreserve_inv (cp : Bool) (s : State) (id : Nat) (hI : Inv cp s) : Inv cp (unreserve s id) := by
  unfold unreserve
  cases hp : findP s.pods id with
  | none => exact hI
  | some p =>
    simp only []
    cases hq : findQ s.quotas p.quota with
    | none => exact hI
    | some q =>
      simp only []
      split
      · exact hI
      · exact release_inv cp s q p (findP_mem hp) _ (setPod_req _ _ _ (fun _ => rfl) hI.reqNonneg) hI

theorem podDelete_inv (cp : Bool) (s : State) (id : Nat) (hI : Inv cp s) : Inv cp (podDelete s id) := by
  unfold podDelete
  cases hp : findP s.pods id with
  | none => exact hI
  | some p =>
    simp only []
    cases hq : findQ s.quotas p.quota with
    | none => exact hI
    | some q =>
      simp only []
      split
      · exact hI
      · have hpods := setPod_req s.pods id (fun x => { x with inCache := false, assigned := false }) (fun _ => rfl) hI.reqNonneg
        cases ha : p.assigned with
        | true =>
          simp only [if_true]
          exact release_inv cp s q p (findP_mem hp) _ hpods hI
        | false =>
          simp only [Bool.false_eq_true, if_false]
          exact inv_pods cp s _ hpods hI

theorem podAdd_inv (cp : Bool) (s : State) (id : Nat) (hI : Inv cp s) : Inv cp (podAdd s id) := by
  unfold podAdd
  cases hp : findP s.pods id with
  | none => exact hI
  | some p =>
    simp only []
    cases hq : findQ s.quotas (homeOf s p) with
    | none => exact hI
    | some q =>
      simp only []
      split
      · exact hI
      · exact inv_pods cp s _ (setPod_req _ _ _ (fun _ => rfl) hI.reqNonneg) hI

/-- a migration tick that moves only pods that are not assigned (yet) changes no group. -/
theorem migrate_quotas (s : State) : ∀ (L : List Pod) (st : State), (∀ p ∈ L, p.assigned = false) →
    st.quotas = s.quotas → st.dims = s.dims → (∀ p ∈ st.pods, ∀ d, 0 ≤ val p.req d) →
    (L.foldl migrateOne st).quotas = s.quotas ∧ (L.foldl migrateOne st).dims = s.dims ∧
      ∀ p ∈ (L.foldl migrateOne st).pods, ∀ d, 0 ≤ val p.req d := by
  intro L
  induction L with
  | nil => intro st _ h1 h2 h3; exact ⟨h1, h2, h3⟩
  | cons p L ih =>
    intro st hL h1 h2 h3
    have hp := hL p List.mem_cons_self
    rw [List.foldl_cons]
    apply ih _ (fun x hx => hL x (List.mem_cons_of_mem _ hx))
    all_goals
      unfold migrateOne
      cases findQ st.quotas p.quota with
      | none => first | exact h1 | exact h2 | exact h3
      | some qd =>
        cases findQ st.quotas p.label with
        | none => first | exact h1 | exact h2 | exact h3
        | some qx =>
          simp only [hp, Bool.false_eq_true, if_false]
          first
            | exact h1
            | exact h2
            | exact setPod_req _ _ _ (fun _ => rfl) h3

theorem unghost_none (s : State) (h : ∀ p ∈ s.pods, p.ghost = false) : unghost s = s := by
  unfold unghost
  have : s.pods.filter (·.ghost) = [] := by
    rw [List.filter_eq_nil_iff]
    intro p hp; rw [h p hp]; simp
  rw [this]; rfl

/-- a tick that finds no pod held twice and moves only pods not assigned yet keeps the invariant. -/
theorem migrate_inv (cp : Bool) (s : State) (h : ∀ p ∈ s.pods, limbo s p = true → p.assigned = false)
    (hg : ∀ p ∈ s.pods, p.ghost = false) (hI : Inv cp s) : Inv cp (migrate s) := by
  have hL : ∀ p ∈ s.pods.filter (limbo s), p.assigned = false := by
    intro p hp
    have := List.mem_filter.mp hp
    exact h p this.1 this.2
  rcases migrate_quotas s (s.pods.filter (limbo s)) s hL rfl rfl hI.reqNonneg with ⟨h1, h2, h3⟩
  unfold migrate
  simp only [unghost_none s hg]
  refine ⟨?_, ?_, ?_, h3, ?_, ?_⟩
  · rw [h1]; exact hI.nodup
  · rw [h1]; exact hI.rootMax
  · rw [h1]; exact hI.nonneg
  · rw [h1, h2]; exact hI.usedLeMax
  · rw [h1, h2]; exact hI.npLeMin

theorem podRedef_inv (cp : Bool) (s : State) (id : Nat) (np : Bool) (req : RL) (hreq : ∀ d, 0 ≤ val req d)
    (hI : Inv cp s) : Inv cp (podRedef s id np req) := by
  unfold podRedef
  cases hp : findP s.pods id with
  | none => exact hI
  | some p =>
    simp only []
    split
    · exact hI
    · apply inv_pods cp s _ _ hI
      intro x hx d
      unfold setPod at hx
      rcases List.mem_map.mp hx with ⟨y, hy, rfl⟩
      by_cases hi : y.id = id
      · simp only [hi, if_true]; exact hreq d
      · simp only [hi, if_false]; exact hI.reqNonneg y hy d

theorem unreserveObj_inv (cp : Bool) (s : State) (id uid : Nat) (hI : Inv cp s) : Inv cp (unreserveObj s id uid) := by
  unfold unreserveObj
  cases findP s.pods id with
  | none => exact hI
  | some p =>
    simp only []
    split
    · exact unreserve_inv cp s id hI
    · exact hI

theorem podDef_inv (cp : Bool) (s : State) (id quota : Nat) (np : Bool) (req : RL) (hreq : ∀ d, 0 ≤ val req d)
    (hI : Inv cp s) : Inv cp (podDef s id quota np req) := by
  unfold podDef
  apply inv_pods cp s _ _ hI
  intro p hp d
  rcases List.mem_append.mp hp with h | h
  · exact hI.reqNonneg p h d
  · rw [List.mem_singleton.mp h]; exact hreq d

theorem setRuntime_inv (cp : Bool) (s : State) (n : Nat) (r : RL) (hI : Inv cp s) : Inv cp (setRuntime s n r) := by
  unfold setRuntime
  apply inv_map cp s _ s.pods _ _ _ _ hI.reqNonneg _ _ hI
  · intro q; by_cases h : q.name = n <;> simp [h]
  · intro q; by_cases h : q.name = n <;> simp [h]
  · intro g hg hr d; by_cases h : g.name = n <;> simp [h] <;> exact hI.rootMax g hg hr d
  · intro g hg d; by_cases h : g.name = n <;> simp [h] <;> exact hI.nonneg g hg d
  · intro g hg hc d hd m hm
    by_cases h : g.name = n <;> simp only [h, if_true, if_false] at hm ⊢ <;> exact hI.usedLeMax g hg hc d hd m hm
  · intro g hg hc d hd m hm
    by_cases h : g.name = n <;> simp only [h, if_true, if_false] at hm ⊢ <;> exact hI.npLeMin g hg hc d hd m hm

theorem quotaMaxMin_inv (cp : Bool) (s : State) (n : Nat) (mx mn : RL) (hn : n ≠ rootName)
    (hnl : ∀ q, findQ s.quotas n = some q → NotLowered q.max mx ∧ NotLowered q.min mn)
    (hI : Inv cp s) : Inv cp (quotaMaxMin s n mx mn) := by
  unfold quotaMaxMin
  have isq0 : ∀ g ∈ s.quotas, g.name = n → NotLowered g.max mx ∧ NotLowered g.min mn := by
    intro g hg hgn
    have := findQ_of_mem hI.nodup hg
    rw [hgn] at this
    exact hnl g this
  apply inv_map cp s _ s.pods _ _ _ _ hI.reqNonneg _ _ hI
  · intro q; by_cases h : q.name = n <;> simp [h]
  · intro q; by_cases h : q.name = n <;> simp [h]
  · intro g hg hr d
    have : g.name ≠ n := by rw [hr]; exact fun e => hn e.symm
    simp only [this, if_false]; exact hI.rootMax g hg hr d
  · intro g hg d; by_cases h : g.name = n <;> simp [h] <;> exact hI.nonneg g hg d
  · intro g hg hc d hd m hm
    by_cases h : g.name = n
    · simp only [h, if_true] at hm ⊢
      rcases (isq0 g hg h).1 d m hm with ⟨m0, hm0, hle⟩
      have := hI.usedLeMax g hg hc d hd m0 hm0
      omega
    · simp only [h, if_false] at hm ⊢; exact hI.usedLeMax g hg hc d hd m hm
  · intro g hg hc d hd m hm
    by_cases h : g.name = n
    · simp only [h, if_true] at hm ⊢
      rcases (isq0 g hg h).2 d m hm with ⟨m0, hm0, hle⟩
      have := hI.npLeMin g hg hc d hd m0 hm0
      omega
    · simp only [h, if_false] at hm ⊢; exact hI.npLeMin g hg hc d hd m hm

theorem quotaAdd_inv (cp : Bool) (s : State) (n parent : Nat) (ip l : Bool) (mx mn : RL) (hn : n ≠ rootName)
    (hmx : ∀ d v, mx d = some v → 0 ≤ v) (hmn : ∀ d v, mn d = some v → 0 ≤ v)
    (hq : findQ s.quotas n = none) (hI : Inv cp s) : Inv cp (quotaAdd s n parent ip l mx mn) := by
  unfold quotaAdd
  have hfresh := findQ_none hq
  have hsub : ∀ (extra : List Quota) k, IsLeafL (s.quotas ++ extra) k → IsLeafL s.quotas k := by
    intro extra k h g hg; exact h g (List.mem_append_left _ hg)
  refine ⟨?_, ?_, ?_, hI.reqNonneg, ?_, ?_⟩
  · show (List.map (fun q : Quota => q.name) (s.quotas ++ _)).Nodup
    rw [List.map_append, List.nodup_append]
    refine ⟨hI.nodup, by simp, ?_⟩
    intro a ha b hb
    simp only [List.map_cons, List.map_nil, List.mem_singleton] at hb
    rcases List.mem_map.mp ha with ⟨g, hg, rfl⟩
    rw [hb]; exact hfresh g hg
  · intro g hg hr d
    rcases List.mem_append.mp hg with h | h
    · exact hI.rootMax g h hr d
    · rw [List.mem_singleton.mp h] at hr; exact absurd hr hn
  · intro g hg d
    rcases List.mem_append.mp hg with h | h
    · exact hI.nonneg g h d
    · rw [List.mem_singleton.mp h]; exact ⟨Int.le_refl _, Int.le_refl _⟩
  · intro g hg hc d hd m hm
    rcases List.mem_append.mp hg with h | h
    · exact hI.usedLeMax g h (hc.imp id (hsub _ _)) d hd m hm
    · rw [List.mem_singleton.mp h] at hm ⊢; exact hmx d m hm
  · intro g hg hc d hd m hm
    rcases List.mem_append.mp hg with h | h
    · exact hI.npLeMin g h (hsub _ _ hc) d hd m hm
    · rw [List.mem_singleton.mp h] at hm ⊢; exact hmn d m hm

/-- which `UpdateQuota` events on a known group the closed-loop theorems cover: meta unchanged (max/min only); an
    allow-lent / is-parent flip (tree reset) of an accounting-consistent state (C01; `TreeConsistent` is tested by the
    harness before every generated reset); a parent change that satisfies `ReparentOK` (the moved usage is consistent
    and fits where it arrives — moving a subtree is not an admission; the harness generates only such moves in the
    closed-loop streams and tests the consistency clauses on the implementation's report). -/
def MetaOK (cp : Bool) (s : State) (q : Quota) (parent : Nat) (ip l : Bool) (mx mn : RL) : Prop :=
  (q.parent = parent ∧ ((q.isParent = ip ∧ q.lent = l) ∨ TreeConsistent (quotaMeta s q.name ip l mx mn))) ∨
  (q.parent ≠ parent ∧ ReparentOK cp s q parent ip l mx mn)

theorem quotaSet_inv (cp : Bool) (s : State) (n parent : Nat) (ip l : Bool) (mx mn : RL) (hn : n ≠ rootName)
    (hmx : ∀ d v, mx d = some v → 0 ≤ v) (hmn : ∀ d v, mn d = some v → 0 ≤ v)
    (hnl : ∀ q, findQ s.quotas n = some q → NotLowered q.max mx ∧ NotLowered q.min mn ∧ MetaOK cp s q parent ip l mx mn)
    (hI : Inv cp s) : Inv cp (quotaSet s n parent ip l mx mn) := by
  unfold quotaSet
  cases hq : findQ s.quotas n with
  | none => exact quotaAdd_inv cp s n parent ip l mx mn hn hmx hmn hq hI
  | some q0 =>
    simp only []
    have h0 := hnl q0 hq
    have hnl' : ∀ q, findQ s.quotas n = some q → NotLowered q.max mx ∧ NotLowered q.min mn :=
      fun q hq' => ⟨(hnl q hq').1, (hnl q hq').2.1⟩
    have hq0n := (findQ_some hq).2
    by_cases hm : q0.parent = parent ∧ q0.isParent = ip ∧ q0.lent = l
    · rw [if_pos hm]
      exact quotaMaxMin_inv cp s n mx mn hn hnl' hI
    · rw [if_neg hm]
      rcases h0.2.2 with ⟨hpar, hrest⟩ | ⟨hpar, hR⟩
      · rw [if_neg (by simpa using hpar)]
        rcases hrest with h | hT
        · exact absurd ⟨hpar, h⟩ hm
        · rw [hq0n] at hT
          exact resetAll_inv cp _ hT (quotaMeta_inv cp s n ip l mx mn hn hnl' hI)
      · rw [if_pos hpar]
        exact reparent_inv cp s q0 parent ip l mx mn (by rw [hq0n]; exact hq) (by rw [hq0n]; exact hn)
          ⟨h0.1, h0.2.1⟩ hR hI

/-- history events: a scheduling cycle (PreFilter, then Reserve iff admitted) or any other event. -/
inductive Ev where
  | cycle (id : Nat) (cfg : Cfg)
  | ext (op : Op)

def cycle (s : State) (id : Nat) (cfg : Cfg) : State :=
  match (step s (.attempt id cfg)).2 with
  | some .success => reserve s id
  | _ => s

def runEv (s : State) : Ev → State
  | .cycle id cfg => cycle s id cfg
  | .ext op => (step s op).1

/-- the histories the property speaks about: parent checking fixed to `cp`, the runtime switch free per
    cycle, runtime ≤ max on the attempted pod's path, max/min never lowered, requests and limits
    non-negative, and `Reserve` only as part of a cycle. -/
def EvOK (cp : Bool) (s : State) : Ev → Prop
  | .cycle id cfg => cfg.cp = cp ∧ ∀ p, findP s.pods id = some p → RuntimeOK s cfg p
  | .ext (.quotaSet n parent ip l mx mn) =>
      n ≠ rootName ∧ (∀ d v, mx d = some v → 0 ≤ v) ∧ (∀ d v, mn d = some v → 0 ≤ v) ∧
      ∀ q, findQ s.quotas n = some q → NotLowered q.max mx ∧ NotLowered q.min mn ∧ MetaOK cp s q parent ip l mx mn
  | .ext (.podDef _ _ _ req) => ∀ d, 0 ≤ val req d
  | .ext (.reserve _) => False
  | .ext .migrate => (∀ p ∈ s.pods, limbo s p = true → p.assigned = false) ∧ ∀ p ∈ s.pods, p.ghost = false
  | .ext (.podRedef _ _ req) => ∀ d, 0 ≤ val req d
  | .ext (.podBind _) => False   -- the informer books usage without an admission: outside the closed loop
  | .ext _ => True

def Valid (cp : Bool) : State → List Ev → Prop
  | _, [] => True
  | s, e :: es => EvOK cp s e ∧ Valid cp (runEv s e) es

theorem runEv_inv (cp : Bool) (s : State) (e : Ev) (hI : Inv cp s) (hok : EvOK cp s e) : Inv cp (runEv s e) := by
  cases e with
  | cycle id cfg =>
    obtain ⟨hcp, hrt⟩ := hok
    subst hcp
    show Inv cfg.cp (cycle s id cfg)
    unfold cycle
    simp only [step]
    cases hp : findP s.pods id with
    | none => exact hI
    | some p =>
      simp only []
      cases hv : attempt s cfg p with
      | success => exact reserve_admitted_inv cfg s id p hp hI (hrt p hp) hv
      | error => exact hI
      | unschedulable => exact hI
  | ext op =>
    cases op with
    | quotaSet n parent ip l mx mn =>
      obtain ⟨h1, h2, h3, h4⟩ := hok
      exact quotaSet_inv cp s n parent ip l mx mn h1 h2 h3 h4 hI
    | setRuntime n r => exact setRuntime_inv cp s n r hI
    | podDef id q np req => exact podDef_inv cp s id q np req hok hI
    | podAdd id => exact podAdd_inv cp s id hI
    | attempt id cfg =>
      show Inv cp (step s (.attempt id cfg)).1
      simp only [step]
      cases findP s.pods id <;> exact hI
    | reserve id => exact (hok : False).elim
    | unreserve id => exact unreserve_inv cp s id hI
    | podDelete id => exact podDelete_inv cp s id hI
    | setDefault n => exact ⟨hI.nodup, hI.rootMax, hI.nonneg, hI.reqNonneg, hI.usedLeMax, hI.npLeMin⟩
    | migrate => exact migrate_inv cp s hok.1 hok.2 hI
    | podRedef id np req => exact podRedef_inv cp s id np req hok hI
    | unreserveObj id uid => exact unreserveObj_inv cp s id uid hI
    | podBind id => exact (hok : False).elim

/-
DESIGN §4 C03 T3 for histories in which a scheduling cycle is atomic (`Ev.cycle` = PreFilter + Reserve iff admitted).
The full statement — arbitrary informer events (unreserve / delete / add of any pod, max/min raises, runtime
refreshes, stale attempts) *between* the admitting PreFilter and its Reserve — is `closed_loop_inv` in §5 below; it
carries "the admitted pod still fits" (`Fits`) through every other event.  What stays outside: a quota update that
registers a group, resets the tree or re-parents a group while an admission is open drops that admission
(`dropsPending`); for a re-parented group on the admitted pod's path, or one whose usage arrives under an ancestor of
the admitted pod, this is necessary (`interleaved_reparent_counterexample`, `interleaved_arrival_counterexample`);
resets, registrations and moves that do not touch the path are exercised by the harness oracle only.
-/
theorem closed_loop_inv_partial (cp : Bool) : ∀ (evs : List Ev) (s : State), Inv cp s → Valid cp s evs →
    Inv cp (evs.foldl runEv s) := by
  intro evs
  induction evs with
  | nil => intro s h _; exact h
  | cons e es ih =>
    intro s hI hv
    exact ih _ (runEv_inv cp s e hI hv.1) hv.2

theorem init_inv (cp : Bool) (D : Nat) : Inv cp (init D) := by
  refine ⟨by simp [init], ?_, ?_, ?_, ?_, ?_⟩
  · intro g hg _ d; simp [init] at hg; subst hg; rfl
  · intro g hg d; simp [init] at hg; subst hg; exact ⟨Int.le_refl _, Int.le_refl _⟩
  · intro p hp; simp [init] at hp
  · intro g hg _ d _ m hm; simp [init] at hg; subst hg; simp [rootQuota, RL.empty] at hm
  · intro g hg _ d _ m hm; simp [init] at hg; subst hg; simp [rootQuota, RL.empty] at hm

/-- however cycles, roll-backs, deletions and (non-lowering) quota changes interleave, a group without
    child groups never shows used above max — and no group at all does when parent checking is on. -/
theorem used_never_above_max (cp : Bool) (D : Nat) (evs : List Ev) (hv : Valid cp (init D) evs) :
    ∀ g ∈ (evs.foldl runEv (init D)).quotas,
      (cp = true ∨ IsLeafL (evs.foldl runEv (init D)).quotas g.name) →
      ∀ d, d < (evs.foldl runEv (init D)).dims → ∀ m, g.max d = some m → g.used d ≤ m :=
  (closed_loop_inv_partial cp evs (init D) (init_inv cp D) hv).usedLeMax

/-- … and its non-preemptible usage never exceeds min. -/
theorem np_used_never_above_min (cp : Bool) (D : Nat) (evs : List Ev) (hv : Valid cp (init D) evs) :
    ∀ g ∈ (evs.foldl runEv (init D)).quotas, IsLeafL (evs.foldl runEv (init D)).quotas g.name →
      ∀ d, d < (evs.foldl runEv (init D)).dims → ∀ m, g.min d = some m → g.npUsed d ≤ m :=
  (closed_loop_inv_partial cp evs (init D) (init_inv cp D) hv).npLeMin

/-! ### 4. `RuntimeOK` from C02 -/

/-- C02 `runtime_bounds`: a sibling whose (limited) request and effective min are within max gets a
    runtime quota within max.  (`getLimitRequestNoLock` caps the request at max; C15 gives min ≤ max.) -/
theorem runtime_le_max (total : Int) (ns : List C02.Node) (M : Int) :
    ∀ q ∈ (C02.redistributeN total ns).1, q.1.request ≤ M → C02.effMin q.1 ≤ M → q.2 ≤ M := by
  intro q hq h1 h2
  have := (C02.runtime_bounds total ns q hq).2
  omega

/-! ### non-vacuity -/

section Examples

def exMax : RL := fun d => if d = 0 then some 4 else if d = 1 then some 8 else none
def exReq (c m : Int) : RL := fun d => if d = 0 then some c else if d = 1 then some m else none

/-- root ← 1 (max 4,8 / min 4,8) ← 2 (max 4,8 / min 2,2); pod 1 (3,1) and pod 2 (2,1) in group 2. -/
def exEvs : List Ev :=
  [ .ext (.quotaSet 1 0 true true exMax exMax), .ext (.quotaSet 2 1 false true exMax (exReq 2 2)),
    .ext (.podDef 1 2 false (exReq 3 1)), .ext (.podAdd 1),
    .ext (.podDef 2 2 false (exReq 2 1)), .ext (.podAdd 2),
    .cycle 1 ⟨false, true⟩, .cycle 2 ⟨false, true⟩ ]

def exFinal : State := exEvs.foldl runEv (init 2)

/-- pod 1 is admitted and reserved on the whole path … -/
example : (exFinal.quotas.map fun g => (g.name, g.used 0, g.used 1)) = [(0, 3, 1), (1, 3, 1), (2, 3, 1)] := by decide

/-- … pod 2 (cpu 2) no longer fits under max 4 and is rejected. -/
example : (exFinal.pods.map fun p => (p.id, p.assigned)) = [(1, true), (2, false)] := by decide

end Examples

/-! ### 5. the interleaved closed loop -/

/-- "the admitted pod still fits": exactly what `Reserve` needs to keep the invariant. -/
def Fits (cp : Bool) (s : State) (p : Pod) (q : Quota) : Prop :=
  (∀ g ∈ s.quotas, g.name ∈ pathNames s p.quota → (cp = true ∨ IsLeafL s.quotas g.name) →
      ∀ d, d < s.dims → ∀ m, g.max d = some m → g.used d + mreq q p d ≤ m) ∧
  (∀ g ∈ s.quotas, g.name ∈ pathNames s p.quota → IsLeafL s.quotas g.name →
      ∀ d, d < s.dims → ∀ m, g.min d = some m → g.npUsed d + (if p.np then mreq q p d else 0) ≤ m)

/-- an admitting PreFilter establishes `Fits` (whatever the pod's cache flags are). -/
theorem admitted_fits (cfg : Cfg) (s : State) (p : Pod) (hI : Inv cfg.cp s) (hrt : RuntimeOK s cfg p)
    (hadm : attempt s cfg p = .success) :
    ∃ q, findQ s.quotas p.quota = some q ∧ Fits cfg.cp s p q := by
  rcases (admit_iff s cfg p).mp hadm with ⟨q, hq, hL, hN, hrec⟩
  refine ⟨q, hq, ?_, ?_⟩
  all_goals
    have leafIsQ : ∀ g ∈ s.quotas, g ∈ chain s.quotas (fuelOf s) p.quota → IsLeafL s.quotas g.name → g = q := by
      intro g hg hgc hleaf
      have := chain_leaf g.name hleaf _ _ g hgc rfl
      have h1 := findQ_of_mem hI.nodup hg
      rw [← this, hq] at h1
      cases h1; rfl
    have hchain : chain s.quotas (fuelOf s) p.quota =
        q :: (if p.quota = rootName then [] else chain s.quotas s.quotas.length q.parent) := by
      unfold fuelOf; rw [chain]; simp only [hq]
  · intro g hg hgn hcl d hd m hm
    have hgc := mem_chain_of_name_mem s hI.nodup g hg _ hgn
    by_cases hgq : g = q
    · subst hgq
      rcases limit_le_max cfg g (fun h => hrt h g hgc) d m hm with ⟨l, hl, hlm⟩
      have := hL d hd l hl
      omega
    · rcases hcl with hcp | hleaf
      · have hgc' : g ∈ chain s.quotas (fuelOf s) q.parent := by
          rw [hchain] at hgc
          rcases List.mem_cons.mp hgc with h | h
          · exact absurd h hgq
          · by_cases hr : p.quota = rootName
            · simp [hr] at h
            · simp only [hr, if_false] at h
              exact chain_mono _ _ _ h
        have hne : g.name ≠ rootName := by
          intro e
          have := hI.rootMax g hg e d
          rw [this] at hm; cases hm
        have hA := checkRec_success_chain _ _ _ _ _ _ _ (hrec hcp) g hgc' hne
        rcases limit_le_max cfg g (fun h => hrt h g hgc) d m hm with ⟨l, hl, hlm⟩
        have h1 := hA d hd l hl
        unfold ancNewUsed at h1
        cases hk : mkey q p d with
        | true => simp only [hk, if_true] at h1; omega
        | false =>
          have h0 := mreq_zero_of_not_mkey q p d hk
          have := hI.usedLeMax g hg (Or.inl hcp) d hd m hm
          omega
      · exact absurd (leafIsQ g hg hgc hleaf) hgq
  · intro g hg hgn hleaf d hd m hm
    have hgc := mem_chain_of_name_mem s hI.nodup g hg _ hgn
    have hgq := leafIsQ g hg hgc hleaf
    subst hgq
    cases hnp : p.np with
    | false =>
      simp only [Bool.false_eq_true, if_false]
      have := hI.npLeMin g hg hleaf d hd m hm
      omega
    | true =>
      simp only [if_true]
      have := hN hnp d hd m hm
      omega

/-- `Reserve` of a pod that (still) fits keeps the invariant — no matter what happened since its PreFilter. -/
theorem reserve_fits_inv (cp : Bool) (s : State) (id : Nat) (p : Pod) (q : Quota) (hp : findP s.pods id = some p)
    (hq : findQ s.quotas p.quota = some q) (hI : Inv cp s) (hF : Fits cp s p q) : Inv cp (reserve s id) := by
  unfold reserve
  simp only [hp, hq]
  by_cases hc : (!p.inCache || p.assigned) = true
  · simp only [hc, if_true]; exact hI
  · simp only [hc]
    apply inv_applyDelta
    · exact setPod_req _ _ _ (fun _ => rfl) hI.reqNonneg
    · exact hF.1
    · exact hF.2
    · exact hI

/-! #### `Fits` survives the informer events -/

/-- the groups are rewritten one by one (names, parents kept; used / npUsed not increased; max / min not lowered):
    a pod that fitted still fits. -/
theorem fits_map (cp : Bool) (s : State) (f : Quota → Quota) (pods' : List Pod) (p : Pod) (q : Quota)
    (hname : ∀ q, (f q).name = q.name) (hpar : ∀ q, (f q).parent = q.parent)
    (hused : ∀ g ∈ s.quotas, ∀ d, (f g).used d ≤ g.used d ∧ (f g).npUsed d ≤ g.npUsed d)
    (hmax : ∀ g ∈ s.quotas, NotLowered g.max (f g).max ∧ NotLowered g.min (f g).min)
    (hreq : ∀ d, 0 ≤ val p.req d) (hq : q ∈ s.quotas)
    (hF : Fits cp s p q) : Fits cp { s with quotas := s.quotas.map f, pods := pods' } p (f q) := by
  have hmreq : ∀ d, mreq (f q) p d ≤ mreq q p d := by
    intro d
    unfold mreq
    cases h' : (f q).max d with
    | none =>
      simp only [Option.isSome_none, Bool.false_eq_true, if_false]
      split
      · exact hreq d
      · exact Int.le_refl _
    | some m' =>
      rcases (hmax q hq).1 d m' h' with ⟨m, hm, _⟩
      simp [hm]
  have hmreq0 : ∀ d, 0 ≤ mreq (f q) p d := mreq_nonneg (f q) p hreq
  refine ⟨?_, ?_⟩
  · intro g' hg' hgn hcl d hd m' hm'
    rcases List.mem_map.mp hg' with ⟨g, hg, rfl⟩
    rw [pathNames_map s f pods' hname hpar, hname] at hgn
    have hcl' : cp = true ∨ IsLeafL s.quotas g.name := by
      rcases hcl with h | h
      · exact Or.inl h
      · right
        have := (isLeafL_map s.quotas f hname hpar (f g).name).mp h
        rw [hname] at this; exact this
    rcases (hmax g hg).1 d m' hm' with ⟨m, hm, hle⟩
    have h1 := hF.1 g hg hgn hcl' d hd m hm
    have h2 := (hused g hg d).1
    have h3 := hmreq d
    omega
  · intro g' hg' hgn hleaf d hd m' hm'
    rcases List.mem_map.mp hg' with ⟨g, hg, rfl⟩
    rw [pathNames_map s f pods' hname hpar, hname] at hgn
    have hleaf' : IsLeafL s.quotas g.name := by
      have := (isLeafL_map s.quotas f hname hpar (f g).name).mp hleaf
      rw [hname] at this; exact this
    rcases (hmax g hg).2 d m' hm' with ⟨m, hm, hle⟩
    have h1 := hF.2 g hg hgn hleaf' d hd m hm
    have h2 := (hused g hg d).2
    have h3 := hmreq d
    cases hnp : p.np with
    | false =>
      simp only [hnp, Bool.false_eq_true, if_false] at h1 ⊢
      omega
    | true =>
      simp only [hnp, if_true] at h1 ⊢
      omega

/-- `Fits` looks at the pod only through its group, request and preemptibility, and not at the pod table. -/
theorem fits_congr (cp : Bool) (s : State) (pods' : List Pod) (p p' : Pod) (q : Quota)
    (h1 : p'.quota = p.quota) (h2 : p'.req = p.req) (h3 : p'.np = p.np) (hF : Fits cp s p q) :
    Fits cp { s with pods := pods' } p' q := by
  have hm : ∀ d, mreq q p' d = mreq q p d := by intro d; unfold mreq; rw [h2]
  refine ⟨?_, ?_⟩
  · intro g hg hgn hcl d hd m hm'
    have : pathNames { s with pods := pods' } p'.quota = pathNames s p.quota := by rw [h1]; rfl
    rw [this] at hgn
    rw [hm]; exact hF.1 g hg hgn hcl d hd m hm'
  · intro g hg hgn hcl d hd m hm'
    have : pathNames { s with pods := pods' } p'.quota = pathNames s p.quota := by rw [h1]; rfl
    rw [this] at hgn
    rw [hm, h3]; exact hF.2 g hg hgn hcl d hd m hm'

theorem findP_setPod (ps : List Pod) (id' id : Nat) (f : Pod → Pod) (hid : ∀ x, (f x).id = x.id) :
    findP (setPod ps id' f) id = (findP ps id).map fun x => if x.id = id' then f x else x := by
  unfold findP setPod
  induction ps with
  | nil => rfl
  | cons x xs ih =>
    simp only [List.map_cons, List.find?_cons]
    have : ((if x.id = id' then f x else x).id == id) = (x.id == id) := by
      by_cases h : x.id = id' <;> simp [h, hid]
    rw [this]
    cases h : (x.id == id)
    · simpa using ih
    · simp

theorem findP_append (ps : List Pod) (x : Pod) (id : Nat) (p : Pod) (h : findP ps id = some p) :
    findP (ps ++ [x]) id = some p := by
  unfold findP at h ⊢
  rw [List.find?_append, h]; rfl

/-- giving a request back (clamped at zero) never increases used / npUsed. -/
theorem release_le (s : State) (names : List Nat) (self : Option Nat) (x y : Nat → Int)
    (hx : ∀ d, 0 ≤ x d) (hy : ∀ d, 0 ≤ y d) (g : Quota) (hnn : ∀ d, 0 ≤ g.used d ∧ 0 ≤ g.npUsed d) (d : Nat) :
    ((fun g : Quota => if g.name ∈ names then addUsed g (fun d => -(x d)) (fun d => -(y d)) (self == some g.name) else g) g).used d ≤ g.used d ∧
    ((fun g : Quota => if g.name ∈ names then addUsed g (fun d => -(x d)) (fun d => -(y d)) (self == some g.name) else g) g).npUsed d ≤ g.npUsed d := by
  have _ := s
  by_cases h : g.name ∈ names
  · simp only [h, if_true, addUsed]
    have := hx d; have := hy d; have := hnn d
    unfold clamp0
    constructor <;> split <;> omega
  · simp only [h, if_false]; exact ⟨Int.le_refl _, Int.le_refl _⟩

/-- state of the interleaved history: the manager + the pod admitted by the last PreFilter whose Reserve is still
    to come (ghost). -/
structure IState where
  st   : State
  pend : Option Nat

inductive IEv where
  | prefilter (id : Nat) (cfg : Cfg)
  | reserve
  | ext (op : Op)

/-- events after which an open admission is dropped (the pod goes back to the queue): a migration tick, a pod filed
    under another group than before, and the quota updates by which a group appears, is
    re-parented, or the tree is reset.  For a re-parenting that touches the admitted pod's path this is necessary
    (`interleaved_reparent_counterexample`, `interleaved_arrival_counterexample`); the others are not covered by the proof. -/
def dropsPending (s : State) : Op → Bool
  | .quotaSet n parent ip l _ _ =>
    match findQ s.quotas n with
    | none => true
    | some q => !(decide (q.parent = parent) && decide (q.isParent = ip) && decide (q.lent = l))
  | .podAdd i =>
    match findP s.pods i with
    | some p => !p.inCache && (homeOf s p != p.quota)   -- the pod is filed under another group than before
    | none => false
  | .migrate => true
  | .podRedef _ _ _ => true   -- a new pod object: whatever was admitted was the old one
  | _ => false

def runI (is : IState) : IEv → IState
  | .prefilter id cfg =>
    { is with pend := if (step is.st (.attempt id cfg)).2 = some .success then some id else none }
  | .reserve =>
    match is.pend with
    | some id => { st := reserve is.st id, pend := none }
    | none => is
  | .ext op => { st := (step is.st op).1, pend := if dropsPending is.st op then none else is.pend }

def IEvOK (cp : Bool) (is : IState) : IEv → Prop
  | .prefilter id cfg => cfg.cp = cp ∧ ∀ p, findP is.st.pods id = some p → RuntimeOK is.st cfg p
  | .reserve => True
  | .ext op => EvOK cp is.st (.ext op)

def IValid (cp : Bool) : IState → List IEv → Prop
  | _, [] => True
  | s, e :: es => IEvOK cp s e ∧ IValid cp (runI s e) es

/-- the invariant of the interleaved loop: `Inv`, and the admitted pod (if any) still fits. -/
def IInv (cp : Bool) (is : IState) : Prop :=
  Inv cp is.st ∧ ∀ id, is.pend = some id →
    ∃ p q, findP is.st.pods id = some p ∧ findQ is.st.quotas p.quota = some q ∧ Fits cp is.st p q

theorem findQ_mem_map {qs : List Quota} (f : Quota → Quota) (hname : ∀ q, (f q).name = q.name) {n : Nat} {q : Quota}
    (h : findQ qs n = some q) : findQ (qs.map f) n = some (f q) := by
  rw [findQ_map f hname, h]; rfl

/-- one informer event that does not drop the open admission keeps "still fits". -/
theorem ext_fits_core (cp : Bool) (s : State) (op : Op) (hI : Inv cp s) (hok : EvOK cp s (.ext op))
    (hno : ∀ i u, op ≠ .unreserveObj i u)
    (hnd : dropsPending s op = false) (id : Nat) (p : Pod) (q : Quota)
    (hp : findP s.pods id = some p) (hq : findQ s.quotas p.quota = some q) (hF : Fits cp s p q) :
    ∃ p' q', findP (step s op).1.pods id = some p' ∧ findQ (step s op).1.quotas p'.quota = some q' ∧
      Fits cp (step s op).1 p' q' := by
  have hreq := hI.reqNonneg p (findP_mem hp)
  have hqm := (findQ_some hq).1
  -- the generic "groups rewritten one by one" case
  have viaMap : ∀ (f : Quota → Quota) (pods' : List Pod) (p' : Pod),
      (∀ q, (f q).name = q.name) → (∀ q, (f q).parent = q.parent) →
      (∀ g ∈ s.quotas, ∀ d, (f g).used d ≤ g.used d ∧ (f g).npUsed d ≤ g.npUsed d) →
      (∀ g ∈ s.quotas, NotLowered g.max (f g).max ∧ NotLowered g.min (f g).min) →
      findP pods' id = some p' → p'.quota = p.quota → p'.req = p.req → p'.np = p.np →
      ∃ p'' q', findP ({ s with quotas := s.quotas.map f, pods := pods' } : State).pods id = some p'' ∧
        findQ ({ s with quotas := s.quotas.map f, pods := pods' } : State).quotas p''.quota = some q' ∧
        Fits cp { s with quotas := s.quotas.map f, pods := pods' } p'' q' := by
    intro f pods' p' hname hpar hused hmax hfp h1 h2 h3
    refine ⟨p', f q, hfp, ?_, ?_⟩
    · show findQ (s.quotas.map f) p'.quota = some (f q)
      rw [h1]; exact findQ_mem_map f hname hq
    · have := fits_map cp s f pods' p q hname hpar hused hmax hreq hqm hF
      exact fits_congr cp _ pods' p p' (f q) h1 h2 h3 this
  -- only the pod table changed
  have viaPods : ∀ (pods' : List Pod) (p' : Pod), findP pods' id = some p' → p'.quota = p.quota → p'.req = p.req →
      p'.np = p.np →
      ∃ p'' q', findP ({ s with pods := pods' } : State).pods id = some p'' ∧
        findQ ({ s with pods := pods' } : State).quotas p''.quota = some q' ∧ Fits cp { s with pods := pods' } p'' q' := by
    intro pods' p' hfp h1 h2 h3
    exact ⟨p', q, hfp, by show findQ s.quotas p'.quota = some q; rw [h1]; exact hq, fits_congr cp s pods' p p' q h1 h2 h3 hF⟩
  have setPodFind : ∀ (id' : Nat) (f : Pod → Pod), (∀ x, (f x).id = x.id) → (∀ x, (f x).quota = x.quota) →
      (∀ x, (f x).req = x.req) → (∀ x, (f x).np = x.np) →
      ∃ p', findP (setPod s.pods id' f) id = some p' ∧ p'.quota = p.quota ∧ p'.req = p.req ∧ p'.np = p.np := by
    intro id' f h0 h1 h2 h3
    refine ⟨if p.id = id' then f p else p, ?_, ?_, ?_, ?_⟩
    · rw [findP_setPod _ _ _ _ h0, hp]; rfl
    all_goals by_cases h : p.id = id' <;> simp [h, h1, h2, h3]
  have same : ∃ p' q', findP s.pods id = some p' ∧ findQ s.quotas p'.quota = some q' ∧ Fits cp s p' q' :=
    ⟨p, q, hp, hq, hF⟩
  cases op with
  | quotaSet n parent ip l mx mn =>
    obtain ⟨h1, h2, h3, h4⟩ := hok
    simp only [dropsPending] at hnd
    cases hqn : findQ s.quotas n with
    | none => simp [hqn] at hnd
    | some q0 =>
      have hm : q0.parent = parent ∧ q0.isParent = ip ∧ q0.lent = l := by
        simp only [hqn, Bool.not_eq_false', Bool.and_eq_true, decide_eq_true_eq] at hnd
        exact ⟨hnd.1.1, hnd.1.2, hnd.2⟩
      rw [show (step s (Op.quotaSet n parent ip l mx mn)).1 = quotaSet s n parent ip l mx mn from rfl]
      unfold quotaSet
      simp only [hqn, if_pos hm]
      unfold quotaMaxMin
      have := viaMap (fun g => if g.name = n then { g with max := mx, min := mn } else g) s.pods p
        (by intro g; by_cases h : g.name = n <;> simp [h])
        (by intro g; by_cases h : g.name = n <;> simp [h])
        (by intro g _ d; by_cases h : g.name = n <;> simp [h])
        (by
          intro g hg
          by_cases h : g.name = n
          · simp only [h, if_true]
            have := findQ_of_mem hI.nodup hg
            rw [h] at this
            exact ⟨(h4 g this).1, (h4 g this).2.1⟩
          · simp only [h, if_false]; exact ⟨notLowered_refl _, notLowered_refl _⟩)
        hp rfl rfl rfl
      exact this
  | setRuntime n r =>
    rw [show (step s (Op.setRuntime n r)).1 = setRuntime s n r from rfl]
    unfold setRuntime
    exact viaMap (fun g => if g.name = n then { g with runtime := r } else g) s.pods p
      (by intro g; by_cases h : g.name = n <;> simp [h])
      (by intro g; by_cases h : g.name = n <;> simp [h])
      (by intro g _ d; by_cases h : g.name = n <;> simp [h])
      (by intro g _; by_cases h : g.name = n <;> simp [h] <;> exact ⟨notLowered_refl _, notLowered_refl _⟩)
      hp rfl rfl rfl
  | podDef i qn np req =>
    rw [show (step s (Op.podDef i qn np req)).1 = podDef s i qn np req from rfl]
    unfold podDef
    exact viaPods _ p (findP_append _ _ _ _ hp) rfl rfl rfl
  | podAdd i =>
    rw [show (step s (Op.podAdd i)).1 = podAdd s i from rfl]
    unfold podAdd
    cases hpi : findP s.pods i with
    | none => exact same
    | some pi =>
      simp only []
      cases hqi : findQ s.quotas (homeOf s pi) with
      | none => exact same
      | some qi =>
        simp only []
        by_cases hc : pi.inCache = true
        · simp only [hc, if_true]; exact same
        · simp only [hc, Bool.false_eq_true, if_false]
          simp only [dropsPending, hpi] at hnd
          have hci : pi.inCache = false := by simpa using hc
          have hhome : homeOf s pi = pi.quota := by
            simpa [hci] using hnd
          have hpe : p.id = i → pi = p := by
            intro h
            have hp' := hp
            unfold findP at hp'
            have hid : p.id = id := by simpa using List.find?_some hp'
            have e : findP s.pods i = findP s.pods id := by rw [← h, hid]
            rw [e, hp] at hpi; cases hpi; rfl
          refine ⟨if p.id = i then { p with quota := homeOf s pi, inCache := true, assigned := false, cuid := p.uid } else p, q, ?_, ?_, ?_⟩
          · show findP (setPod s.pods i _) id = _
            rw [findP_setPod s.pods i id (fun x => { x with quota := homeOf s pi, inCache := true, assigned := false, cuid := x.uid })
              (fun _ => rfl), hp]
            rfl
          · show findQ s.quotas _ = some q
            by_cases hpid : p.id = i
            · have := hpe hpid
              subst this
              simp only [hpid, if_true, hhome]; exact hq
            · simp only [hpid, if_false]; exact hq
          · by_cases hpid : p.id = i
            · have := hpe hpid
              subst this
              simp only [hpid, if_true]
              exact fits_congr cp s _ pi _ q (by show homeOf s pi = pi.quota; exact hhome) rfl rfl hF
            · simp only [hpid, if_false]
              exact fits_congr cp s _ p p q rfl rfl rfl hF
  | attempt i cfg =>
    have : (step s (Op.attempt i cfg)).1 = s := by simp only [step]; cases findP s.pods i <;> rfl
    rw [this]; exact same
  | reserve i => exact (hok : False).elim
  | unreserve i =>
    rw [show (step s (Op.unreserve i)).1 = unreserve s i from rfl]
    unfold unreserve
    cases hpi : findP s.pods i with
    | none => exact same
    | some pi =>
      simp only []
      cases hqi : findQ s.quotas pi.quota with
      | none => exact same
      | some qi =>
        simp only []
        split
        · exact same
        · rcases setPodFind i (fun x => { x with assigned := false }) (fun _ => rfl) (fun _ => rfl)
            (fun _ => rfl) (fun _ => rfl) with ⟨p', h0, h1, h2, h3⟩
          have hm0 := mreq_nonneg qi pi (hI.reqNonneg pi (findP_mem hpi))
          have hrel : (fun d => if pi.np then -(mreq qi pi d) else 0) = fun d => -((fun d => if pi.np then mreq qi pi d else 0) d) := by
            funext d; split <;> simp
          unfold applyDelta
          rw [hrel]
          exact viaMap _ _ p'
            (by intro g; by_cases h : g.name ∈ pathNames s pi.quota <;> simp [h, addUsed])
            (by intro g; by_cases h : g.name ∈ pathNames s pi.quota <;> simp [h, addUsed])
            (fun g hg d => release_le s _ _ _ _ hm0 (by intro d; split; exact hm0 d; exact Int.le_refl _) g (hI.nonneg g hg) d)
            (by intro g _; by_cases h : g.name ∈ pathNames s pi.quota <;> simp [h, addUsed] <;> exact ⟨notLowered_refl _, notLowered_refl _⟩)
            h0 h1 h2 h3
  | podDelete i =>
    rw [show (step s (Op.podDelete i)).1 = podDelete s i from rfl]
    unfold podDelete
    cases hpi : findP s.pods i with
    | none => exact same
    | some pi =>
      simp only []
      cases hqi : findQ s.quotas pi.quota with
      | none => exact same
      | some qi =>
        simp only []
        split
        · exact same
        · rcases setPodFind i (fun x => { x with inCache := false, assigned := false }) (fun _ => rfl) (fun _ => rfl)
            (fun _ => rfl) (fun _ => rfl) with ⟨p', h0, h1, h2, h3⟩
          cases ha : pi.assigned with
          | false =>
            simp only [Bool.false_eq_true, if_false]
            exact viaPods _ p' h0 h1 h2 h3
          | true =>
            simp only [if_true]
            have hm0 := mreq_nonneg qi pi (hI.reqNonneg pi (findP_mem hpi))
            have hrel : (fun d => if pi.np then -(mreq qi pi d) else 0) = fun d => -((fun d => if pi.np then mreq qi pi d else 0) d) := by
              funext d; split <;> simp
            unfold applyDelta
            rw [hrel]
            exact viaMap _ _ p'
              (by intro g; by_cases h : g.name ∈ pathNames s pi.quota <;> simp [h, addUsed])
              (by intro g; by_cases h : g.name ∈ pathNames s pi.quota <;> simp [h, addUsed])
              (fun g hg d => release_le s _ _ _ _ hm0 (by intro d; split; exact hm0 d; exact Int.le_refl _) g (hI.nonneg g hg) d)
              (by intro g _; by_cases h : g.name ∈ pathNames s pi.quota <;> simp [h, addUsed] <;> exact ⟨notLowered_refl _, notLowered_refl _⟩)
              h0 h1 h2 h3
  | setDefault n => exact ⟨p, q, hp, hq, hF⟩
  | migrate => simp [dropsPending] at hnd
  | podRedef i np req => simp [dropsPending] at hnd
  | podBind i => exact (hok : False).elim
  | unreserveObj i uid => exact absurd rfl (hno i uid)

/-- one informer event that does not drop the open admission keeps "still fits". -/
theorem ext_fits (cp : Bool) (s : State) (op : Op) (hI : Inv cp s) (hok : EvOK cp s (.ext op))
    (hnd : dropsPending s op = false) (id : Nat) (p : Pod) (q : Quota)
    (hp : findP s.pods id = some p) (hq : findQ s.quotas p.quota = some q) (hF : Fits cp s p q) :
    ∃ p' q', findP (step s op).1.pods id = some p' ∧ findQ (step s op).1.quotas p'.quota = some q' ∧
      Fits cp (step s op).1 p' q' := by
  by_cases hno : ∀ i u, op ≠ .unreserveObj i u
  · exact ext_fits_core cp s op hI hok hno hnd id p q hp hq hF
  · have : ∃ i u, op = .unreserveObj i u := by
      apply Classical.byContradiction
      intro h
      apply hno
      intro i u e
      exact h ⟨i, u, e⟩
    rcases this with ⟨i, u, rfl⟩
    rw [show (step s (Op.unreserveObj i u)).1 = unreserveObj s i u from rfl]
    unfold unreserveObj
    cases hpi : findP s.pods i with
    | none => exact ⟨p, q, hp, hq, hF⟩
    | some pi =>
      simp only []
      by_cases hu : pi.cuid = u
      · simp only [hu, if_true]
        exact ext_fits_core cp s (.unreserve i) hI trivial (fun _ _ h => by cases h) rfl id p q hp hq hF
      · simp only [hu, if_false]; exact ⟨p, q, hp, hq, hF⟩

theorem runI_inv (cp : Bool) (is : IState) (e : IEv) (hI : IInv cp is) (hok : IEvOK cp is e) : IInv cp (runI is e) := by
  obtain ⟨hInv, hPend⟩ := hI
  cases e with
  | prefilter id cfg =>
    obtain ⟨hcp, hrt⟩ := hok
    subst hcp
    refine ⟨hInv, ?_⟩
    intro id' hid'
    simp only [runI, step] at hid'
    cases hp : findP is.st.pods id with
    | none => simp [hp] at hid'
    | some p =>
      simp only [hp] at hid'
      by_cases hv : attempt is.st cfg p = .success
      · simp only [hv, if_true, Option.some.injEq] at hid'
        subst hid'
        rcases admitted_fits cfg is.st p hInv (hrt p hp) hv with ⟨q, hq, hF⟩
        exact ⟨p, q, hp, hq, hF⟩
      · have : (some (attempt is.st cfg p) = some Verdict.success) = False := by
          simp [hv]
        simp [this] at hid'
  | reserve =>
    cases hpd : is.pend with
    | none =>
      simp only [runI, hpd]
      exact ⟨hInv, fun id h => by rw [hpd] at h; cases h⟩
    | some id =>
      simp only [runI, hpd]
      rcases hPend id hpd with ⟨p, q, hp, hq, hF⟩
      exact ⟨reserve_fits_inv cp is.st id p q hp hq hInv hF, fun _ h => by cases h⟩
  | ext op =>
    have hInv' : Inv cp (step is.st op).1 := runEv_inv cp is.st (.ext op) hInv hok
    refine ⟨hInv', ?_⟩
    intro id hid
    simp only [runI] at hid
    cases hd : dropsPending is.st op with
    | true => simp [hd] at hid
    | false =>
      simp only [hd, Bool.false_eq_true, if_false] at hid
      rcases hPend id hid with ⟨p, q, hp, hq, hF⟩
      exact ext_fits cp is.st op hInv hok hd id p q hp hq hF

/-- DESIGN §4 C03 T3, interleaved form: informer events (unreserve / delete / add of any pod, max/min raises,
    runtime refreshes, stale attempts) may fall between the admitting PreFilter and its Reserve. -/
theorem closed_loop_inv (cp : Bool) : ∀ (evs : List IEv) (is : IState), IInv cp is → IValid cp is evs →
    IInv cp (evs.foldl runI is) := by
  intro evs
  induction evs with
  | nil => intro s h _; exact h
  | cons e es ih =>
    intro s hI hv
    exact ih _ (runI_inv cp s e hI hv.1) hv.2

theorem used_never_above_max_interleaved (cp : Bool) (D : Nat) (evs : List IEv)
    (hv : IValid cp ⟨init D, none⟩ evs) :
    ∀ g ∈ (evs.foldl runI ⟨init D, none⟩).st.quotas,
      (cp = true ∨ IsLeafL (evs.foldl runI ⟨init D, none⟩).st.quotas g.name) →
      ∀ d, d < (evs.foldl runI ⟨init D, none⟩).st.dims → ∀ m, g.max d = some m → g.used d ≤ m :=
  (closed_loop_inv cp evs ⟨init D, none⟩ ⟨init_inv cp D, fun _ h => by cases h⟩ hv).1.usedLeMax

theorem np_used_never_above_min_interleaved (cp : Bool) (D : Nat) (evs : List IEv)
    (hv : IValid cp ⟨init D, none⟩ evs) :
    ∀ g ∈ (evs.foldl runI ⟨init D, none⟩).st.quotas, IsLeafL (evs.foldl runI ⟨init D, none⟩).st.quotas g.name →
      ∀ d, d < (evs.foldl runI ⟨init D, none⟩).st.dims → ∀ m, g.min d = some m → g.npUsed d ≤ m :=
  (closed_loop_inv cp evs ⟨init D, none⟩ ⟨init_inv cp D, fun _ h => by cases h⟩ hv).1.npLeMin

/-! #### the interleaving that breaks it: re-parenting on the admitted pod's path -/

def cxMax (c : Int) : RL := fun d => if d = 0 then some c else none

/-- root ← 1 (max 10) ← 3 (max 10), root ← 2 (max 4); pod 1 (cpu 6) in group 3; nothing is used. -/
def cxState : State :=
  [ Op.quotaSet 1 0 true true (cxMax 10) RL.empty, Op.quotaSet 2 0 true true (cxMax 4) RL.empty,
    Op.quotaSet 3 1 false true (cxMax 10) RL.empty, Op.podDef 1 3 false (cxMax 6), Op.podAdd 1 ].foldl
    (fun s op => (step s op).1) (init 1)

/-- group 3 moves below group 2 between the PreFilter and the Reserve of pod 1. -/
def cxMoved : State := quotaSet cxState 3 2 false true (cxMax 10) RL.empty

/-- PreFilter (parent checking on) admits pod 1: 0 + 6 ≤ 10 on group 3 and on its ancestor 1.  The move of the
    still empty group 3 below group 2 is harmless by itself (every used stays 0, so it fits everywhere), but the
    Reserve that follows books 6 on the new ancestor 2 whose max is 4 and which PreFilter never looked at. -/
theorem interleaved_reparent_counterexample :
    (step cxState (.attempt 1 ⟨false, true⟩)).2 = some .success ∧
    (cxMoved.quotas.map fun g => (g.name, g.parent, g.used 0)) = [(0, 0, 0), (1, 0, 0), (2, 0, 0), (3, 2, 0)] ∧
    ((reserve cxMoved 1).quotas.map fun g => (g.name, g.max 0, g.used 0)) =
      [(0, none, 6), (1, some 10, 0), (2, some 4, 6), (3, some 10, 6)] := by
  decide


/-- root ← 1 (is-parent, max 4) ← 2 (max 4); root ← 3 (max 4) with pod 2 (cpu 3) reserved; pod 1 (cpu 2) waits in group 2. -/
def cx2State : State :=
  [ Op.quotaSet 1 0 true true (cxMax 4) RL.empty, Op.quotaSet 2 1 false true (cxMax 4) RL.empty,
    Op.quotaSet 3 0 false true (cxMax 4) RL.empty,
    Op.podDef 1 2 false (cxMax 2), Op.podAdd 1, Op.podDef 2 3 false (cxMax 3), Op.podAdd 2, Op.reserve 2 ].foldl
    (fun s op => (step s op).1) (init 1)

/-- group 3 — with its usage 3 — moves below group 1 between the PreFilter and the Reserve of pod 1. -/
def cx2Moved : State := quotaSet cx2State 3 1 false true (cxMax 4) RL.empty

/-- the second breaking interleaving: the re-parented group is NOT on the admitted pod's path, but its usage arrives
    under an ancestor of it.  PreFilter admits pod 1 (0 + 2 ≤ 4 on groups 2 and 1); the arrival fits by itself
    (group 1 shows 3 ≤ 4); the Reserve that follows makes group 1 show 5 > 4. -/
theorem interleaved_arrival_counterexample :
    (step cx2State (.attempt 1 ⟨false, true⟩)).2 = some .success ∧
    (cx2Moved.quotas.map fun g => (g.name, g.parent, g.max 0, g.used 0)) =
      [(0, 0, none, 3), (1, 0, some 4, 3), (2, 1, some 4, 0), (3, 1, some 4, 3)] ∧
    ((reserve cx2Moved 1).quotas.map fun g => (g.name, g.max 0, g.used 0)) =
      [(0, none, 5), (1, some 4, 5), (2, some 4, 2), (3, some 4, 3)] := by
  decide

/-! #### non-vacuity of §5 and of the meta updates -/

section Examples2

/-- root ← 1 (is-parent, max 4,8) ← 2 (max 4,8) and root ← 3 (is-parent, max 4,8): pod 1 (3,1) is admitted in group 2
    (parent checking on), pod 2 (1,1) is admitted next but pod 1 is rolled back and deleted BEFORE pod 2's Reserve;
    then group 2 — with pod 2's usage — moves below group 3, and finally group 1's allow-lent flag flips (reset). -/
def ex2Evs : List IEv :=
  [ .ext (.quotaSet 1 0 true true exMax exMax), .ext (.quotaSet 2 1 false true exMax (exReq 2 2)),
    .ext (.quotaSet 3 0 true true exMax exMax),
    .ext (.podDef 1 2 false (exReq 3 1)), .ext (.podAdd 1), .ext (.podDef 2 2 true (exReq 1 1)), .ext (.podAdd 2),
    .prefilter 1 ⟨false, true⟩, .reserve,
    .prefilter 2 ⟨false, true⟩, .ext (.unreserve 1), .ext (.podDelete 1), .reserve,
    .ext (.quotaSet 2 3 false true exMax (exReq 2 2)),
    .ext (.quotaSet 1 0 true false exMax exMax) ]

def ex2At (k : Nat) : IState := (ex2Evs.take k).foldl runI ⟨init 2, none⟩

/-- pod 2's admission stays open across the roll-back and the deletion of pod 1 … -/
example : ((ex2At 10).pend, (ex2At 11).pend, (ex2At 12).pend, (ex2At 13).pend) = (some 2, some 2, some 2, none) := by
  decide

/-- … its Reserve books (1,1), non-preemptible, on the whole path … -/
example : ((ex2At 13).st.quotas.map fun g => (g.name, g.used 0, g.npUsed 1, g.selfUsed 0)) =
    [(0, 1, 1, 0), (1, 1, 1, 0), (2, 1, 1, 1), (3, 0, 0, 0)] := by decide

/-- … the move takes it from group 1 and adds it to group 3 (the moved group is re-created at the end of the list) … -/
example : ((ex2At 14).st.quotas.map fun g => (g.name, g.parent, g.used 0, g.npUsed 1, g.selfUsed 0)) =
    [(0, 0, 1, 1, 0), (1, 0, 0, 0, 0), (3, 0, 1, 1, 0), (2, 3, 1, 1, 1)] := by decide

/-- … and the tree reset rebuilds exactly the same numbers. -/
example : ((ex2At 15).st.quotas.map fun g => (g.name, g.lent, g.used 0, g.npUsed 1, g.selfUsed 0)) =
    [(0, false, 1, 1, 0), (1, false, 0, 0, 0), (3, true, 1, 1, 0), (2, true, 1, 1, 1)] := by decide

end Examples2

/-! ### 7. a roll-back racing the deletion of the same pod gives the usage back once -/

/-- with `UnreservePod` under the exclusive lock (and `OnPodDelete` under the shared one, as in the source): under
    EVERY interleaving of the two critical sections (all 64 schedules of 6 steps; each call has at most 3) that
    the lock admits and that lets both calls finish, the pod's request is subtracted exactly once and the `PodInfo`
    is gone. -/
theorem exclusive_unreserve_single_subtraction :
    ∀ sched ∈ allScheds 6, ∀ s, lRun unreserveLock podDeleteLock sched lInit = some s →
      s.pcU = .done → s.pcD = .done → s.subs = 1 ∧ s.present = false ∧ s.assigned = false := by
  decide

/-- both serial orders are among them (the property is not vacuous). -/
theorem exclusive_unreserve_schedules_exist :
    (lRun unreserveLock podDeleteLock [true, true, true, false, false, false] lInit).map (fun s => (s.subs, s.pcU, s.pcD)) =
      some (1, .done, .done) ∧
    (lRun unreserveLock podDeleteLock [false, false, false, true, true, true] lInit).map (fun s => (s.subs, s.pcU, s.pcD)) =
      some (1, .done, .done) ∧
    lRun unreserveLock podDeleteLock [true, false] lInit = none := by
  decide

/-- the shared-lock shape (`UnreservePod` under `RLock()`): both calls pass the `isAssigned` test before either
    subtracts, and the request is subtracted twice — out of the usage of the other pods (group with pods 4 + 6,
    the 6 rolled back and deleted: used 10 - 6 - 6, clamped to 0, instead of 4). -/
theorem shared_unreserve_counterexample :
    (lRun .shared podDeleteLock [true, false, true, false, true, false] lInit).map (fun s => (s.subs, s.pcU, s.pcD)) =
      some (2, .done, .done) ∧
    clamp0 (clamp0 (10 - 6) - 6) = 0 := by
  decide

/-! ### 8. quota objects pass the `IsQuotaChange` gate

`Plugin.OnQuotaUpdate` / `UpdateQuota` drop an object that repeats what the manager holds.  The gate is part of the
model (`isQuotaChange`, `quotaUpdate`; Proofs/C03Ext3): `limits_follow_last_declared` — after any history the
manager's limits are those of the last declared object, zero-valued entries included — and the closed loop below
runs every quota object through it. -/

/-- a zero-valued entry that appears (or disappears) IS a change. -/
theorem isQuotaChange_zero_entry (D : Nat) (q : Quota) (mx : RL) (d : Nat) (hd : d < D)
    (h : (q.max d = none ∧ mx d = some 0) ∨ (q.max d = some 0 ∧ mx d = none)) :
    isQuotaChange D q q.parent q.isParent q.lent mx q.min = true := by
  cases hc : isQuotaChange D q q.parent q.isParent q.lent mx q.min with
  | true => rfl
  | false =>
    have := ((isQuotaChange_false_iff D q _ _ _ mx _).mp hc).2.2.2.1 d hd
    rcases h with ⟨h1, h2⟩ | ⟨h1, h2⟩ <;> rw [h1, h2] at this <;> cases this


/-- **After any history — quota objects through the gate, pod events, runtime refreshes, migration ticks, in any
    order, from the empty manager — the limits the manager holds for a group are those of the group's last declared
    object, in every dimension of the world, key presence included.** -/
theorem limits_follow_last_declared (D : Nat) (ops : List Op) (n : Nat) (mx mn : RL)
    (h : lastDecl n ops = some (mx, mn)) :
    ∃ q, findQ (ops.foldl stepG (init D)).quotas n = some q ∧
      ∀ d, d < D → q.max d = mx d ∧ q.min d = mn d := by
  have := last_declared_aux n ops (init D)
  rw [h] at this
  obtain ⟨mx', mn', hl, hd⟩ := this
  have hdims : (ops.foldl stepG (init D)).dims = D := foldl_stepG_dims ops (init D)
  unfold limOf at hl
  cases hq : findQ (ops.foldl stepG (init D)).quotas n with
  | none => rw [hq] at hl; cases hl
  | some q =>
    rw [hq] at hl
    simp only [Option.map_some, Option.some.injEq, Prod.mk.injEq] at hl
    refine ⟨q, rfl, fun d hd' => ?_⟩
    rw [hl.1, hl.2]
    exact hd d (by rw [hdims]; exact hd')

/-! ### a gate that compares after `quotav1.RemoveZeros` breaks it -/

/-- `quotav1.RemoveZeros`. -/
def removeZeros (a : RL) : RL := fun d => if a d = some 0 then none else a d

def isQuotaChangeRZ (D : Nat) (q : Quota) (parent : Nat) (isParent lent : Bool) (mx mn : RL) : Bool :=
  q.lent != lent || q.isParent != isParent || q.parent != parent ||
    !rlEq D (removeZeros q.max) (removeZeros mx) || !rlEq D (removeZeros q.min) (removeZeros mn)

def quotaUpdateRZ (s : State) (n parent : Nat) (isParent lent : Bool) (mx mn : RL) : State :=
  match findQ s.quotas n with
  | none => quotaSet s n parent isParent lent mx mn
  | some q => if isQuotaChangeRZ s.dims q parent isParent lent mx mn then quotaSet s n parent isParent lent mx mn else s

def rzMax0 : RL := fun d => if d = 0 then some 4 else none
def rzMax1 : RL := fun d => if d = 0 then some 4 else if d = 1 then some 0 else none
def rzPod : Pod := { id := 1, quota := 1, label := 1, np := false, req := fun d => if d = 1 then some 1 else none,
                     inCache := true, assigned := false }

/-- max {cpu: 4} → {cpu: 4, gpu: 0}: with the RemoveZeros gate the update is dropped, the manager keeps a max without the
    gpu entry, and a pod asking for one gpu is admitted although the declared max says 0 (the faithful gate rejects
    it); the other way round a pod is rejected against an entry the declared object no longer has. -/
theorem removeZeros_gate_counterexample :
    let s0 := quotaSet (init 2) 1 rootName false true rzMax0 RL.empty
    let s1 := quotaSet (init 2) 1 rootName false true rzMax1 RL.empty
    (attempt (quotaUpdateRZ s0 1 rootName false true rzMax1 RL.empty) ⟨false, false⟩ rzPod = .success ∧
     attempt (quotaUpdate s0 1 rootName false true rzMax1 RL.empty) ⟨false, false⟩ rzPod = .unschedulable) ∧
    (attempt (quotaUpdateRZ s1 1 rootName false true rzMax0 RL.empty) ⟨false, false⟩ rzPod = .unschedulable ∧
     attempt (quotaUpdate s1 1 rootName false true rzMax0 RL.empty) ⟨false, false⟩ rzPod = .success) := by
  decide

/-! #### the closed loop behind the gate -/

/-- the gate drops this event. -/
def gateDrops (s : State) : Op → Bool
  | .quotaSet n p ip l mx mn =>
    match findQ s.quotas n with
    | some q => !isQuotaChange s.dims q p ip l mx mn
    | none => false
  | _ => false

/-- the interleaved history as the plugin runs it: a dropped quota object changes nothing (an open admission stays
    open), everything else is `runI`. -/
def runIG (is : IState) : IEv → IState
  | .ext op => if gateDrops is.st op then is else runI is (.ext op)
  | e => runI is e

/-- `runIG` on a quota object is the model's `quotaUpdate`. -/
theorem runIG_quota (is : IState) (n p : Nat) (ip l : Bool) (mx mn : RL) :
    (runIG is (.ext (.quotaSet n p ip l mx mn))).st = quotaUpdate is.st n p ip l mx mn := by
  show (if gateDrops is.st (.quotaSet n p ip l mx mn) then is else runI is (.ext (.quotaSet n p ip l mx mn))).st = _
  unfold quotaUpdate
  cases hq : findQ is.st.quotas n with
  | none =>
    have : gateDrops is.st (.quotaSet n p ip l mx mn) = false := by simp [gateDrops, hq]
    rw [this]; rfl
  | some q =>
    cases hc : isQuotaChange is.st.dims q p ip l mx mn with
    | true =>
      have : gateDrops is.st (.quotaSet n p ip l mx mn) = false := by simp [gateDrops, hq, hc]
      rw [this]; simp [hc, runI, step]
    | false =>
      have : gateDrops is.st (.quotaSet n p ip l mx mn) = true := by simp [gateDrops, hq, hc]
      rw [this]; simp [hc]

/-- A max/min update need not be "not lowered" entry by entry: it keeps the invariant whenever the usage the group
    shows fits the NEW declared lists — in particular an entry that appears (a dimension added to max, value 0
    included) over a usage of 0, and an entry that disappears. -/
theorem quotaMaxMin_inv_fits (cp : Bool) (s : State) (n : Nat) (mx mn : RL) (hn : n ≠ rootName)
    (hfit : ∀ g ∈ s.quotas, g.name = n →
      ((cp = true ∨ IsLeafL s.quotas n) → ∀ d, d < s.dims → ∀ m, mx d = some m → g.used d ≤ m) ∧
      (IsLeafL s.quotas n → ∀ d, d < s.dims → ∀ m, mn d = some m → g.npUsed d ≤ m))
    (hI : Inv cp s) : Inv cp (quotaMaxMin s n mx mn) := by
  unfold quotaMaxMin
  apply inv_map cp s _ s.pods _ _ _ _ hI.reqNonneg _ _ hI
  · intro q; by_cases h : q.name = n <;> simp [h]
  · intro q; by_cases h : q.name = n <;> simp [h]
  · intro g hg hr d
    have : g.name ≠ n := by rw [hr]; exact fun e => hn e.symm
    simp only [this, if_false]; exact hI.rootMax g hg hr d
  · intro g hg d; by_cases h : g.name = n <;> simp [h] <;> exact hI.nonneg g hg d
  · intro g hg hc d hd m hm
    by_cases h : g.name = n
    · simp only [h, if_true] at hm ⊢
      exact (hfit g hg h).1 (h ▸ hc) d hd m hm
    · simp only [h, if_false] at hm ⊢; exact hI.usedLeMax g hg hc d hd m hm
  · intro g hg hc d hd m hm
    by_cases h : g.name = n
    · simp only [h, if_true] at hm ⊢
      exact (hfit g hg h).2 (h ▸ hc) d hd m hm
    · simp only [h, if_false] at hm ⊢; exact hI.npLeMin g hg hc d hd m hm

/-- a max/min-only update of a known group that ADDS entries or lowers values (outside `NotLowered`): covered while no
    admission is open, when the usage the group shows fits the new lists — e.g. a dimension added to max (value 0
    included) in which the group shows no usage.  The harness generates exactly such updates in its closed-loop
    streams (`specFits`, by its own books) and closes an open admission on the group's path first. -/
def FitsUpdate (cp : Bool) (s : State) (n parent : Nat) (ip l : Bool) (mx mn : RL) : Prop :=
  n ≠ rootName ∧ ∃ q, findQ s.quotas n = some q ∧ (q.parent = parent ∧ q.isParent = ip ∧ q.lent = l) ∧
    ((cp = true ∨ IsLeafL s.quotas n) → ∀ d, d < s.dims → ∀ m, mx d = some m → q.used d ≤ m) ∧
    (IsLeafL s.quotas n → ∀ d, d < s.dims → ∀ m, mn d = some m → q.npUsed d ≤ m)

def IEvOKG (cp : Bool) (is : IState) : IEv → Prop
  | .ext (.quotaSet n p ip l mx mn) =>
    IEvOK cp is (.ext (.quotaSet n p ip l mx mn)) ∨ (is.pend = none ∧ FitsUpdate cp is.st n p ip l mx mn)
  | e => IEvOK cp is e

def IValidG (cp : Bool) : IState → List IEv → Prop
  | _, [] => True
  | s, e :: es => IEvOKG cp s e ∧ IValidG cp (runIG s e) es

theorem quotaSet_fits_inv (cp : Bool) (s : State) (n parent : Nat) (ip l : Bool) (mx mn : RL)
    (hf : FitsUpdate cp s n parent ip l mx mn) (hI : Inv cp s) : Inv cp (quotaSet s n parent ip l mx mn) := by
  obtain ⟨hn, q, hq, hmeta, hu, hnp⟩ := hf
  unfold quotaSet
  rw [hq]
  simp only []
  rw [if_pos hmeta]
  refine quotaMaxMin_inv_fits cp s n mx mn hn ?_ hI
  intro g hg hgn
  have : findQ s.quotas n = some g := hgn ▸ findQ_of_mem hI.nodup hg
  rw [hq] at this
  cases this
  exact ⟨hu, hnp⟩

theorem runIG_inv (cp : Bool) (is : IState) (e : IEv) (hI : IInv cp is) (hok : IEvOKG cp is e) :
    IInv cp (runIG is e) := by
  cases e with
  | ext op =>
    show IInv cp (if gateDrops is.st op then is else runI is (.ext op))
    by_cases h : gateDrops is.st op = true
    · rw [if_pos h]; exact hI
    · rw [if_neg h]
      cases op with
      | quotaSet n p ip l mx mn =>
        rcases hok with hok | ⟨hpend, hf⟩
        · exact runI_inv cp is _ hI hok
        · refine ⟨quotaSet_fits_inv cp is.st n p ip l mx mn hf hI.1, ?_⟩
          intro id hid
          simp only [runI, hpend] at hid
          split at hid <;> cases hid
      | _ => exact runI_inv cp is _ hI hok
  | prefilter id cfg => exact runI_inv cp is _ hI hok
  | reserve => exact runI_inv cp is _ hI hok

/-- DESIGN §4 C03 T3, interleaved form, with every quota object passing the `IsQuotaChange` gate. -/
theorem closed_loop_inv_gated (cp : Bool) : ∀ (evs : List IEv) (is : IState), IInv cp is → IValidG cp is evs →
    IInv cp (evs.foldl runIG is) := by
  intro evs
  induction evs with
  | nil => intro s h _; exact h
  | cons e es ih =>
    intro s hI hv
    exact ih _ (runIG_inv cp s e hI hv.1) hv.2

theorem used_never_above_max_gated (cp : Bool) (D : Nat) (evs : List IEv)
    (hv : IValidG cp ⟨init D, none⟩ evs) :
    ∀ g ∈ (evs.foldl runIG ⟨init D, none⟩).st.quotas,
      (cp = true ∨ IsLeafL (evs.foldl runIG ⟨init D, none⟩).st.quotas g.name) →
      ∀ d, d < (evs.foldl runIG ⟨init D, none⟩).st.dims → ∀ m, g.max d = some m → g.used d ≤ m :=
  (closed_loop_inv_gated cp evs ⟨init D, none⟩ ⟨init_inv cp D, fun _ h => by cases h⟩ hv).1.usedLeMax

theorem np_used_never_above_min_gated (cp : Bool) (D : Nat) (evs : List IEv)
    (hv : IValidG cp ⟨init D, none⟩ evs) :
    ∀ g ∈ (evs.foldl runIG ⟨init D, none⟩).st.quotas, IsLeafL (evs.foldl runIG ⟨init D, none⟩).st.quotas g.name →
      ∀ d, d < (evs.foldl runIG ⟨init D, none⟩).st.dims → ∀ m, g.min d = some m → g.npUsed d ≤ m :=
  (closed_loop_inv_gated cp evs ⟨init D, none⟩ ⟨init_inv cp D, fun _ h => by cases h⟩ hv).1.npLeMin

/-- the manager-level event behind an event of the interleaved history. -/
def opOf (is : IState) : IEv → Op
  | .prefilter id cfg => .attempt id cfg
  | .reserve =>
    match is.pend with
    | some id => .reserve id
    | none => .attempt 0 ⟨false, false⟩   -- no admission is open: `runI` does nothing, neither does a PreFilter
  | .ext op => op

/-- the manager-level history of an interleaved history. -/
def opsOf : IState → List IEv → List Op
  | _, [] => []
  | is, e :: es => opOf is e :: opsOf (runIG is e) es

theorem attempt_noop (s : State) (id : Nat) (cfg : Cfg) : (step s (.attempt id cfg)).1 = s := by
  simp only [step]; cases findP s.pods id <;> rfl

/-- the manager's state of the interleaved run is the gated run of its manager-level history. -/
theorem runIG_st (is : IState) (e : IEv) : (runIG is e).st = stepG is.st (opOf is e) := by
  cases e with
  | prefilter id cfg => exact (attempt_noop is.st id cfg).symm
  | reserve =>
    cases hp : is.pend with
    | some id => simp [runIG, runI, opOf, hp, stepG, step]
    | none =>
      simp only [opOf, hp]
      show (runI is .reserve).st = (step is.st (.attempt 0 ⟨false, false⟩)).1
      rw [attempt_noop]; simp [runI, hp]
  | ext op =>
    cases op with
    | quotaSet n p ip l mx mn => exact runIG_quota is n p ip l mx mn
    | _ => rfl

theorem foldl_runIG_st : ∀ (evs : List IEv) (is : IState),
    (evs.foldl runIG is).st = (opsOf is evs).foldl stepG is.st := by
  intro evs
  induction evs with
  | nil => intro is; rfl
  | cons e es ih =>
    intro is
    simp only [List.foldl_cons, opsOf]
    rw [ih, runIG_st]

/-- the last object declared for group `n` in an interleaved history. -/
def lastDeclI (n : Nat) (is : IState) (evs : List IEv) : Option (RL × RL) := lastDecl n (opsOf is evs)

/-- **The closed loop in the property's own terms**: after any interleaved history (every quota object through the
    gate) a group shows used within the max — and non-preemptible used within the min — of its LAST DECLARED object,
    on every dimension that object declares (zero-valued entries included). -/
theorem used_within_last_declared (cp : Bool) (D : Nat) (evs : List IEv) (hv : IValidG cp ⟨init D, none⟩ evs)
    (n : Nat) (mx mn : RL) (h : lastDeclI n ⟨init D, none⟩ evs = some (mx, mn)) :
    ∃ g, findQ (evs.foldl runIG ⟨init D, none⟩).st.quotas n = some g ∧
      ((cp = true ∨ IsLeafL (evs.foldl runIG ⟨init D, none⟩).st.quotas n) →
        ∀ d, d < D → ∀ m, mx d = some m → g.used d ≤ m) ∧
      (IsLeafL (evs.foldl runIG ⟨init D, none⟩).st.quotas n →
        ∀ d, d < D → ∀ m, mn d = some m → g.npUsed d ≤ m) := by
  have hI := (closed_loop_inv_gated cp evs ⟨init D, none⟩ ⟨init_inv cp D, fun _ h => by cases h⟩ hv).1
  have hst := foldl_runIG_st evs ⟨init D, none⟩
  obtain ⟨g, hg, hlim⟩ := limits_follow_last_declared D (opsOf ⟨init D, none⟩ evs) n mx mn h
  have hdims : (evs.foldl runIG ⟨init D, none⟩).st.dims = D := by
    rw [hst]; exact foldl_stepG_dims _ _
  rw [← hst] at hg
  have hmem := findQ_some hg
  refine ⟨g, hg, ?_, ?_⟩
  · intro hc d hd m hm
    exact hI.usedLeMax g hmem.1 (by rw [hmem.2]; exact hc) d (by rw [hdims]; exact hd) m (by rw [(hlim d hd).1]; exact hm)
  · intro hc d hd m hm
    exact hI.npLeMin g hmem.1 (by rw [hmem.2]; exact hc) d (by rw [hdims]; exact hd) m (by rw [(hlim d hd).2]; exact hm)

/-! #### non-vacuity of §8 -/

section Examples3

def ex3Max0 : RL := fun d => if d = 0 then some 4 else none                              -- {cpu: 4}
def ex3Max1 : RL := fun d => if d = 0 then some 4 else if d = 1 then some 0 else none    -- {cpu: 4, gpu: 0}

/-- group 1 declares {cpu: 4}; pod 1 (cpu 1, gpu 1) is admitted; the same object arrives again (dropped by the gate, the
    admission stays open); Reserve; the object {cpu: 4, gpu: 0} arrives (applied: only a zero-valued entry differs);
    pod 2 (gpu 1) is rejected; the object {cpu: 4} arrives (applied); pod 2 is admitted. -/
def ex3Evs : List IEv :=
  [ .ext (.quotaSet 1 0 false true ex3Max0 RL.empty),
    .ext (.podDef 1 1 false (fun d => if d = 0 then some 1 else if d = 1 then some 1 else none)), .ext (.podAdd 1),
    .prefilter 1 ⟨false, false⟩,
    .ext (.quotaSet 1 0 false true ex3Max0 RL.empty),
    .reserve,
    .ext (.quotaSet 1 0 false true ex3Max1 RL.empty),
    .ext (.podDef 2 1 false (fun d => if d = 1 then some 1 else none)), .ext (.podAdd 2),
    .prefilter 2 ⟨false, false⟩,
    .ext (.quotaSet 1 0 false true ex3Max0 RL.empty),
    .prefilter 2 ⟨false, false⟩ ]

def ex3At (k : Nat) : IState := (ex3Evs.take k).foldl runIG ⟨init 2, none⟩

example : ((ex3At 4).pend, (ex3At 5).pend, (ex3At 6).pend, (ex3At 10).pend, (ex3At 12).pend) =
    (some 1, some 1, none, none, some 2) := by decide

example : (gateDrops (ex3At 4).st (.quotaSet 1 0 false true ex3Max0 RL.empty),
           gateDrops (ex3At 6).st (.quotaSet 1 0 false true ex3Max1 RL.empty),
           gateDrops (ex3At 10).st (.quotaSet 1 0 false true ex3Max0 RL.empty)) = (true, false, false) := by decide

example : ((ex3At 7).st.quotas.map fun g => (g.name, g.max 0, g.max 1, g.used 0, g.used 1)) =
    [(0, none, none, 1, 0), (1, some 4, some 0, 1, 0)] := by decide

example : ((lastDeclI 1 ⟨init 2, none⟩ (ex3Evs.take 7)).map fun x => (x.1 0, x.1 1),
           (lastDeclI 1 ⟨init 2, none⟩ ex3Evs).map fun x => (x.1 0, x.1 1)) =
    (some (some 4, some 0), some (some 4, none)) := by decide

/-- the zero-entry update of step 7 satisfies `FitsUpdate` (no admission is open, the group shows no gpu usage). -/
example : (ex3At 6).pend = none ∧ FitsUpdate false (ex3At 6).st 1 0 false true ex3Max1 RL.empty := by
  refine ⟨by decide, by decide, ?_⟩
  refine ⟨((ex3At 6).st.quotas.find? fun q => q.name == 1).get (by decide),
    by unfold findQ; rw [Option.some_get], by decide, ?_, ?_⟩
  · intro _ d hd m hm
    have : d = 0 ∨ d = 1 := by have : d < 2 := hd; omega
    rcases this with rfl | rfl
    · have : m = 4 := by simpa [ex3Max1] using hm.symm
      subst this; decide
    · have : m = 0 := by simpa [ex3Max1] using hm.symm
      subst this; decide
  · intro _ d _ m hm; simp [RL.empty] at hm

end Examples3

/-! #### deviation on the unchanged tree: a dimension added to max under assigned pods

Outside the closed-loop histories (`FitsUpdate` speaks about the usage the manager SHOWS; the harness generates such
an update only in its wild streams, model correspondence only).  The mask of a pod's request is the key set of its
group's max at the moment of the booking; assigned pods are not re-booked when that key set changes, and a roll-back
subtracts with the NEW mask (clamped at 0). -/

def ex4Max (g : Option Int) : RL := fun d => if d = 0 then some 4 else if d = 1 then g else none
def ex4Req (c g : Int) : RL := fun d => if d = 0 then some c else if d = 1 then some g else none

/-- group 1 declares {cpu: 4}; pod 1 (cpu 1, gpu 2) is admitted and reserved (gpu masked out); the group now declares
    {cpu: 4, gpu: 2}; pod 2 (cpu 1, gpu 2) is admitted and reserved — shown gpu usage 2, held 4; pod 1 is rolled back:
    shown gpu usage 0 with pod 2 (gpu 2) still assigned; pod 3 (cpu 1, gpu 2) is admitted: the group's pods hold gpu 4
    against a declared max of 2, and the shown usage says 2. -/
def ex4Evs : List IEv :=
  [ .ext (.quotaSet 1 0 false true (ex4Max none) RL.empty),
    .ext (.podDef 1 1 false (ex4Req 1 2)), .ext (.podAdd 1), .prefilter 1 ⟨false, false⟩, .reserve,
    .ext (.quotaSet 1 0 false true (ex4Max (some 2)) RL.empty),
    .ext (.podDef 2 1 false (ex4Req 1 2)), .ext (.podAdd 2), .prefilter 2 ⟨false, false⟩, .reserve,
    .ext (.unreserve 1),
    .ext (.podDef 3 1 false (ex4Req 1 2)), .ext (.podAdd 3), .prefilter 3 ⟨false, false⟩, .reserve ]

def ex4At (k : Nat) : IState := (ex4Evs.take k).foldl runIG ⟨init 2, none⟩

theorem mask_shift_counterexample :
    ((ex4At 10).st.quotas.map fun g => (g.name, g.used 0, g.used 1)) = [(0, 2, 2), (1, 2, 2)] ∧
    ((ex4At 11).st.quotas.map fun g => (g.name, g.used 0, g.used 1)) = [(0, 1, 0), (1, 1, 0)] ∧
    ((ex4At 15).st.quotas.map fun g => (g.name, g.max 1, g.used 0, g.used 1)) = [(0, none, 2, 2), (1, some 2, 2, 2)] ∧
    ((ex4At 15).st.pods.map fun p => (p.id, p.assigned, val p.req 1)) = [(1, false, 2), (2, true, 2), (3, true, 2)] := by
  decide

/-! ### §9 the alpha feature gate `ElasticQuotaGuaranteeUsage` (fifth extension round)
The gate reaches the model at one point: `NewQuotaInfoFromQuota` reads every quota object with allow-lent = false
(`declaredLent`, `quotaUpdateGated`; Proofs/C03Ext5: `quotaUpdateGated_on` - a gated history is a history of
`quotaUpdate` with allow-lent = false, so every theorem above covers it).  `PreFilter` does not consult the gate
(Ties: `tie_guarantee_gate`): `attempt` has no gate parameter, and `admit_iff` gives the non-preemptible bound as the
DECLARED min.  What the gate adds inside the manager (Allocated, Guaranteed = max(Allocated, min), their way into the
runtime calculator) only feeds the runtime list, which is an input here. -/

/-- gate on: an object that differs from what the manager holds (allow-lent = false, as every object read under the
    gate leaves it) in nothing but the allow-lent label is DROPPED - no tree reset. -/
theorem gated_lent_flip_dropped (s : State) (q : Quota) (l : Bool)
    (hq : findQ s.quotas q.name = some q) (hl : q.lent = false) :
    quotaUpdateGated true s q.name q.parent q.isParent l q.max q.min = s := by
  simp [quotaUpdateGated, declaredLent, quotaUpdate, hq, isQuotaChange, hl, rlEq_self]

/-- gate off: the same object with the label flipped IS a change (it goes on to `quotaSet` = tree reset). -/
theorem lent_flip_is_change (D : Nat) (q : Quota) :
    isQuotaChange D q q.parent q.isParent (!q.lent) q.max q.min = true := by
  cases h : q.lent <;> simp [isQuotaChange, h]

/-- what the manager shows: used 8 (> min 2), non-preemptible used 2 = min; the second non-preemptible pod is rejected
    under every switch combination (non-preemptible used 2 + 2 > min 2, although used 8 + 2 <= max 12 - and although
    max(used, min) = 8 would leave room: the bound is the declared min, not the "guaranteed" amount); a preemptible
    pod of the same size is admitted. -/
theorem guarantee_usage_scenario :
    (findQ guState.quotas 1).map (fun q => (q.lent, q.used 0, q.npUsed 0, q.min 0, q.max 0)) = some (false, 8, 2, some 2, some 12) ∧
    (∀ rt cp : Bool, (findP guState.pods 5).map (attempt guState ⟨rt, cp⟩) = some .unschedulable) ∧
    (∀ rt cp : Bool, (findP guState.pods 6).map (attempt guState ⟨rt, cp⟩) = some .success) := by
  decide

end KoordVerif.C03
