import KoordVerif.Model.C03
namespace KoordVerif.C03

theorem clamp0_nonneg (x : Int) : 0 ≤ clamp0 x := by
  unfold clamp0; split <;> omega

end KoordVerif.C03
