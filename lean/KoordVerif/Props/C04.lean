import KoordVerif.Model.C04
namespace KoordVerif.C04
end KoordVerif.C04
